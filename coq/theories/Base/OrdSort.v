(** OrdSort.v — insertion sort and "the k smallest" over an arbitrary comparison function that is
    a strict total order on a domain [D] (a generalisation of the [N]-keyed Base/Paging.v, used
    by C10 and C20 where the keys are the structured sort keys of query/sort.rs and the order is
    a strict total order only on the keys built from one sort plan).

    Contents
      - [insert]/[sort]: insertion sort by [cmp]; permutation-invariant on [D] ([sort_perm]);
      - [sorted]/[ssorted]: weakly / strictly increasing; [sort_sorted], [sort_ssorted];
      - [ssorted_ext]: a strictly sorted list is determined by its elements;
      - [topk], [push] (bounded collector) and [topk_concat]: truncating every part of a union
        to its own k smallest keeps the k smallest of the union. *)

From Coq Require Import List Lia Bool Permutation Arith.
Import ListNotations.

Section OrdSort.
  Variable A : Type.
  Variable cmp : A -> A -> comparison.
  Variable D : A -> Prop.

  Hypothesis cmp_eq : forall a b, D a -> D b -> cmp a b = Eq -> a = b.
  Hypothesis cmp_refl : forall a, D a -> cmp a a = Eq.
  Hypothesis cmp_anti : forall a b, D a -> D b -> cmp b a = CompOpp (cmp a b).
  Hypothesis cmp_trans : forall a b c, D a -> D b -> D c ->
    cmp a b = Lt -> cmp b c = Lt -> cmp a c = Lt.

  Definition leb (a b : A) : bool := match cmp a b with Gt => false | _ => true end.
  Definition le (a b : A) : Prop := leb a b = true.
  Definition lt (a b : A) : Prop := cmp a b = Lt.

  Fixpoint insert (x : A) (s : list A) : list A :=
    match s with
    | [] => [x]
    | y :: s' => if leb x y then x :: s else y :: insert x s'
    end.

  Definition sort (l : list A) : list A := fold_right insert [] l.

  Fixpoint sorted (l : list A) : Prop :=
    match l with
    | [] => True
    | x :: t => Forall (le x) t /\ sorted t
    end.

  Fixpoint ssorted (l : list A) : Prop :=
    match l with
    | [] => True
    | x :: t => Forall (lt x) t /\ ssorted t
    end.

  (* ---------------------------------------------------------------- order facts on D *)

  Lemma leb_total : forall a b, D a -> D b -> leb a b = false -> leb b a = true.
  Proof.
    unfold leb. intros a b Ha Hb H. rewrite (cmp_anti a b Ha Hb).
    destruct (cmp a b); cbn in *; congruence.
  Qed.

  Lemma leb_antisym : forall a b, D a -> D b -> leb a b = true -> leb b a = true -> a = b.
  Proof.
    unfold leb. intros a b Ha Hb H1 H2. rewrite (cmp_anti a b Ha Hb) in H2.
    destruct (cmp a b) eqn:E; cbn in *; try congruence. now apply cmp_eq.
  Qed.

  Lemma leb_refl : forall a, D a -> leb a a = true.
  Proof. unfold leb. intros a Ha. now rewrite cmp_refl. Qed.

  Lemma leb_trans : forall a b c, D a -> D b -> D c ->
    leb a b = true -> leb b c = true -> leb a c = true.
  Proof.
    unfold leb. intros a b c Ha Hb Hc H1 H2.
    destruct (cmp a b) eqn:E1; try congruence.
    - apply cmp_eq in E1; try assumption. subst b. exact H2.
    - destruct (cmp b c) eqn:E2; try congruence.
      + apply cmp_eq in E2; try assumption. subst c. now rewrite E1.
      + now rewrite (cmp_trans a b c Ha Hb Hc E1 E2).
  Qed.

  Lemma lt_le : forall a b, lt a b -> le a b.
  Proof. unfold lt, le, leb. intros a b H. now rewrite H. Qed.

  Lemma le_neq_lt : forall a b, D a -> D b -> le a b -> a <> b -> lt a b.
  Proof.
    unfold lt, le, leb. intros a b Ha Hb H N. destruct (cmp a b) eqn:E; try congruence.
    exfalso. apply N. now apply cmp_eq.
  Qed.

  Lemma lt_irrefl : forall a, D a -> ~ lt a a.
  Proof. unfold lt. intros a Ha H. rewrite cmp_refl in H by assumption. discriminate. Qed.

  Lemma lt_asym : forall a b, D a -> D b -> lt a b -> ~ lt b a.
  Proof.
    unfold lt. intros a b Ha Hb H1 H2. rewrite (cmp_anti a b Ha Hb), H1 in H2. discriminate.
  Qed.

  (* ---------------------------------------------------------------- sorting *)

  Lemma insert_comm : forall x y s, D x -> D y -> Forall D s ->
    insert x (insert y s) = insert y (insert x s).
  Proof.
    intros x y s Hx Hy Hs. induction s as [|a s IH].
    - cbn. destruct (leb x y) eqn:Exy, (leb y x) eqn:Eyx; try reflexivity.
      + assert (x = y) by now apply leb_antisym. subst. reflexivity.
      + apply leb_total in Exy; try assumption. congruence.
    - inversion Hs as [|a' s' Da Ds]; subst. specialize (IH Ds). cbn [insert].
      destruct (leb y a) eqn:Eya, (leb x a) eqn:Exa; cbn [insert].
      + destruct (leb x y) eqn:Exy, (leb y x) eqn:Eyx.
        * assert (x = y) by now apply leb_antisym. subst. reflexivity.
        * rewrite Eya. reflexivity.
        * rewrite Exa. reflexivity.
        * apply leb_total in Exy; try assumption. congruence.
      + assert (Exy : leb x y = false).
        { destruct (leb x y) eqn:E; [|reflexivity].
          rewrite (leb_trans x y a Hx Hy Da E Eya) in Exa. discriminate. }
        rewrite Exy, Exa, Eya. reflexivity.
      + assert (Eyx : leb y x = false).
        { destruct (leb y x) eqn:E; [|reflexivity].
          rewrite (leb_trans y x a Hy Hx Da E Exa) in Eya. discriminate. }
        rewrite Eyx, Exa, Eya. reflexivity.
      + rewrite Exa, Eya, IH. reflexivity.
  Qed.

  Lemma insert_perm : forall x s, Permutation (x :: s) (insert x s).
  Proof.
    intros x s. induction s as [|a s IH]; cbn [insert].
    - apply Permutation_refl.
    - destruct (leb x a).
      + apply Permutation_refl.
      + eapply perm_trans. apply perm_swap. apply perm_skip. exact IH.
  Qed.

  Lemma sort_permutation : forall l, Permutation l (sort l).
  Proof.
    induction l as [|a l IH]; cbn.
    - constructor.
    - eapply perm_trans. 2: apply insert_perm. now apply perm_skip.
  Qed.

  Lemma sort_D : forall l, Forall D l -> Forall D (sort l).
  Proof. intros l H. eapply Permutation_Forall; [apply sort_permutation|exact H]. Qed.

  Lemma sort_perm : forall l l', Forall D l -> Permutation l l' -> sort l = sort l'.
  Proof.
    intros l l' HD HP. revert HD. unfold sort. induction HP; intros HD; cbn [fold_right].
    - reflexivity.
    - inversion HD; subst. now rewrite IHHP.
    - inversion HD as [|? ? Dy HD']; subst. inversion HD' as [|? ? Dx HD'']; subst.
      apply insert_comm; try assumption. apply sort_D. exact HD''.
    - rewrite IHHP1 by assumption. apply IHHP2.
      eapply Permutation_Forall; [exact HP1|exact HD].
  Qed.

  Lemma insert_sorted : forall x s, D x -> Forall D s -> sorted s -> sorted (insert x s).
  Proof.
    intros x s Hx. induction s as [|a s IH]; cbn [insert sorted]; intros HD H.
    - split; [constructor|exact I].
    - destruct H as [Ha Hs]. inversion HD as [|? ? Da Ds]; subst.
      destruct (leb x a) eqn:Exa; cbn [sorted].
      + split; [|split; assumption]. constructor; [exact Exa|].
        rewrite Forall_forall in *. intros z Hz. unfold le.
        apply (leb_trans x a z); try assumption. now apply Ds. now apply Ha.
      + split; [|apply IH; assumption].
        eapply Permutation_Forall. apply insert_perm. constructor; [|exact Ha].
        now apply leb_total.
  Qed.

  Lemma sort_sorted : forall l, Forall D l -> sorted (sort l).
  Proof.
    induction l as [|a l IH]; cbn; [intros; exact I|]. intros HD. inversion HD; subst.
    apply insert_sorted; try assumption. now apply sort_D. now apply IH.
  Qed.

  Lemma insert_le_head : forall x s, Forall (le x) s -> insert x s = x :: s.
  Proof.
    intros x [|a s] H; cbn [insert]; [reflexivity|].
    inversion H as [|? ? Hxa ?]; subst. unfold le in Hxa. now rewrite Hxa.
  Qed.

  Lemma sort_id : forall s, sorted s -> sort s = s.
  Proof.
    induction s as [|a s IH]; cbn; [reflexivity|]. intros [Ha Hs].
    fold (sort s). rewrite IH by exact Hs. now apply insert_le_head.
  Qed.

  Lemma in_firstn : forall k (s : list A) x, In x (firstn k s) -> In x s.
  Proof.
    intros k s x H. rewrite <- (firstn_skipn k s). apply in_or_app. now left.
  Qed.

  Lemma Forall_firstn : forall (P : A -> Prop) k s, Forall P s -> Forall P (firstn k s).
  Proof.
    intros P k s H. rewrite Forall_forall in *. intros x Hx. apply H. eapply in_firstn; eauto.
  Qed.

  Lemma sorted_firstn : forall k s, sorted s -> sorted (firstn k s).
  Proof.
    induction k as [|k IH]; intros [|a s]; cbn [firstn sorted]; try tauto.
    intros [Ha Hs]. split; [|now apply IH]. now apply Forall_firstn.
  Qed.

  Lemma ssorted_sorted : forall s, ssorted s -> sorted s.
  Proof.
    induction s as [|a s IH]; cbn; [tauto|]. intros [Ha Hs]. split; [|tauto].
    eapply Forall_impl; [|exact Ha]. apply lt_le.
  Qed.

  Lemma NoDup_sorted_ssorted : forall s, Forall D s -> NoDup s -> sorted s -> ssorted s.
  Proof.
    induction s as [|a s IH]; cbn; [tauto|]. intros HD Hnd [Ha Hs].
    inversion Hnd; subst. inversion HD as [|? ? Da Ds]; subst. split; [|tauto].
    rewrite Forall_forall in *. intros y Hy. apply le_neq_lt; auto.
    intro; subst; contradiction.
  Qed.

  Lemma sort_ssorted : forall l, Forall D l -> NoDup l -> ssorted (sort l).
  Proof.
    intros l HD H. apply NoDup_sorted_ssorted.
    - now apply sort_D.
    - eapply Permutation_NoDup; [apply sort_permutation|exact H].
    - now apply sort_sorted.
  Qed.

  Lemma ssorted_firstn : forall k s, ssorted s -> ssorted (firstn k s).
  Proof.
    induction k as [|k IH]; intros [|a s]; cbn [firstn ssorted]; try tauto.
    intros [Ha Hs]. split; [|now apply IH]. now apply Forall_firstn.
  Qed.

  (** two strictly sorted lists over [D] with the same elements are equal *)
  Lemma ssorted_ext : forall s t, Forall D s -> Forall D t -> ssorted s -> ssorted t ->
    (forall x, In x s <-> In x t) -> s = t.
  Proof.
    induction s as [|a s IH]; intros [|b t] Ds Dt Hs Ht Hin.
    - reflexivity.
    - exfalso. apply (proj2 (Hin b)). now left.
    - exfalso. apply (proj1 (Hin a)). now left.
    - cbn in Hs, Ht. destruct Hs as [Ha Hs], Ht as [Hb Ht].
      inversion Ds as [|? ? Da Ds']; subst. inversion Dt as [|? ? Db Dt']; subst.
      rewrite Forall_forall in Ha, Hb, Ds', Dt'.
      assert (a = b).
      { destruct (proj1 (Hin a) (or_introl eq_refl)) as [E|E]; [now symmetry|].
        destruct (proj2 (Hin b) (or_introl eq_refl)) as [E'|E']; [assumption|].
        specialize (Ha _ E'). specialize (Hb _ E). exfalso. exact (lt_asym a b Da Db Ha Hb). }
      subst b. f_equal. apply IH; try assumption; try (now apply Forall_forall).
      intros x; split; intros Hx.
      + destruct (proj1 (Hin x) (or_intror Hx)) as [E|E]; [|exact E].
        subst x. specialize (Ha _ Hx). exfalso. exact (lt_irrefl a Da Ha).
      + destruct (proj2 (Hin x) (or_intror Hx)) as [E|E]; [|exact E].
        subst x. specialize (Hb _ Hx). exfalso. exact (lt_irrefl a Da Hb).
  Qed.

  (** a strictly sorted permutation of [l] is [sort l] *)
  Lemma ssorted_perm_sort : forall l s, Forall D l -> Permutation l s -> ssorted s -> s = sort l.
  Proof.
    intros l s HD HP Hs. rewrite (sort_perm l s HD HP). symmetry. apply sort_id.
    now apply ssorted_sorted.
  Qed.

  (* ---------------------------------------------------------------- the k smallest *)

  Definition topk (k : nat) (l : list A) : list A := firstn k (sort l).

  (** the bounded collector: insert, then drop the worst when over capacity *)
  Definition push (k : nat) (s : list A) (x : A) : list A := firstn k (insert x s).

  Lemma firstn_cons_trunc : forall k (y : A) s, firstn k (y :: s) = firstn k (y :: firstn k s).
  Proof.
    intros [|k] y s; [reflexivity|].
    change (firstn (S k) (y :: s)) with (y :: firstn k s).
    change (firstn (S k) (y :: firstn (S k) s)) with (y :: firstn k (firstn (S k) s)).
    rewrite firstn_firstn. replace (Init.Nat.min k (S k)) with k by lia. reflexivity.
  Qed.

  Lemma firstn_insert_trunc : forall k x s,
    firstn k (insert x s) = firstn k (insert x (firstn k s)).
  Proof.
    induction k as [|k IH]; intros x s; [reflexivity|].
    destruct s as [|y s]; [reflexivity|]. cbn [firstn insert].
    destruct (leb x y); cbn [firstn].
    - f_equal. apply firstn_cons_trunc.
    - f_equal. apply IH.
  Qed.

  Lemma topk_fold : forall k l s,
    firstn k (fold_right insert s l) = firstn k (fold_right insert (firstn k s) l).
  Proof.
    induction l as [|a l IH]; intros s; cbn [fold_right].
    - now rewrite firstn_firstn, Nat.min_id.
    - rewrite firstn_insert_trunc, IH, <- firstn_insert_trunc. reflexivity.
  Qed.

  Lemma sort_app : forall l1 l2, sort (l1 ++ l2) = fold_right insert (sort l2) l1.
  Proof. intros. unfold sort. now rewrite fold_right_app. Qed.

  Lemma topk_D : forall k l, Forall D l -> Forall D (topk k l).
  Proof. intros. unfold topk. apply Forall_firstn. now apply sort_D. Qed.

  Lemma topk_app_r : forall k l1 l2, Forall D l2 ->
    topk k (l1 ++ l2) = topk k (l1 ++ topk k l2).
  Proof.
    intros k l1 l2 H2. unfold topk. rewrite !sort_app, topk_fold. f_equal. f_equal.
    symmetry. apply sort_id. apply sorted_firstn, sort_sorted. exact H2.
  Qed.

  Lemma topk_app_l : forall k l1 l2, Forall D l1 -> Forall D l2 ->
    topk k (l1 ++ l2) = topk k (topk k l1 ++ l2).
  Proof.
    intros k l1 l2 H1 H2. unfold topk at 1 2.
    rewrite (sort_perm (l1 ++ l2) (l2 ++ l1)).
    2: apply Forall_app; now split. 2: apply Permutation_app_comm.
    rewrite (sort_perm (topk k l1 ++ l2) (l2 ++ topk k l1)).
    2: apply Forall_app; split; [now apply topk_D|assumption]. 2: apply Permutation_app_comm.
    now apply topk_app_r.
  Qed.

  Lemma Forall_concat : forall (P : A -> Prop) ls, Forall (Forall P) ls -> Forall P (concat ls).
  Proof.
    induction ls as [|l ls IH]; cbn; intros H; [constructor|].
    inversion H; subst. apply Forall_app. split; [assumption|now apply IH].
  Qed.

  (** truncating every part to its own k smallest keeps the k smallest of the union *)
  Lemma topk_concat : forall k ls, Forall (Forall D) ls ->
    topk k (concat (map (topk k) ls)) = topk k (concat ls).
  Proof.
    induction ls as [|l ls IH]; cbn [map concat]; intros H; [reflexivity|].
    inversion H as [|? ? Hl Hls]; subst.
    rewrite <- topk_app_l.
    2: exact Hl.
    2: { apply Forall_concat. rewrite Forall_forall in *. intros x Hx.
         apply in_map_iff in Hx. destruct Hx as [y [<- Hy]]. apply topk_D. now apply Hls. }
    rewrite topk_app_r, IH, <- topk_app_r; try assumption.
    - reflexivity.
    - now apply Forall_concat.
    - apply Forall_concat. rewrite Forall_forall in *. intros x Hx.
      apply in_map_iff in Hx. destruct Hx as [y [<- Hy]]. apply topk_D. now apply Hls.
  Qed.

  Lemma push_fold : forall k l, fold_left (push k) l [] = topk k (rev l).
  Proof.
    intros k l. rewrite <- fold_left_rev_right. unfold topk, sort.
    induction (rev l) as [|a r IH]; cbn [fold_right]; [now destruct k|].
    unfold push at 1. rewrite IH. symmetry. apply firstn_insert_trunc.
  Qed.

  Lemma push_fold_topk : forall k l, Forall D l -> fold_left (push k) l [] = topk k l.
  Proof.
    intros k l HD. rewrite push_fold. unfold topk. f_equal. apply sort_perm.
    - eapply Permutation_Forall; [apply Permutation_rev|exact HD].
    - apply Permutation_sym, Permutation_rev.
  Qed.

  Lemma topk_topk : forall k m l, Forall D l -> (k <= m)%nat -> topk k (topk m l) = topk k l.
  Proof.
    intros k m l HD H. unfold topk.
    rewrite (sort_id (firstn m (sort l))).
    - rewrite firstn_firstn. now rewrite Nat.min_l.
    - apply sorted_firstn. now apply sort_sorted.
  Qed.

End OrdSort.

Arguments insert {A}.
Arguments sort {A}.
Arguments topk {A}.
Arguments push {A}.
Arguments sorted {A}.
Arguments ssorted {A}.
Arguments leb {A}.
