(** Bytes.v — bytes as [N] below 256, little-endian fixed-width integers.

    Shared by the byte-exact models (WAL records, terms file, fast fields, docstore).
    [le_bytes k v] is Rust's [v.to_le_bytes()] for a k-byte unsigned integer,
    [le_val l] is [uN::from_le_bytes(l)]. *)

From Coq Require Import List NArith Arith PeanoNat Lia Bool.
Import ListNotations.
Open Scope N_scope.

Definition byte_ok (b : N) : Prop := b < 256.
Definition bytes_ok (l : list N) : Prop := Forall byte_ok l.

Definition byte_okb (b : N) : bool := b <? 256.
Definition bytes_okb (l : list N) : bool := forallb byte_okb l.

Lemma byte_okb_spec b : byte_okb b = true <-> byte_ok b.
Proof. unfold byte_okb, byte_ok. apply N.ltb_lt. Qed.

Lemma bytes_okb_spec l : bytes_okb l = true <-> bytes_ok l.
Proof.
  unfold bytes_okb, bytes_ok. rewrite forallb_forall, Forall_forall.
  split; intros H x Hx; apply byte_okb_spec; auto.
Qed.

Lemma bytes_ok_app a b : bytes_ok (a ++ b) <-> bytes_ok a /\ bytes_ok b.
Proof. unfold bytes_ok. apply Forall_app. Qed.

Lemma bytes_ok_cons x l : bytes_ok (x :: l) <-> byte_ok x /\ bytes_ok l.
Proof. unfold bytes_ok. split; intro H. - inversion H; auto. - constructor; tauto. Qed.

Lemma bytes_ok_nil : bytes_ok []. Proof. constructor. Qed.

(** length as an [N] *)
Definition nlen {A} (l : list A) : N := N.of_nat (length l).

Lemma nlen_app {A} (a b : list A) : nlen (a ++ b) = nlen a + nlen b.
Proof. unfold nlen. rewrite app_length. lia. Qed.

Lemma nlen_cons {A} (x : A) l : nlen (x :: l) = 1 + nlen l.
Proof. unfold nlen. cbn [length]. lia. Qed.

(** boolean equality of byte lists *)
Fixpoint list_eqb (a b : list N) : bool :=
  match a, b with
  | [], [] => true
  | x :: a', y :: b' => (x =? y) && list_eqb a' b'
  | _, _ => false
  end.

Lemma list_eqb_spec a b : list_eqb a b = true <-> a = b.
Proof.
  revert b. induction a as [|x a IH]; intros [|y b]; cbn [list_eqb]; try (split; congruence).
  rewrite andb_true_iff, N.eqb_eq, IH. split.
  - intros [-> ->]; reflexivity.
  - intros H; inversion H; auto.
Qed.

Lemma list_eqb_refl a : list_eqb a a = true.
Proof. apply list_eqb_spec. reflexivity. Qed.

Lemma list_eqb_neq a b : a <> b -> list_eqb a b = false.
Proof.
  intros H. destruct (list_eqb a b) eqn:E; auto. apply list_eqb_spec in E. contradiction.
Qed.

(** ** little-endian *)
Fixpoint le_bytes (k : nat) (v : N) : list N :=
  match k with
  | O => []
  | S k' => v mod 256 :: le_bytes k' (v / 256)
  end.

Fixpoint le_val (l : list N) : N :=
  match l with
  | [] => 0
  | b :: l' => b + 256 * le_val l'
  end.

Definition le32 (v : N) : list N := le_bytes 4 v.
Definition le64 (v : N) : list N := le_bytes 8 v.

Lemma le_bytes_length k v : length (le_bytes k v) = k.
Proof. revert v. induction k; intros; cbn [le_bytes length]; auto. Qed.

Lemma le_bytes_ok k v : bytes_ok (le_bytes k v).
Proof.
  revert v. induction k; intros; cbn [le_bytes].
  - constructor.
  - constructor; [|apply IHk]. unfold byte_ok. apply N.mod_lt. lia.
Qed.

Lemma le_val_bytes k v : v < 256 ^ N.of_nat k -> le_val (le_bytes k v) = v.
Proof.
  revert v. induction k as [|k IH]; intros v Hv.
  - cbn in *. lia.
  - cbn [le_bytes le_val]. rewrite IH.
    + pose proof (N.div_mod v 256). lia.
    + replace (N.of_nat (S k)) with (N.succ (N.of_nat k)) in Hv by lia.
      rewrite N.pow_succ_r' in Hv. apply N.div_lt_upper_bound; lia.
Qed.

Lemma le_val_bound l : bytes_ok l -> le_val l < 256 ^ nlen l.
Proof.
  induction l as [|b l IH]; intros H.
  - cbn. lia.
  - apply bytes_ok_cons in H. destruct H as [Hb Hl]. specialize (IH Hl).
    rewrite nlen_cons. cbn [le_val]. unfold byte_ok in Hb.
    replace (1 + nlen l) with (N.succ (nlen l)) by lia. rewrite N.pow_succ_r'. nia.
Qed.

Lemma le_bytes_val l : bytes_ok l -> le_bytes (length l) (le_val l) = l.
Proof.
  induction l as [|b l IH]; intros H; cbn [length le_bytes le_val]; auto.
  apply bytes_ok_cons in H. destruct H as [Hb Hl]. unfold byte_ok in Hb.
  f_equal.
  - replace (b + 256 * le_val l) with (b + le_val l * 256) by lia.
    rewrite N.mod_add by lia. apply N.mod_small; auto.
  - replace (b + 256 * le_val l) with (le_val l * 256 + b) by lia.
    rewrite N.div_add_l by lia.
    rewrite (N.div_small b 256) by auto. rewrite N.add_0_r. auto.
Qed.

Lemma le_bytes_inj k v w :
  v < 256 ^ N.of_nat k -> w < 256 ^ N.of_nat k -> le_bytes k v = le_bytes k w -> v = w.
Proof.
  intros Hv Hw E. rewrite <- (le_val_bytes k v Hv), <- (le_val_bytes k w Hw), E. reflexivity.
Qed.

Lemma le32_length v : length (le32 v) = 4%nat.  Proof. apply le_bytes_length. Qed.
Lemma le64_length v : length (le64 v) = 8%nat.  Proof. apply le_bytes_length. Qed.
Lemma le32_ok v : bytes_ok (le32 v).  Proof. apply le_bytes_ok. Qed.
Lemma le64_ok v : bytes_ok (le64 v).  Proof. apply le_bytes_ok. Qed.

Lemma le32_roundtrip v : v < 2 ^ 32 -> le_val (le32 v) = v.
Proof. intros H. apply le_val_bytes. exact H. Qed.

Lemma le64_roundtrip v : v < 2 ^ 64 -> le_val (le64 v) = v.
Proof. intros H. apply le_val_bytes. exact H. Qed.

Lemma le32_inj v w : v < 2 ^ 32 -> w < 2 ^ 32 -> le32 v = le32 w -> v = w.
Proof. intros; eapply (le_bytes_inj 4); eauto. Qed.

Lemma le64_inj v w : v < 2 ^ 64 -> w < 2 ^ 64 -> le64 v = le64 w -> v = w.
Proof. intros; eapply (le_bytes_inj 8); eauto. Qed.

(** decoding a fixed-width integer from the front of a buffer, as
    [uN::from_le_bytes(buf[..k])] behind a length check *)
Definition take_le (k : nat) (buf : list N) : option (N * list N) :=
  if Nat.ltb (length buf) k then None else Some (le_val (firstn k buf), skipn k buf).

Lemma take_le_app k v rest :
  v < 256 ^ N.of_nat k -> take_le k (le_bytes k v ++ rest) = Some (v, rest).
Proof.
  intros Hv. unfold take_le. rewrite app_length, le_bytes_length.
  destruct (Nat.ltb_spec (k + length rest) k); [lia|].
  rewrite firstn_app, skipn_app, le_bytes_length, Nat.sub_diag.
  rewrite firstn_all2 by (rewrite le_bytes_length; lia).
  rewrite skipn_all2 by (rewrite le_bytes_length; lia).
  cbn [firstn skipn app]. rewrite app_nil_r, le_val_bytes by auto. reflexivity.
Qed.

(** replace the byte at index [i] *)
Fixpoint set_nth (l : list N) (i : nat) (b : N) : list N :=
  match l, i with
  | [], _ => []
  | _ :: l', O => b :: l'
  | x :: l', S i' => x :: set_nth l' i' b
  end.

Lemma set_nth_length l i b : length (set_nth l i b) = length l.
Proof. revert i. induction l; intros [|i]; cbn [set_nth length]; auto. Qed.

Lemma set_nth_split l i b :
  (i < length l)%nat -> set_nth l i b = firstn i l ++ b :: skipn (S i) l.
Proof.
  revert i. induction l as [|x l IH]; intros [|i] H; cbn [length] in H; try lia.
  - reflexivity.
  - cbn [set_nth firstn skipn app]. f_equal. apply IH. lia.
Qed.

Lemma set_nth_app_l a c i b :
  (i < length a)%nat -> set_nth (a ++ c) i b = set_nth a i b ++ c.
Proof.
  revert i. induction a as [|x a IH]; intros [|i] H; cbn [length] in H; try lia.
  - reflexivity.
  - cbn [app set_nth]. f_equal. apply IH. lia.
Qed.

Lemma set_nth_app_r a c i b :
  (length a <= i)%nat -> set_nth (a ++ c) i b = a ++ set_nth c (i - length a) b.
Proof.
  revert i. induction a as [|x a IH]; intros i H; cbn [length app] in *.
  - rewrite Nat.sub_0_r. reflexivity.
  - destruct i as [|i]; [lia|]. cbn [set_nth]. f_equal. apply IH. lia.
Qed.

Lemma set_nth_neq l i b : (i < length l)%nat -> b <> nth i l 0 -> set_nth l i b <> l.
Proof.
  revert i. induction l as [|x l IH]; intros [|i] H Hb; cbn [length] in H; try lia.
  - cbn in *. congruence.
  - cbn [set_nth nth] in *. intros E. inversion E. eapply IH; eauto. lia.
Qed.

(** ** prefixes *)
Definition strict_prefix {A} (t l : list A) : Prop := exists u, u <> [] /\ l = t ++ u.
Definition is_prefix {A} (t l : list A) : Prop := exists u, l = t ++ u.

Lemma strict_prefix_length {A} (t l : list A) : strict_prefix t l -> (length t < length l)%nat.
Proof.
  intros [u [Hu ->]]. rewrite app_length. destruct u; [congruence|]. cbn [length]. lia.
Qed.

Lemma strict_prefix_firstn {A} (t l : list A) :
  strict_prefix t l -> t = firstn (length t) l.
Proof.
  intros [u [_ ->]]. rewrite firstn_app, Nat.sub_diag, firstn_all. cbn [firstn].
  rewrite app_nil_r. reflexivity.
Qed.

Lemma firstn_strict_prefix {A} (l : list A) n : (n < length l)%nat -> strict_prefix (firstn n l) l.
Proof.
  intros H. exists (skipn n l). split.
  - intros E. apply (f_equal (@length A)) in E. rewrite skipn_length in E. cbn in E. lia.
  - symmetry. apply firstn_skipn.
Qed.

(** a strict prefix of [a ++ b] is a strict prefix of [a], or [a] followed by a strict prefix of [b] *)
Lemma strict_prefix_app_inv {A} (t a b : list A) :
  strict_prefix t (a ++ b) ->
  strict_prefix t a \/ exists t', t = a ++ t' /\ strict_prefix t' b.
Proof.
  revert t. induction a as [|x a IH]; intros t H.
  - right. exists t. split; auto.
  - destruct t as [|y t].
    + left. exists (x :: a). split; [congruence|reflexivity].
    + destruct H as [u [Hu E]]. cbn [app] in E. inversion E; subst y.
      destruct (IH t) as [[u' [Hu' E']]|[t' [E' Ht']]].
      * exists u. split; auto.
      * left. exists u'. split; auto. cbn [app]. rewrite E'. reflexivity.
      * right. exists t'. split; auto. cbn [app]. rewrite E'. reflexivity.
Qed.
