(** Varint.v — LEB128 as written by searchlite-core/src/util/varint.rs.

      pub fn write_u64(mut v: u64, out: &mut Vec<u8>) {
        while v >= 0x80 { out.push(((v as u8) & 0x7F) | 0x80); v >>= 7; }
        out.push(v as u8);
      }
      pub fn read_u64(buf: &[u8]) -> Result<(u64, usize)> {
        let mut shift = 0u32; let mut value = 0u64;
        for (i, b) in buf.iter().enumerate() {
          let part = (b & 0x7F) as u64;
          value |= part << shift;          // shift >= 64: panic (debug) / masked shift (release)
          if b & 0x80 == 0 { return Ok((value, i + 1)); }
          shift += 7;
        }
        Err(anyhow!("unterminated varint"))
      }

    [v & 0x7F] is [v mod 128], [v >>= 7] is [v / 128], [part << shift] on a u64 is
    [(part * 2^shift) mod 2^64].  The shift overflow is an explicit outcome: in a build with
    overflow checks [part << shift] panics as soon as [shift >= 64], i.e. at the 11th byte of a
    run of continuation bytes ([ShDebug]); in a release build the shift amount is masked
    ([ShRelease]); [ShChecked] is the repaired function that returns an error instead
    (fix: commit in /repo, see notes/C17.md). *)

From Coq Require Import List NArith ZArith Arith PeanoNat Lia Zify Bool.
From SL Require Import Base.Bytes.
Import ListNotations.
Open Scope N_scope.
(* let lia see through [/] and [mod] by constants (local to this file) *)
Local Ltac Zify.zify_post_hook ::= Z.to_euclidean_division_equations.

Inductive res (A : Type) : Type :=
| Ok (a : A)
| Err
| Panic.
Arguments Ok {A} a.
Arguments Err {A}.
Arguments Panic {A}.

Inductive shmode := ShDebug | ShRelease | ShChecked.

(** ** write_u64 *)
Fixpoint write_var (fuel : nat) (v : N) : list N :=
  match fuel with
  | O => [v]
  | S f => if v <? 128 then [v] else (v mod 128 + 128) :: write_var f (v / 128)
  end.

(** a u64 needs at most 9 continuation bytes: 2^64 = 2 * 128^9 *)
Definition write_u64 (v : N) : list N := write_var 9 v.

(** ** read_u64 *)
Definition two64 : N := 2 ^ 64.

Fixpoint read_loop (m : shmode) (buf : list N) (shift value : N) (i : nat) : res (N * nat) :=
  match buf with
  | [] => Err                                    (* "unterminated varint" *)
  | b :: rest =>
      let part := b mod 128 in
      let go (sh : N) :=
        let value' := N.lor value ((part * 2 ^ sh) mod two64) in
        if b <? 128 then Ok (value', S i)
        else read_loop m rest (shift + 7) value' (S i) in
      if 64 <=? shift then
        match m with
        | ShDebug => Panic                       (* attempt to shift left with overflow *)
        | ShChecked => Err                       (* repaired: "varint too long" *)
        | ShRelease => go (shift mod 64)         (* wrapping_shl *)
        end
      else go shift
  end.

Definition read_u64 (m : shmode) (buf : list N) : res (N * nat) := read_loop m buf 0 0 0%nat.

(** ** read_u32_var (reader-based; used by the postings decoder)

      loop { read one byte (EOF => Err);
             value |= ((b & 0x7F) as u32) << shift;
             if b & 0x80 == 0 { return Ok(value) }
             shift += 7; if shift > 28 { return Err("varint too long") } }

    The guard keeps [shift <= 28 < 32], so the shift never overflows; the high bits of the
    fifth byte are silently dropped ([mod 2^32]).  Returns the value and the bytes consumed. *)
Fixpoint read_u32_loop (buf : list N) (shift value : N) (i : nat) : res (N * nat) :=
  match buf with
  | [] => Err
  | b :: rest =>
      let value' := N.lor value (((b mod 128) * 2 ^ shift) mod 2 ^ 32) in
      if b <? 128 then Ok (value', S i)
      else if 28 <? shift + 7 then Err
      else read_u32_loop rest (shift + 7) value' (S i)
  end.

Definition read_u32_var (buf : list N) : res (N * nat) := read_u32_loop buf 0 0 0%nat.

(** ** lemmas *)

Lemma lor_disjoint a p s : a < 2 ^ s -> N.lor a (p * 2 ^ s) = a + p * 2 ^ s.
Proof.
  intros Ha.
  assert (L : N.land a (p * 2 ^ s) = 0).
  { apply N.bits_inj. intros n. rewrite N.land_spec, N.bits_0.
    destruct (N.lt_ge_cases n s) as [Hn|Hn].
    - rewrite N.mul_pow2_bits_low by auto. apply andb_false_r.
    - destruct (N.eq_dec a 0) as [->|Hz]; [rewrite N.bits_0; reflexivity|].
      rewrite (N.bits_above_log2 a n); [reflexivity|].
      apply N.log2_lt_pow2; [lia|].
      eapply N.lt_le_trans; [exact Ha|]. apply N.pow_le_mono_r; lia. }
  rewrite N.add_nocarry_lxor by exact L. symmetry. apply N.lxor_lor. exact L.
Qed.

Lemma write_var_ok f v : v < 128 ^ N.of_nat (S f) -> bytes_ok (write_var f v).
Proof.
  revert v. induction f as [|f IH]; intros v Hv.
  - cbn [write_var]. change (128 ^ N.of_nat 1) with 128 in Hv.
    repeat constructor. unfold byte_ok. lia.
  - cbn [write_var]. destruct (N.ltb_spec v 128).
    + repeat constructor. unfold byte_ok. lia.
    + constructor.
      * unfold byte_ok. pose proof (N.mod_lt v 128). lia.
      * apply IH. replace (N.of_nat (S (S f))) with (N.succ (N.of_nat (S f))) in Hv by lia.
        rewrite N.pow_succ_r' in Hv. apply N.div_lt_upper_bound; lia.
Qed.

Lemma write_var_length f v : (1 <= length (write_var f v) <= S f)%nat.
Proof.
  revert v. induction f as [|f IH]; intros v; cbn [write_var].
  - cbn. lia.
  - destruct (v <? 128); cbn [length]; [lia|]. specialize (IH (v / 128)). lia.
Qed.

(** shape: continuation bytes (>= 128) followed by one final byte (< 128) *)
Lemma write_var_shape f v :
  v < 128 ^ N.of_nat (S f) ->
  exists c last, write_var f v = c ++ [last] /\ Forall (fun b => 128 <= b) c /\ last < 128.
Proof.
  revert v. induction f as [|f IH]; intros v Hv.
  - exists [], v. change (128 ^ N.of_nat 1) with 128 in Hv. repeat split; auto.
  - cbn [write_var]. destruct (N.ltb_spec v 128).
    + exists [], v. repeat split; auto.
    + destruct (IH (v / 128)) as [c [l [E [Hc Hl]]]].
      { replace (N.of_nat (S (S f))) with (N.succ (N.of_nat (S f))) in Hv by lia.
        rewrite N.pow_succ_r' in Hv. apply N.div_lt_upper_bound; lia. }
      exists ((v mod 128 + 128) :: c), l. rewrite E. split; [reflexivity|]. split; [|exact Hl].
      constructor; [|exact Hc]. apply N.le_add_l.
Qed.

Lemma pow128_10 : 2 ^ 64 < 128 ^ N.of_nat 10.
Proof. vm_compute. reflexivity. Qed.

Lemma write_u64_ok v : v < 2 ^ 64 -> bytes_ok (write_u64 v).
Proof. intros H. apply write_var_ok. pose proof pow128_10. lia. Qed.

Lemma write_u64_length v : (1 <= length (write_u64 v) <= 10)%nat.
Proof. apply write_var_length. Qed.

Lemma write_u64_shape v :
  v < 2 ^ 64 ->
  exists c last, write_u64 v = c ++ [last] /\ Forall (fun b => 128 <= b) c /\ last < 128.
Proof. intros H. apply write_var_shape. pose proof pow128_10. lia. Qed.

(** the round trip, generalised over the loop state *)
Lemma read_write_var m f v rest s acc i :
  v < 128 ^ N.of_nat (S f) -> s < 64 -> v * 2 ^ s < two64 -> acc < 2 ^ s ->
  read_loop m (write_var f v ++ rest) s acc i
  = Ok (acc + v * 2 ^ s, (i + length (write_var f v))%nat).
Proof.
  revert v s acc i. induction f as [|f IH]; intros v s acc i Hv Hs Hfit Hacc.
  - cbn [write_var app read_loop length].
    assert (v < 128) by (change (128 ^ N.of_nat 1) with 128 in Hv; exact Hv).
    destruct (N.leb_spec 64 s); [lia|].
    rewrite (N.mod_small v 128) by lia. rewrite (N.mod_small _ two64) by exact Hfit.
    destruct (N.ltb_spec v 128); [|lia].
    rewrite lor_disjoint by exact Hacc. f_equal. f_equal. lia.
  - cbn [write_var]. destruct (N.ltb_spec v 128) as [Hlt|Hge].
    + cbn [app read_loop length].
      destruct (N.leb_spec 64 s); [lia|].
      rewrite (N.mod_small v 128) by lia. rewrite (N.mod_small _ two64) by exact Hfit.
      destruct (N.ltb_spec v 128); [|lia].
      rewrite lor_disjoint by exact Hacc. f_equal. f_equal. lia.
    + cbn [app read_loop length].
      destruct (N.leb_spec 64 s); [lia|].
      assert (Hm : v mod 128 < 128) by (apply N.mod_lt; lia).
      replace ((v mod 128 + 128) mod 128) with (v mod 128).
      2:{ replace (v mod 128 + 128) with (v mod 128 + 1 * 128) by lia.
          rewrite N.mod_add by lia. symmetry. apply N.mod_small. exact Hm. }
      destruct (N.ltb_spec (v mod 128 + 128) 128); [lia|].
      pose proof (N.div_mod v 128) as Hdm.
      assert (Hp : 0 < 2 ^ s) by (apply N.neq_0_lt_0, N.pow_nonzero; lia).
      assert (Hq : 1 <= v / 128) by (apply N.div_le_lower_bound; lia).
      assert (Hps : 2 ^ (s + 7) = 128 * 2 ^ s).
      { rewrite N.pow_add_r. replace (2 ^ 7) with 128 by reflexivity. lia. }
      assert (Hsmall : v mod 128 * 2 ^ s < two64) by nia.
      rewrite (N.mod_small _ two64) by exact Hsmall.
      rewrite lor_disjoint by exact Hacc.
      assert (Hfit' : v / 128 * 2 ^ (s + 7) < two64) by (rewrite Hps; nia).
      rewrite IH.
      * f_equal. f_equal; [rewrite Hps; nia | lia].
      * replace (N.of_nat (S (S f))) with (N.succ (N.of_nat (S f))) in Hv by lia.
        rewrite N.pow_succ_r' in Hv. apply N.div_lt_upper_bound; lia.
      * (* s + 7 < 64 because 2^(s+7) <= (v/128) * 2^(s+7) < 2^64 *)
        apply (N.pow_lt_mono_r_iff 2); [lia|]. unfold two64 in Hfit'. nia.
      * exact Hfit'.
      * rewrite Hps. nia.
Qed.

Theorem read_write_u64 m v rest :
  v < 2 ^ 64 -> read_u64 m (write_u64 v ++ rest) = Ok (v, length (write_u64 v)).
Proof.
  intros Hv. unfold read_u64, write_u64.
  pose proof pow128_10 as P.
  rewrite read_write_var.
  - f_equal. f_equal. rewrite N.pow_0_r. lia.
  - lia.
  - lia.
  - rewrite N.pow_0_r. unfold two64. lia.
  - rewrite N.pow_0_r. lia.
Qed.

Corollary read_write_u64_nil m v :
  v < 2 ^ 64 -> read_u64 m (write_u64 v) = Ok (v, length (write_u64 v)).
Proof. intros H. rewrite <- (app_nil_r (write_u64 v)) at 1. apply read_write_u64. exact H. Qed.

(** canonicity of the writer: injective and prefix-free *)
Theorem write_u64_prefix_free v w r1 r2 :
  v < 2 ^ 64 -> w < 2 ^ 64 -> write_u64 v ++ r1 = write_u64 w ++ r2 -> v = w /\ r1 = r2.
Proof.
  intros Hv Hw E.
  pose proof (read_write_u64 ShChecked v r1 Hv) as A.
  pose proof (read_write_u64 ShChecked w r2 Hw) as B.
  rewrite E in A. rewrite A in B. inversion B; subst.
  split; auto. eapply app_inv_head. exact E.
Qed.

Corollary write_u64_inj v w : v < 2 ^ 64 -> w < 2 ^ 64 -> write_u64 v = write_u64 w -> v = w.
Proof.
  intros Hv Hw E. apply (write_u64_prefix_free v w [] []); auto. rewrite !app_nil_r. exact E.
Qed.

(** a run of at most 9 continuation bytes is an unterminated varint in every mode *)
Lemma read_loop_cont m c s acc i :
  Forall (fun b => 128 <= b) c -> s + 7 * N.of_nat (length c) <= 63 + 7 ->
  read_loop m c s acc i = Err.
Proof.
  revert s acc i. induction c as [|b c IH]; intros s acc i Hc Hs; cbn [read_loop]; auto.
  inversion Hc as [|? ? Hb Hc']; subst. cbn [length] in Hs.
  destruct (N.leb_spec 64 s); [lia|].
  destruct (N.ltb_spec b 128); [lia|]. apply IH; auto. lia.
Qed.

Theorem read_u64_strict_prefix m v t :
  v < 2 ^ 64 -> strict_prefix t (write_u64 v) -> read_u64 m t = Err.
Proof.
  intros Hv [u [Hu E]].
  destruct (write_u64_shape v Hv) as [c [l [Ec [Hc Hl]]]].
  pose proof (write_u64_length v) as HL.
  (* t is a prefix of c *)
  assert (Ht : exists u', c = t ++ u').
  { rewrite Ec in E. destruct (exists_last Hu) as [u0 [x Eu]]. subst u.
    rewrite app_assoc in E. apply app_inj_tail in E. destruct E as [E _]. eauto. }
  destruct Ht as [u' ->]. apply Forall_app in Hc. destruct Hc as [Hc _].
  unfold read_u64. apply read_loop_cont; auto.
  rewrite Ec in HL. rewrite !app_length in HL. cbn [length] in HL. lia.
Qed.

(** outcomes of the reader: what it consumed and what it returns *)
Lemma read_loop_ok_bounds m buf s acc i v n :
  read_loop m buf s acc i = Ok (v, n) -> (i < n <= i + length buf)%nat.
Proof.
  revert s acc i. induction buf as [|b buf IH]; intros s acc i H; cbn [read_loop] in H; [discriminate|].
  cbn [length].
  destruct (64 <=? s).
  - destruct m; try discriminate.
    destruct (b <? 128); [inversion H; subst; lia|]. apply IH in H. lia.
  - destruct (b <? 128); [inversion H; subst; lia|]. apply IH in H. lia.
Qed.

Theorem read_u64_ok_bounds m buf v n :
  read_u64 m buf = Ok (v, n) -> (1 <= n <= length buf)%nat.
Proof. intros H. apply read_loop_ok_bounds in H. lia. Qed.

(** the repaired reader never panics; the debug reader does on 11 continuation bytes *)
Lemma read_loop_checked_no_panic buf s acc i : read_loop ShChecked buf s acc i <> Panic.
Proof.
  revert s acc i. induction buf as [|b buf IH]; intros s acc i; cbn [read_loop]; [discriminate|].
  destruct (64 <=? s); [discriminate|]. destruct (b <? 128); [discriminate|]. apply IH.
Qed.

Theorem read_u64_checked_no_panic buf : read_u64 ShChecked buf <> Panic.
Proof. apply read_loop_checked_no_panic. Qed.

Lemma read_loop_release_no_panic buf s acc i : read_loop ShRelease buf s acc i <> Panic.
Proof.
  revert s acc i. induction buf as [|b buf IH]; intros s acc i; cbn [read_loop]; [discriminate|].
  destruct (64 <=? s); (destruct (b <? 128); [discriminate|]; apply IH).
Qed.

Example read_u64_debug_panics :
  read_u64 ShDebug (repeat 128 11) = Panic /\ read_u64 ShChecked (repeat 128 11) = Err
  /\ read_u64 ShDebug (repeat 128 10) = Err.
Proof. vm_compute. repeat split. Qed.

(** the three modes agree whenever fewer than 11 bytes are examined *)
Lemma read_loop_modes_agree m1 m2 buf s acc i :
  s + 7 * N.of_nat (length buf) <= 63 + 7 ->
  read_loop m1 buf s acc i = read_loop m2 buf s acc i.
Proof.
  revert s acc i. induction buf as [|b buf IH]; intros s acc i Hs; cbn [read_loop]; auto.
  cbn [length] in Hs. destruct (N.leb_spec 64 s); [lia|].
  destruct (b <? 128); auto. apply IH. lia.
Qed.

Theorem read_u64_modes_agree m1 m2 buf :
  (length buf <= 10)%nat -> read_u64 m1 buf = read_u64 m2 buf.
Proof. intros H. apply read_loop_modes_agree. lia. Qed.

Lemma read_u32_loop_no_panic buf s acc i : read_u32_loop buf s acc i <> Panic.
Proof.
  revert s acc i. induction buf as [|b buf IH]; intros s acc i; cbn [read_u32_loop]; [discriminate|].
  destruct (b <? 128); [discriminate|]. destruct (28 <? s + 7); [discriminate|]. apply IH.
Qed.

Theorem read_u32_var_no_panic buf : read_u32_var buf <> Panic.
Proof. apply read_u32_loop_no_panic. Qed.

Example varint_examples :
  write_u64 0 = [0] /\ write_u64 300 = [172; 2]
  /\ write_u64 (2 ^ 64 - 1) = [255; 255; 255; 255; 255; 255; 255; 255; 255; 1]
  /\ read_u64 ShChecked [172; 2; 9] = Ok (300, 2%nat)
  /\ read_u32_var [255; 255; 255; 255; 15] = Ok (2 ^ 32 - 1, 5%nat)
  /\ read_u32_var [255; 255; 255; 255; 255; 1] = Err.
Proof. vm_compute. repeat split. Qed.
