(** Crc32.v — the CRC-32 of crc32fast / zlib (reflected, polynomial 0xEDB88320, initial value
    and final xor 0xFFFFFFFF), bit by bit, as a computable function on byte lists.

    Proved here:
    - [crc32_range]            : the value fits 32 bits;
    - [crc32_check_value]      : crc32 "123456789" = 0xCBF43926 (the standard check value);
    - [crc32_detects_byte]     : changing exactly one byte of a message always changes its
                                 CRC-32 (no hypothesis: the register update is injective);
    - [crc32_detects_tail]     : more generally two messages with a common suffix and different,
                                 equally long prefixes whose registers differ.
    Theorems elsewhere that do not need the internals take an abstract [crc : list N -> N]. *)

From Coq Require Import List NArith Lia Bool.
From SL Require Import Base.Bytes.
Import ListNotations.
Open Scope N_scope.

Definition crc_poly : N := 3988292384.   (* 0xEDB88320 *)
Definition crc_mask : N := 4294967295.   (* 0xFFFFFFFF *)

Definition crc_step (c : N) : N :=
  if N.odd c then N.lxor (N.div2 c) crc_poly else N.div2 c.

Definition crc_step8 (c : N) : N :=
  crc_step (crc_step (crc_step (crc_step (crc_step (crc_step (crc_step (crc_step c))))))).

Definition crc_byte (c b : N) : N := crc_step8 (N.lxor c b).

Definition crc_update (c : N) (l : list N) : N := fold_left crc_byte l c.

Definition crc32 (l : list N) : N := N.lxor (crc_update crc_mask l) crc_mask.

Example crc32_check_value : crc32 [49; 50; 51; 52; 53; 54; 55; 56; 57] = 3421780262.
Proof. vm_compute. reflexivity. Qed.

Example crc32_small_values : crc32 [] = 0 /\ crc32 [0] = 3523407757 /\ crc32 [0] <> 0.
Proof. vm_compute. repeat split. discriminate. Qed.

(** ** range *)
Lemma lt_pow2_bits a n : a < 2 ^ n -> forall k, n <= k -> N.testbit a k = false.
Proof.
  intros Ha k Hk. destruct (N.eq_dec a 0) as [->|Hz]; [apply N.bits_0|].
  apply N.bits_above_log2. apply N.lt_le_trans with n; [|exact Hk].
  apply N.log2_lt_pow2; [lia|exact Ha].
Qed.

Lemma bits_lt_pow2 a n : (forall k, n <= k -> N.testbit a k = false) -> a < 2 ^ n.
Proof.
  intros H. destruct (N.eq_dec a 0) as [->|Hz].
  - apply N.neq_0_lt_0, N.pow_nonzero. lia.
  - apply N.log2_lt_pow2; [lia|].
    destruct (N.lt_ge_cases (N.log2 a) n) as [L|L]; auto.
    specialize (H (N.log2 a) L). rewrite N.bit_log2 in H by exact Hz. discriminate.
Qed.

Lemma lxor_lt_pow2 a b n : a < 2 ^ n -> b < 2 ^ n -> N.lxor a b < 2 ^ n.
Proof.
  intros Ha Hb. apply bits_lt_pow2. intros k Hk.
  rewrite N.lxor_spec, (lt_pow2_bits a n Ha k Hk), (lt_pow2_bits b n Hb k Hk). reflexivity.
Qed.

Lemma div2_lt a n : a < 2 ^ N.succ n -> N.div2 a < 2 ^ n.
Proof.
  intros H. rewrite N.div2_div. apply N.div_lt_upper_bound; [lia|].
  rewrite N.pow_succ_r' in H. exact H.
Qed.

Lemma crc_poly_lt : crc_poly < 2 ^ 32.  Proof. vm_compute. reflexivity. Qed.
Lemma crc_mask_lt : crc_mask < 2 ^ 32.  Proof. vm_compute. reflexivity. Qed.

Lemma crc_step_range c : c < 2 ^ 32 -> crc_step c < 2 ^ 32.
Proof.
  intros H. unfold crc_step.
  assert (D : N.div2 c < 2 ^ 31) by (apply div2_lt; exact H).
  assert (D' : N.div2 c < 2 ^ 32).
  { eapply N.lt_trans; [exact D|]. vm_compute. reflexivity. }
  destruct (N.odd c); [|exact D'].
  apply lxor_lt_pow2; [exact D'|exact crc_poly_lt].
Qed.

Lemma crc_step8_range c : c < 2 ^ 32 -> crc_step8 c < 2 ^ 32.
Proof. intros H. unfold crc_step8. do 8 apply crc_step_range. exact H. Qed.

Lemma crc_byte_range c b : c < 2 ^ 32 -> b < 256 -> crc_byte c b < 2 ^ 32.
Proof.
  intros Hc Hb. unfold crc_byte. apply crc_step8_range. apply lxor_lt_pow2; [exact Hc|].
  eapply N.lt_trans; [exact Hb|]. vm_compute. reflexivity.
Qed.

Lemma crc_update_range l : forall c, c < 2 ^ 32 -> bytes_ok l -> crc_update c l < 2 ^ 32.
Proof.
  induction l as [|b l IH]; intros c Hc Hl; cbn [crc_update fold_left]; [exact Hc|].
  apply bytes_ok_cons in Hl. destruct Hl as [Hb Hl].
  apply IH; [|exact Hl]. apply crc_byte_range; assumption.
Qed.

Theorem crc32_range l : bytes_ok l -> crc32 l < 2 ^ 32.
Proof.
  intros H. unfold crc32. apply lxor_lt_pow2; [|exact crc_mask_lt].
  apply crc_update_range; [exact crc_mask_lt|exact H].
Qed.

(** ** injectivity of the register update: a changed byte is always detected *)
Lemma lxor_cancel_r a b c : N.lxor a c = N.lxor b c -> a = b.
Proof.
  intros H. apply (f_equal (fun x => N.lxor x c)) in H.
  rewrite !N.lxor_assoc, N.lxor_nilpotent, !N.lxor_0_r in H. exact H.
Qed.

Lemma lxor_cancel_l a b c : N.lxor c a = N.lxor c b -> a = b.
Proof. rewrite !(N.lxor_comm c). apply lxor_cancel_r. Qed.

Lemma poly_bit31 : N.testbit crc_poly 31 = true.  Proof. vm_compute. reflexivity. Qed.

Lemma crc_step_bit31 c : c < 2 ^ 32 -> N.testbit (crc_step c) 31 = N.odd c.
Proof.
  intros H. unfold crc_step.
  assert (D : N.div2 c < 2 ^ 31) by (apply div2_lt; exact H).
  assert (B : N.testbit (N.div2 c) 31 = false) by (apply (lt_pow2_bits _ 31); [exact D|lia]).
  destruct (N.odd c).
  - rewrite N.lxor_spec, B, poly_bit31. reflexivity.
  - exact B.
Qed.

Lemma div2_odd_inj a b : N.odd a = N.odd b -> N.div2 a = N.div2 b -> a = b.
Proof.
  intros Ho Hd. rewrite (N.div2_odd a), (N.div2_odd b), Ho, Hd. reflexivity.
Qed.

Lemma crc_step_inj a b : a < 2 ^ 32 -> b < 2 ^ 32 -> crc_step a = crc_step b -> a = b.
Proof.
  intros Ha Hb E.
  assert (O : N.odd a = N.odd b).
  { rewrite <- (crc_step_bit31 a Ha), <- (crc_step_bit31 b Hb), E. reflexivity. }
  apply div2_odd_inj; [exact O|].
  unfold crc_step in E. rewrite <- O in E. destruct (N.odd a).
  - eapply lxor_cancel_r. exact E.
  - exact E.
Qed.

Lemma crc_step8_inj a b : a < 2 ^ 32 -> b < 2 ^ 32 -> crc_step8 a = crc_step8 b -> a = b.
Proof.
  intros Ha Hb E. unfold crc_step8 in E.
  repeat (apply crc_step_inj in E; [|repeat apply crc_step_range; assumption
                                     |repeat apply crc_step_range; assumption]).
  exact E.
Qed.

Lemma byte_lt32 b : b < 256 -> b < 2 ^ 32.
Proof. intros H. eapply N.lt_trans; [exact H|]. vm_compute. reflexivity. Qed.

Lemma crc_byte_inj_state a b x :
  a < 2 ^ 32 -> b < 2 ^ 32 -> x < 256 -> crc_byte a x = crc_byte b x -> a = b.
Proof.
  intros Ha Hb Hx E. unfold crc_byte in E. apply crc_step8_inj in E.
  - eapply lxor_cancel_r. exact E.
  - apply lxor_lt_pow2; [exact Ha|apply byte_lt32; exact Hx].
  - apply lxor_lt_pow2; [exact Hb|apply byte_lt32; exact Hx].
Qed.

Lemma crc_byte_inj_byte c x y :
  c < 2 ^ 32 -> x < 256 -> y < 256 -> crc_byte c x = crc_byte c y -> x = y.
Proof.
  intros Hc Hx Hy E. unfold crc_byte in E. apply crc_step8_inj in E.
  - eapply lxor_cancel_l. exact E.
  - apply lxor_lt_pow2; [exact Hc|apply byte_lt32; exact Hx].
  - apply lxor_lt_pow2; [exact Hc|apply byte_lt32; exact Hy].
Qed.

Lemma crc_update_inj_state l : forall a b,
  a < 2 ^ 32 -> b < 2 ^ 32 -> bytes_ok l -> crc_update a l = crc_update b l -> a = b.
Proof.
  induction l as [|x l IH]; intros a b Ha Hb Hl E; cbn [crc_update fold_left] in E; [exact E|].
  apply bytes_ok_cons in Hl. destruct Hl as [Hx Hl].
  apply IH in E; [|apply crc_byte_range; assumption|apply crc_byte_range; assumption|exact Hl].
  eapply crc_byte_inj_state; eauto.
Qed.

Lemma crc_update_app c a b : crc_update c (a ++ b) = crc_update (crc_update c a) b.
Proof. unfold crc_update. apply fold_left_app. Qed.

(** two messages that share a suffix and reach different registers before it *)
Theorem crc32_detects_tail p q suf :
  bytes_ok p -> bytes_ok q -> bytes_ok suf ->
  crc_update crc_mask p <> crc_update crc_mask q ->
  crc32 (p ++ suf) <> crc32 (q ++ suf).
Proof.
  intros Hp Hq Hs Hne E. apply Hne. unfold crc32 in E. apply lxor_cancel_r in E.
  rewrite !crc_update_app in E.
  eapply crc_update_inj_state; [| |exact Hs|exact E];
    apply crc_update_range; auto using crc_mask_lt.
Qed.

(** a single substituted byte is always detected *)
Theorem crc32_detects_byte pre x y suf :
  bytes_ok pre -> byte_ok x -> byte_ok y -> bytes_ok suf -> x <> y ->
  crc32 (pre ++ x :: suf) <> crc32 (pre ++ y :: suf).
Proof.
  intros Hpre Hx Hy Hsuf Hne.
  replace (pre ++ x :: suf) with ((pre ++ [x]) ++ suf) by (rewrite <- app_assoc; reflexivity).
  replace (pre ++ y :: suf) with ((pre ++ [y]) ++ suf) by (rewrite <- app_assoc; reflexivity).
  apply crc32_detects_tail; auto.
  - apply bytes_ok_app; split; auto. constructor; auto.
  - apply bytes_ok_app; split; auto. constructor; auto.
  - rewrite !crc_update_app. cbn [crc_update fold_left]. intros E. apply Hne.
    eapply crc_byte_inj_byte; [|exact Hx|exact Hy|exact E].
    apply crc_update_range; auto using crc_mask_lt.
Qed.

Corollary crc32_detects_set_nth l i b :
  bytes_ok l -> byte_ok b -> (i < length l)%nat -> b <> nth i l 0 ->
  crc32 (set_nth l i b) <> crc32 l.
Proof.
  intros Hl Hb Hi Hne. rewrite set_nth_split by exact Hi.
  rewrite <- (firstn_skipn i l) at 3.
  assert (E : skipn i l = nth i l 0 :: skipn (S i) l).
  { clear Hl Hne. revert i Hi. induction l as [|x l IH]; intros [|i] Hi; cbn [length] in Hi; try lia.
    - reflexivity.
    - cbn [skipn nth]. apply IH. lia. }
  rewrite E.
  assert (Hf : bytes_ok (firstn i l)).
  { rewrite <- (firstn_skipn i l) in Hl. apply bytes_ok_app in Hl. tauto. }
  assert (Hs : bytes_ok (skipn i l)).
  { rewrite <- (firstn_skipn i l) in Hl. apply bytes_ok_app in Hl. tauto. }
  rewrite E in Hs. apply bytes_ok_cons in Hs. destruct Hs as [Hx Hs].
  apply crc32_detects_byte; auto.
Qed.
