(** Paging.v — key-set paging over a strict total order (shared by C11 and C30).

    Keys are [N] (the engines intern the implementation's keys to integers preserving the
    implementation's strict total order; distinct hits / buckets have distinct keys).

    Contents
      - [insert]/[sort]: insertion sort, permutation-invariant ([sort_perm]);
      - bounded "keep the k smallest" collection ([topk]) and the fact that truncating partial
        results to k does not change the k smallest of a union ([topk_concat]) — this is why a
        per-segment / per-collector limit of k is enough;
      - one page = the [k] smallest keys strictly after the cursor, next cursor = last returned
        key iff more remain ([page]); walking pages ([walk]) enumerates the sorted key set
        exactly once ([walk_complete]). *)

From Coq Require Import List NArith Lia Bool Permutation Arith.
Import ListNotations.
Open Scope N_scope.

(* ------------------------------------------------------------------ sorting *)

Fixpoint insert (x : N) (s : list N) : list N :=
  match s with
  | [] => [x]
  | y :: s' => if x <=? y then x :: s else y :: insert x s'
  end.

Definition sort (l : list N) : list N := fold_right insert [] l.

(** strictly increasing *)
Fixpoint ssorted (l : list N) : Prop :=
  match l with
  | [] => True
  | x :: t => Forall (N.lt x) t /\ ssorted t
  end.

(** weakly increasing *)
Fixpoint wsorted (l : list N) : Prop :=
  match l with
  | [] => True
  | x :: t => Forall (N.le x) t /\ wsorted t
  end.

Lemma insert_comm : forall x y s, insert x (insert y s) = insert y (insert x s).
Proof.
  intros x y s. induction s as [|a s IH].
  - cbn. destruct (N.leb_spec x y), (N.leb_spec y x); try lia; try reflexivity.
    assert (x = y) by lia. subst. reflexivity.
  - cbn [insert].
    destruct (N.leb_spec y a) as [Hya|Hya], (N.leb_spec x a) as [Hxa|Hxa]; cbn [insert].
    + destruct (N.leb_spec x y), (N.leb_spec y x); try lia.
      * assert (x = y) by lia. subst. reflexivity.
      * destruct (N.leb_spec y a); try lia. reflexivity.
      * destruct (N.leb_spec x a); try lia. reflexivity.
    + destruct (N.leb_spec x y); try lia. destruct (N.leb_spec x a); try lia.
      destruct (N.leb_spec y a); try lia. reflexivity.
    + destruct (N.leb_spec y x); try lia. destruct (N.leb_spec x a); try lia.
      destruct (N.leb_spec y a); try lia. reflexivity.
    + destruct (N.leb_spec x a); try lia. destruct (N.leb_spec y a); try lia.
      rewrite IH. reflexivity.
Qed.

Lemma sort_perm : forall l l', Permutation l l' -> sort l = sort l'.
Proof.
  unfold sort. induction 1; cbn [fold_right].
  - reflexivity.
  - now rewrite IHPermutation.
  - apply insert_comm.
  - congruence.
Qed.

Lemma insert_perm : forall x s, Permutation (x :: s) (insert x s).
Proof.
  intros x s. induction s as [|a s IH]; cbn [insert].
  - apply Permutation_refl.
  - destruct (x <=? a).
    + apply Permutation_refl.
    + eapply perm_trans. apply perm_swap. apply perm_skip. exact IH.
Qed.

Lemma sort_permutation : forall l, Permutation l (sort l).
Proof.
  induction l as [|a l IH]; cbn.
  - constructor.
  - eapply perm_trans. 2: apply insert_perm. now apply perm_skip.
Qed.

Lemma insert_wsorted : forall x s, wsorted s -> wsorted (insert x s).
Proof.
  intros x s. induction s as [|a s IH]; cbn [insert wsorted]; intros H.
  - split; [constructor|exact I].
  - destruct H as [Ha Hs]. destruct (N.leb_spec x a) as [Hxa|Hxa]; cbn [wsorted].
    + split; [|split; assumption]. constructor; [exact Hxa|].
      eapply Forall_impl; [|exact Ha]. cbn. intros; lia.
    + split; [|apply IH; exact Hs].
      eapply Permutation_Forall. apply insert_perm. constructor; [lia|exact Ha].
Qed.

Lemma sort_wsorted : forall l, wsorted (sort l).
Proof. induction l; cbn; [exact I|]. now apply insert_wsorted. Qed.

Lemma insert_le_head : forall x s, Forall (N.le x) s -> insert x s = x :: s.
Proof.
  intros x [|a s] H; cbn [insert]; [reflexivity|].
  inversion H; subst. destruct (N.leb_spec x a); [reflexivity|lia].
Qed.

Lemma sort_id : forall s, wsorted s -> sort s = s.
Proof.
  induction s as [|a s IH]; cbn; [reflexivity|]. intros [Ha Hs].
  fold (sort s). rewrite IH by exact Hs. now apply insert_le_head.
Qed.

Lemma in_firstn : forall k (s : list N) x, In x (firstn k s) -> In x s.
Proof.
  intros k s x H. rewrite <- (firstn_skipn k s). apply in_or_app. now left.
Qed.

Lemma wsorted_firstn : forall k s, wsorted s -> wsorted (firstn k s).
Proof.
  induction k as [|k IH]; intros [|a s]; cbn [firstn wsorted]; try tauto.
  intros [Ha Hs]. split; [|now apply IH].
  rewrite Forall_forall in *. intros y Hy. apply Ha. eapply in_firstn. exact Hy.
Qed.

Lemma ssorted_wsorted : forall s, ssorted s -> wsorted s.
Proof.
  induction s as [|a s IH]; cbn; [tauto|]. intros [Ha Hs]. split; [|tauto].
  eapply Forall_impl; [|exact Ha]. cbn. intros; lia.
Qed.

Lemma NoDup_wsorted_ssorted : forall s, NoDup s -> wsorted s -> ssorted s.
Proof.
  induction s as [|a s IH]; cbn; [tauto|]. intros Hnd [Ha Hs].
  inversion Hnd; subst. split; [|tauto].
  rewrite Forall_forall in *. intros y Hy. specialize (Ha y Hy).
  assert (a <> y) by (intro; subst; contradiction). lia.
Qed.

Lemma sort_ssorted : forall l, NoDup l -> ssorted (sort l).
Proof.
  intros l H. apply NoDup_wsorted_ssorted; [|apply sort_wsorted].
  eapply Permutation_NoDup; [apply sort_permutation|exact H].
Qed.

(** two strictly sorted lists with the same elements are equal *)
Lemma ssorted_ext : forall s t, ssorted s -> ssorted t -> (forall x, In x s <-> In x t) -> s = t.
Proof.
  induction s as [|a s IH]; intros [|b t] Hs Ht Hin.
  - reflexivity.
  - exfalso. apply (proj2 (Hin b)). now left.
  - exfalso. apply (proj1 (Hin a)). now left.
  - cbn in Hs, Ht. destruct Hs as [Ha Hs], Ht as [Hb Ht].
    rewrite Forall_forall in Ha, Hb.
    assert (a = b).
    { destruct (proj1 (Hin a) (or_introl eq_refl)) as [E|E]; [now symmetry|].
      destruct (proj2 (Hin b) (or_introl eq_refl)) as [E'|E']; [assumption|].
      specialize (Ha _ E'). specialize (Hb _ E). lia. }
    subst b. f_equal. apply IH; try assumption.
    intros x; split; intros Hx.
    + destruct (proj1 (Hin x) (or_intror Hx)) as [E|E]; [|exact E].
      subst x. specialize (Ha _ Hx). lia.
    + destruct (proj2 (Hin x) (or_intror Hx)) as [E|E]; [|exact E].
      subst x. specialize (Hb _ Hx). lia.
Qed.

(* ------------------------------------------------------------------ the k smallest *)

Definition topk (k : nat) (l : list N) : list N := firstn k (sort l).

(** the bounded collector: insert, then drop the worst when over capacity — the set semantics of
    a max-heap bounded to [k] entries ([push_ranked]: push while below capacity, otherwise
    replace the worst entry when the new one is smaller) *)
Definition push (k : nat) (s : list N) (x : N) : list N := firstn k (insert x s).

Lemma firstn_cons_trunc : forall k (y : N) s, firstn k (y :: s) = firstn k (y :: firstn k s).
Proof.
  intros [|k] y s; [reflexivity|].
  change (firstn (S k) (y :: s)) with (y :: firstn k s).
  change (firstn (S k) (y :: firstn (S k) s)) with (y :: firstn k (firstn (S k) s)).
  rewrite firstn_firstn. replace (Init.Nat.min k (S k)) with k by lia. reflexivity.
Qed.

Lemma firstn_insert_trunc : forall k x s, firstn k (insert x s) = firstn k (insert x (firstn k s)).
Proof.
  induction k as [|k IH]; intros x s; [reflexivity|].
  destruct s as [|y s]; [reflexivity|]. cbn [firstn insert].
  destruct (x <=? y); cbn [firstn].
  - f_equal. apply firstn_cons_trunc.
  - f_equal. apply IH.
Qed.

Lemma topk_fold : forall k l s,
  firstn k (fold_right insert s l) = firstn k (fold_right insert (firstn k s) l).
Proof.
  induction l as [|a l IH]; intros s; cbn [fold_right].
  - now rewrite firstn_firstn, Nat.min_id.
  - rewrite firstn_insert_trunc, IH, <- firstn_insert_trunc. reflexivity.
Qed.

Lemma sort_app : forall l1 l2, sort (l1 ++ l2) = fold_right insert (sort l2) l1.
Proof. intros. unfold sort. now rewrite fold_right_app. Qed.

Lemma topk_app_r : forall k l1 l2, topk k (l1 ++ l2) = topk k (l1 ++ topk k l2).
Proof.
  intros. unfold topk. rewrite !sort_app, topk_fold. f_equal. f_equal.
  symmetry. apply sort_id. apply wsorted_firstn, sort_wsorted.
Qed.

Lemma topk_app_l : forall k l1 l2, topk k (l1 ++ l2) = topk k (topk k l1 ++ l2).
Proof.
  intros. unfold topk at 1 2.
  rewrite (sort_perm (l1 ++ l2) (l2 ++ l1)) by apply Permutation_app_comm.
  rewrite (sort_perm (topk k l1 ++ l2) (l2 ++ topk k l1)) by apply Permutation_app_comm.
  apply topk_app_r.
Qed.

(** truncating every part to its own k smallest keeps the k smallest of the union *)
Lemma topk_concat : forall k ls, topk k (concat (map (topk k) ls)) = topk k (concat ls).
Proof.
  induction ls as [|l ls IH]; cbn [map concat]; [reflexivity|].
  rewrite <- topk_app_l. rewrite topk_app_r, IH, <- topk_app_r. reflexivity.
Qed.

Lemma push_fold : forall k l, fold_left (push k) l [] = topk k (rev l).
Proof.
  intros k l. rewrite <- fold_left_rev_right. unfold topk, sort.
  induction (rev l) as [|a r IH]; cbn [fold_right]; [now destruct k|].
  unfold push at 1. rewrite IH. symmetry. apply firstn_insert_trunc.
Qed.

Lemma push_fold_topk : forall k l, fold_left (push k) l [] = topk k l.
Proof.
  intros. rewrite push_fold. unfold topk. f_equal. apply sort_perm.
  apply Permutation_sym, Permutation_rev.
Qed.

(* ------------------------------------------------------------------ filtering by a cursor *)

Definition after (cur : option N) (l : list N) : list N :=
  match cur with None => l | Some c => filter (fun x => c <? x) l end.

Lemma filter_insert : forall (p : N -> bool) x s, wsorted s ->
  filter p (insert x s) = if p x then insert x (filter p s) else filter p s.
Proof.
  intros p x s. induction s as [|a s IH]; intros Hs; cbn [insert filter].
  - destruct (p x); reflexivity.
  - destruct Hs as [Ha Hs]. destruct (N.leb_spec x a) as [Hxa|Hxa]; cbn [filter].
    + destruct (p x) eqn:Px; [|reflexivity].
      symmetry. apply insert_le_head.
      assert (F : Forall (N.le x) (a :: s)).
      { constructor; [exact Hxa|]. eapply Forall_impl; [|exact Ha]. cbn; intros; lia. }
      rewrite Forall_forall in *. intros y Hy.
      apply F. change (In y (filter p (a :: s))) in Hy. apply filter_In in Hy. tauto.
    + rewrite IH by exact Hs. destruct (p x), (p a); cbn [insert]; try reflexivity.
      destruct (N.leb_spec x a); [lia|reflexivity].
Qed.

Lemma sort_filter : forall p l, sort (filter p l) = filter p (sort l).
Proof.
  intros p. induction l as [|a l IH]; cbn [filter]; [reflexivity|].
  change (sort (a :: l)) with (insert a (sort l)).
  rewrite filter_insert by apply sort_wsorted. destruct (p a).
  - change (sort (a :: filter p l)) with (insert a (sort (filter p l))). now rewrite IH.
  - exact IH.
Qed.

Lemma sort_after : forall cur l, sort (after cur l) = after cur (sort l).
Proof. intros [c|] l; cbn [after]; [apply sort_filter|reflexivity]. Qed.

Lemma filter_all : forall (p : N -> bool) l, Forall (fun x => p x = true) l -> filter p l = l.
Proof.
  induction l as [|a l IH]; cbn; [reflexivity|]. intros H; inversion H; subst.
  rewrite H2. f_equal. now apply IH.
Qed.

Lemma filter_none : forall (p : N -> bool) l, Forall (fun x => p x = false) l -> filter p l = [].
Proof.
  induction l as [|a l IH]; cbn; [reflexivity|]. intros H; inversion H; subst.
  rewrite H2. now apply IH.
Qed.

Lemma ssorted_app : forall a b, ssorted (a ++ b) ->
  ssorted a /\ ssorted b /\ forall x y, In x a -> In y b -> x < y.
Proof.
  induction a as [|h a IH]; cbn; intros b H.
  - repeat split; [exact H|]. intros x y [].
  - destruct H as [Hh H]. destruct (IH b H) as (Ha & Hb & Hab).
    rewrite Forall_app in Hh. destruct Hh as [Hha Hhb].
    repeat split; try assumption.
    intros x y [E|Hx] Hy; [subst; rewrite Forall_forall in Hhb; now apply Hhb|now apply Hab].
Qed.

Lemma ssorted_last_max : forall a d x, ssorted a -> In x a -> x <= last a d.
Proof.
  induction a as [|h a IH]; intros d x Hs Hx; [destruct Hx|].
  destruct Hs as [Hh Hs]. destruct a as [|h' a].
  - destruct Hx as [E|[]]. subst. cbn. lia.
  - change (last (h :: h' :: a) d) with (last (h' :: a) d).
    destruct Hx as [E|Hx].
    + subst x. rewrite Forall_forall in Hh.
      assert (h < h') by (apply Hh; now left).
      specialize (IH d h' Hs (or_introl eq_refl)). lia.
    + now apply IH.
Qed.

(** on a strictly sorted list, "strictly after the last element of a prefix" is the suffix *)
Lemma after_last_prefix : forall a b d, a <> [] -> ssorted (a ++ b) ->
  after (Some (last a d)) (a ++ b) = b.
Proof.
  intros a b d Hne Hs. destruct (ssorted_app _ _ Hs) as (Ha & Hb & Hab).
  cbn [after]. rewrite filter_app.
  rewrite filter_none, filter_all; [reflexivity| |].
  - rewrite Forall_forall. intros y Hy. apply N.ltb_lt. apply Hab; [|exact Hy].
    destruct a; [congruence|]. apply (@exists_last _ (n :: a)) in Hne as (a' & z & E).
    rewrite E. rewrite last_last. apply in_or_app. right. now left.
  - rewrite Forall_forall. intros y Hy. apply N.ltb_ge. now apply ssorted_last_max.
Qed.

(* ------------------------------------------------------------------ pages *)

(** One page over the key multiset [l] (any order): the [k] smallest keys strictly after the
    cursor, and the next cursor = the last returned key iff at least [k+1] keys remain. *)
Definition page (k : nat) (cur : option N) (l : list N) : list N * option N :=
  let top := topk (S k) (after cur l) in
  if Nat.ltb k (length top) then (firstn k top, Some (last (firstn k top) 0)) else (top, None).

(** Walk: follow the cursor; [None] = out of fuel. *)
Fixpoint walk (fuel : nat) (k : nat) (cur : option N) (l : list N) : option (list (list N)) :=
  match fuel with
  | O => None
  | S f =>
      let (hits, nxt) := page k cur l in
      match nxt with
      | None => Some [hits]
      | Some c =>
          match walk f k (Some c) l with
          | Some ps => Some (hits :: ps)
          | None => None
          end
      end
  end.

Lemma page_sorted_input : forall k cur l, page k cur l = page k cur (sort l).
Proof.
  intros. unfold page, topk. rewrite !sort_after.
  rewrite (sort_id (sort l)) by apply sort_wsorted. reflexivity.
Qed.

(** the page taken on a strictly sorted remainder [b] *)
Lemma page_of_remainder : forall k cur l b, ssorted b -> after cur (sort l) = b ->
  page k cur l =
    if Nat.ltb k (length b) then (firstn k b, Some (last (firstn k b) 0)) else (b, None).
Proof.
  intros k cur l b Hb E. unfold page, topk. rewrite sort_after, E.
  destruct (Nat.ltb_spec k (length b)) as [Hlt|Hge].
  - rewrite firstn_length_le by lia.
    destruct (Nat.ltb_spec k (S k)); [|lia].
    rewrite firstn_firstn. replace (Init.Nat.min k (S k)) with k by lia. reflexivity.
  - rewrite firstn_all2 by lia.
    destruct (Nat.ltb_spec k (length b)); [lia|reflexivity].
Qed.

Lemma walk_from : forall fuel k l a b cur,
  (0 < k)%nat -> sort l = a ++ b -> ssorted (a ++ b) ->
  cur = match a with [] => None | _ => Some (last a 0) end ->
  (length b < fuel)%nat ->
  exists ps, walk fuel k cur l = Some ps /\ concat ps = b
    /\ Forall (fun p => (length p <= k)%nat) ps
    /\ (length ps = S ((length b - 1) / k))%nat.
Proof.
  induction fuel as [|f IH]; intros k l a b cur Hk Hsort Hss Hcur Hfuel; [lia|].
  assert (Hafter : after cur (sort l) = b).
  { rewrite Hsort, Hcur. destruct a as [|h a]; [reflexivity|].
    apply after_last_prefix; [discriminate|exact Hss]. }
  destruct (ssorted_app _ _ Hss) as (Ha & Hb & Hab).
  cbn [walk]. rewrite (page_of_remainder k cur l b Hb Hafter).
  destruct (Nat.ltb_spec k (length b)) as [Hlt|Hge].
  - (* more remain *)
    set (h := firstn k b). set (r := skipn k b).
    assert (Hbr : b = h ++ r) by (symmetry; apply firstn_skipn).
    assert (Hlh : length h = k) by (unfold h; rewrite firstn_length_le; lia).
    assert (Hhne : h <> []) by (intro E; rewrite E in Hlh; cbn in Hlh; lia).
    assert (Hlr : (length r = length b - k)%nat) by (unfold r; apply skipn_length).
    destruct (IH k l (a ++ h) r (Some (last h 0))) as (ps & Hw & Hc & Hf & Hn); try assumption.
    + rewrite <- app_assoc, <- Hbr. exact Hsort.
    + rewrite <- app_assoc, <- Hbr. exact Hss.
    + destruct (a ++ h) eqn:E.
      * apply app_eq_nil in E. tauto.
      * rewrite <- E. f_equal. destruct h as [|h0 h']; [congruence|].
        apply (@exists_last _ (h0 :: h')) in Hhne as (h'' & z & Ez). rewrite Ez.
        rewrite app_assoc, !last_last. reflexivity.
    + lia.
    + rewrite Hw. exists (h :: ps). repeat split.
      * cbn [concat]. now rewrite Hc.
      * constructor; [lia|exact Hf].
      * cbn [length]. rewrite Hn, Hlr. f_equal.
        replace (length b - 1)%nat with ((length b - k - 1) + 1 * k)%nat by lia.
        rewrite Nat.div_add by lia. lia.
  - exists [b]. repeat split.
    + cbn. apply app_nil_r.
    + constructor; [lia|constructor].
    + cbn [length]. f_equal. symmetry. apply Nat.div_small. lia.
Qed.

(** Completeness of the walk: for every key list without duplicates and every page size > 0,
    following the cursor from the first page until it is absent yields the sorted key list,
    cut into pages — every key exactly once, in order. *)
Theorem walk_complete : forall k l fuel, (0 < k)%nat -> NoDup l -> (length l < fuel)%nat ->
  exists ps, walk fuel k None l = Some ps /\ concat ps = sort l
    /\ Forall (fun p => (length p <= k)%nat) ps
    /\ (length ps = S ((length l - 1) / k))%nat.
Proof.
  intros k l fuel Hk Hnd Hfuel.
  destruct (walk_from fuel k l [] (sort l) None) as (ps & H1 & H2 & H3 & H4); try assumption.
  - reflexivity.
  - cbn. now apply sort_ssorted.
  - reflexivity.
  - rewrite <- (Permutation_length (sort_permutation l)). exact Hfuel.
  - exists ps. repeat split; try assumption.
    rewrite H4. now rewrite <- (Permutation_length (sort_permutation l)).
Qed.
