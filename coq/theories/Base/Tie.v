(** Tie.v — the generic reporting layer of the correspondence check.

    A per-property model exports [check_case : case -> N], returning a verdict code for one
    (input, observation-from-the-implementation) pair:

      0        the implementation's observation equals the model's output and satisfies the
               executable specification [S];
      1        the observation differs from the model but still satisfies the executable
               specification [S] (correspondence broken, no failing input);
      2        the observation violates the executable specification (a concrete failing input);
      100 + k  the observation violates the specification and the input lies in known class k
               (a listed finding, see known_findings.jsonl).

    The harness writes a [cases_*.v] file holding the cases as Gallina literals and ends it
    with [Eval vm_compute in report check_case cases.]; the driver reads the printed list of
    (index, code) pairs.  Nothing here is trusted beyond "it prints what it computed". *)

From Coq Require Import List NArith.
Import ListNotations.
Open Scope N_scope.

Fixpoint report_from {A : Type} (chk : A -> N) (i : N) (cs : list A) : list (N * N) :=
  match cs with
  | [] => []
  | c :: cs' =>
      let r := chk c in
      if N.eqb r 0 then report_from chk (N.succ i) cs'
      else (i, r) :: report_from chk (N.succ i) cs'
  end.

Definition report {A : Type} (chk : A -> N) (cs : list A) : list (N * N) :=
  report_from chk 0 cs.

(** Verdict helper: [verdict corr spec known] *)
Definition verdict (corr spec : bool) (known : N) : N :=
  if spec then (if corr then 0 else 1)
  else if N.eqb known 0 then 2 else 100 + known.

(** A variant for properties whose check is purely relational (the implementation is not a
    function of the modelled input, e.g. it depends on float rounding or hash order): there is
    no "model output" to compare with, only the specification to satisfy. *)
Definition verdict_spec (spec : bool) (known : N) : N :=
  if spec then 0 else if N.eqb known 0 then 2 else 100 + known.
