(** C23 — queue machine of the HTTP write path (searchlite-http/src/lib.rs add_ndjson, bulk_ingest,
    delete_documents, commit, refresh, compact, search over searchlite-core/src/api/writer.rs).
    Definitions only; proofs are in Proofs.v.

    Strings never enter Coq: a document id is an [N] (engine: "d<i>"), the document's content is a
    version number [ver] (engine: stored numeric field "n"). *)

From Coq Require Import List NArith Bool.
From SL Require Import Base.Tie.
Import ListNotations.
Open Scope N_scope.

Definition id := N.
Definition ver := N.

Inductive op := OAdd (i : id) (v : ver) | ODel (i : id).

(** ** Request classes, by the phase of the handler that rejects them *)

(** A JSON object sent as a document: passes or fails [Schema::validate_document] /
    [doc_id_from_document] inside [IndexWriter::add_document] (missing / empty / non-string id,
    wrong type for a schema field). *)
Inductive vdoc := VGood (i : id) (v : ver) | VInvalid.

(** One NDJSON line of /add. *)
Inductive line := LBlank | LBadJson | LNotObject | LDoc (d : vdoc).

(** One element of /bulk's "docs" array. *)
Inductive bitem := BNotObject | BDoc (d : vdoc).

(** One element of /delete's "ids" array: accepted or refused by [validate_ids]. *)
Inductive did := IdOk (i : id) | IdBad.

Inductive req :=
  | RAdd (ls : list line)
  | RBulk (b : option (list bitem))     (* None: body is not a JSON {"docs":[..]} *)
  | RDelete (b : option (list did))     (* None: body is not a JSON {"ids":[..]}  *)
  | RCommit | RRefresh | RCompact | RSearch.

Inductive ekind :=
  | EInvalidDocument | EAddFailed | EInvalidRequest | EMissingDocuments | EMissingIds | EInvalidId
  | EOtherKind.

Inductive resp :=
  | Queued (n : N)                      (* 200 {"queued":n}                         *)
  | Rejected (status : N) (k : ekind)   (* non-2xx {"error":{"type":k,"reason":_}}   *)
  | Committed | Refreshed | Compacted   (* 200 {"committed":true} ...                *)
  | Hits (l : list (id * ver))          (* 200 search result, (id, n) sorted by id   *)
  | Other (status : N).                 (* anything else the engine saw              *)

(** ** Index contents: association list sorted by id *)

Definition contents := list (id * ver).

Fixpoint set (i : id) (v : ver) (m : contents) : contents :=
  match m with
  | [] => [(i, v)]
  | (j, w) :: m' =>
      if i <? j then (i, v) :: m
      else if i =? j then (i, v) :: m'
      else (j, w) :: set i v m'
  end.

Fixpoint unset (i : id) (m : contents) : contents :=
  match m with
  | [] => []
  | (j, w) :: m' => if i =? j then m' else (j, w) :: unset i m'
  end.

Fixpoint lookup (i : id) (m : contents) : option ver :=
  match m with
  | [] => None
  | (j, w) :: m' => if i =? j then Some w else lookup i m'
  end.

(** [IndexWriter::commit] walks the pending operations in order: an add replaces the live
    document with the same id, a delete removes it (also from the batch being committed). *)
Definition apply_op (m : contents) (o : op) : contents :=
  match o with OAdd i v => set i v m | ODel i => unset i m end.

Definition apply_ops (m : contents) (q : list op) : contents := fold_left apply_op q m.

(** ** M: the server *)

(** Persistent state: the committed index and the write-ahead log [wal.log], which is shared by
    every writer handle.  (A commit marker never survives in the log: a successful commit
    truncates it.) *)
Record store := { committed : contents; wal : list op }.

Definition init : store := {| committed := []; wal := [] |}.

(** What the handler does when [add_document] fails:
    [RbSavepoint] — the code after the fix: [rollback_to(savepoint)] cuts the writer's pending
                    list and the log back to where they were when the request started;
    [RbAll]       — the code before the fix: [rollback()] clears the whole pending list and
                    truncates the whole shared log. *)
Inductive rbmode := RbSavepoint | RbAll.

(** The [for doc in docs { writer.add_document(doc) ... }] loop.  [pend] is the writer's
    [pending_ops], [w] the log; [sp_p], [sp_w] the savepoint.  Returns (ok, pending, log). *)
Fixpoint add_loop (rb : rbmode) (sp_p sp_w : nat) (pend w : list op) (docs : list vdoc)
  : bool * list op * list op :=
  match docs with
  | [] => (true, pend, w)
  | VGood i v :: ds => add_loop rb sp_p sp_w (pend ++ [OAdd i v]) (w ++ [OAdd i v]) ds
  | VInvalid :: _ =>
      match rb with
      | RbSavepoint => (false, firstn sp_p pend, firstn sp_w w)
      | RbAll => (false, [], [])
      end
  end.

(** [index.writer()] replays the log into [pending_ops]; then savepoint, loop, drop. *)
Definition ingest (rb : rbmode) (s : store) (docs : list vdoc) : store * resp :=
  let pend := wal s in
  let '(ok, _, w') := add_loop rb (length pend) (length (wal s)) pend (wal s) docs in
  ({| committed := committed s; wal := w' |},
   if ok then Queued (N.of_nat (length docs)) else Rejected 400 EAddFailed).

(** /add, phase 1: read the body line by line; blank lines are skipped, the first line that is
    not JSON or not an object ends the request with 400 before anything is queued. *)
Fixpoint parse_lines (ls : list line) : option (list vdoc) :=
  match ls with
  | [] => Some []
  | LBlank :: r => parse_lines r
  | LBadJson :: _ => None
  | LNotObject :: _ => None
  | LDoc d :: r => match parse_lines r with Some ds => Some (d :: ds) | None => None end
  end.

Fixpoint parse_items (bs : list bitem) : option (list vdoc) :=
  match bs with
  | [] => Some []
  | BNotObject :: _ => None
  | BDoc d :: r => match parse_items r with Some ds => Some (d :: ds) | None => None end
  end.

Fixpoint parse_ids (l : list did) : option (list id) :=
  match l with
  | [] => Some []
  | IdBad :: _ => None
  | IdOk i :: r => match parse_ids r with Some is => Some (i :: is) | None => None end
  end.

Definition step_rb (rb : rbmode) (s : store) (r : req) : store * resp :=
  match r with
  | RAdd ls =>
      match parse_lines ls with
      | None => (s, Rejected 400 EInvalidDocument)
      | Some [] => (s, Queued 0)
      | Some docs => ingest rb s docs
      end
  | RBulk None => (s, Rejected 400 EInvalidRequest)
  | RBulk (Some []) => (s, Rejected 400 EMissingDocuments)
  | RBulk (Some bs) =>
      match parse_items bs with
      | None => (s, Rejected 400 EInvalidDocument)
      | Some docs => ingest rb s docs
      end
  | RDelete None => (s, Rejected 400 EInvalidRequest)
  | RDelete (Some []) => (s, Rejected 400 EMissingIds)
  | RDelete (Some l) =>
      match parse_ids l with
      | None => (s, Rejected 400 EInvalidId)
      | Some is =>
          ({| committed := committed s; wal := wal s ++ map ODel is |},
           Queued (N.of_nat (length is)))
      end
  | RCommit =>
      (* new writer replays the log; commit applies pending in order, truncates the log *)
      ({| committed := apply_ops (committed s) (wal s); wal := [] |}, Committed)
  | RRefresh => (s, Refreshed)
  | RCompact => (s, Compacted)
  | RSearch => (s, Hits (committed s))
  end.

Definition step := step_rb RbSavepoint.

Fixpoint run_rb (rb : rbmode) (s : store) (rs : list req) : store * list resp :=
  match rs with
  | [] => (s, [])
  | r :: rs' =>
      let (s1, o) := step_rb rb s r in
      let (s2, os) := run_rb rb s1 rs' in
      (s2, o :: os)
  end.

Definition run := run_rb RbSavepoint.

(** ** S: the statement, as a reference machine driven by the server's own answers.

    "documents and deletions acknowledged by /add, /bulk or /delete remain queued until a
     /commit applies them in order, even if later write requests are rejected; a rejected /add
     or /bulk request queues none of its own documents." *)

(** The documents / deletions a write request carries (its well-formed parts, in order). *)
Definition line_ops (l : line) : list op :=
  match l with LDoc (VGood i v) => [OAdd i v] | _ => [] end.
Definition bitem_ops (b : bitem) : list op :=
  match b with BDoc (VGood i v) => [OAdd i v] | _ => [] end.
Definition did_ops (d : did) : list op :=
  match d with IdOk i => [ODel i] | IdBad => [] end.

Definition carried (r : req) : list op :=
  match r with
  | RAdd ls => flat_map line_ops ls
  | RBulk (Some bs) => flat_map bitem_ops bs
  | RDelete (Some l) => flat_map did_ops l
  | _ => []
  end.

Definition is_write (r : req) : bool :=
  match r with RAdd _ | RBulk _ | RDelete _ => true | _ => false end.

(** Reference state: what is searchable, and the acknowledged operations still waiting. *)
Record sstate := { s_vis : contents; s_queue : list op }.

Definition sinit : sstate := {| s_vis := []; s_queue := [] |}.

Definition op_eqb (a b : op) : bool :=
  match a, b with
  | OAdd i v, OAdd j w => (i =? j) && (v =? w)
  | ODel i, ODel j => i =? j
  | _, _ => false
  end.

Fixpoint contents_eqb (a b : contents) : bool :=
  match a, b with
  | [], [] => true
  | (i, v) :: a', (j, w) :: b' => (i =? j) && (v =? w) && contents_eqb a' b'
  | _, _ => false
  end.

(** One exchange; [None] = the answer contradicts the statement. *)
Definition spec_step (st : sstate) (r : req) (o : resp) : option sstate :=
  match o with
  | Queued _ =>
      (* acknowledged: everything the request carries joins the queue, behind what is there *)
      if is_write r then Some {| s_vis := s_vis st; s_queue := s_queue st ++ carried r |} else None
  | Rejected _ _ =>
      (* rejected: none of its own documents queued, nothing acknowledged before is lost *)
      Some st
  | Committed =>
      match r with
      | RCommit => Some {| s_vis := apply_ops (s_vis st) (s_queue st); s_queue := [] |}
      | _ => None
      end
  | Refreshed => match r with RRefresh => Some st | _ => None end
  | Compacted => match r with RCompact => Some st | _ => None end
  | Hits l =>
      match r with
      | RSearch => if contents_eqb l (s_vis st) then Some st else None
      | _ => None
      end
  | Other _ => None
  end.

Fixpoint spec_run (st : sstate) (rs : list req) (os : list resp) : option sstate :=
  match rs, os with
  | [], [] => Some st
  | r :: rs', o :: os' =>
      match spec_step st r o with Some st' => spec_run st' rs' os' | None => None end
  | _, _ => None
  end.

Definition spec (rs : list req) (os : list resp) : bool :=
  match spec_run sinit rs os with Some _ => true | None => false end.

(** The acknowledged operations of a history, split at its last successful /commit:
    (applied by some commit, still queued). *)
Definition is_ack (o : resp) : bool := match o with Queued _ => true | _ => false end.

Fixpoint acked (done pend : list op) (h : list (req * resp)) : list op * list op :=
  match h with
  | [] => (done, pend)
  | (r, o) :: h' =>
      match o with
      | Queued _ => acked done (pend ++ carried r) h'
      | Committed => acked (done ++ pend) [] h'
      | _ => acked done pend h'
      end
  end.

(** ** The tie *)

Definition ekind_eqb (a b : ekind) : bool :=
  match a, b with
  | EInvalidDocument, EInvalidDocument | EAddFailed, EAddFailed | EInvalidRequest, EInvalidRequest
  | EMissingDocuments, EMissingDocuments | EMissingIds, EMissingIds | EInvalidId, EInvalidId
  | EOtherKind, EOtherKind => true
  | _, _ => false
  end.

Definition resp_eqb (a b : resp) : bool :=
  match a, b with
  | Queued n, Queued m => n =? m
  | Rejected s k, Rejected t l => (s =? t) && ekind_eqb k l
  | Committed, Committed | Refreshed, Refreshed | Compacted, Compacted => true
  | Hits l, Hits m => contents_eqb l m
  | Other s, Other t => s =? t
  | _, _ => false
  end.

Fixpoint resps_eqb (a b : list resp) : bool :=
  match a, b with
  | [], [] => true
  | x :: a', y :: b' => resp_eqb x y && resps_eqb a' b'
  | _, _ => false
  end.

Definition check_case (c : list req * list resp) : N :=
  let (rs, os) := c in
  verdict (resps_eqb (snd (run init rs)) os) (spec rs os) 0.
