(** C23 — proofs about the queue machine of C23/Model.v. *)
From Coq Require Import List Arith NArith Bool Lia.
From SL Require Import Base.Tie C23.Model.
Import ListNotations.
Open Scope N_scope.

Definition is_good (d : vdoc) : bool := match d with VGood _ _ => true | VInvalid => false end.
Definition vdoc_ops (d : vdoc) : list op := match d with VGood i v => [OAdd i v] | VInvalid => [] end.
Definition goods (ds : list vdoc) : list op := flat_map vdoc_ops ds.
Definition all_good (ds : list vdoc) : bool := forallb is_good ds.

Lemma firstn_len_app {A} (a b : list A) : firstn (length a) (a ++ b) = a.
Proof.
  rewrite firstn_app, Nat.sub_diag, firstn_all. cbn. apply app_nil_r.
Qed.

(** The loop with a savepoint: either every document is appended behind what was there, or the
    writer and the log are exactly what they were at the savepoint. *)
Lemma add_loop_savepoint : forall docs p0 w0 xp xw,
  add_loop RbSavepoint (length p0) (length w0) (p0 ++ xp) (w0 ++ xw) docs =
  if all_good docs then (true, p0 ++ xp ++ goods docs, w0 ++ xw ++ goods docs)
  else (false, p0, w0).
Proof.
  induction docs as [|d ds IH]; intros p0 w0 xp xw.
  - cbn. now rewrite !app_nil_r.
  - destruct d as [i v|].
    + cbn [add_loop all_good forallb is_good andb goods flat_map vdoc_ops].
      rewrite <- !app_assoc. rewrite IH.
      fold (all_good ds). fold (goods ds).
      destruct (all_good ds); [|reflexivity].
      now rewrite <- !app_assoc.
    + cbn [add_loop all_good forallb is_good andb].
      now rewrite !firstn_len_app.
Qed.

Lemma ingest_char : forall s docs,
  ingest RbSavepoint s docs =
  if all_good docs
  then ({| committed := committed s; wal := wal s ++ goods docs |}, Queued (N.of_nat (length docs)))
  else (s, Rejected 400 EAddFailed).
Proof.
  intros s docs. unfold ingest.
  pose proof (add_loop_savepoint docs (wal s) (wal s) [] []) as H.
  rewrite !app_nil_r in H. rewrite H.
  destruct (all_good docs); cbn; [reflexivity|].
  destruct s; reflexivity.
Qed.

Lemma parse_lines_carried : forall ls ds, parse_lines ls = Some ds -> flat_map line_ops ls = goods ds.
Proof.
  induction ls as [|l ls IH]; intros ds H.
  - inversion H. reflexivity.
  - destruct l as [| | |d]; cbn in H; try discriminate.
    + cbn. now apply IH.
    + destruct (parse_lines ls) as [ds'|] eqn:E; [|discriminate].
      inversion H; subst. cbn [flat_map goods]. rewrite (IH ds' eq_refl).
      destruct d; reflexivity.
Qed.

Lemma parse_items_carried : forall bs ds, parse_items bs = Some ds -> flat_map bitem_ops bs = goods ds.
Proof.
  induction bs as [|b bs IH]; intros ds H.
  - inversion H. reflexivity.
  - destruct b as [|d]; cbn in H; try discriminate.
    destruct (parse_items bs) as [ds'|] eqn:E; [|discriminate].
    inversion H; subst. cbn [flat_map goods]. rewrite (IH ds' eq_refl).
    destruct d; reflexivity.
Qed.

Lemma parse_ids_carried : forall l is, parse_ids l = Some is -> flat_map did_ops l = map ODel is.
Proof.
  induction l as [|d l IH]; intros is H.
  - inversion H. reflexivity.
  - destruct d as [i|]; cbn in H; try discriminate.
    destruct (parse_ids l) as [is'|] eqn:E; [|discriminate].
    inversion H; subst. cbn. now rewrite (IH is' eq_refl).
Qed.

(** What one request does, read off its answer. *)
Definition effect (s : store) (r : req) (o : resp) (s' : store) : Prop :=
  match o with
  | Queued _ => is_write r = true /\ committed s' = committed s /\ wal s' = wal s ++ carried r
  | Committed => r = RCommit /\ committed s' = apply_ops (committed s) (wal s) /\ wal s' = []
  | Rejected st _ => s' = s /\ st = 400
  | Refreshed => r = RRefresh /\ s' = s
  | Compacted => r = RCompact /\ s' = s
  | Hits l => r = RSearch /\ s' = s /\ l = committed s
  | Other _ => False
  end.

Lemma ingest_effect : forall s r docs,
  is_write r = true -> carried r = goods docs ->
  effect s r (snd (ingest RbSavepoint s docs)) (fst (ingest RbSavepoint s docs)).
Proof.
  intros s r docs Hw Hc. rewrite ingest_char.
  destruct (all_good docs); cbn; [|auto].
  rewrite Hc. auto.
Qed.

Lemma step_effect : forall s r, effect s r (snd (step s r)) (fst (step s r)).
Proof.
  intros s r. unfold step. destruct r as [ls|b|b| | | |].
  - cbn [step_rb]. destruct (parse_lines ls) as [ds|] eqn:E.
    + destruct ds as [|d ds].
      * cbn. rewrite (parse_lines_carried _ _ E). cbn. now rewrite app_nil_r.
      * apply ingest_effect; [reflexivity|]. cbn [carried]. now apply parse_lines_carried.
    + cbn. auto.
  - destruct b as [bs|]; [|cbn; auto].
    destruct bs as [|b bs]; [cbn; auto|].
    cbn [step_rb]. destruct (parse_items (b :: bs)) as [ds|] eqn:E.
    + apply ingest_effect; [reflexivity|]. cbn [carried]. now apply parse_items_carried.
    + cbn. auto.
  - destruct b as [l|]; [|cbn; auto].
    destruct l as [|d l]; [cbn; auto|].
    cbn [step_rb]. destruct (parse_ids (d :: l)) as [is|] eqn:E.
    + cbn [snd fst effect committed wal is_write carried].
      rewrite (parse_ids_carried _ _ E). auto.
    + cbn. auto.
  - cbn. auto.
  - cbn. auto.
  - cbn. auto.
  - cbn. auto.
Qed.

Lemma run_cons : forall s r rs,
  run s (r :: rs) =
  (fst (run (fst (step s r)) rs), snd (step s r) :: snd (run (fst (step s r)) rs)).
Proof.
  intros. unfold run, step. cbn [run_rb].
  destruct (step_rb RbSavepoint s r) as [s1 o]. cbn [fst snd].
  destruct (run_rb RbSavepoint s1 rs) as [s2 os]. reflexivity.
Qed.

Lemma run_length : forall rs s, length (snd (run s rs)) = length rs.
Proof.
  induction rs as [|r rs IH]; intros s; [reflexivity|].
  rewrite run_cons. cbn. now rewrite IH.
Qed.

(** A rejected request leaves the server exactly as it was: none of its own documents are
    queued, and nothing acknowledged earlier is lost. *)
Lemma reject_queues_nothing : forall s r st k,
  snd (step s r) = Rejected st k -> fst (step s r) = s.
Proof.
  intros s r st k H. pose proof (step_effect s r) as E. rewrite H in E. apply E.
Qed.

Lemma apply_ops_app : forall m a b, apply_ops (apply_ops m a) b = apply_ops m (a ++ b).
Proof. intros. unfold apply_ops. now rewrite fold_left_app. Qed.

(** Acknowledged operations are preserved, in order, until a commit applies them. *)
Lemma ack_preserved_gen : forall rs s done pend,
  committed s = apply_ops [] done -> wal s = pend ->
  committed (fst (run s rs)) = apply_ops [] (fst (acked done pend (combine rs (snd (run s rs)))))
  /\ wal (fst (run s rs)) = snd (acked done pend (combine rs (snd (run s rs)))).
Proof.
  induction rs as [|r rs IH]; intros s done pend Hc Hw.
  - cbn. auto.
  - rewrite run_cons. cbn [fst snd combine acked].
    pose proof (step_effect s r) as E.
    destruct (snd (step s r)) as [n|st k| | | |l|st] eqn:Eo; cbn [effect] in E.
    + destruct E as (_ & E1 & E2). apply IH; [congruence|]. rewrite E2. now rewrite Hw.
    + destruct E as (E & _). apply IH; rewrite E; assumption.
    + destruct E as (_ & E1 & E2). apply IH; [|assumption].
      rewrite E1, Hc, Hw. apply apply_ops_app.
    + destruct E as (_ & E). apply IH; rewrite E; assumption.
    + destruct E as (_ & E). apply IH; rewrite E; assumption.
    + destruct E as (_ & E & _). apply IH; rewrite E; assumption.
    + contradiction.
Qed.

Lemma ack_preserved : forall rs,
  let s := fst (run init rs) in
  let h := combine rs (snd (run init rs)) in
  committed s = apply_ops [] (fst (acked [] [] h)) /\ wal s = snd (acked [] [] h).
Proof. intros rs. apply ack_preserved_gen; reflexivity. Qed.

Lemma contents_eqb_refl : forall m, contents_eqb m m = true.
Proof.
  induction m as [|[i v] m IH]; [reflexivity|].
  cbn. now rewrite !N.eqb_refl, IH.
Qed.

Lemma contents_eqb_eq : forall a b, contents_eqb a b = true -> a = b.
Proof.
  induction a as [|[i v] a IH]; intros [|[j w] b] H; cbn in H; try discriminate; [reflexivity|].
  apply andb_true_iff in H as [H H3]. apply andb_true_iff in H as [H1 H2].
  apply N.eqb_eq in H1, H2. subst. f_equal. now apply IH.
Qed.

Lemma model_meets_spec_gen : forall rs s st,
  s_vis st = committed s -> s_queue st = wal s ->
  spec_run st rs (snd (run s rs)) <> None.
Proof.
  induction rs as [|r rs IH]; intros s st Hv Hq.
  - cbn. discriminate.
  - rewrite run_cons. cbn [snd spec_run].
    pose proof (step_effect s r) as E.
    destruct (snd (step s r)) as [n|st' k| | | |l|st'] eqn:Eo; cbn [effect] in E; cbn [spec_step].
    + destruct E as (Ew & E1 & E2). rewrite Ew. apply IH; cbn [s_vis s_queue]; [congruence|]. rewrite Hq. symmetry. exact E2.
    + destruct E as (E & _). apply IH; rewrite E; assumption.
    + destruct E as (Er & E1 & E2). subst r. apply IH; cbn [s_vis s_queue]; [|now rewrite E2].
      now rewrite E1, Hv, Hq.
    + destruct E as (Er & E). subst r. apply IH; rewrite E; assumption.
    + destruct E as (Er & E). subst r. apply IH; rewrite E; assumption.
    + destruct E as (Er & E & El). subst r. rewrite El, Hv, contents_eqb_refl.
      apply IH; rewrite E; assumption.
    + contradiction.
Qed.

Lemma model_meets_spec : forall rs, spec rs (snd (run init rs)) = true.
Proof.
  intros rs. unfold spec.
  pose proof (model_meets_spec_gen rs init sinit eq_refl eq_refl) as H.
  destruct (spec_run sinit rs (snd (run init rs))); [reflexivity|contradiction].
Qed.

(** A request whose every part is well formed is acknowledged with the number of documents. *)
Definition clean_line (l : line) : bool :=
  match l with LBlank => true | LDoc (VGood _ _) => true | _ => false end.

Lemma parse_lines_clean : forall ls, forallb clean_line ls = true ->
  exists ds, parse_lines ls = Some ds /\ all_good ds = true /\ goods ds = flat_map line_ops ls.
Proof.
  induction ls as [|l ls IH]; intros H.
  - exists []. auto.
  - cbn in H. apply andb_true_iff in H as [Hl H]. destruct (IH H) as (ds & E1 & E2 & E3).
    destruct l as [| | |[i v|]]; try discriminate.
    + exists ds. cbn. auto.
    + exists (VGood i v :: ds). cbn [parse_lines]. rewrite E1. repeat split; [assumption|].
      cbn. now rewrite <- E3.
Qed.

Lemma clean_add_acked : forall s ls,
  forallb clean_line ls = true ->
  exists n, snd (step s (RAdd ls)) = Queued n /\ wal (fst (step s (RAdd ls))) = wal s ++ carried (RAdd ls).
Proof.
  intros s ls H. destruct (parse_lines_clean ls H) as (ds & E1 & E2 & E3).
  unfold step. cbn [step_rb carried]. rewrite E1. destruct ds as [|d ds].
  - exists 0. cbn. cbn in E3. now rewrite <- E3, app_nil_r.
  - rewrite ingest_char, E2. eexists. cbn [fst snd wal]. rewrite E3. split; reflexivity.
Qed.

(** The handlers as they were before the fix ([rollback()] = truncate the whole shared log) do
    not satisfy the statement. *)
Lemma full_rollback_refuted :
  exists rs, spec rs (snd (run_rb RbAll init rs)) = false.
Proof.
  exists [RAdd [LDoc (VGood 1 1)]; RAdd [LDoc (VGood 2 1); LDoc VInvalid]; RCommit; RSearch].
  vm_compute. reflexivity.
Qed.

(** [set]/[unset] implement a finite map on id-sorted contents. *)
Fixpoint lb (x : N) (m : contents) : Prop :=
  match m with [] => True | (j, _) :: m' => x < j /\ lb x m' end.
Fixpoint sorted (m : contents) : Prop :=
  match m with [] => True | (j, _) :: m' => lb j m' /\ sorted m' end.

Lemma lb_trans : forall m x y, x < y -> lb y m -> lb x m.
Proof.
  induction m as [|[j w] m IH]; intros x y Hxy H; cbn in *; [exact I|].
  destruct H as [H1 H2]. split; [lia|]. eapply IH; eauto.
Qed.

Lemma lb_lookup_none : forall m x, lb x m -> lookup x m = None.
Proof.
  induction m as [|[j w] m IH]; intros x H; cbn in *; [reflexivity|].
  destruct H as [H1 H2]. destruct (N.eqb_spec x j); [lia|]. apply IH. exact H2.
Qed.

Lemma lb_set : forall m x i v, x < i -> lb x m -> lb x (set i v m).
Proof.
  induction m as [|[j w] m IH]; intros x i v Hx H; cbn in *; [auto|].
  destruct H as [H1 H2].
  destruct (N.ltb_spec i j); cbn; [auto|].
  destruct (N.eqb_spec i j); cbn; [auto|]. split; [assumption|]. now apply IH.
Qed.

Lemma lb_unset : forall m x i, lb x m -> lb x (unset i m).
Proof.
  induction m as [|[j w] m IH]; intros x i H; cbn in *; [auto|].
  destruct H as [H1 H2]. destruct (N.eqb_spec i j); cbn; auto.
Qed.

Lemma sorted_set : forall m i v, sorted m -> sorted (set i v m).
Proof.
  induction m as [|[j w] m IH]; intros i v H; cbn in *; [auto|].
  destruct H as [H1 H2].
  destruct (N.ltb_spec i j); cbn.
  - repeat split; auto. eapply lb_trans; eauto.
  - destruct (N.eqb_spec i j); cbn.
    + subst. auto.
    + split; [|now apply IH]. apply lb_set; [lia|assumption].
Qed.

Lemma sorted_unset : forall m i, sorted m -> sorted (unset i m).
Proof.
  induction m as [|[j w] m IH]; intros i H; cbn in *; [auto|].
  destruct H as [H1 H2]. destruct (N.eqb_spec i j); cbn; [assumption|].
  split; [now apply lb_unset|now apply IH].
Qed.

Lemma lookup_set : forall m i v x, lookup x (set i v m) = if x =? i then Some v else lookup x m.
Proof.
  induction m as [|[j w] m IH]; intros i v x; cbn; [reflexivity|].
  destruct (N.ltb_spec i j); cbn; [reflexivity|].
  destruct (N.eqb_spec i j); cbn.
  - subst. destruct (N.eqb_spec x j); reflexivity.
  - rewrite IH. destruct (N.eqb_spec x j); destruct (N.eqb_spec x i); try reflexivity. lia.
Qed.

Lemma lookup_unset : forall m i x, sorted m ->
  lookup x (unset i m) = if x =? i then None else lookup x m.
Proof.
  induction m as [|[j w] m IH]; intros i x H; cbn in *.
  - now destruct (x =? i).
  - destruct H as [H1 H2]. destruct (N.eqb_spec i j); cbn.
    + subst. destruct (N.eqb_spec x j); [subst; now apply lb_lookup_none|reflexivity].
    + rewrite (IH i x H2). destruct (N.eqb_spec x j); destruct (N.eqb_spec x i); try reflexivity. lia.
Qed.

Lemma sorted_apply_ops : forall q m, sorted m -> sorted (apply_ops m q).
Proof.
  induction q as [|o q IH]; intros m H; [assumption|].
  cbn. apply IH. destruct o; cbn; [now apply sorted_set|now apply sorted_unset].
Qed.
