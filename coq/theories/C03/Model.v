(** C03 — storage errors: executable specification over a history whose calls may have had a
    storage fault injected, and (below) a model of the commit path under faults.

    Specification, from the statement: a call that returns an error leaves the committed contents
    unchanged - both as new readers of the running index see them and as a reopen from storage
    sees them - with the queued operations still retryable; a call that returns success has its
    effects fully applied; the stored index always opens. An operation whose own add/delete call
    returned an error may or may not be queued (the statement does not say), so the specification
    tracks the finite set of possibilities. *)
From Coq Require Import List NArith Bool.
From SL Require Import Base.Tie Core.Model C02.Model.
Import ListNotations.
Open Scope N_scope.

(** one possibility: committed contents and the durable log since the last truncation, each
    operation flagged [true] when the live handle also holds it in memory, [false] when only the
    log holds it (its add/delete call failed after the bytes were written): such an orphan is not
    applied by the live handle's commit - whose truncation discards it - but is recovered by the
    next handle. *)
Definition poss := (cmap * list (pop * bool))%type.

Definition held (q : list (pop * bool)) : list pop := map fst (filter snd q).

Definition ok_step (a : api) (p : poss) : list poss :=
  let (c, q) := p in
  match a with
  | NewWriter _ => [(c, map (fun x => (fst x, true)) q)]
  | AddDoc _ _ id v => [(c, q ++ [(PAdd id v, true)])]
  | DelDoc _ _ id => [(c, q ++ [(PDel id, true)])]
  | Commit _ => if is_nil (held q) then [(c, q)] else [(apply_all (held q) c, [])]
  | Rollback _ => [(c, [])]
  | _ => [(c, q)]
  end.

Definition err_step (a : api) (p : poss) : list poss :=
  let (c, q) := p in
  match a with
  | AddDoc _ _ id v => [(c, q); (c, q ++ [(PAdd id v, false)])]
  | DelDoc _ _ id => [(c, q); (c, q ++ [(PDel id, false)])]
  | Rollback _ =>
      (* the handle's queue is cleared before the log is truncated: a failing truncation can leave
         nothing changed as far as the specification can tell, everything discarded, or every
         operation still in the log but no longer held by the handle (recovered by the next one) *)
      [(c, q); (c, []); (c, map (fun x => (fst x, false)) q)]
  | _ => [(c, q)]
  end.

(** one observed call: the call, whether it returned Ok, the contents seen by a new reader of the
    running index and by a reopen from the same storage ([None] = could not be opened/read) *)
Record obs03 := { o_call : api; o_ok : bool; o_mem : option (list (N * N)); o_disk : option (list (N * N));
                  o_faults : N (* faults that fired during this call *) }.

Definition matches (o : obs03) (p : poss) : bool :=
  match o_mem o, o_disk o with
  | Some m, Some d => cont_eqb m (fst p) && cont_eqb d (fst p)
  | _, _ => false
  end.

Fixpoint spec_run03 (ps : list poss) (i : N) (evs : list obs03) : option N * list poss :=
  match evs with
  | [] => (None, ps)
  | o :: evs' =>
      let next := flat_map (if o_ok o then ok_step (o_call o) else err_step (o_call o)) ps in
      let keep := filter (matches o) next in
      match keep with
      | [] => (Some i, ps)
      | _ => spec_run03 keep (N.succ i) evs'
      end
  end.

(** a case: how many injected faults actually fired; the observed calls; the result of the final
    healthy [writer(); commit()]: the contents a new reader of the running index sees and the
    contents a reopen from the same storage sees ([None] when that commit failed or the index
    could not be read).  With at most one fault the two must agree and be explained by a tracked
    possibility.  With two faults only the second sentence of the statement applies: the running
    index and the stored index stay readable (a commit whose error path itself failed may leave the
    stored manifest ahead of the running one; the statement does not exclude that). *)
Definition case03 := (N * list obs03 * (option (list (N * N)) * option (list (N * N))))%type.

Definition readable (o : obs03) : bool :=
  match o_mem o, o_disk o with Some _, Some _ => true | _, _ => false end.

Definition spec (c : case03) : bool :=
  let '(nf, evs, (fmem, fdisk)) := c in
  if nf <=? 1 then
    match spec_run03 [([], [])] 0 evs with
    | (Some _, _) => false
    | (None, ps) =>
        match fmem, fdisk with
        | Some f, Some g =>
            cont_eqb f g && existsb (fun p => cont_eqb f (apply_all (map fst (snd p)) (fst p))) ps
        | _, _ => false
        end
    end
  else forallb readable evs && match fmem, fdisk with Some _, Some _ => true | _, _ => false end.

(** * The commit path under storage faults (api/writer.rs, IndexWriter::commit, after the repairs)

    Steps that touch storage, in order; each may fail before or after its effect. *)
Inductive fk := NoF | FBefore | FAfter.

Record faults := {
  f_walsync : fk;      (* wal.sync() at the start                         *)
  f_seg : fk;          (* anything inside write_segment                   *)
  f_store : fk;        (* new_manifest.store                              *)
  f_marker : fk;       (* wal.append_commit                               *)
  f_markersync : fk;   (* wal.sync() after the marker                     *)
  f_etrunc : fk;       (* error path: wal.truncate_to(wal_len)            *)
  f_erestore : fk;     (* error path: manifest_snapshot.store             *)
  f_trunc : fk         (* wal.truncate() after publishing                 *)
}.

Record cres := {
  r_ok : bool;            (* commit returned Ok                                  *)
  r_mem_new : bool;       (* new readers of the running index see the new state  *)
  r_disk_new : bool;      (* the stored manifest is the new one                  *)
  r_newseg : bool;        (* the new segment's files exist                       *)
  r_queue_kept : bool     (* the handle still holds its queue                    *)
}.

Definition failed (k : fk) : bool := match k with NoF => false | _ => true end.
Definition took_effect (k : fk) : bool := match k with FBefore => false | _ => true end.

(** [fixed_trunc]: a failing final truncation is logged, not returned.
    [fixed_cleanup]: new segment files are deleted only after a successful manifest restore. *)
Definition commit_f (fixed_trunc fixed_cleanup : bool) (f : faults) : cres :=
  if failed (f_walsync f) then
    {| r_ok := false; r_mem_new := false; r_disk_new := false; r_newseg := false; r_queue_kept := true |}
  else if failed (f_seg f) then
    {| r_ok := false; r_mem_new := false; r_disk_new := false; r_newseg := false; r_queue_kept := true |}
  else
    let stored := took_effect (f_store f) in
    let inner_failed :=
      failed (f_store f) || failed (f_marker f) || failed (f_markersync f) in
    if inner_failed then
      (* error path: truncate_to (result ignored), restore, cleanup *)
      let restore_effect := took_effect (f_erestore f) in
      let restored_ok := negb (failed (f_erestore f)) in
      let disk_new := stored && negb restore_effect in
      let cleanup := if fixed_cleanup then restored_ok else true in
      {| r_ok := false; r_mem_new := false; r_disk_new := disk_new; r_newseg := negb cleanup;
         r_queue_kept := true |}
    else
      (* published *)
      if failed (f_trunc f) && negb fixed_trunc then
        {| r_ok := false; r_mem_new := true; r_disk_new := true; r_newseg := true; r_queue_kept := true |}
      else
        {| r_ok := true; r_mem_new := true; r_disk_new := true; r_newseg := true; r_queue_kept := false |}.

Definition nfaults (f : faults) : nat :=
  length (filter failed [f_walsync f; f_seg f; f_store f; f_marker f; f_markersync f; f_etrunc f; f_erestore f; f_trunc f]).

(** what the statement asks of one commit *)
Definition single_ok (r : cres) : bool :=
  (if r_ok r then r_mem_new r && r_disk_new r else negb (r_mem_new r) && negb (r_disk_new r) && r_queue_kept r)
  && (implb (r_disk_new r) (r_newseg r)).
Definition openable (r : cres) : bool := implb (r_disk_new r) (r_newseg r).

Definition all_fk : list fk := [NoF; FBefore; FAfter].
Definition all_faults : list faults :=
  flat_map (fun a => flat_map (fun b => flat_map (fun c => flat_map (fun d => flat_map (fun e =>
  flat_map (fun g => flat_map (fun h => map (fun i =>
    {| f_walsync := a; f_seg := b; f_store := c; f_marker := d; f_markersync := e; f_etrunc := g;
       f_erestore := h; f_trunc := i |}) all_fk) all_fk) all_fk) all_fk) all_fk) all_fk) all_fk) all_fk.

(** correspondence with the commit model: every commit during which faults fired must show an
    outcome the model can produce with that many faults (result; "contents changed" implies the
    model says "new state") *)
Definition opt_changed (pre now : option (list (N * N))) : bool :=
  match pre, now with
  | Some a, Some b => negb (plist_eqb (sort_by_id a) (sort_by_id b))
  | _, _ => true
  end.

Definition outcome_in_model (nf : N) (ok memch diskch : bool) : bool :=
  existsb (fun f =>
    Nat.leb (nfaults f) (N.to_nat nf) &&
    let r := commit_f true true f in
    Bool.eqb (r_ok r) ok && implb memch (r_mem_new r) && implb diskch (r_disk_new r))
  all_faults.

Fixpoint corr_run (pre : option (list (N * N))) (evs : list obs03) : bool :=
  match evs with
  | [] => true
  | o :: evs' =>
      (match o_call o with
       | Commit _ =>
           if o_faults o =? 0 then true
           else outcome_in_model (o_faults o) (o_ok o) (opt_changed pre (o_mem o)) (opt_changed pre (o_disk o))
       | _ => true
       end) && corr_run (o_mem o) evs'
  end.

Definition corr (c : case03) : bool := let '(_, evs, _) := c in corr_run (Some []) evs.

Definition check_case (c : case03) : N := verdict (corr c) (spec c) 0.
