(** C03/Others.v — add/delete, rollback and compaction under storage faults (api/writer.rs
    add_document / delete_documents / rollback, index/mod.rs compact), in the style of
    [commit_f]: every storage-touching step may fail before or after its effect; the result says
    what the running index and the stored index show afterwards.  Committed contents are abstract:
    [false] = unchanged.  All statements are finite sweeps lifted to all fault assignments. *)
From Coq Require Import List Bool Arith.
From SL Require Import C03.Model.
Import ListNotations.

(** * add_document / delete_documents (one id): validate; wal.append (write); push to the queue *)
Record add_res := {
  a_ok : bool;            (* the call returned Ok                        *)
  a_in_queue : bool;      (* the handle's in-memory queue holds the op   *)
  a_in_log : bool;        (* the log holds the record                    *)
  a_contents_changed : bool
}.

Definition add_f (f_write : fk) : add_res :=
  match f_write with
  | NoF => {| a_ok := true; a_in_queue := true; a_in_log := true; a_contents_changed := false |}
  | FBefore => {| a_ok := false; a_in_queue := false; a_in_log := false; a_contents_changed := false |}
  | FAfter => {| a_ok := false; a_in_queue := false; a_in_log := true; a_contents_changed := false |}
  end.

(** * rollback: clear the queue; wal.truncate = set_len(0); seek; sync_all *)
Record rb_res := { b_ok : bool; b_queue_cleared : bool; b_log_cleared : bool; b_contents_changed : bool }.

Definition rollback_f (f_setlen f_sync : fk) : rb_res :=
  match f_setlen with
  | FBefore => {| b_ok := false; b_queue_cleared := true; b_log_cleared := false; b_contents_changed := false |}
  | FAfter => {| b_ok := false; b_queue_cleared := true; b_log_cleared := true; b_contents_changed := false |}
  | NoF =>
      {| b_ok := negb (failed f_sync); b_queue_cleared := true; b_log_cleared := true; b_contents_changed := false |}
  end.

(** * compact (more than one segment): open a reader; write the merged segment; assign the new
    segment list to the in-memory manifest; store it; clean up the old files (errors ignored) *)
Record cp_res := {
  c_ok : bool;
  c_mem_new : bool;        (* the running index refers to the merged segment *)
  c_disk_new : bool;       (* the stored manifest refers to the merged segment *)
  c_newseg : bool;         (* the merged segment's files exist *)
  c_oldsegs : bool         (* the old segments' files exist *)
}.

Definition compact_f (f_read f_seg f_store f_cleanup : fk) : cp_res :=
  if failed f_read then
    {| c_ok := false; c_mem_new := false; c_disk_new := false; c_newseg := false; c_oldsegs := true |}
  else if failed f_seg then
    {| c_ok := false; c_mem_new := false; c_disk_new := false; c_newseg := false; c_oldsegs := true |}
  else if failed f_store then
    (* the in-memory manifest was already switched; the old files are not cleaned up *)
    {| c_ok := false; c_mem_new := true; c_disk_new := took_effect f_store; c_newseg := true; c_oldsegs := true |}
  else
    (* cleanup: a failing removal is ignored; a removal that failed before its effect leaves a file behind *)
    {| c_ok := true; c_mem_new := true; c_disk_new := true; c_newseg := true;
       c_oldsegs := match f_cleanup with FBefore => true | _ => false end |}.

(** both views must refer only to existing files; contents are the same for old and new segment
    lists (compaction is content-neutral, C01_compact_neutral / C14_contents) *)
Definition compact_openable (r : cp_res) : bool :=
  (if c_mem_new r then c_newseg r else c_oldsegs r) && (if c_disk_new r then c_newseg r else c_oldsegs r).

Definition all3 : list fk := [NoF; FBefore; FAfter].

Lemma all3_complete k : In k all3.
Proof. destruct k; cbn; auto. Qed.

Lemma add_fault_safe f :
  a_contents_changed (add_f f) = false /\
  (a_ok (add_f f) = true -> a_in_queue (add_f f) = true /\ a_in_log (add_f f) = true) /\
  (a_ok (add_f f) = false -> a_in_queue (add_f f) = false).
Proof. destruct f; cbn; repeat split; intros; try discriminate; auto. Qed.

Lemma rollback_fault_safe f1 f2 :
  b_contents_changed (rollback_f f1 f2) = false /\ b_queue_cleared (rollback_f f1 f2) = true /\
  (b_ok (rollback_f f1 f2) = true -> b_log_cleared (rollback_f f1 f2) = true).
Proof. destruct f1, f2; cbn; repeat split; intros; try discriminate; auto. Qed.

Lemma compact_faults_openable f1 f2 f3 f4 : compact_openable (compact_f f1 f2 f3 f4) = true.
Proof. destruct f1, f2, f3, f4; reflexivity. Qed.

Lemma compact_ok_complete f1 f2 f3 f4 :
  c_ok (compact_f f1 f2 f3 f4) = true ->
  c_mem_new (compact_f f1 f2 f3 f4) = true /\ c_disk_new (compact_f f1 f2 f3 f4) = true.
Proof. destruct f1, f2, f3, f4; cbn; intros; try discriminate; auto. Qed.
