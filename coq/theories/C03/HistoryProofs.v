(** C03/HistoryProofs.v — every history of the fault model with at most one failing storage
    call is accepted by the specification. *)
From Coq Require Import List NArith Bool Lia Arith.
From SL Require Import Base.Tie Core.Model C02.Model C03.Model C03.Proofs C03.Others C03.History.
Import ListNotations.
Open Scope N_scope.

Lemma pair_eqb_refl3 x : pair_eqb x x = true.
Proof. destruct x as [a b]. unfold pair_eqb. cbn. rewrite !N.eqb_refl. reflexivity. Qed.

Lemma plist_eqb_refl3 l : plist_eqb l l = true.
Proof. induction l as [|x l IH]; cbn; [reflexivity|]. rewrite pair_eqb_refl3, IH. reflexivity. Qed.

Lemma cont_eqb_refl3 c : cont_eqb c c = true.
Proof. unfold cont_eqb. apply plist_eqb_refl3. Qed.

Definition no_faults : faults :=
  {| f_walsync := NoF; f_seg := NoF; f_store := NoF; f_marker := NoF; f_markersync := NoF;
     f_etrunc := NoF; f_erestore := NoF; f_trunc := NoF |}.

(** a commit that returns Ok has cleared the handle's queue *)
Lemma commit_ok_clears_sweep :
  forallb (fun f => implb (r_ok (commit_f true true f)) (negb (r_queue_kept (commit_f true true f)))) all_faults = true.
Proof. vm_compute. reflexivity. Qed.

Lemma commit_ok_clears f : r_ok (commit_f true true f) = true -> r_queue_kept (commit_f true true f) = false.
Proof.
  intros H. pose proof commit_ok_clears_sweep as S. rewrite forallb_forall in S.
  specialize (S f (all_faults_complete f)). rewrite H in S. cbn in S.
  destruct (r_queue_kept (commit_f true true f)); [discriminate|reflexivity].
Qed.

Definition step_of (ok : bool) (a : api) : poss -> list poss := if ok then ok_step a else err_step a.

(** one call of the model is one of the specification's possibilities *)
Lemma hstep_in_spec s a f s' ok :
  hstep s a f = Some (s', ok) -> (cfault_count f <= 1)%nat -> hM s = hD s ->
  hM s' = hD s' /\ In (hM s', hQ s') (step_of ok a (hM s, hQ s)).
Proof.
  intros Hs Hf Heq. unfold step_of.
  destruct a as [hh|hh cn id v|hh cn id|hh|hh|hh| |]; destruct f as [| |k|ff|f1 f2|f1 f2 f3 f4|];
    cbn [hstep] in Hs; try discriminate.
  - (* NewWriter ok *) injection Hs as <- <-. cbn. auto.
  - (* NewWriter fails *) injection Hs as <- <-. cbn. auto.
  - (* AddDoc, no fault *) destruct (hLive s); [|discriminate]. injection Hs as <- <-. cbn. auto.
  - (* AddDoc, faulted write *)
    destruct (hLive s); [|discriminate]. injection Hs as <- <-. destruct k; cbn; auto.
  - destruct (hLive s); [|discriminate]. injection Hs as <- <-. cbn. auto.
  - destruct (hLive s); [|discriminate]. injection Hs as <- <-. destruct k; cbn; auto.
  - (* Commit, no fault *)
    destruct (hLive s); [|discriminate]. cbn [ok_step err_step].
    destruct (is_nil (held (hQ s))) eqn:Hn.
    + injection Hs as <- <-. cbn [hM hQ ok_step]. rewrite Hn. cbn. auto.
    + injection Hs as <- <-. cbn. rewrite Hn, Heq. cbn. auto.
  - (* Commit, faults *)
    destruct (hLive s); [|discriminate]. cbn [ok_step err_step].
    destruct (is_nil (held (hQ s))) eqn:Hn.
    + injection Hs as <- <-. cbn [hM hQ ok_step]. rewrite Hn. cbn. auto.
    + cbn [cfault_count] in Hf. pose proof (single_fault_prop ff Hf) as (Hok & Herr & _).
      pose proof (commit_ok_clears ff) as Hclr.
      injection Hs as <- <-. cbn [hM hD hQ].
      destruct (r_ok (commit_f true true ff)) eqn:Hr.
      * destruct (Hok eq_refl) as [-> ->]. rewrite (Hclr eq_refl). cbn [ok_step]. rewrite Hn, Heq. cbn. auto.
      * destruct (Herr eq_refl) as (-> & -> & ->). cbn. auto.
  - (* Rollback, no fault *) destruct (hLive s); [|discriminate]. injection Hs as <- <-. cbn. auto.
  - (* Rollback, faults *)
    destruct (hLive s); [|discriminate]. injection Hs as <- <-.
    destruct f1; cbn; auto. destruct f2; cbn; auto.
  - (* Drop *) injection Hs as <- <-. cbn. auto.
  - injection Hs as <- <-. cbn. auto.
  - (* Compact *) injection Hs as <- <-. cbn. destruct s; auto.
  - injection Hs as <- <-. destruct (c_ok (compact_f f1 f2 f3 f4)); cbn; destruct s; auto.
  - (* Reopen *) injection Hs as <- <-. cbn. destruct s; auto.
Qed.

Lemma matches_self a s' ok f : matches (obs_of a s' ok f) (hM s', hQ s') = true \/ hM s' <> hD s'.
Proof.
  destruct (list_eq_dec (fun x y : N * N => ltac:(decide equality; apply N.eq_dec)) (hM s') (hD s')) as [E|E];
    [left|right; exact E].
  unfold matches, obs_of. cbn. rewrite <- E, cont_eqb_refl3. reflexivity.
Qed.

Lemma spec_run03_accepts : forall script s os sf ps i,
  hrun s script = Some (os, sf) -> (script_faults script <= 1)%nat -> hM s = hD s ->
  In (hM s, hQ s) ps ->
  exists ps', spec_run03 ps i os = (None, ps') /\ In (hM sf, hQ sf) ps' /\ hM sf = hD sf.
Proof.
  induction script as [|[a f] rest IH]; intros s os sf ps i Hrun Hf Heq Hin.
  - injection Hrun as <- <-. exists ps. cbn. auto.
  - cbn [hrun] in Hrun. destruct (hstep s a f) as [[s' ok]|] eqn:Hs; [|discriminate].
    destruct (hrun s' rest) as [[os' sf']|] eqn:Hr; [|discriminate]. injection Hrun as <- <-.
    cbn [script_faults fold_right snd] in Hf.
    destruct (hstep_in_spec s a f s' ok Hs ltac:(lia) Heq) as [Heq' Hin'].
    cbn [spec_run03]. cbv zeta.
    match goal with |- context [filter (matches ?o) ?n] => set (next := n) end.
    assert (Hnext : In (hM s', hQ s') next).
    { apply in_flat_map. exists (hM s, hQ s). split; [exact Hin|].
      unfold obs_of. cbn [o_ok o_call]. exact Hin'. }
    assert (Hkeep : In (hM s', hQ s') (filter (matches (obs_of a s' ok f)) next)).
    { apply filter_In. split; [exact Hnext|].
      destruct (matches_self a s' ok f) as [H|H]; [exact H|contradiction]. }
    destruct (filter (matches (obs_of a s' ok f)) next) as [|p keep] eqn:Hk; [destruct Hkeep|].
    apply (IH s' os' sf' (p :: keep) (N.succ i) Hr); auto.
    unfold script_faults. lia.
Qed.

Theorem history_faults_meet_spec : forall script c,
  (script_faults script <= 1)%nat -> case_of script = Some c -> spec c = true.
Proof.
  intros script c Hf Hc. unfold case_of in Hc.
  destruct (hrun h0 script) as [[os sf]|] eqn:Hr; [|discriminate]. injection Hc as <-.
  destruct (spec_run03_accepts script h0 os sf [([], [])] 0 Hr Hf eq_refl (or_introl eq_refl))
    as (ps' & Hrun & Hin & Heq).
  unfold spec. replace (N.of_nat (script_faults script) <=? 1) with true by (symmetry; apply N.leb_le; lia).
  rewrite Hrun. unfold hfinal. cbn [fst snd]. rewrite <- Heq, cont_eqb_refl3. cbn [andb].
  apply existsb_exists. exists (hM sf, hQ sf). split; [exact Hin|]. cbn [fst snd]. apply cont_eqb_refl3.
Qed.

(** the candidate list of the tie misses no single-fault assignment of a commit *)
Lemma single_faults_complete_sweep :
  forallb (fun f => implb (Nat.eqb (nfaults f) 1)
                          (existsb (fun g => if list_eq_dec (fun a b : fk => ltac:(decide equality))
                                                  [f_walsync f; f_seg f; f_store f; f_marker f; f_markersync f; f_etrunc f; f_erestore f; f_trunc f]
                                                  [f_walsync g; f_seg g; f_store g; f_marker g; f_markersync g; f_etrunc g; f_erestore g; f_trunc g]
                                             then true else false) single_faults)) all_faults = true.
Proof. vm_compute. reflexivity. Qed.
