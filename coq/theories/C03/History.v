(** C03/History.v — whole histories with one failing storage call.  Definitions only.

    A deterministic model of the writer calls (api/writer.rs, index/mod.rs compact) at the level of
    the specification's vocabulary - committed contents as the running index shows them, as the
    stored index shows them, the durable log with "held by the live handle" flags - in which every
    call takes the fault assignment of its storage-touching steps (the per-call fault models
    [commit_f], [add_f], [rollback_f], [compact_f] of Model.v / Others.v).  HistoryProofs.v proves
    that every history of this model in which at most one storage call fails, wherever it fails,
    is accepted by the possibility-set specification [C03.Model.spec]. *)
From Coq Require Import List NArith Bool.
From SL Require Import Base.Tie Core.Model C02.Model C03.Model C03.Others.
Import ListNotations.
Open Scope N_scope.

(** the faults of one call *)
Inductive cfault :=
| FNone
| FNewFails                            (* writer(): any failing read/open: no handle *)
| FAddW (k : fk)                       (* add / delete: the log write *)
| FCommitF (f : faults)
| FRollbackF (f1 f2 : fk)
| FCompactF (f1 f2 f3 f4 : fk)
| FDropSync.                           (* drop: a failing sync is ignored *)

Definition cfault_count (f : cfault) : nat :=
  match f with
  | FNone => 0
  | FNewFails | FDropSync => 1
  | FAddW k => if failed k then 1 else 0
  | FCommitF f => nfaults f
  | FRollbackF f1 f2 => length (filter failed [f1; f2])
  | FCompactF f1 f2 f3 f4 => length (filter failed [f1; f2; f3; f4])
  end.

Definition nof : faults :=
  {| f_walsync := NoF; f_seg := NoF; f_store := NoF; f_marker := NoF; f_markersync := NoF;
     f_etrunc := NoF; f_erestore := NoF; f_trunc := NoF |}.

Record hst := {
  hM : cmap;                       (* contents a new reader of the running index sees *)
  hD : cmap;                       (* contents a reopen from storage sees             *)
  hQ : list (pop * bool);          (* durable log since the last truncation / marker  *)
  hLive : bool
}.

Definition h0 : hst := {| hM := []; hD := []; hQ := []; hLive := false |}.

Definition all_held (q : list (pop * bool)) : list (pop * bool) := map (fun x => (fst x, true)) q.
Definition none_held (q : list (pop * bool)) : list (pop * bool) := map (fun x => (fst x, false)) q.

(** one call: the new state and whether the call returned Ok; [None] = the call does not fit
    (through a missing handle, or a fault of another call's kind) *)
Definition hstep (s : hst) (a : api) (f : cfault) : option (hst * bool) :=
  match a, f with
  | NewWriter _, FNone =>
      Some ({| hM := hM s; hD := hD s; hQ := all_held (hQ s); hLive := true |}, true)
  | NewWriter _, FNewFails =>
      Some ({| hM := hM s; hD := hD s; hQ := hQ s; hLive := false |}, false)
  | AddDoc _ _ id v, (FNone | FAddW _) =>
      if hLive s then
        let r := add_f (match f with FAddW k => k | _ => NoF end) in
        Some ({| hM := hM s; hD := hD s;
                 hQ := if a_in_log r then hQ s ++ [(PAdd id v, a_in_queue r)] else hQ s;
                 hLive := true |}, a_ok r)
      else None
  | DelDoc _ _ id, (FNone | FAddW _) =>
      if hLive s then
        let r := add_f (match f with FAddW k => k | _ => NoF end) in
        Some ({| hM := hM s; hD := hD s;
                 hQ := if a_in_log r then hQ s ++ [(PDel id, a_in_queue r)] else hQ s;
                 hLive := true |}, a_ok r)
      else None
  | Commit _, (FNone | FCommitF _) =>
      if hLive s then
        if is_nil (held (hQ s)) then Some (s, true)      (* nothing queued: returns before any storage call *)
        else
          let r := commit_f true true (match f with FCommitF x => x | _ => nof end) in
          let post := apply_all (held (hQ s)) (hM s) in
          Some ({| hM := if r_mem_new r then post else hM s;
                   hD := if r_disk_new r then apply_all (held (hQ s)) (hD s) else hD s;
                   hQ := if r_queue_kept r then hQ s else [];
                   hLive := true |}, r_ok r)
      else None
  | Rollback _, (FNone | FRollbackF _ _) =>
      if hLive s then
        let r := match f with FRollbackF f1 f2 => rollback_f f1 f2 | _ => rollback_f NoF NoF end in
        Some ({| hM := hM s; hD := hD s;
                 hQ := if b_log_cleared r then [] else none_held (hQ s);
                 hLive := true |}, b_ok r)
      else None
  | DropWriter _, (FNone | FDropSync) =>
      Some ({| hM := hM s; hD := hD s; hQ := hQ s; hLive := false |}, true)
  | Compact, FNone => Some (s, true)
  | Compact, FCompactF f1 f2 f3 f4 =>
      (* content-neutral whichever segment list either side ends up with *)
      Some (s, c_ok (compact_f f1 f2 f3 f4))
  | Reopen, FNone => Some (s, true)
  | _, _ => None
  end.

Definition obs_of (a : api) (s' : hst) (ok : bool) (f : cfault) : obs03 :=
  {| o_call := a; o_ok := ok; o_mem := Some (hM s'); o_disk := Some (hD s');
     o_faults := N.of_nat (cfault_count f) |}.

(** a script: calls with their faults; the run gives the observations and the last state *)
Fixpoint hrun (s : hst) (script : list (api * cfault)) : option (list obs03 * hst) :=
  match script with
  | [] => Some ([], s)
  | (a, f) :: rest =>
      match hstep s a f with
      | None => None
      | Some (s', ok) =>
          match hrun s' rest with
          | None => None
          | Some (os, sf) => Some (obs_of a s' ok f :: os, sf)
          end
      end
  end.

Definition script_faults (script : list (api * cfault)) : nat :=
  fold_right (fun x n => (cfault_count (snd x) + n)%nat) 0%nat script.

(** the final healthy [drop; writer(); commit()]: every operation still in the log is applied *)
Definition hfinal (s : hst) : cmap * cmap :=
  (apply_all (map fst (hQ s)) (hM s), apply_all (map fst (hQ s)) (hD s)).

Definition case_of (script : list (api * cfault)) : option case03 :=
  match hrun h0 script with
  | None => None
  | Some (os, sf) =>
      Some (N.of_nat (script_faults script), os, (Some (fst (hfinal sf)), Some (snd (hfinal sf))))
  end.

(** * the tie: is a real run producible by the model?  The fault kind of a faulted call is not
    observed, so all candidates of the call's kind are tried and the set of model states that
    explain the observations so far is carried along. *)
(** the 16 assignments with exactly one failing step *)
Definition single_faults : list faults :=
  flat_map (fun k =>
    [ {| f_walsync := k; f_seg := NoF; f_store := NoF; f_marker := NoF; f_markersync := NoF; f_etrunc := NoF; f_erestore := NoF; f_trunc := NoF |};
      {| f_walsync := NoF; f_seg := k; f_store := NoF; f_marker := NoF; f_markersync := NoF; f_etrunc := NoF; f_erestore := NoF; f_trunc := NoF |};
      {| f_walsync := NoF; f_seg := NoF; f_store := k; f_marker := NoF; f_markersync := NoF; f_etrunc := NoF; f_erestore := NoF; f_trunc := NoF |};
      {| f_walsync := NoF; f_seg := NoF; f_store := NoF; f_marker := k; f_markersync := NoF; f_etrunc := NoF; f_erestore := NoF; f_trunc := NoF |};
      {| f_walsync := NoF; f_seg := NoF; f_store := NoF; f_marker := NoF; f_markersync := k; f_etrunc := NoF; f_erestore := NoF; f_trunc := NoF |};
      {| f_walsync := NoF; f_seg := NoF; f_store := NoF; f_marker := NoF; f_markersync := NoF; f_etrunc := k; f_erestore := NoF; f_trunc := NoF |};
      {| f_walsync := NoF; f_seg := NoF; f_store := NoF; f_marker := NoF; f_markersync := NoF; f_etrunc := NoF; f_erestore := k; f_trunc := NoF |};
      {| f_walsync := NoF; f_seg := NoF; f_store := NoF; f_marker := NoF; f_markersync := NoF; f_etrunc := NoF; f_erestore := NoF; f_trunc := k |} ])
    [FBefore; FAfter].

Definition candidates (a : api) (nf : N) : list cfault :=
  if nf =? 0 then [FNone]
  else match a with
       | NewWriter _ => [FNewFails]
       | AddDoc _ _ _ _ | DelDoc _ _ _ => [FAddW FBefore; FAddW FAfter]
       | Commit _ => map FCommitF single_faults
       | Rollback _ => [FRollbackF FBefore NoF; FRollbackF FAfter NoF; FRollbackF NoF FBefore; FRollbackF NoF FAfter]
       | DropWriter _ => [FDropSync]
       | Compact => flat_map (fun k => [FCompactF k NoF NoF NoF; FCompactF NoF k NoF NoF;
                                         FCompactF NoF NoF k NoF; FCompactF NoF NoF NoF k]) [FBefore; FAfter]
       | Reopen => []
       end.

Definition obs_matches (o : obs03) (s' : hst) (ok : bool) : bool :=
  Bool.eqb (o_ok o) ok &&
  match o_mem o, o_disk o with
  | Some m, Some d => cont_eqb m (hM s') && cont_eqb d (hD s')
  | _, _ => false
  end.

Definition step_states (ss : list hst) (o : obs03) : list hst :=
  flat_map (fun s =>
    flat_map (fun f =>
      match hstep s (o_call o) f with
      | Some (s', ok) => if obs_matches o s' ok then [s'] else []
      | None => []
      end) (candidates (o_call o) (o_faults o))) ss.

Fixpoint accepts_h (ss : list hst) (evs : list obs03) : list hst :=
  match evs with
  | [] => ss
  | o :: evs' => match step_states ss o with [] => [] | ss' => accepts_h ss' evs' end
  end.

Definition corr_h (c : case03) : bool :=
  let '(nf, evs, (fmem, fdisk)) := c in
  if nf <=? 1 then
    match fmem, fdisk with
    | Some fm, Some fd =>
        existsb (fun s => cont_eqb fm (fst (hfinal s)) && cont_eqb fd (snd (hfinal s))) (accepts_h [h0] evs)
    | _, _ => false
    end
  else corr c.

(** verdict of one real run *)
Definition check_case_h (c : case03) : N := verdict (corr_h c) (spec c) 0.
