From Coq Require Import List NArith Bool Lia Arith.
From SL Require Import Base.Tie Core.Model C02.Model C03.Model.
Import ListNotations.

Lemma all_fk_complete k : In k all_fk.
Proof. destruct k; cbn; auto. Qed.

Lemma all_faults_complete f : In f all_faults.
Proof.
  destruct f as [a b c d e g h i]. unfold all_faults.
  apply in_flat_map. exists a. split; [apply all_fk_complete|].
  apply in_flat_map. exists b. split; [apply all_fk_complete|].
  apply in_flat_map. exists c. split; [apply all_fk_complete|].
  apply in_flat_map. exists d. split; [apply all_fk_complete|].
  apply in_flat_map. exists e. split; [apply all_fk_complete|].
  apply in_flat_map. exists g. split; [apply all_fk_complete|].
  apply in_flat_map. exists h. split; [apply all_fk_complete|].
  apply in_map_iff. exists i. split; [reflexivity | apply all_fk_complete].
Qed.

(** finite sweep over all 3^8 fault assignments, lifted to a universally quantified statement *)
Lemma single_fault_sweep :
  forallb (fun f => implb (Nat.leb (nfaults f) 1) (single_ok (commit_f true true f))) all_faults = true.
Proof. vm_compute. reflexivity. Qed.

Lemma any_fault_openable_sweep :
  forallb (fun f => openable (commit_f true true f)) all_faults = true.
Proof. vm_compute. reflexivity. Qed.

Lemma single_fault f : (nfaults f <= 1)%nat -> single_ok (commit_f true true f) = true.
Proof.
  intros H. pose proof single_fault_sweep as S. rewrite forallb_forall in S.
  specialize (S f (all_faults_complete f)). apply Nat.leb_le in H. rewrite H in S. exact S.
Qed.

Lemma any_faults_openable f : openable (commit_f true true f) = true.
Proof.
  pose proof any_fault_openable_sweep as S. rewrite forallb_forall in S. exact (S f (all_faults_complete f)).
Qed.

Lemma single_fault_prop (f : faults) :
  (nfaults f <= 1)%nat ->
  let r := commit_f true true f in
  (r_ok r = true -> r_mem_new r = true /\ r_disk_new r = true) /\
  (r_ok r = false -> r_mem_new r = false /\ r_disk_new r = false /\ r_queue_kept r = true) /\
  (r_disk_new r = true -> r_newseg r = true).
Proof.
  intros H. cbv zeta. pose proof (single_fault f H) as S. unfold single_ok in S.
  destruct (commit_f true true f) as [ok mn dn ns qk]; cbn in *.
  destruct ok, mn, dn, ns, qk; cbn in S; try discriminate; repeat split; intros; try discriminate; auto.
Qed.

Lemma any_faults_openable_prop (f : faults) :
  r_disk_new (commit_f true true f) = true -> r_newseg (commit_f true true f) = true.
Proof.
  intros H. pose proof (any_faults_openable f) as S. unfold openable in S. rewrite H in S. exact S.
Qed.
