(** C12 — model of the exact aggregation kinds of searchlite-core/src/query/aggs/mod.rs:
    per-segment collection ([summ], the state of a collector tree at [finish]), the merge of the
    per-segment intermediates ([merge] = merge_intermediate_in_place / merge_bucket_lists /
    merge_stats / QuantileState::merge) and [finalize] (= finalize_response), together with the
    independent one-pass computation [spec].  Definitions only; proofs in Proofs.v.

    Numbers are exact: every numeric field value, bound, interval and offset is an integer number of
    halves ([Z], value * 2); keyword terms are interned so that the order of ids is the order of the
    strings.  Abstractions (stated in notes/C12.md): bucket lists of intermediates are kept sorted by
    key (the code keeps them in hash / arrival order and every consumer sorts by a total order);
    StatsState.m2 is represented by the sum of squares; cardinality keeps the values instead of
    their 64-bit hashes; percentiles are in exact mode (at most 256 values). *)

From Coq Require Import List ZArith NArith Bool.
From SL Require Import Base.Tie.
Import ListNotations.
Open Scope Z_scope.

(** * Documents and requests *)

Record doc := { kws : list (list Z); nums : list (list Z) }.

Definition kwv (d : doc) (f : nat) : list Z := nth f (kws d) [].
Definition numv (d : doc) (f : nat) : list Z := nth f (nums d) [].

Inductive filt :=
| FKwEq (f : nat) (v : Z)
| FKwIn (f : nat) (vs : list Z)
| FRange (f : nat) (lo hi : Z)
| FAnd (a b : filt)
| FOr (a b : filt)
| FNot (a : filt).

Definition zmem (x : Z) (l : list Z) : bool := existsb (Z.eqb x) l.

Fixpoint passes (f : filt) (d : doc) : bool :=
  match f with
  | FKwEq fl v => zmem v (kwv d fl)
  | FKwIn fl vs => existsb (fun v => zmem v vs) (kwv d fl)
  | FRange fl lo hi => existsb (fun v => (lo <=? v) && (v <=? hi)) (numv d fl)
  | FAnd a b => passes a d && passes b d
  | FOr a b => passes a d || passes b d
  | FNot a => negb (passes a d)
  end.

Inductive mkind :=
| MStats | MExtStats | MValueCount
| MPercentiles (percents : list Z)      (* whole percents 0..100 *)
| MRanks (targets : list Z).            (* targets, in halves *)

Inductive agg :=
| ATerms (f : nat) (size : option N) (mdc : N) (missing : option Z) (subs : list agg)
| ARare (f : nat) (maxc : N) (size : option N) (subs : list agg)      (* rare_terms *)
| ARange (f : nat) (ranges : list (option Z * option Z)) (missing : option Z) (subs : list agg)
| AHist (f : nat) (interval offset : Z) (mdc : N) (bounds : option (Z * Z)) (missing : option Z) (subs : list agg)
| AFilter (flt : filt) (subs : list agg)
| AMetric (k : mkind) (f : nat) (missing : option Z)
| ACard (keyword : bool) (f : nat).

(** * Sorting and sets over Z *)

Fixpoint zinsert (x : Z) (l : list Z) : list Z :=
  match l with
  | [] => [x]
  | y :: l' => if x <=? y then x :: l else y :: zinsert x l'
  end.
Definition zsort (l : list Z) : list Z := fold_right zinsert [] l.

(** insertion without duplicates: the canonical strictly increasing list of a set *)
Fixpoint sinsert (x : Z) (l : list Z) : list Z :=
  match l with
  | [] => [x]
  | y :: l' => if x <? y then x :: l else if x =? y then l else y :: sinsert x l'
  end.
Definition zset (l : list Z) : list Z := fold_right sinsert [] l.

Fixpoint zrange_fuel (n : nat) (lo : Z) : list Z :=
  match n with O => [] | S n' => lo :: zrange_fuel n' (lo + 1) end.
(** lo, lo+1, ..., hi *)
Definition zrange (lo hi : Z) : list Z := zrange_fuel (Z.to_nat (hi - lo + 1)) lo.

(** * What a document contributes *)

(** numeric_values(field, doc, missing) *)
Definition mvals (f : nat) (missing : option Z) (d : doc) : list Z :=
  match numv d f with
  | [] => match missing with Some m => [m] | None => [] end
  | l => l
  end.

Definition in_range (r : option Z * option Z) (v : Z) : bool :=
  (match fst r with Some lo => lo <=? v | None => true end)
  && (match snd r with Some hi => v <=? hi | None => true end).

Fixpoint range_keys (rs : list (option Z * option Z)) (i : Z) (vals : list Z) : list Z :=
  match rs with
  | [] => []
  | r :: rs' => (if existsb (in_range r) vals then [i] else []) ++ range_keys rs' (i + 1) vals
  end.

Definition bkey (interval offset v : Z) : Z := (v - offset) / interval.

(** the bucket keys a document falls into *)
Definition keys_of (a : agg) (d : doc) : list Z :=
  match a with
  | ATerms f _ _ missing _ =>
      match kwv d f with
      | [] => match missing with Some m => [m] | None => [] end
      | l => l
      end
  | ARare f _ _ _ => kwv d f
  | ARange f rs missing _ => range_keys rs 0 (mvals f missing d)
  | AHist f interval offset _ _ missing _ => map (bkey interval offset) (mvals f missing d)
  | AFilter flt _ => if passes flt d then [0] else []
  | _ => []
  end.

(** buckets that exist whatever the documents *)
Definition base_keys (a : agg) : list Z :=
  match a with
  | ARange _ rs _ _ => zrange 0 (Z.of_nat (length rs) - 1)
  | AHist _ interval offset _ (Some (lo, hi)) _ _ => zrange (bkey interval offset lo) (bkey interval offset hi)
  | AFilter _ _ => [0]
  | _ => []
  end.

Definition subs_of (a : agg) : list agg :=
  match a with
  | ATerms _ _ _ _ s | ARare _ _ _ s | ARange _ _ _ s | AHist _ _ _ _ _ _ s | AFilter _ s => s
  | _ => []
  end.

Definition has_key (a : agg) (k : Z) (d : doc) : bool := zmem k (keys_of a d).

Definition all_keys (a : agg) (docs : list doc) : list Z :=
  zset (base_keys a ++ flat_map (keys_of a) docs).

Definition is_hist (a : agg) : bool := match a with AHist _ _ _ _ _ _ _ => true | _ => false end.

(** * Intermediates *)

Definition omin (a b : option Z) : option Z :=
  match a, b with Some x, Some y => Some (Z.min x y) | Some x, None => Some x | None, y => y end.
Definition omax (a b : option Z) : option Z :=
  match a, b with Some x, Some y => Some (Z.max x y) | Some x, None => Some x | None, y => y end.

Inductive inter :=
| IBuckets (bs : list (Z * (N * list inter)))   (* key, doc_count, children ([] = no children built) *)
| IStats (cnt : N) (sum sumsq : Z) (mn mx : option Z)
| ICount (n : N)
| ISet (vals : list Z)
| IVals (vals : list Z).                        (* sorted multiset *)

Definition zsum (l : list Z) : Z := fold_right Z.add 0 l.
Definition zsumsq (l : list Z) : Z := fold_right (fun x acc => x * x + acc) 0 l.
Definition zminl (l : list Z) : option Z := fold_right (fun x acc => omin (Some x) acc) None l.
Definition zmaxl (l : list Z) : option Z := fold_right (fun x acc => omax (Some x) acc) None l.
Definition nlen {A} (l : list A) : N := N.of_nat (length l).

(** The state of the collector tree of [a] after the documents [docs] of one segment. *)
Fixpoint summ (a : agg) (docs : list doc) {struct a} : inter :=
  match a with
  | AMetric k f missing =>
      let vs := flat_map (mvals f missing) docs in
      match k with
      | MStats | MExtStats => IStats (nlen vs) (zsum vs) (zsumsq vs) (zminl vs) (zmaxl vs)
      | MValueCount => ICount (nlen vs)
      | MPercentiles _ | MRanks _ => IVals (zsort vs)
      end
  | ACard keyword f => ISet (zset (flat_map (fun d => if keyword then kwv d f else numv d f) docs))
  | ATerms _ _ _ _ subs | ARare _ _ _ subs | ARange _ _ _ subs | AHist _ _ _ _ _ _ subs | AFilter _ subs =>
      IBuckets
        (map (fun k =>
                let dk := filter (has_key a k) docs in
                (k, (nlen dk,
                     if is_hist a && match dk with [] => true | _ => false end then []
                     else map (fun s => summ s dk) subs)))
             (all_keys a docs))
  end.

(** * Merge *)

Fixpoint lookup {V} (k : Z) (l : list (Z * V)) : option V :=
  match l with
  | [] => None
  | (k', v) :: l' => if k =? k' then Some v else lookup k l'
  end.

Definition merge_buckets (mc : list inter -> list inter -> list inter)
           (b1 b2 : list (Z * (N * list inter))) : list (Z * (N * list inter)) :=
  map (fun k =>
         match lookup k b1, lookup k b2 with
         | Some (n1, c1), Some (n2, c2) => (k, ((n1 + n2)%N, mc c1 c2))
         | Some x, None => (k, x)
         | None, Some y => (k, y)
         | None, None => (k, (0%N, []))
         end)
      (zset (map fst b1 ++ map fst b2)).

Fixpoint zmerge (l1 : list Z) : list Z -> list Z :=
  fix go (l2 : list Z) : list Z :=
    match l1, l2 with
    | [], _ => l2
    | _, [] => l1
    | x :: l1', y :: l2' => if x <=? y then x :: zmerge l1' l2 else y :: go l2'
    end.

Section MergeChildren.
  Variable merge : agg -> inter -> inter -> inter.
  (** children are matched by aggregation name (= position); a side without children adopts the other *)
  Fixpoint merge_children (subs : list agg) (c1 c2 : list inter) {struct subs} : list inter :=
    match c1, c2 with
    | [], _ => c2
    | _, [] => c1
    | i1 :: r1, i2 :: r2 =>
        match subs with
        | s :: subs' => merge s i1 i2 :: merge_children subs' r1 r2
        | [] => []
        end
    end.
End MergeChildren.

Fixpoint merge (a : agg) (x y : inter) {struct a} : inter :=
  match a, x, y with
  | AMetric _ _ _, IStats c1 s1 q1 mn1 mx1, IStats c2 s2 q2 mn2 mx2 =>
      IStats (c1 + c2)%N (s1 + s2) (q1 + q2) (omin mn1 mn2) (omax mx1 mx2)
  | AMetric _ _ _, ICount n1, ICount n2 => ICount (n1 + n2)%N
  | AMetric _ _ _, IVals l1, IVals l2 => IVals (zsort (l1 ++ l2))
  | ACard _ _, ISet l1, ISet l2 => ISet (zset (l1 ++ l2))
  | ATerms _ _ _ _ subs, IBuckets b1, IBuckets b2
  | ARare _ _ _ subs, IBuckets b1, IBuckets b2
  | ARange _ _ _ subs, IBuckets b1, IBuckets b2
  | AHist _ _ _ _ _ _ subs, IBuckets b1, IBuckets b2
  | AFilter _ subs, IBuckets b1, IBuckets b2 =>
      IBuckets (merge_buckets
                  ((fix mc (subs : list agg) (c1 c2 : list inter) {struct subs} : list inter :=
                      match c1, c2 with
                      | [], _ => c2
                      | _, [] => c1
                      | i1 :: r1, i2 :: r2 =>
                          match subs with
                          | s :: subs' => merge s i1 i2 :: mc subs' r1 r2
                          | [] => []
                          end
                      end) subs)
                  b1 b2)
  | _, _, _ => x     (* mismatched variants: `_ => {}` in the code, unreachable *)
  end.

(** * Responses and finalisation *)

Inductive resp :=
| RBuckets (bs : list (Z * N * list resp))       (* response key, doc_count, sub-aggregations *)
| RStats (cnt : N) (sum mn mx avgn : Z)          (* avgn = avg * count *)
| RExt (cnt : N) (sum mn mx avgn varn : Z)       (* varn = variance * count^2 *)
| RCount (n : N)
| RQ (vals : list (Z * Z)).                      (* rationals num / den, den > 0 *)

(** terms order: doc_count descending, then key ascending *)
Definition tle (a b : Z * N * list resp) : bool :=
  let '(ka, na, _) := a in let '(kb, nb, _) := b in
  (nb <? na)%N || ((na =? nb)%N && (ka <=? kb)).

Fixpoint tinsert (x : Z * N * list resp) (l : list (Z * N * list resp)) :=
  match l with
  | [] => [x]
  | y :: l' => if tle x y then x :: l else y :: tinsert x l'
  end.
Definition tsort (l : list (Z * N * list resp)) := fold_right tinsert [] l.

(** rare_terms order: doc_count ascending, then key ascending *)
Definition rle (a b : Z * N * list resp) : bool :=
  let '(ka, na, _) := a in let '(kb, nb, _) := b in
  (na <? nb)%N || ((na =? nb)%N && (ka <=? kb)).
Fixpoint rinsert (x : Z * N * list resp) (l : list (Z * N * list resp)) :=
  match l with
  | [] => [x]
  | y :: l' => if rle x y then x :: l else y :: rinsert x l'
  end.
Definition rsort (l : list (Z * N * list resp)) := fold_right rinsert [] l.

Definition odef (o : option Z) : Z := match o with Some x => x | None => 0 end.

(** exact-mode percentile of a sorted list: value * 100 (linear interpolation at p (n-1) / 100) *)
Definition percentile (sorted : list Z) (p : Z) : Z * Z :=
  match sorted with
  | [] => (0, 1)
  | _ =>
      let n := Z.of_nat (length sorted) in
      let pc := Z.max 0 (Z.min 100 p) in
      let r := pc * (n - 1) in
      let lo := Z.to_nat (r / 100) in
      let w := r mod 100 in
      if w =? 0 then (nth lo sorted 0 * 100, 100)
      else (nth lo sorted 0 * (100 - w) + nth (S lo) sorted 0 * w, 100)
  end.

(** percentile rank: 100 * #(v <= target) / n *)
Definition prank (vals : list Z) (t : Z) : Z * Z :=
  match vals with
  | [] => (0, 1)
  | _ => (100 * Z.of_nat (length (filter (fun v => v <=? t) vals)), Z.of_nat (length vals))
  end.

Definition rkey (a : agg) (k : Z) : Z :=
  match a with
  | AHist _ interval offset _ _ _ _ => k * interval + offset
  | _ => k
  end.

Definition keep (a : agg) (n : N) : bool :=
  match a with
  | ATerms _ _ mdc _ _ => (mdc <=? n)%N
  | ARare _ maxc _ _ => (0 <? n)%N && (n <=? maxc)%N
  | AHist _ _ _ mdc _ _ _ => (mdc <=? n)%N
  | _ => true
  end.

Definition arrange (a : agg) (bs : list (Z * N * list resp)) : list (Z * N * list resp) :=
  match a with
  | ATerms _ size _ _ _ =>
      let s := tsort bs in
      match size with Some n => firstn (N.to_nat n) s | None => s end
  | ARare _ _ size _ =>
      let s := rsort bs in
      match size with Some n => firstn (N.to_nat n) s | None => s end
  | _ => bs
  end.

Definition zip_finalize (fin : agg -> inter -> resp) : list agg -> list inter -> list resp :=
  fix go (subs : list agg) (ch : list inter) : list resp :=
    match subs, ch with
    | s :: subs', i :: ch' => fin s i :: go subs' ch'
    | _, _ => []
    end.

Fixpoint finalize (a : agg) (x : inter) {struct a} : resp :=
  match a, x with
  | AMetric MStats _ _, IStats c s q mn mx => RStats c s (odef mn) (odef mx) s
  | AMetric MExtStats _ _, IStats c s q mn mx => RExt c s (odef mn) (odef mx) s (Z.of_N c * q - s * s)
  | AMetric MValueCount _ _, ICount n => RCount n
  | AMetric (MPercentiles ps) _ _, IVals l => RQ (map (percentile l) ps)
  | AMetric (MRanks ts) _ _, IVals l => RQ (map (prank l) ts)
  | ACard _ _, ISet l => RCount (nlen l)
  | ATerms _ _ _ _ subs, IBuckets bs
  | ARare _ _ _ subs, IBuckets bs
  | ARange _ _ _ subs, IBuckets bs
  | AHist _ _ _ _ _ _ subs, IBuckets bs
  | AFilter _ subs, IBuckets bs =>
      RBuckets
        (arrange a
           (map (fun b : Z * (N * list inter) =>
                   (rkey a (fst b), fst (snd b),
                    (fix go (subs : list agg) (ch : list inter) {struct subs} : list resp :=
                       match subs, ch with
                       | s :: subs', i :: ch' => finalize s i :: go subs' ch'
                       | _, _ => []
                       end) subs (snd (snd b))))
                (filter (fun b : Z * (N * list inter) => keep a (fst (snd b))) bs)))
  | _, _ => RCount 0
  end.

(** The whole run: one collector tree per segment, merged left to right, finalised. *)
Definition run (a : agg) (segs : list (list doc)) : option resp :=
  match segs with
  | [] => None
  | s :: rest => Some (finalize a (fold_left (fun acc seg => merge a acc (summ a seg)) rest (summ a s)))
  end.

(** * The independent one-pass computation (the property's right-hand side)

    Directly from the statement: over all matched live documents, a bucket per key with the number
    of documents carrying the key, thresholds and limits applied to these final counts, metrics over
    all values, sub-aggregations over the documents of the bucket. *)
Fixpoint spec (a : agg) (docs : list doc) {struct a} : resp :=
  match a with
  | AMetric k f missing =>
      let vs := flat_map (mvals f missing) docs in
      let n := nlen vs in
      match k with
      | MStats => RStats n (zsum vs) (odef (zminl vs)) (odef (zmaxl vs)) (zsum vs)
      | MExtStats => RExt n (zsum vs) (odef (zminl vs)) (odef (zmaxl vs)) (zsum vs)
                          (Z.of_N n * zsumsq vs - zsum vs * zsum vs)
      | MValueCount => RCount n
      | MPercentiles ps => RQ (map (percentile (zsort vs)) ps)
      | MRanks ts => RQ (map (prank (zsort vs)) ts)
      end
  | ACard keyword f => RCount (nlen (zset (flat_map (fun d => if keyword then kwv d f else numv d f) docs)))
  | ATerms _ _ _ _ subs | ARare _ _ _ subs | ARange _ _ _ subs | AHist _ _ _ _ _ _ subs | AFilter _ subs =>
      RBuckets
        (arrange a
           (map (fun k =>
                   let dk := filter (has_key a k) docs in
                   (rkey a k, nlen dk,
                    if is_hist a && match dk with [] => true | _ => false end then []
                    else map (fun s => spec s dk) subs))
                (filter (fun k => keep a (nlen (filter (has_key a k) docs))) (all_keys a docs))))
  end.

(** * Comparison with an observed response *)

(** |a/b - c/d| <= 1e-6 (+ 1e-9 relative), for b, d > 0 *)
Definition qclose (x y : Z * Z) : bool :=
  let '(a, b) := x in let '(c, d) := y in
  (0 <? b) && (0 <? d)
  && (Z.abs (a * d - c * b) * 1000000 <=? b * d + Z.abs (c * b) / 1000).

Fixpoint resp_eqb (x y : resp) {struct x} : bool :=
  match x, y with
  | RBuckets b1, RBuckets b2 =>
      (fix go (b1 b2 : list (Z * N * list resp)) {struct b1} : bool :=
         match b1, b2 with
         | [], [] => true
         | (k1, n1, c1) :: r1, (k2, n2, c2) :: r2 =>
             (k1 =? k2) && (n1 =? n2)%N
             && (fix goc (c1 c2 : list resp) {struct c1} : bool :=
                   match c1, c2 with
                   | [], [] => true
                   | p :: r1, q :: r2 => resp_eqb p q && goc r1 r2
                   | _, _ => false
                   end) c1 c2
             && go r1 r2
         | _, _ => false
         end) b1 b2
  | RStats c1 s1 a1 b1 v1, RStats c2 s2 a2 b2 v2 =>
      (c1 =? c2)%N && (s1 =? s2) && (a1 =? a2) && (b1 =? b2) && (v1 =? v2)
  | RExt c1 s1 a1 b1 v1 w1, RExt c2 s2 a2 b2 v2 w2 =>
      (c1 =? c2)%N && (s1 =? s2) && (a1 =? a2) && (b1 =? b2) && (v1 =? v2) && (w1 =? w2)
  | RCount n1, RCount n2 => (n1 =? n2)%N
  | RQ l1, RQ l2 =>
      (fix go (l1 l2 : list (Z * Z)) {struct l1} : bool :=
         match l1, l2 with
         | [], [] => true
         | p :: r1, q :: r2 => qclose p q && go r1 r2
         | _, _ => false
         end) l1 l2
  | _, _ => false
  end.

Fixpoint resps_eqb (l1 l2 : list resp) : bool :=
  match l1, l2 with
  | [], [] => true
  | p :: r1, q :: r2 => resp_eqb p q && resps_eqb r1 r2
  | _, _ => false
  end.

(** One case: the top-level aggregations, the matched live documents of every segment of the
    layout, and the observed responses (in name order). *)
Record case := { k_aggs : list agg; k_segs : list (list doc); k_obs : list resp }.

Fixpoint wf_agg (a : agg) : bool :=
  match a with
  | AHist _ interval _ _ _ _ subs => (0 <? interval) && forallb wf_agg subs
  | ATerms _ _ _ _ subs | ARare _ _ _ subs | ARange _ _ _ subs | AFilter _ subs => forallb wf_agg subs
  | _ => true
  end.

Definition wf (c : case) : bool :=
  forallb wf_agg (k_aggs c) && negb (match k_segs c with [] => true | _ => false end).

Definition model_out (c : case) : list resp :=
  flat_map (fun a => match run a (k_segs c) with Some r => [r] | None => [] end) (k_aggs c).

Definition spec_out (c : case) : list resp := map (fun a => spec a (concat (k_segs c))) (k_aggs c).

Definition check_case (c : case) : N :=
  if wf c then verdict (resps_eqb (model_out c) (k_obs c)) (resps_eqb (spec_out c) (k_obs c)) 0
  else 2%N.
