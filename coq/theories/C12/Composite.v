(** C12/Composite.v — composite aggregation (terms and histogram sources), exact and independent
    of segmentation.  Kept apart from C12/Model.v: a composite has no sub-structure shared with
    the other kinds here (sub-aggregations of composite buckets are not modelled).

    A document contributes, once, every tuple of the cartesian product of its source values
    (CompositeCollector::collect de-duplicates per document; a document lacking a value for some
    source contributes nothing).  Segments collect key -> count maps, the merge adds counts, the
    final response lists the buckets in lexicographic key order and keeps the first [size].
    Keys: a terms source over a keyword field yields the interned string (interning preserves
    string order), over a numeric field the value; a histogram source yields
    interval * floor(value / interval) (values and intervals in halves, as integers). *)
From Coq Require Import List ZArith NArith Bool Lia.
From SL Require Import Base.Tie.
Import ListNotations.
Open Scope Z_scope.

Inductive csource := STerms (f : nat) | SHist (f : nat) (interval : Z).

(** per document: one list of values per field index *)
Definition cdoc := list (list Z).

Definition source_values (d : cdoc) (s : csource) : list Z :=
  match s with
  | STerms f => nth f d []
  | SHist f iv => map (fun v => iv * (v / iv)) (nth f d [])
  end.

Fixpoint product (ls : list (list Z)) : list (list Z) :=
  match ls with
  | [] => [[]]
  | l :: ls' => flat_map (fun x => map (cons x) (product ls')) l
  end.

Fixpoint key_eqb (a b : list Z) : bool :=
  match a, b with
  | [], [] => true
  | x :: a', y :: b' => (x =? y) && key_eqb a' b'
  | _, _ => false
  end.

Fixpoint key_ltb (a b : list Z) : bool :=
  match a, b with
  | x :: a', y :: b' => (x <? y) || ((x =? y) && key_ltb a' b')
  | [], _ :: _ => true
  | _, _ => false
  end.

Fixpoint dedup_keys (l : list (list Z)) : list (list Z) :=
  match l with
  | [] => []
  | k :: l' => if existsb (key_eqb k) l' then dedup_keys l' else k :: dedup_keys l'
  end.

Definition doc_keys (srcs : list csource) (d : cdoc) : list (list Z) :=
  dedup_keys (product (map (source_values d) srcs)).

(** the multiset of keys a list of documents contributes *)
Definition collect (srcs : list csource) (docs : list cdoc) : list (list Z) :=
  flat_map (doc_keys srcs) docs.

Fixpoint kinsert (k : list Z) (l : list (list Z * N)) : list (list Z * N) :=
  match l with
  | [] => [(k, 1%N)]
  | (k', n) :: l' =>
      if key_eqb k k' then (k', N.succ n) :: l'
      else if key_ltb k k' then (k, 1%N) :: l
      else (k', n) :: kinsert k l'
  end.

(** sorted key -> count table of a multiset of keys *)
Definition count_keys (ks : list (list Z)) : list (list Z * N) := fold_right kinsert [] ks.

Definition finalize (size : nat) (ks : list (list Z)) : list (list Z * N) := firstn size (count_keys ks).

(** M: per-segment collection, merge (= union of the multisets, i.e. counts add), finalisation *)
Definition crun (srcs : list csource) (size : nat) (segs : list (list cdoc)) : list (list Z * N) :=
  finalize size (concat (map (collect srcs) segs)).

(** S: one pass over all matched live documents *)
Definition cspec (srcs : list csource) (size : nat) (docs : list cdoc) : list (list Z * N) :=
  finalize size (collect srcs docs).

Fixpoint buckets_eqb (a b : list (list Z * N)) : bool :=
  match a, b with
  | [], [] => true
  | (k, n) :: a', (k', n') :: b' => key_eqb k k' && (n =? n')%N && buckets_eqb a' b'
  | _, _ => false
  end.

Record ccase := { cc_srcs : list csource; cc_size : nat; cc_segs : list (list cdoc); cc_obs : list (list Z * N) }.

Definition cwf (c : ccase) : bool :=
  forallb (fun s => match s with SHist _ iv => 0 <? iv | STerms _ => true end) (cc_srcs c).

Definition check_composite (c : ccase) : N :=
  if cwf c then
    verdict (buckets_eqb (crun (cc_srcs c) (cc_size c) (cc_segs c)) (cc_obs c))
            (buckets_eqb (cspec (cc_srcs c) (cc_size c) (concat (cc_segs c))) (cc_obs c)) 0
  else 2%N.

(** * Theorems *)
Lemma collect_concat srcs segs : collect srcs (concat segs) = concat (map (collect srcs) segs).
Proof.
  unfold collect. induction segs as [|s segs IH]; cbn; [reflexivity|].
  rewrite flat_map_app, IH. reflexivity.
Qed.

(** exact: per-segment collection and merge give the one-pass result over all documents *)
Lemma composite_exact srcs size segs : crun srcs size segs = cspec srcs size (concat segs).
Proof. unfold crun, cspec. now rewrite collect_concat. Qed.

(** two layouts that split the same document sequence differently give the same response *)
Lemma composite_split_independent srcs size segs1 segs2 :
  concat segs1 = concat segs2 -> crun srcs size segs1 = crun srcs size segs2.
Proof. intros H. now rewrite !composite_exact, H. Qed.
