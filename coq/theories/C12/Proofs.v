(** C12 — proofs: the merge of per-segment summaries is the summary of the concatenation, the
    finalised summary is the one-pass specification, and both are invariant under permutation. *)
From Coq Require Import List ZArith NArith Bool Lia Permutation Sorted.
From SL Require Import Base.Tie C12.Model.
Import ListNotations.
Open Scope Z_scope.

(** * Sets of Z as strictly increasing lists *)

Lemma zmem_In x l : zmem x l = true <-> In x l.
Proof.
  unfold zmem. rewrite existsb_exists. split.
  - intros (y & Hy & E). apply Z.eqb_eq in E. subst. exact Hy.
  - intros H. exists x. split; [exact H|apply Z.eqb_refl].
Qed.

Lemma zmem_false x l : zmem x l = false <-> ~ In x l.
Proof. rewrite <- zmem_In. destruct (zmem x l); split; intros; try congruence; tauto. Qed.

Lemma sinsert_In x l y : In y (sinsert x l) <-> y = x \/ In y l.
Proof.
  induction l as [|z l IH]; cbn.
  - intuition.
  - destruct (x <? z) eqn:E1; cbn.
    + intuition.
    + destruct (x =? z) eqn:E2; cbn.
      * apply Z.eqb_eq in E2. subst. intuition.
      * rewrite IH. intuition.
Qed.

Lemma zset_In l y : In y (zset l) <-> In y l.
Proof.
  induction l as [|x l IH]; cbn; [tauto|].
  rewrite sinsert_In, IH. intuition.
Qed.

Lemma sinsert_sorted x l : StronglySorted Z.lt l -> StronglySorted Z.lt (sinsert x l).
Proof.
  induction 1 as [|z l Hs IH Hall]; cbn.
  - repeat constructor.
  - destruct (x <? z) eqn:E1.
    + apply Z.ltb_lt in E1. constructor; [constructor; assumption|].
      constructor; [exact E1|]. rewrite Forall_forall in *. intros y Hy. specialize (Hall y Hy). lia.
    + destruct (x =? z) eqn:E2.
      * constructor; assumption.
      * apply Z.ltb_ge in E1. apply Z.eqb_neq in E2.
        constructor; [exact IH|]. rewrite Forall_forall in *. intros y Hy.
        apply sinsert_In in Hy as [->|Hy]; [lia|auto].
Qed.

Lemma zset_sorted l : StronglySorted Z.lt (zset l).
Proof. induction l; cbn; [constructor|apply sinsert_sorted; assumption]. Qed.

Lemma ssorted_unique l : forall l',
  StronglySorted Z.lt l -> StronglySorted Z.lt l' -> (forall x, In x l <-> In x l') -> l = l'.
Proof.
  induction l as [|a l IH]; intros l' Hs Hs' Hin.
  - destruct l' as [|b l']; [reflexivity|]. exfalso. apply (Hin b). left. reflexivity.
  - destruct l' as [|b l'].
    + exfalso. apply (Hin a). left. reflexivity.
    + inversion Hs as [|? ? Hs1 Ha]; subst. inversion Hs' as [|? ? Hs1' Hb]; subst.
      rewrite Forall_forall in Ha, Hb.
      assert (a = b).
      { destruct (proj1 (Hin a) (or_introl eq_refl)) as [E|Hin1]; [congruence|].
        destruct (proj2 (Hin b) (or_introl eq_refl)) as [E|Hin2]; [congruence|].
        specialize (Ha b Hin2). specialize (Hb a Hin1). lia. }
      subst b. f_equal. apply IH; try assumption.
      intros x. split; intros Hx.
      * destruct (proj1 (Hin x) (or_intror Hx)) as [E|H']; [|exact H'].
        subst x. specialize (Ha a Hx). lia.
      * destruct (proj2 (Hin x) (or_intror Hx)) as [E|H']; [|exact H'].
        subst x. specialize (Hb a Hx). lia.
Qed.

Lemma zset_ext l l' : (forall x, In x l <-> In x l') -> zset l = zset l'.
Proof.
  intros H. apply ssorted_unique; try apply zset_sorted.
  intros x. rewrite !zset_In. apply H.
Qed.

Lemma zset_app_zset l1 l2 : zset (zset l1 ++ zset l2) = zset (l1 ++ l2).
Proof. apply zset_ext. intros x. rewrite !in_app_iff, !zset_In. tauto. Qed.

(** * Sorting *)

Lemma zinsert_perm x l : Permutation (zinsert x l) (x :: l).
Proof.
  induction l as [|y l IH]; cbn; [apply Permutation_refl|].
  destruct (x <=? y); [apply Permutation_refl|].
  eapply Permutation_trans; [apply perm_skip, IH|apply perm_swap].
Qed.

Lemma zsort_permutation l : Permutation (zsort l) l.
Proof.
  induction l as [|x l IH]; cbn; [constructor|].
  eapply Permutation_trans; [apply zinsert_perm|]. apply perm_skip, IH.
Qed.

Lemma zinsert_comm x y l : zinsert x (zinsert y l) = zinsert y (zinsert x l).
Proof.
  induction l as [|z l IH]; cbn.
  - destruct (x <=? y) eqn:E1, (y <=? x) eqn:E2; try reflexivity.
    + apply Z.leb_le in E1, E2. assert (x = y) by lia. subst. reflexivity.
    + apply Z.leb_gt in E1, E2. lia.
  - destruct (y <=? z) eqn:Ey, (x <=? z) eqn:Ex; cbn; rewrite ?Ey, ?Ex.
    + destruct (x <=? y) eqn:E1, (y <=? x) eqn:E2; cbn; rewrite ?Ey, ?Ex; try reflexivity.
      * apply Z.leb_le in E1, E2. assert (x = y) by lia. subst. reflexivity.
      * apply Z.leb_gt in E1, E2. lia.
    + destruct (x <=? y) eqn:E1; [|reflexivity].
      apply Z.leb_le in E1, Ey. apply Z.leb_gt in Ex. lia.
    + destruct (y <=? x) eqn:E2; [|reflexivity].
      apply Z.leb_le in E2, Ex. apply Z.leb_gt in Ey. lia.
    + rewrite IH. reflexivity.
Qed.

Lemma zsort_perm l l' : Permutation l l' -> zsort l = zsort l'.
Proof.
  unfold zsort.
  induction 1 as [|x l l' HP IH|x y l|l l' l'' HP1 IH1 HP2 IH2]; cbn [fold_right].
  - reflexivity.
  - rewrite IH. reflexivity.
  - apply zinsert_comm.
  - congruence.
Qed.

Lemma zsort_app_zsort l1 l2 : zsort (zsort l1 ++ zsort l2) = zsort (l1 ++ l2).
Proof. apply zsort_perm, Permutation_app; apply zsort_permutation. Qed.

(** * Sums, extrema, lengths *)

Lemma nlen_app {A} (l1 l2 : list A) : nlen (l1 ++ l2) = (nlen l1 + nlen l2)%N.
Proof. unfold nlen. rewrite app_length. lia. Qed.

Lemma zsum_app l1 l2 : zsum (l1 ++ l2) = zsum l1 + zsum l2.
Proof. unfold zsum. induction l1 as [|x l IH]; cbn [app fold_right]; [reflexivity|]. rewrite IH. lia. Qed.

Lemma zsumsq_app l1 l2 : zsumsq (l1 ++ l2) = zsumsq l1 + zsumsq l2.
Proof. unfold zsumsq. induction l1 as [|x l IH]; cbn [app fold_right]; [reflexivity|]. rewrite IH. lia. Qed.

Lemma omin_assoc a b c : omin a (omin b c) = omin (omin a b) c.
Proof. destruct a, b, c; cbn; try reflexivity. f_equal. lia. Qed.
Lemma omax_assoc a b c : omax a (omax b c) = omax (omax a b) c.
Proof. destruct a, b, c; cbn; try reflexivity. f_equal. lia. Qed.
Lemma omin_comm a b : omin a b = omin b a.
Proof. destruct a, b; cbn; try reflexivity. f_equal. lia. Qed.
Lemma omax_comm a b : omax a b = omax b a.
Proof. destruct a, b; cbn; try reflexivity. f_equal. lia. Qed.

Lemma zminl_cons x l : zminl (x :: l) = omin (Some x) (zminl l).
Proof. reflexivity. Qed.
Lemma zmaxl_cons x l : zmaxl (x :: l) = omax (Some x) (zmaxl l).
Proof. reflexivity. Qed.
Lemma omin_None_l a : omin None a = a. Proof. reflexivity. Qed.
Lemma omax_None_l a : omax None a = a. Proof. reflexivity. Qed.

Lemma zminl_app l1 l2 : zminl (l1 ++ l2) = omin (zminl l1) (zminl l2).
Proof.
  induction l1 as [|x l IH]; [reflexivity|].
  rewrite <- app_comm_cons, !zminl_cons, IH. apply omin_assoc.
Qed.
Lemma zmaxl_app l1 l2 : zmaxl (l1 ++ l2) = omax (zmaxl l1) (zmaxl l2).
Proof.
  induction l1 as [|x l IH]; [reflexivity|].
  rewrite <- app_comm_cons, !zmaxl_cons, IH. apply omax_assoc.
Qed.

Lemma zsum_perm l l' : Permutation l l' -> zsum l = zsum l'.
Proof. unfold zsum. induction 1; cbn [fold_right]; lia. Qed.
Lemma zsumsq_perm l l' : Permutation l l' -> zsumsq l = zsumsq l'.
Proof. unfold zsumsq. induction 1; cbn [fold_right]; lia. Qed.
Lemma zminl_perm l l' : Permutation l l' -> zminl l = zminl l'.
Proof.
  induction 1 as [|x l l' HP IH|x y l|l l' l'' HP1 IH1 HP2 IH2]; rewrite ?zminl_cons; try congruence.
  rewrite !omin_assoc. f_equal. apply omin_comm.
Qed.
Lemma zmaxl_perm l l' : Permutation l l' -> zmaxl l = zmaxl l'.
Proof.
  induction 1 as [|x l l' HP IH|x y l|l l' l'' HP1 IH1 HP2 IH2]; rewrite ?zmaxl_cons; try congruence.
  rewrite !omax_assoc. f_equal. apply omax_comm.
Qed.
Lemma nlen_perm {A} (l l' : list A) : Permutation l l' -> nlen l = nlen l'.
Proof. intros H. unfold nlen. rewrite (Permutation_length H). reflexivity. Qed.

Lemma Permutation_filter' {A} (f : A -> bool) (l l' : list A) :
  Permutation l l' -> Permutation (filter f l) (filter f l').
Proof.
  induction 1 as [|x l l' HP IH|x y l|l l' l'' HP1 IH1 HP2 IH2]; cbn.
  - constructor.
  - destruct (f x); [constructor|]; exact IH.
  - destruct (f x), (f y); try apply Permutation_refl; apply perm_swap.
  - eapply Permutation_trans; eassumption.
Qed.

Lemma Permutation_flat_map' {A B} (f : A -> list B) (l l' : list A) :
  Permutation l l' -> Permutation (flat_map f l) (flat_map f l').
Proof.
  induction 1 as [|x l l' HP IH|x y l|l l' l'' HP1 IH1 HP2 IH2]; cbn.
  - constructor.
  - apply Permutation_app_head, IH.
  - rewrite !app_assoc. apply Permutation_app_tail, Permutation_app_comm.
  - eapply Permutation_trans; eassumption.
Qed.

Lemma filter_nil_iff {A} (f : A -> bool) l : filter f l = [] <-> forall x, In x l -> f x = false.
Proof.
  induction l as [|a l IH]; cbn; [tauto|].
  destruct (f a) eqn:E.
  - split; [discriminate|]. intros H. specialize (H a (or_introl eq_refl)). congruence.
  - rewrite IH. split; intros H x; [intros [<-|Hx]; auto|auto].
Qed.

Lemma filter_map_comm {A B} (p : B -> bool) (f : A -> B) l :
  filter p (map f l) = map f (filter (fun x => p (f x)) l).
Proof. induction l as [|a l IH]; cbn; [reflexivity|]. destruct (p (f a)); cbn; rewrite IH; reflexivity. Qed.

(** * Induction on aggregation trees *)

Lemma agg_ind_subs (P : agg -> Prop) (H : forall a, Forall P (subs_of a) -> P a) : forall a, P a.
Proof.
  fix IH 1. intros a. apply H.
  destruct a as [f size mdc missing subs|f maxc size subs|f rs missing subs|f i o mdc b missing subs|flt subs|k f missing|kw f];
    cbn [subs_of]; try constructor.
  all: revert subs; fix IHl 1; intros [|s subs]; constructor; [apply IH|apply IHl].
Qed.

Definition is_bucket (a : agg) : bool :=
  match a with AMetric _ _ _ | ACard _ _ => false | _ => true end.

Definition children (a : agg) (dk : list doc) : list inter :=
  if is_hist a && match dk with [] => true | _ => false end then []
  else map (fun s => summ s dk) (subs_of a).

Definition val (a : agg) (docs : list doc) (k : Z) : N * list inter :=
  (nlen (filter (has_key a k) docs), children a (filter (has_key a k) docs)).
Definition entry (a : agg) (docs : list doc) (k : Z) : Z * (N * list inter) := (k, val a docs k).

Lemma summ_bucket a docs :
  is_bucket a = true -> summ a docs = IBuckets (map (entry a docs) (all_keys a docs)).
Proof. destruct a; try discriminate; reflexivity. Qed.

Lemma merge_bucket a b1 b2 :
  is_bucket a = true ->
  merge a (IBuckets b1) (IBuckets b2) = IBuckets (merge_buckets (merge_children merge (subs_of a)) b1 b2).
Proof. destruct a; try discriminate; reflexivity. Qed.

Lemma lookup_map_entry a docs k ks :
  lookup k (map (entry a docs) ks) = if zmem k ks then Some (val a docs k) else None.
Proof.
  unfold entry.
  induction ks as [|k' ks IH]; cbn; [reflexivity|].
  destruct (k =? k') eqn:E; cbn.
  - apply Z.eqb_eq in E. subst. reflexivity.
  - exact IH.
Qed.

Lemma map_fst_entry a docs ks : map fst (map (entry a docs) ks) = ks.
Proof. rewrite map_map. unfold entry. cbn [fst]. apply map_id. Qed.

Lemma no_key_no_docs a docs k : zmem k (all_keys a docs) = false -> filter (has_key a k) docs = [].
Proof.
  intros H. apply filter_nil_iff. intros d Hd.
  destruct (has_key a k d) eqn:E; [|reflexivity]. exfalso.
  apply zmem_false in H. apply H. unfold all_keys. apply zset_In, in_or_app. right.
  apply in_flat_map. exists d. split; [exact Hd|]. apply zmem_In. exact E.
Qed.

Lemma all_keys_app a l1 l2 :
  zset (all_keys a l1 ++ all_keys a l2) = all_keys a (l1 ++ l2).
Proof.
  unfold all_keys. rewrite zset_app_zset. apply zset_ext. intros x.
  rewrite flat_map_app, !in_app_iff. tauto.
Qed.

Lemma merge_children_maps (subs : list agg) (f1 f2 f3 : agg -> inter) :
  Forall (fun s => merge s (f1 s) (f2 s) = f3 s) subs ->
  merge_children merge subs (map f1 subs) (map f2 subs) = map f3 subs.
Proof. induction 1 as [|s subs Hs _ IH]; cbn; [reflexivity|]. rewrite Hs, IH. reflexivity. Qed.

Lemma merge_children_nil_l subs c : merge_children merge subs [] c = c.
Proof. destruct subs; reflexivity. Qed.

Lemma merge_children_nil_r subs c : merge_children merge subs c [] = c.
Proof. destruct c; destruct subs; reflexivity. Qed.

(** ** The merge is a homomorphism: merging the summaries of two document lists gives the
       summary of their concatenation. *)
Theorem merge_summ : forall a l1 l2, merge a (summ a l1) (summ a l2) = summ a (l1 ++ l2).
Proof.
  induction a as [a IHsubs] using agg_ind_subs. intros l1 l2.
  destruct (is_bucket a) eqn:Hb.
  - rewrite !(summ_bucket a _ Hb), (merge_bucket a _ _ Hb). f_equal.
    unfold merge_buckets. rewrite !map_fst_entry, all_keys_app.
    apply map_ext_in. intros k Hk.
    rewrite !lookup_map_entry.
    unfold entry, val.
    rewrite filter_app, nlen_app.
    set (dk1 := filter (has_key a k) l1). set (dk2 := filter (has_key a k) l2).
    destruct (zmem k (all_keys a l1)) eqn:E1, (zmem k (all_keys a l2)) eqn:E2.
    + f_equal. f_equal. unfold children.
      destruct (is_hist a) eqn:Hh; cbn [andb].
      * destruct dk1 as [|d1 dk1']; [cbn [app]; apply merge_children_nil_l|].
        destruct dk2 as [|d2 dk2'].
        { rewrite app_nil_r. apply merge_children_nil_r. }
        cbn [app]. apply merge_children_maps.
        rewrite Forall_forall in *. intros s Hs. apply (IHsubs s Hs).
      * apply merge_children_maps.
        rewrite Forall_forall in *. intros s Hs. apply (IHsubs s Hs).
    + pose proof (no_key_no_docs a l2 k E2) as Hn. fold dk2 in Hn. rewrite Hn.
      rewrite app_nil_r. cbn [nlen length N.of_nat]. rewrite N.add_0_r. reflexivity.
    + pose proof (no_key_no_docs a l1 k E1) as Hn. fold dk1 in Hn. rewrite Hn.
      cbn [app nlen length N.of_nat]. reflexivity.
    + exfalso. rewrite <- all_keys_app in Hk. apply zset_In, in_app_or in Hk.
      apply zmem_false in E1, E2. tauto.
  - destruct a as [| | | | |k f missing|kw f]; try discriminate; cbn [summ merge].
    + destruct k; cbn [merge]; rewrite flat_map_app.
      * rewrite nlen_app, zsum_app, zsumsq_app, zminl_app, zmaxl_app. reflexivity.
      * rewrite nlen_app, zsum_app, zsumsq_app, zminl_app, zmaxl_app. reflexivity.
      * rewrite nlen_app. reflexivity.
      * rewrite zsort_app_zsort. reflexivity.
      * rewrite zsort_app_zsort. reflexivity.
    + rewrite flat_map_app, zset_app_zset. reflexivity.
Qed.

(** ** The finalised summary is the one-pass specification *)

Lemma finalize_bucket a bs :
  is_bucket a = true ->
  finalize a (IBuckets bs) =
  RBuckets (arrange a (map (fun b : Z * (N * list inter) =>
                              (rkey a (fst b), fst (snd b), zip_finalize finalize (subs_of a) (snd (snd b))))
                           (filter (fun b : Z * (N * list inter) => keep a (fst (snd b))) bs))).
Proof. destruct a; try discriminate; reflexivity. Qed.

Lemma spec_bucket a docs :
  is_bucket a = true ->
  spec a docs =
  RBuckets (arrange a (map (fun k => let dk := filter (has_key a k) docs in
                                     (rkey a k, nlen dk,
                                      if is_hist a && match dk with [] => true | _ => false end then []
                                      else map (fun s => spec s dk) (subs_of a)))
                           (filter (fun k => keep a (nlen (filter (has_key a k) docs))) (all_keys a docs)))).
Proof. destruct a; try discriminate; reflexivity. Qed.

Lemma zip_finalize_map (subs : list agg) (f : agg -> inter) (g : agg -> resp) :
  Forall (fun s => finalize s (f s) = g s) subs ->
  zip_finalize finalize subs (map f subs) = map g subs.
Proof. induction 1 as [|s subs Hs _ IH]; cbn; [reflexivity|]. rewrite Hs, IH. reflexivity. Qed.

Lemma zip_finalize_nil subs : zip_finalize finalize subs [] = [].
Proof. destruct subs; reflexivity. Qed.

Theorem finalize_summ : forall a docs, finalize a (summ a docs) = spec a docs.
Proof.
  induction a as [a IHsubs] using agg_ind_subs. intros docs.
  destruct (is_bucket a) eqn:Hb.
  - rewrite (summ_bucket a _ Hb), (finalize_bucket a _ Hb), (spec_bucket a _ Hb). f_equal. f_equal.
    rewrite filter_map_comm, map_map. unfold entry, val. cbn [fst snd].
    apply map_ext. intros k. f_equal. unfold children.
    destruct (is_hist a && _); [apply zip_finalize_nil|].
    apply zip_finalize_map. rewrite Forall_forall in *. intros s Hs. apply (IHsubs s Hs).
  - destruct a as [| | | | |k f missing|kw f]; try discriminate; cbn [summ finalize spec].
    + destruct k; reflexivity.
    + reflexivity.
Qed.

(** ** Permutation invariance *)

Lemma all_keys_perm a l l' : Permutation l l' -> all_keys a l = all_keys a l'.
Proof.
  intros HP. unfold all_keys. apply zset_ext. intros x. rewrite !in_app_iff.
  pose proof (Permutation_flat_map' (keys_of a) _ _ HP) as HF.
  split; (intros [H|H]; [left; exact H|right]).
  - eapply Permutation_in; eassumption.
  - eapply Permutation_in; [apply Permutation_sym|]; eassumption.
Qed.

Theorem summ_perm : forall a l l', Permutation l l' -> summ a l = summ a l'.
Proof.
  induction a as [a IHsubs] using agg_ind_subs. intros l l' HP.
  destruct (is_bucket a) eqn:Hb.
  - rewrite !(summ_bucket a _ Hb), (all_keys_perm a l l' HP). f_equal.
    apply map_ext. intros k. unfold entry, val.
    pose proof (Permutation_filter' (has_key a k) _ _ HP) as HF.
    rewrite (nlen_perm _ _ HF). f_equal. f_equal. unfold children.
    assert (Hnil : match filter (has_key a k) l with [] => true | _ => false end
                   = match filter (has_key a k) l' with [] => true | _ => false end).
    { destruct (filter (has_key a k) l) eqn:E1.
      - apply Permutation_nil in HF. rewrite HF. reflexivity.
      - destruct (filter (has_key a k) l') eqn:E2; [|reflexivity].
        apply Permutation_sym, Permutation_nil in HF. discriminate. }
    rewrite Hnil. destruct (is_hist a && _); [reflexivity|].
    apply map_ext_in. intros s Hs. rewrite Forall_forall in IHsubs. apply (IHsubs s Hs). exact HF.
  - destruct a as [| | | | |k f missing|kw f]; try discriminate; cbn [summ].
    + pose proof (Permutation_flat_map' (mvals f missing) _ _ HP) as HF.
      destruct k.
      * rewrite (nlen_perm _ _ HF), (zsum_perm _ _ HF), (zsumsq_perm _ _ HF), (zminl_perm _ _ HF), (zmaxl_perm _ _ HF). reflexivity.
      * rewrite (nlen_perm _ _ HF), (zsum_perm _ _ HF), (zsumsq_perm _ _ HF), (zminl_perm _ _ HF), (zmaxl_perm _ _ HF). reflexivity.
      * rewrite (nlen_perm _ _ HF). reflexivity.
      * rewrite (zsort_perm _ _ HF). reflexivity.
      * rewrite (zsort_perm _ _ HF). reflexivity.
    + f_equal. apply zset_ext. intros x.
      pose proof (Permutation_flat_map' (fun d => if kw then kwv d f else numv d f) _ _ HP) as HF.
      split; intros H; [|apply Permutation_sym in HF]; eapply Permutation_in; eassumption.
Qed.

(** * The run over a segment layout *)

Lemma fold_merge a rest : forall s,
  fold_left (fun acc seg => merge a acc (summ a seg)) rest (summ a s) = summ a (s ++ concat rest).
Proof.
  induction rest as [|r rest IH]; intros s; cbn [fold_left concat].
  - rewrite app_nil_r. reflexivity.
  - rewrite merge_summ, IH, app_assoc. reflexivity.
Qed.

Theorem run_exact a segs : segs <> [] -> run a segs = Some (spec a (concat segs)).
Proof.
  destruct segs as [|s rest]; [congruence|]. intros _.
  unfold run. rewrite fold_merge, finalize_summ. reflexivity.
Qed.

Theorem spec_perm a l l' : Permutation l l' -> spec a l = spec a l'.
Proof. intros HP. rewrite <- !finalize_summ, (summ_perm a l l' HP). reflexivity. Qed.

Theorem run_layout_independent a segs segs' :
  segs <> [] -> segs' <> [] -> Permutation (concat segs) (concat segs') -> run a segs = run a segs'.
Proof.
  intros H H' HP. rewrite (run_exact a segs H), (run_exact a segs' H'), (spec_perm a _ _ HP). reflexivity.
Qed.

Theorem model_is_spec c : wf c = true -> model_out c = spec_out c.
Proof.
  unfold wf, model_out, spec_out. intros H. apply andb_prop in H as [_ H].
  destruct (k_segs c) as [|s rest] eqn:E; [discriminate|].
  induction (k_aggs c) as [|a l IH]; cbn [flat_map map]; [reflexivity|].
  rewrite run_exact by congruence. cbn [app]. rewrite IH. reflexivity.
Qed.
