(** C04 — Committed contents follow upsert/delete/rollback semantics.
    Statement file; proofs in Core/{AList,Entries,Commit,CommitCorrect,Refine}.v. *)
From Coq Require Import List NArith Bool.
From SL Require Import Base.Tie Core.Model Core.Refine C04.Model.
Import ListNotations.
Open Scope N_scope.

(** After every call of every history (any length, any number of handles, with compaction and
    reopen) that contains no stale commit, a fresh reader sees exactly one copy of each id and
    the same id -> version map as the user-level specification machine. *)
Theorem C04_refines : forall h : list api,
  has_stale sinit h = false ->
  Forall2 (fun (l : list (N * N)) (c : cmap) =>
             NoDup (map fst l) /\ forall id, alookup id l = alookup id c)
          (run_obs init h) (srun_obs sinit h).
Proof. exact refines_spec. Qed.

(** Queued operations are invisible: nothing but commit and compaction touches the manifest. *)
Theorem C04_invisible_until_commit : forall (s : istate) (x : api),
  (forall h, x <> Commit h) -> x <> Compact -> man (step s x) = man s.
Proof.
  intros s x Hc Hk. destruct x; cbn; try reflexivity.
  - destruct (alookup h (ws s)); reflexivity.
  - destruct (alookup h (ws s)); reflexivity.
  - exfalso; eapply Hc; reflexivity.
  - destruct (alookup h (ws s)); reflexivity.
  - congruence.
Qed.

(** Rollback discards the handle's queue and the durable queue. *)
Theorem C04_rollback_discards : forall (s : istate) (h : N) (w : writer),
  alookup h (ws s) = Some w ->
  wal (step s (Rollback h)) = [] /\
  option_map wq (alookup h (ws (step s (Rollback h)))) = Some [].
Proof.
  intros s h w Hw. cbn. rewrite Hw. cbn. rewrite N.eqb_refl. split; reflexivity.
Qed.

(** The faithful model does NOT satisfy the specification on stale histories: known finding C04/1.
    W1 adds a; W2 is created (recovers the add); W1 commits, deletes a, commits; W2 commits. *)
Definition stale_witness : list api :=
  [NewWriter 1; AddDoc 1 1 0 1; NewWriter 2; Commit 1; DelDoc 1 2 0; Commit 1; Commit 2].

Theorem C04_stale_refuted :
  has_stale sinit stale_witness = true /\
  obs_eqb (conc_obs stale_witness) (spec_obs stale_witness) = false /\
  check_case (stale_witness, conc_obs stale_witness) = 101.
Proof. vm_compute. repeat split; reflexivity. Qed.

(** Non-vacuity: a three-handle history with upserts, deletes, rollback, compaction and reopen
    that is not stale, on which model and specification agree and contents are non-trivial. *)
Example C04_nonvacuous :
  let h := [NewWriter 1; AddDoc 1 1 0 1; AddDoc 1 2 1 2; Commit 1; NewWriter 2; AddDoc 2 3 0 3;
            DelDoc 2 4 1; Commit 2; AddDoc 1 5 2 4; Rollback 1; AddDoc 1 6 3 5; Commit 1; Compact;
            Reopen; NewWriter 3; DelDoc 3 7 3; AddDoc 3 8 1 6; Commit 3] in
  has_stale sinit h = false /\
  last (conc_obs h) [] = [(0, 3); (1, 6)] /\
  check_case (h, conc_obs h) = 0.
Proof. vm_compute. repeat split; reflexivity. Qed.
