(** C09 — Pruned top-k equals exhaustive top-k.  Statement file.

    Model (C09/Wand.v): [wand M B k bmw accept T] is the pivot loop of [wand_loop] (after the repair;
    [bmw = true] adds the block-max check of the candidate document), [brute M B k accept T U] is
    [brute_force]: every document of [U] that [accept]s, with its full score, ranked by (score
    descending, document ascending) and cut at [k].  Both return the keys [enc M B score doc] of the
    ranked documents, best first.  Scores are integer sums of per-term contributions; the float side
    (rounding, [plan.evaluate]) is outside the model and covered by the tie (1e-6 relative). *)
From Coq Require Import List NArith ZArith Bool Permutation.
From SL Require Import Base.Tie Base.Paging C09.Model C09.SpecProofs C09.Wand C09.WandProofs.
Import ListNotations.
Open Scope N_scope.

(** WAND / block-max WAND soundness: if every posting's contribution is bounded by its block bound and
    by the term-wide bound ([wf_term]; postings in strictly increasing document order), [U] is exactly
    the set of documents occurring in postings, and [M], [B] bound scores and documents, then for every
    [k > 0], every acceptance predicate (deleted documents, matcher, filter, cursor) and both
    strategies the loop terminates within the fuel [1 + number of postings] and returns what brute
    force returns.  A rejected document takes no heap slot and does not raise the threshold (it is
    part of neither side). *)
Theorem C09_wand_eq_brute : forall M B k bmw accept T U,
  Forall wf_term T ->
  NoDup U ->
  (forall d, In d U <-> exists t p, In t T /\ In p (t_ps t) /\ pd p = d) ->
  (forall d, In d U -> d < B) ->
  sumN (map t_ub T) <= M ->
  (0 < k)%nat ->
  wand M B k bmw accept T = Some (brute M B k accept T U).
Proof. intros. now apply wand_eq_brute. Qed.

(** the essential invariant, on its own: a full heap absorbs any batch of keys none of which is
    better than an entry of the heap — skipped documents cannot change the top-k *)
Theorem C09_topk_absorbs : forall k K X,
  length (topk k K) = k ->
  (forall a b, In a (topk k K) -> In b X -> a <= b) ->
  topk k (K ++ X) = topk k K.
Proof. exact topk_absorbs. Qed.

(** the loop as found ([execution = bmw] before the repair): pivot selection with the bounds of the
    current blocks loses the best document; the repaired loop returns it *)
Theorem C09_block_pivot_refuted :
  Forall wf_term wit_terms
  /\ wand_old 7 8 1 (fun _ _ => true) wit_terms = Some [enc 7 8 3 1]
  /\ brute 7 8 1 (fun _ _ => true) wit_terms wit_U = [enc 7 8 5 6]
  /\ wand 7 8 1 true (fun _ _ => true) wit_terms = Some [enc 7 8 5 6].
Proof. exact block_pivot_refuted. Qed.

(** when the final score is not bounded by the bounds used for pruning (function_score,
    script_score, rank_feature, constant_score rewriting the score after the pivot decision) the loop
    is unsound — which is why the repaired code does not prune when an adjustment is attached *)
Theorem C09_adjusted_refuted :
  wand 20 16 1 false (fun _ _ => true) adj_terms = Some [enc 20 16 3 2]
  /\ brute 20 16 1 (fun _ _ => true) adj_terms [1; 2; 4; 9] = [enc 20 16 9 4].
Proof. exact invalid_bounds_refuted. Qed.

(** the comparison used by the tie accepts the exhaustive ranking itself *)
Theorem C09_spec_accepts_exhaustive : forall c, nodup_ids (reference c) = true ->
  spec (exhaustive_observation c) = true.
Proof. exact spec_accepts_exhaustive. Qed.

(** Non-vacuity: three terms over nine documents, k = 2 and 3, with and without the block check,
    with a rejected document. *)
Example C09_nonvacuous :
  let p d c b := {| pd := d; pc := c; pb := b |} in
  let T := [ {| t_ub := 5; t_ps := [p 1 2 2; p 3 1 2; p 4 5 5; p 9 1 1] |};
             {| t_ub := 4; t_ps := [p 2 1 1; p 3 4 4; p 7 1 3; p 8 3 3; p 9 2 2] |};
             {| t_ub := 9; t_ps := [p 5 1 1; p 6 1 1; p 7 9 9] |} ] in
  wand 100 16 2 true (fun _ _ => true) T = Some [enc 100 16 10 7; enc 100 16 5 3]
  /\ wand 100 16 2 false (fun _ _ => true) T = Some (brute 100 16 2 (fun _ _ => true) T [1;2;3;4;5;6;7;8;9])
  /\ wand 100 16 3 true (fun d _ => negb (d =? 7)) T
     = Some (brute 100 16 3 (fun d _ => negb (d =? 7)) T [1;2;3;4;5;6;7;8;9]).
Proof. cbv zeta. repeat split; vm_compute; reflexivity. Qed.
