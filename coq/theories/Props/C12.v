(** C12 — Aggregations are exact and independent of segmentation.
    Statement file: theorems are closed by [exact] of lemmas proved in C12/Proofs.v.

    [run a segs]  = one collector tree per segment ([summ]), intermediates merged left to right
                    ([merge]), then [finalize]  (the code's pipeline);
    [spec a docs] = the independent one-pass computation over all matched live documents.
    Kinds: terms (size / min_doc_count / missing), range, histogram (interval / offset /
    min_doc_count / extended bounds / missing), filter, stats, extended_stats, value_count,
    cardinality, percentiles and percentile_ranks (exact mode), with sub-aggregations to any depth. *)
From Coq Require Import List ZArith NArith Bool Permutation.
From SL Require Import Base.Tie C12.Model C12.Proofs.
From SL Require C12.Composite.
Import ListNotations.
Open Scope Z_scope.

(** Merging per-segment summaries is the summary of the concatenated documents, for every
    aggregation tree (unbounded depth) and all document lists. *)
Theorem C12_merge_is_union : forall a l1 l2, merge a (summ a l1) (summ a l2) = summ a (l1 ++ l2).
Proof. exact merge_summ. Qed.

(** Exactness: whatever the segment layout, the response is the one-pass computation over all
    documents, thresholds and limits applied to the merged counts. *)
Theorem C12_exact : forall a segs, segs <> [] -> run a segs = Some (spec a (concat segs)).
Proof. exact run_exact. Qed.

(** Independence of segmentation: two layouts of the same documents (as a multiset) answer alike. *)
Theorem C12_segmentation_independent : forall a segs segs',
  segs <> [] -> segs' <> [] -> Permutation (concat segs) (concat segs') -> run a segs = run a segs'.
Proof. exact run_layout_independent. Qed.

(** The model evaluated by the correspondence check equals the executable specification. *)
Theorem C12_model_is_spec : forall c, wf c = true -> model_out c = spec_out c.
Proof. exact model_is_spec. Qed.

(** Non-vacuity: terms(min_doc_count 2, size 2) with a stats sub-aggregation and a histogram with
    min_doc_count 2 over documents spread so that every per-segment count is below the threshold. *)
Example C12_nonvacuous :
  let d t n := {| kws := [[t]]; nums := [[n]] |} in
  let a1 := ATerms 0 (Some 2%N) 2%N None [AMetric MStats 0 None] in
  let a2 := AHist 0 10 0 2%N None None [] in
  let segs := [[d 1 2; d 2 14; d 3 6]; [d 1 4; d 2 16]; [d 3 8; d 3 30]] in
  run a1 segs = Some (RBuckets [(3, 3%N, [RStats 3 44 6 30 44]); (1, 2%N, [RStats 2 6 2 4 6])])
  /\ run a2 segs = Some (RBuckets [(0, 4%N, []); (10, 2%N, [])])
  /\ run a1 [concat segs] = run a1 segs
  /\ check_case {| k_aggs := [a1; a2]; k_segs := segs;
                   k_obs := [RBuckets [(3, 3%N, [RStats 3 44 6 30 44]); (1, 2%N, [RStats 2 6 2 4 6])];
                             RBuckets [(0, 4%N, []); (10, 2%N, [])]] |} = 0%N.
Proof. vm_compute. repeat split; reflexivity. Qed.

(** Composite aggregations (terms and histogram sources; C12/Composite.v): per-segment collection
    and the count-adding merge give exactly the one-pass response over all matched live
    documents, in lexicographic key order, cut to [size]; hence any two ways of splitting the
    same document sequence into segments give the same response. *)
Theorem C12_composite_exact : forall srcs size segs,
  Composite.crun srcs size segs = Composite.cspec srcs size (concat segs).
Proof. exact Composite.composite_exact. Qed.

Theorem C12_composite_split_independent : forall srcs size segs1 segs2,
  concat segs1 = concat segs2 -> Composite.crun srcs size segs1 = Composite.crun srcs size segs2.
Proof. exact Composite.composite_split_independent. Qed.

Example C12_composite_nonvacuous :
  Composite.crun [Composite.STerms 0; Composite.SHist 1 10] 3
    [[ [[1]; [-3]]; [[2; 1]; [12]] ]; [ [[1]; [-7]] ]]
  = [([1; -10], 2%N); ([1; 10], 1%N); ([2; 10], 1%N)].
Proof. vm_compute. reflexivity. Qed.
