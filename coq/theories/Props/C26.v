(** C26 — The C search entry point stays within the caller's buffer.
    Statement file: theorems are closed by [exact] of lemmas proved in C26/Proofs.v. *)
From Coq Require Import List NArith Bool.
From SL Require Import Base.Tie C26.Model C26.Proofs.
Import ListNotations.
Open Scope N_scope.

Theorem C26_within_buffer : forall i : ffi_in,
  wf i = true ->
  null_handle i = false -> null_query i = false -> null_out i = false -> core_err i = false ->
  cap i <> 0 ->
  let o := ffi_search i in
  ret o < cap i
  /\ nth (N.to_nat (ret o)) (buf o) 1 = 0
  /\ firstn (N.to_nat (ret o)) (buf o) = firstn (N.to_nat (ret o)) (json i)
  /\ (forall k, (k < N.to_nat (ret o))%nat -> nth k (buf o) 0 <> 0)
  /\ skipn (N.to_nat (cap i)) (buf o) = nrepeat (canary i) (slack i).
Proof. exact within_buffer. Qed.

Theorem C26_null_args : forall i : ffi_in,
  (null_handle i = true \/ null_query i = true \/ null_out i = true \/ cap i = 0) ->
  ffi_search i = {| ret := 0; buf := nrepeat (canary i) (cap i + slack i) |}.
Proof. exact null_args_no_write. Qed.

Theorem C26_model_meets_spec : forall i : ffi_in, wf i = true -> spec i (ffi_search i) = true.
Proof. exact model_meets_spec. Qed.

(** Non-vacuity: a concrete truncated call. *)
Example C26_nonvacuous :
  let i := {| json := [123; 34; 104; 34; 125]; cap := 4; slack := 3; canary := 170;
              null_handle := false; null_query := false; null_out := false; core_err := false |} in
  wf i = true /\ ffi_search i = {| ret := 3; buf := [123; 34; 104; 0; 170; 170; 170] |}.
Proof. vm_compute. split; reflexivity. Qed.
