(** C24 — HTTP requests always get a well-formed response.
    Statement file: theorems are closed by [exact] of lemmas proved in C24/Proofs.v.
    [status_of], the routes, the two fallbacks and [handler_blocking] are those of C24/Table.v,
    regenerated from searchlite-http/src/lib.rs by checks/c24.py on every run. *)
From Coq Require Import List NArith Bool.
From SL Require Import Base.Tie C24.Table C24.Model C24.Proofs.
Import ListNotations.
Open Scope N_scope.

(** Every request class (route or unknown path or non-HTTP bytes) x method x declared/streamed/slow
    size x body class x index present or not x core outcome (ok, error, panic) gets an answer;
    a 2xx answer is given only to a call that is not a failure and carries the documented JSON of
    the route called; every other answer carries the error body (HEAD answers and answers to
    non-HTTP bytes have no body); invalid input is 4xx, a missing index 404, re-initialisation
    409, an oversized body 413.  Excluded: known class 1 (chunked bodies crossing the limit). *)
Theorem C24_total_wellformed : forall q : request,
  wf q = true -> known_class q = 0 ->
  exists st sh, respond q = Answer st sh
  /\ (is_2xx st = true -> failure q = false /\ shape_is_doc sh q = true)
  /\ (is_2xx st = false -> shape_is_error sh q = true)
  /\ (invalid_input q = true -> is_4xx st = true)
  /\ (index_missing q = true -> st = 404)
  /\ (reinit q = true -> st = 409)
  /\ (oversized q = true -> st = 413).
Proof. exact total_wellformed. Qed.

(** Error answers take their status from the code's own table, for every request class. *)
Theorem C24_error_status_from_table : forall q : request, status_matches_kind (respond q) = true.
Proof. exact error_status_from_table. Qed.

(** A panic inside the core, in any handler that reaches it, is answered with a 500 error body:
    every handler hands its core work to spawn_blocking and maps the JoinError. *)
Theorem C24_core_panic_contained : forall q : request,
  wf q = true -> q_core q = CorePanic -> reaches_core q = true -> q_meth q <> MHead ->
  exists k, respond q = Answer 500 (SErr k).
Proof. exact core_panic_contained. Qed.

Theorem C24_model_meets_spec : forall q : request,
  wf q = true -> known_class q = 0 ->
  spec q {| o_resp := respond q; o_alive := true |} = true.
Proof. exact model_meets_spec. Qed.

(** Known finding, class 1: the statement's "413 for oversized bodies" fails for a chunked body
    that crosses the limit while the handler reads it (answered 400). *)
Theorem C24_streamed_oversize_refuted :
  wf streamed_bulk = true /\ oversized streamed_bulk = true
  /\ respond streamed_bulk = Answer 400 (SErr K_invalid_request)
  /\ spec streamed_bulk {| o_resp := respond streamed_bulk; o_alive := true |} = false.
Proof. exact streamed_oversize_refuted. Qed.

(** Non-vacuity: a few concrete classes. *)
Example C24_nonvacuous :
  let q0 := {| q_target := Known R_search; q_meth := MPost; q_size := SzOk; q_body := BOk;
               q_idx := true; q_core := CorePanic |} in
  let q1 := {| q_target := UnknownPath; q_meth := MGet; q_size := SzOk; q_body := BNone;
               q_idx := false; q_core := CoreOk |} in
  let q2 := {| q_target := Known R_delete; q_meth := MPut; q_size := SzOk; q_body := BOk;
               q_idx := true; q_core := CoreOk |} in
  let q3 := {| q_target := Known R_init; q_meth := MPost; q_size := SzOk; q_body := BOk;
               q_idx := true; q_core := CoreOk |} in
  wf q0 = true /\ respond q0 = Answer 500 (SErr K_search_join)
  /\ wf q1 = true /\ respond q1 = Answer 404 (SErr K_route_not_found)
  /\ wf q2 = true /\ respond q2 = Answer 405 (SErr K_method_not_allowed)
  /\ wf q3 = true /\ respond q3 = Answer 409 (SErr K_index_exists) /\ reinit q3 = true.
Proof. vm_compute. repeat split; reflexivity. Qed.
