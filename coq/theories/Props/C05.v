(** C05 — Concurrent writer handles are serializable.
    Statement file; model in C05/Model.v, proofs in C05/Proofs.v (reduction) and
    Core/Refine.v (the serial machine refines the map specification).

    Vocabulary: a log is a list of (thread, event) with events [Acq] (writer lock acquired, the
    thread's next call starts), [Sh l] (the instrumented micro-step [l] of the call's body),
    [Rel] (lock released, call returns), [Loc] (lock-free local event, IndexWriter::drop's log
    sync).  [mrun] executes a log micro-step by micro-step on the shared index state;
    [disciplined] is the lock discipline, a boolean function of the log alone. *)
From Coq Require Import List NArith Bool.
From SL Require Import Base.Tie Core.Model Core.AList Core.Refine C05.Model C05.Proofs.
Import ListNotations.
Open Scope N_scope.

(** The reduction theorem.  For every number of threads, every script of lock-taking calls
    (new/add/delete/commit/rollback through any handles, compact) and every log: if the log
    obeys the lock discipline and is executable (each section consists of exactly the micro-steps
    of its call's body, e.g. a commit section = wal sync, manifest snapshot read, live-document
    reload, [segment write], manifest store, commit marker, publish, truncate), then
    - the final shared index state is the one obtained by executing whole calls with
      [Core.Model.step] one after the other in lock-acquisition order,
    - every call returned what it returns in that serial execution,
    - and that order keeps every thread's calls in program order (so it is a serial execution
      of "those calls"). *)
Theorem C05_serializable : forall s0 scripts log m',
  scripts_lockable scripts ->
  disciplined log = true ->
  mrun (minit s0 scripts) log = Some m' ->
  mshared m' = Core.Model.run s0 (map snd (macq m')) /\
  mres m' = serial_results s0 (macq m') /\
  (forall t sc, alookup t scripts = Some sc ->
     exists ts, alookup t (mthreads m') = Some ts /\
                map snd (filter (fun p => fst p =? t) (macq m')) ++ tscript ts = sc).
Proof.
  intros s0 scripts log m' Hl Hd Hr.
  destruct (serializable s0 scripts log m' Hl Hd Hr) as [H1 H2].
  split; [exact H1|]. split; [exact H2|].
  exact (program_order s0 scripts log m' Hr).
Qed.

Lemma run_obs_last : forall h s, h <> [] ->
  last (run_obs s h) [] = contents (man (Core.Model.run s h)).
Proof.
  induction h as [|a h IH]; intros s Hne; [congruence|].
  destruct h as [|b h']; [reflexivity|].
  change (run_obs s (a :: b :: h')) with (contents (man (step s a)) :: run_obs (step s a) (b :: h')).
  change (Core.Model.run s (a :: b :: h')) with (Core.Model.run (step s a) (b :: h')).
  rewrite <- IH by congruence.
  cbn [run_obs]. reflexivity.
Qed.

Lemma Forall2_last : forall {A B} (P : A -> B -> Prop) l1 l2 d1 d2,
  Forall2 P l1 l2 -> l1 <> [] -> P (last l1 d1) (last l2 d2).
Proof.
  intros A B P l1 l2 d1 d2 H. induction H as [|x y l1 l2 Hxy H IH]; intros Hne; [congruence|].
  destruct H as [|x' y' l1' l2' Hxy' H']; [exact Hxy|].
  apply IH. congruence.
Qed.

(** With the refinement theorem of the write path (C04_refines): after a disciplined run on an
    index built by [setup], the committed contents are exactly those of the user-level map
    specification applied to the calls in acquisition order (unless that serial history is in
    the known class C04/1, stale recovered queue). *)
Theorem C05_contents_follow_spec : forall setup scripts log m',
  scripts_lockable scripts ->
  disciplined log = true ->
  mrun (minit (Core.Model.run init setup) scripts) log = Some m' ->
  let h := setup ++ map snd (macq m') in
  h <> [] ->
  has_stale sinit h = false ->
  NoDup (map fst (contents (man (mshared m')))) /\
  forall id, alookup id (contents (man (mshared m'))) = alookup id (last (srun_obs sinit h) []).
Proof.
  intros setup scripts log m' Hl Hd Hr h Hne Hst.
  destruct (serializable _ scripts log m' Hl Hd Hr) as [H1 _].
  assert (E : contents (man (mshared m')) = last (run_obs init h) []).
  { rewrite run_obs_last by exact Hne. rewrite H1. unfold h, Core.Model.run.
    rewrite fold_left_app. reflexivity. }
  rewrite E.
  apply (Forall2_last _ _ _ [] [] (refines_spec h Hst)).
  intros X. destruct h; [congruence|discriminate].
Qed.

(** The discipline is what makes it work: two commits whose sections overlap (thread 1 reads the
    manifest, thread 2 commits completely, thread 1 continues) are executable by the machine but
    lose thread 2's document; no serial order of the six calls gives that outcome. *)
Definition scripts2 : list (N * list api) :=
  [(1, [NewWriter 1; AddDoc 1 1 0 1; Commit 1]); (2, [NewWriter 2; AddDoc 2 2 1 2; Commit 2])].

Definition overlap_log : list ev :=
  [(1, Acq); (1, Sh LLoaded); (1, Rel); (2, Acq); (2, Sh LLoaded); (2, Rel);
   (1, Acq); (1, Sh LAppended); (1, Rel); (2, Acq); (2, Sh LAppended); (2, Rel);
   (1, Acq); (1, Sh LSynced); (1, Sh LManRead);
   (2, Acq); (2, Sh LSynced); (2, Sh LManRead); (2, Sh LLive); (2, Sh LSegment); (2, Sh LStored);
   (2, Sh LMarker); (2, Sh LPublished); (2, Sh LTruncated); (2, Rel);
   (1, Sh LLive); (1, Sh LSegment); (1, Sh LStored); (1, Sh LMarker); (1, Sh LPublished);
   (1, Sh LTruncated); (1, Rel)].

Theorem C05_undisciplined_refuted :
  disciplined overlap_log = false /\
  exists m', mrun (minit init scripts2) overlap_log = Some m' /\
    sort_by_id (contents (man (mshared m'))) = [(0, 1)] /\
    forallb (fun calls => negb (plist_eqb (sort_by_id (contents (man (serial_state init calls))))
                                          [(0, 1)]))
            (all_merges scripts2) = true.
Proof.
  split; [vm_compute; reflexivity|].
  destruct (mrun (minit init scripts2) overlap_log) as [m'|] eqn:E; [|vm_compute in E; discriminate].
  exists m'. split; [reflexivity|].
  vm_compute in E. inversion E; subst m'. vm_compute. split; reflexivity.
Qed.

(** Non-vacuity: three threads (two writers and a compaction) on an index with two segments, a
    disciplined log with a lock-free local event; the machine runs it, the outcome is the serial
    one and the tie's verdict is 0. *)
Example C05_nonvacuous :
  let setup := [NewWriter 9; AddDoc 9 1 0 1; Commit 9; AddDoc 9 2 1 2; Commit 9] in
  let scripts := [(1, [NewWriter 1; AddDoc 1 3 2 3; Commit 1]); (2, [NewWriter 2; DelDoc 2 4 0; Commit 2]);
                  (3, [Compact])] in
  let log := [(1, Acq); (1, Sh LLoaded); (1, Rel); (1, Acq); (1, Sh LAppended); (1, Rel);
              (2, Acq); (2, Sh LLoaded); (2, Rel);
              (1, Acq); (1, Sh LSynced); (1, Sh LManRead); (1, Sh LLive); (1, Sh LSegment); (1, Sh LStored);
              (1, Sh LMarker); (1, Sh LPublished); (1, Sh LTruncated); (1, Rel); (1, Loc);
              (3, Acq); (3, Sh LReader); (3, Sh LCSegment); (3, Sh LCStored); (3, Sh LCPublished);
              (3, Sh LCleaned); (3, Rel);
              (2, Acq); (2, Sh LAppended); (2, Rel);
              (2, Acq); (2, Sh LSynced); (2, Sh LManRead); (2, Sh LLive); (2, Sh LSegment); (2, Sh LStored);
              (2, Sh LMarker); (2, Sh LPublished); (2, Sh LTruncated); (2, Rel)] in
  let o := {| ofinal := [(1, 2); (2, 3)]; oreopen := Some [(1, 2); (2, 3)];
              ores := [(1, [0; 1; 0]); (2, [0; 0; 0]); (3, [0])] |} in
  disciplined log = true /\
  check_case (setup, scripts, log, o) = 0.
Proof. vm_compute. split; reflexivity. Qed.
