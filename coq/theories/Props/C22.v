(** C22 — Completion suggestions are consistent with the term dictionary.
    Statement file: theorems are closed by [exact] of lemmas proved in C22/Proofs.v. *)
From Coq Require Import List NArith Bool Sorted.
From SL Require Import Base.Tie C22.Model C22.Proofs.
Import ListNotations.
Open Scope N_scope.

(** Every option is an indexed term of the field that satisfies the request's match predicate
    (starts with the analyzed prefix / within max_edits and sharing the prefix: the oracle says
    [Some d]) in a segment where it occurs; its doc_freq never exceeds, and below the scan cap
    equals, the number of indexed documents containing the term, with the score of its distance. *)
Theorem C22_sound : forall (r : request) (l : layout) (o : opt), In o (suggest r l) ->
  (exists seg e d, In seg l /\ In e seg /\ e_term e = o_text o /\ e_dist e = Some d /\ e_df e <> 0)
  /\ o_df o <> 0
  /\ o_df o <= cand_df l (o_text o)
  /\ (below_cap r l = true -> o_df o = cand_df l (o_text o) /\ o_score6 o = cand_score6 l (o_text o)).
Proof. exact sound. Qed.

(** At most [size] options, sorted by score descending then text, without repeated texts. *)
Theorem C22_sorted_sized : forall (r : request) (l : layout),
  N.of_nat (length (suggest r l)) <= r_size r
  /\ StronglySorted (fun a b => leo a b = true) (suggest r l)
  /\ NoDup (map o_text (suggest r l)).
Proof. intros r l. destruct (sorted_sized r l) as [H1 H2]. split; [exact H1|split; [exact H2|apply distinct_texts]]. Qed.

(** Two segment layouts of the same documents (same per-term document counts and scores of the
    candidate terms) give the same suggestions while the number of (segment, term) visits stays
    within the scan cap.  NOTE: the cap counts visits, not distinct terms. *)
Theorem C22_layout_independent : forall (r : request) (l1 l2 : layout),
  below_cap r l1 = true -> below_cap r l2 = true ->
  (forall t, cand_df l1 t = cand_df l2 t) ->
  (forall t, cand_score6 l1 t = cand_score6 l2 t) ->
  suggest r l1 = suggest r l2.
Proof. exact layout_independent. Qed.

Theorem C22_model_meets_spec : forall r l, below_cap r l = true -> spec r l (suggest r l) = true.
Proof. exact model_meets_spec. Qed.

Theorem C22_model_meets_spec_above_cap : forall r l, spec_any r l (suggest r l) = true.
Proof. exact model_meets_spec_any. Qed.

(** The cap is about visits: the same three terms spread over segments exceed a cap of 2 and the
    result then depends on the layout. *)
Definition ex_r : request := {| r_size := 2; r_fuzzy := true; r_live := true; r_maxexp := 2 |}.
Definition ex_l1 : layout :=
  [[ {| e_term := 1; e_df := 1; e_dist := Some 0 |}; {| e_term := 2; e_df := 1; e_dist := Some 1 |} ];
   [ {| e_term := 2; e_df := 1; e_dist := Some 1 |}; {| e_term := 3; e_df := 5; e_dist := Some 1 |} ]].
Definition ex_l2 : layout :=
  [[ {| e_term := 1; e_df := 1; e_dist := Some 0 |}; {| e_term := 2; e_df := 2; e_dist := Some 1 |};
     {| e_term := 3; e_df := 5; e_dist := Some 1 |}; {| e_term := 4; e_df := 9; e_dist := None |} ]].

Theorem C22_above_cap_layout_dependent :
  (forall t, cand_df ex_l1 t = cand_df ex_l2 t) /\ suggest ex_r ex_l1 <> suggest ex_r ex_l2.
Proof.
  split.
  - intros t. unfold cand_df, ex_l1, ex_l2. cbn [flat_map e_dist e_term e_df app].
    destruct (1 =? t) eqn:E1; destruct (2 =? t) eqn:E2; destruct (3 =? t) eqn:E3;
      try (apply N.eqb_eq in E1); try (apply N.eqb_eq in E2); try (apply N.eqb_eq in E3);
      subst; try discriminate; reflexivity.
  - vm_compute. discriminate.
Qed.

(** Non-vacuity *)
Example C22_nonvacuous :
  let r := {| r_size := 2; r_fuzzy := false; r_live := true; r_maxexp := 0 |} in
  suggest r ex_l1 = [ {| o_text := 3; o_df := 5; o_score6 := 15 |}; {| o_text := 1; o_df := 1; o_score6 := 6 |} ]
  /\ suggest r ex_l2 = suggest r ex_l1
  /\ below_cap r ex_l1 = true /\ spec r ex_l1 (suggest r ex_l1) = true /\ wf ex_l1 = true.
Proof. vm_compute. repeat split; reflexivity. Qed.
