(** C20 — Explain and profile do not change results.
    Statement file: theorems are closed by [exact] of lemmas proved in Base/OrdSort.v,
    C10/Proofs.v and C20/Proofs.v.

    Reading guide.  [segs] = the matching live candidates of every segment (C10/Model.v [cand]:
    position, sort values, real f32 score).  [search post aggs r fl segs] is the response of
    request [r] under the flags [fl]: [post] stands for everything [IndexReader::search] does with
    the sorted candidate list (rescore, collapse, next cursor, cut to the limit, materialise) and
    [aggs] for the aggregation pipeline; both are arbitrary functions — the theorems hold for
    any.  The flags enter through the score mode ([scoring_on]: explain forces the score hook)
    and through the way candidates are gathered ([gathered]: the explain sort path ranks every
    live document of every segment, the others keep top_k per segment / in one heap). *)
From Coq Require Import List NArith ZArith Bool.
From SL Require Import Base.Tie Base.OrdSort C10.Model C10.Proofs C20.Model C20.Proofs.
Import ListNotations.
Open Scope N_scope.

(** two flag settings that put the executor in the same score mode give the same response:
    hits, order, scores, cursor, groups (all inside [post]), total and aggregations *)
Theorem C20_flags_neutral :
  forall (H G : Type) (post : list cand -> H) (aggs : list cand -> G) r fl1 fl2 segs,
  NoDup (map pos (concat segs)) -> scoring_on r fl1 = scoring_on r fl2 ->
  search post aggs r fl1 segs = search post aggs r fl2 segs.
Proof. exact search_same. Qed.

(** profile never changes anything *)
Theorem C20_profile_neutral :
  forall (H G : Type) (post : list cand -> H) (aggs : list cand -> G) r e p1 p2 segs,
  NoDup (map pos (concat segs)) ->
  search post aggs r {| f_explain := e; f_profile := p1 |} segs =
  search post aggs r {| f_explain := e; f_profile := p2 |} segs.
Proof. intros. apply search_same; [assumption|reflexivity]. Qed.

(** explain changes nothing unless the request is match-only without it (known class 1: no
    _score in the sort plan, no custom scoring, no score-needing aggregation) *)
Theorem C20_explain_neutral_outside_class1 :
  forall (H G : Type) (post : list cand -> H) (aggs : list cand -> G) r fl1 fl2 segs,
  NoDup (map pos (concat segs)) -> class1 r = false ->
  search post aggs r fl1 segs = search post aggs r fl2 segs.
Proof.
  intros H G post aggs r fl1 fl2 segs Hd Hc. apply search_same; [exact Hd|].
  now rewrite !scoring_outside_class1.
Qed.

(** inside class 1 the sorted candidate list every later step works on still has the same
    documents in the same order with the same sort values — only the scores differ; the total is
    the same, and so is every aggregation that does not read the scores (a score-reading one
    takes the request out of class 1) *)
Theorem C20_class1_only_scores :
  forall (H G : Type) (post : list cand -> H) (aggs : list cand -> G) r fl1 fl2 segs,
  NoDup (map pos (concat segs)) -> class1 r = true ->
  map strip (ranked r fl1 segs) = map strip (ranked r fl2 segs) /\
  rs_total (search post aggs r fl1 segs) = rs_total (search post aggs r fl2 segs) /\
  ((exists aggs', forall l, aggs l = aggs' (map strip l)) ->
   rs_aggs (search post aggs r fl1 segs) = rs_aggs (search post aggs r fl2 segs)).
Proof.
  intros H G post aggs r fl1 fl2 segs Hd Hc.
  assert (Hp : plan_uses_score (r_plan r) = false).
  { unfold class1 in Hc. destruct (plan_uses_score (r_plan r)); [discriminate|reflexivity]. }
  split; [now rewrite !ranked_strip|]. split; [reflexivity|].
  intros [aggs' Ha]. cbn. rewrite !Ha, !concat_seen, !map_map. f_equal.
  apply map_ext. intros c. now rewrite !strip_seen.
Qed.

(** ... and the scores do differ: explain turns 0.0 into the real score (refutation of the
    property's "scores" inside class 1) *)
Definition c1_req : req :=
  {| r_plan := [{| pf_kind := FI64; pf_order := Asc |}]; r_limit := 2; r_topk := 3;
     r_custom := false; r_aggs_score := false |}.
Definition c1_segs : list (list cand) :=
  [[{| c_id := 0; c_seg := 0; c_doc := 0; c_vals := [RI64 [5%Z]]; c_score := 1065353216 |};
    {| c_id := 1; c_seg := 0; c_doc := 1; c_vals := [RI64 [2%Z]]; c_score := 1073741824 |}]].

Theorem C20_class1_scores_refuted :
  class1 c1_req = true /\
  map c_score (ranked c1_req {| f_explain := false; f_profile := false |} c1_segs) = [0; 0] /\
  map c_score (ranked c1_req {| f_explain := true; f_profile := false |} c1_segs) = [1073741824; 1065353216].
Proof. vm_compute. repeat split. Qed.

(** the explain sort path gathers every match; cutting the sorted list to top_k (the repair) is
    what makes it the list the other paths produce — without the cut rescoring and collapsing
    saw more candidates under explain (witness: 3 matches, top_k = 2) *)
Theorem C20_uncut_explain_path_refuted :
  exists r segs,
    length (ranked_unrepaired r {| f_explain := true; f_profile := false |} segs) <>
    length (ranked_unrepaired r {| f_explain := false; f_profile := false |} segs).
Proof.
  exists {| r_plan := [{| pf_kind := FI64; pf_order := Asc |}; {| pf_kind := FScore; pf_order := Desc |}];
            r_limit := 1; r_topk := 2; r_custom := false; r_aggs_score := false |},
         [[{| c_id := 0; c_seg := 0; c_doc := 0; c_vals := [RI64 [5%Z]; RNone]; c_score := 1 |};
           {| c_id := 1; c_seg := 0; c_doc := 1; c_vals := [RI64 [2%Z]; RNone]; c_score := 2 |};
           {| c_id := 2; c_seg := 0; c_doc := 2; c_vals := [RI64 [3%Z]; RNone]; c_score := 3 |}]].
  vm_compute. discriminate.
Qed.

(** every explanation's final score is its hit's score, whatever the earlier phases (scoring,
    rescoring) left in the explanation, and completing the explanations does not touch ids or
    scores *)
Theorem C20_explanation_final : forall hs,
  explanations_final (finish_explanations hs) = true /\
  map (fun h => (h_id h, h_score h)) (finish_explanations hs) = map (fun h => (h_id h, h_score h)) hs.
Proof. intros hs. split; [apply finish_final|apply finish_keeps]. Qed.

(* ---------------------------------------------------------------- non-vacuity *)

Definition ex_req : req :=
  {| r_plan := [{| pf_kind := FKeyword; pf_order := Desc |}; {| pf_kind := FScore; pf_order := Desc |}];
     r_limit := 2; r_topk := 3; r_custom := false; r_aggs_score := false |}.
Definition ex_segs : list (list cand) :=
  [ [ {| c_id := 0; c_seg := 0; c_doc := 0; c_vals := [RStr [[97]]; RNone]; c_score := 1065353216 |};
      {| c_id := 1; c_seg := 0; c_doc := 1; c_vals := [RStr []; RNone]; c_score := 1073741824 |} ];
    [ {| c_id := 2; c_seg := 1; c_doc := 0; c_vals := [RStr [[99]]; RNone]; c_score := 1065353216 |};
      {| c_id := 3; c_seg := 1; c_doc := 1; c_vals := [RStr [[98]]; RNone]; c_score := 1077936128 |};
      {| c_id := 4; c_seg := 1; c_doc := 2; c_vals := [RStr [[98]]; RNone]; c_score := 1065353216 |} ] ].

Example C20_example :
  NoDup (map pos (concat ex_segs)) /\ class1 ex_req = false /\
  map c_id (ranked ex_req {| f_explain := true; f_profile := true |} ex_segs) = [2; 3; 4] /\
  map c_id (ranked ex_req {| f_explain := false; f_profile := false |} ex_segs) = [2; 3; 4].
Proof.
  split; [|vm_compute; repeat split].
  cbn. repeat (apply NoDup_cons; [cbn; intros H; repeat (destruct H as [H|H]; [discriminate H|]); exact H|]).
  apply NoDup_nil.
Qed.
