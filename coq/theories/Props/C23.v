(** C23 — HTTP writes acknowledged as queued are never silently dropped.
    Statement file: theorems are closed by [exact] of lemmas proved in C23/Proofs.v. *)
From Coq Require Import List NArith Bool.
From SL Require Import Base.Tie C23.Model C23.Proofs.
Import ListNotations.
Open Scope N_scope.

(** For every request sequence: what is committed at the end is exactly the acknowledged
    operations up to the last /commit, applied in order from the empty index, and what is still
    in the queue (the shared log) is exactly the operations acknowledged since — whatever
    rejected requests lie in between.  [acked] reads the acknowledgements off the answers. *)
Theorem C23_ack_preserved : forall rs : list req,
  let s := fst (run init rs) in
  let h := combine rs (snd (run init rs)) in
  committed s = apply_ops [] (fst (acked [] [] h)) /\ wal s = snd (acked [] [] h).
Proof. exact ack_preserved. Qed.

(** A rejected request (any non-2xx answer with an error body) leaves the committed contents and
    the queue exactly as they were: it queues none of its own documents and drops nothing. *)
Theorem C23_reject_queues_nothing : forall (s : store) (r : req) (st : N) (k : ekind),
  snd (step s r) = Rejected st k -> fst (step s r) = s.
Proof. exact reject_queues_nothing. Qed.

(** The model's answers satisfy the executable statement [spec] (the reference queue machine
    driven by the answers, checked at every /search). *)
Theorem C23_model_meets_spec : forall rs : list req, spec rs (snd (run init rs)) = true.
Proof. exact model_meets_spec. Qed.

(** Acknowledgements do happen: an /add whose lines are all blank or valid is acknowledged and
    its documents are appended behind the queue. *)
Theorem C23_clean_add_acked : forall (s : store) (ls : list line),
  forallb clean_line ls = true ->
  exists n, snd (step s (RAdd ls)) = Queued n
            /\ wal (fst (step s (RAdd ls))) = wal s ++ carried (RAdd ls).
Proof. exact clean_add_acked. Qed.

(** The handlers as they were before the repair (failure => [rollback()], which truncates the
    whole shared log) violate the statement. *)
Theorem C23_full_rollback_refuted : exists rs, spec rs (snd (run_rb RbAll init rs)) = false.
Proof. exact full_rollback_refuted. Qed.

(** The contents representation is a finite map: lookups after [apply_op]. *)
Theorem C23_contents_is_map : forall (m : contents) (i x : id) (v : ver),
  sorted m ->
  lookup x (apply_op m (OAdd i v)) = (if x =? i then Some v else lookup x m)
  /\ lookup x (apply_op m (ODel i)) = (if x =? i then None else lookup x m)
  /\ sorted (apply_op m (OAdd i v)) /\ sorted (apply_op m (ODel i)).
Proof.
  intros m i x v H. cbn [apply_op].
  repeat split; [apply lookup_set | now apply lookup_unset | now apply sorted_set | now apply sorted_unset].
Qed.

(** Non-vacuity: accepted /add, rejected /add (second document invalid, the first one valid and
    appended before the failure), accepted /delete, /commit, /search. *)
Example C23_nonvacuous :
  let rs := [RAdd [LDoc (VGood 1 1); LBlank; LDoc (VGood 2 1)];
             RAdd [LDoc (VGood 3 1); LDoc VInvalid];
             RBulk (Some [BDoc (VGood 2 2); BNotObject]);
             RDelete (Some [IdOk 1]);
             RSearch; RCommit; RSearch] in
  snd (run init rs) =
    [Queued 2; Rejected 400 EAddFailed; Rejected 400 EInvalidDocument; Queued 1;
     Hits []; Committed; Hits [(2, 1)]]
  /\ fst (acked [] [] (combine rs (snd (run init rs)))) = [OAdd 1 1; OAdd 2 1; ODel 1].
Proof. vm_compute. split; reflexivity. Qed.
