(** C07 — Query matching follows the documented query semantics.
    Statement file: theorems are closed by [exact] of lemmas proved in C07/{Proofs,Phrase,Main}.v. *)
From Coq Require Import List NArith Bool.
From SL Require Import Base.Tie C07.Model C07.Proofs C07.Phrase C07.Main.
Import ListNotations.
Open Scope N_scope.

(** The evaluator over postings (matches_node, phrase runtimes, slop search) agrees with the
    documented semantics on the analyzed tokens, for every document of every segment and every
    query tree (unbounded depth). *)
Theorem C07_matcher_sound_complete : forall (ds : list doc) (ord : nat) (d : doc) (q : query),
  nth_error ds ord = Some d ->
  eval ds ord (d_fast d) (plan true q) = sem true q (doc_tokens d) (d_fast d).
Proof. exact matcher_sound_complete. Qed.

(** Plan + candidate generation + evaluator return exactly the live documents that satisfy the
    semantics, whatever the segmentation (limit covering all matches). *)
Theorem C07_results_exact : forall (corpus : list (list doc)) (q : query) (id : N),
  In id (search corpus q) <->
  exists ds d, In ds corpus /\ In d ds /\ d_live d = true
               /\ sem true q (doc_tokens d) (d_fast d) = true /\ d_id d = id.
Proof. exact results_exact_prop. Qed.

Theorem C07_results_exact_list : forall corpus q, search corpus q = spec_ids corpus q.
Proof. exact search_exact. Qed.

(** Should clauses are optional whenever the bool query has a must or filter clause and no
    minimum_should_match. *)
Theorem C07_should_optional : forall fz must should mustnot fl toks fast,
  (must <> [] \/ fl <> []) ->
  sem fz (QBool must should mustnot fl None) toks fast = sem fz (QBool must [] mustnot fl None) toks fast.
Proof. exact should_optional. Qed.

(** Every indexed word of a live document finds that document, when the search analyzer maps
    the word to at least one key the index analyzer produced for it (analyzer compatibility). *)
Theorem C07_indexed_word_finds_doc :
  forall (word : Type) (index_keys search_keys : word -> list tkey),
  (forall w, exists k, In k (index_keys w) /\ In k (search_keys w)) ->
  forall corpus ds d w fuzzy,
    In ds corpus -> In d ds -> d_live d = true ->
    (forall k, In k (index_keys w) -> has_key k (doc_tokens d) = true) ->
    incl (search_keys w) fuzzy ->
    In (d_id d) (search corpus (QTerm (search_keys w) fuzzy)).
Proof. exact indexed_word_finds_doc. Qed.

Theorem C07_model_meets_spec : forall corpus q, spec corpus q [sort_dedup (search corpus q)] = true.
Proof. exact model_meets_spec. Qed.

(** What was wrong before the fix: term-driven candidate generation alone loses the document
    that satisfies [must: match_all] but lacks the optional scored should-term. *)
Definition ex_corpus : list (list doc) :=
  [[ {| d_id := 1; d_live := true; d_text := [[[(1, 0); (2, 1)]]]; d_kw := []; d_fast := [] |};
     {| d_id := 2; d_live := true; d_text := [[[(3, 0)]; [(1, 0)]]]; d_kw := [9]; d_fast := [7] |};
     {| d_id := 3; d_live := true; d_text := [[[(2, 0); (3, 1)]]]; d_kw := []; d_fast := [] |};
     {| d_id := 4; d_live := false; d_text := [[[(1, 0)]]]; d_kw := []; d_fast := [] |} ]].
Definition ex_query : query := QBool [QAll] [QTerm [1] [1]] [] [] None.

Theorem C07_unfixed_candidates_refuted :
  exists corpus q, search_unfixed corpus q <> spec_ids corpus q.
Proof. exists ex_corpus, ex_query. vm_compute. discriminate. Qed.

(** Non-vacuity: concrete non-trivial runs (optional should; phrase with slop across two values
    of a multi-valued field: offsets 0 and 1, positions 0 and 1; must_not; tombstone). *)
Example C07_nonvacuous :
  search ex_corpus ex_query = [1; 2; 3]
  /\ search_unfixed ex_corpus ex_query = [1; 2]
  /\ search ex_corpus (QPhrase [[[3]; [1]]] 0) = [2]
  /\ search ex_corpus (QBool [] [QTerm [1] [1]; QTerm [3] [3]] [QPhrase [[[2]; [3]]] 0] [] None) = [1; 2]
  /\ search ex_corpus (QBool [QTerm [2] [2]] [] [] [FKw [7]] None) = []
  /\ wf ex_corpus = true.
Proof. vm_compute. repeat split; reflexivity. Qed.
