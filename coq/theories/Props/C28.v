(** C28 — A copied index directory is self-contained. Statement file. *)
From Coq Require Import List NArith Bool.
From SL Require Import Base.Tie C28.Model C28.Proofs.
Import ListNotations.
Open Scope N_scope.

(** For every stored manifest (its segment paths may name any roots), every opened root [r] and
    every sequence of searches, commits and compactions through that index, every path read,
    written, renamed or unlinked lies under [r]. *)
Theorem C28_self_contained : forall (r : N) (stored : pmanifest) (ops : list op),
  Forall (Forall (fun p : path => fst p = r)) (touched r stored ops).
Proof. exact self_contained. Qed.

Theorem C28_model_meets_spec : forall stored ops,
  spec {| roots := map root_classes (touched 1 stored ops); results_ok := true; original_untouched := true |} = true.
Proof. exact model_meets_spec. Qed.

(** The code before the fix (stored strings used verbatim) does not have the property: a copy at
    root 1 of an index committed at root 0 reads, and on compaction unlinks, files under root 0. *)
Theorem C28_verbatim_refuted :
  exists stored ops, ~ Forall (Forall (fun p : path => fst p = 1)) (touched_verbatim 1 stored ops).
Proof.
  exists [[(0, 10)]; [(0, 11)]], [OCompact [12]]. cbn. intros H.
  inversion H as [|? ? _ H1]; subst. inversion H1 as [|? ? H2 _]; subst.
  inversion H2 as [|? ? H3 _]; subst. cbn in H3. discriminate.
Qed.

Example C28_nonvacuous :
  touched 1 [[(0, 10); (0, 11)]; [(0, 12)]] [OSearch; OCommit [20; 21]; OCompact [30]] =
  [[(1, 1)];
   [(1, 10); (1, 11); (1, 12)];
   [(1, 3); (1, 10); (1, 11); (1, 12); (1, 20); (1, 21); (1, 2); (1, 1); (1, 3)];
   [(1, 10); (1, 11); (1, 12); (1, 20); (1, 21); (1, 30); (1, 2); (1, 1); (1, 10); (1, 11); (1, 12); (1, 20); (1, 21)]].
Proof. vm_compute. reflexivity. Qed.
