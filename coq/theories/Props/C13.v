(** C13 — Aggregations and suggestions do not depend on paging.
    Statement file: theorems are closed by [exact] of lemmas proved in C13/Proofs.v.

    The pipeline model ([C13.Model.search]) is generic in the oracles that are functions of the
    index contents, the query, the filter and the sort only (matching, filtering, sort keys, what
    pruning would skip, the order in which an executor offers candidates, the suggester); the
    paging parameters (cursor, limit, candidate_size, sort, return_hits, execution, explain,
    profile, rescore) are fields of [request].  The theorems quantify over all oracles, indexes
    and requests. *)
From Coq Require Import List NArith Bool Permutation.
From SL Require Import Base.Tie C13.Model C13.Proofs.
Import ListNotations.
Open Scope N_scope.

Section Statements.
  Variable D : Type.
  Variables Qy Fl So Sg SgR Sc : Type.
  Variable live : D -> bool.
  Variable matches : Qy -> D -> bool.
  Variable passes : Fl -> D -> bool.
  Variable key_of : So -> D -> N.
  Variable fast : So -> bool.
  Variable uses_score : So -> bool.
  Variable scan : Qy -> bool.
  Variable hook : Qy -> bool.
  Variable prunable : exec -> N -> D -> bool.
  Variable visit_order : exec -> list D -> list D.
  Variable sg_empty : Sg -> bool.
  Variable suggest_of : Sg -> SgR.
  Variable sg_none : SgR.
  (** Every executor offers each candidate of a segment exactly once, in some order. *)
  Hypothesis visit_perm : forall e l, Permutation (visit_order e l) l.

  Notation searchM :=
    (search D Qy Fl So Sg SgR live matches passes key_of fast uses_score scan hook prunable visit_order
            sg_empty suggest_of sg_none).

  (** Whatever the cursor, limit, sort, return_hits, execution, explain, profile, rescore and
      candidate_size of two successful requests with the same query, filter and aggregations:
      the segment collectors receive the same documents (as multisets, per segment). *)
  Theorem C13_collector_input_invariant :
    forall (idx : list (list D)) (r r' : request Qy Fl So Sg),
      same_query_filter Qy Fl So Sg r r' ->
      forall seen total nhits more sugg seen' total' nhits' more' sugg',
        searchM idx r = Done D SgR seen total nhits more sugg ->
        searchM idx r' = Done D SgR seen' total' nhits' more' sugg' ->
        Forall2 (@Permutation D) seen seen'.
  Proof. exact (collector_input_invariant D Qy Fl So Sg SgR live matches passes key_of fast uses_score scan hook
                  prunable visit_order sg_empty suggest_of sg_none visit_perm). Qed.

  (** ... namely every live document that matches the query and passes the filter, once. *)
  Theorem C13_collector_input_exact :
    forall (idx : list (list D)) (r : request Qy Fl So Sg),
      r_aggs _ _ _ _ r = true ->
      forall seen total nhits more sugg,
        searchM idx r = Done D SgR seen total nhits more sugg ->
        Forall2 (fun s seg => Permutation s (filter (fun d => live d && matches (r_query _ _ _ _ r) d
                                                               && passes (r_filter _ _ _ _ r) d) seg)) seen idx.
  Proof. exact (collector_input_exact D Qy Fl So Sg SgR live matches passes key_of fast uses_score scan hook
                  prunable visit_order sg_empty suggest_of sg_none visit_perm). Qed.

  (** The aggregation side as an abstract per-segment fold, merged and finalised. *)
  Variables A R : Type.
  Variable agg_new : N -> A.
  Variable agg_collect : A -> D -> Sc -> A.
  Variable agg_merge : list A -> R.
  Variable agg_none : R.
  Variable score_seen : request Qy Fl So Sg -> D -> Sc.
  Hypothesis collect_comm : forall a d1 s1 d2 s2,
    agg_collect (agg_collect a d1 s1) d2 s2 = agg_collect (agg_collect a d2 s2) d1 s1.

  Notation aggs_ofM := (aggs_of D Qy Fl So Sg SgR Sc A R agg_new agg_collect agg_merge agg_none score_seen).

  (** The aggregations of two successful responses to requests with the same query, filter and
      aggregation request are equal, provided the collector does not distinguish the scores the
      two requests hand over (every aggregation but top_hits ignores the score; with a top_hits in
      the tree both requests run in score mode since the repair `fix: score documents when a
      top_hits aggregation is requested`, and the scores of the execution strategies agree up to
      f32 rounding, which the tie tolerates at 1e-6). *)
  Theorem C13_aggs_invariant :
    forall (idx : list (list D)) (r r' : request Qy Fl So Sg),
      same_query_filter Qy Fl So Sg r r' ->
      (forall a d, agg_collect a d (score_seen r d) = agg_collect a d (score_seen r' d)) ->
      aggs_ofM r (searchM idx r) <> None -> aggs_ofM r' (searchM idx r') <> None ->
      aggs_ofM r (searchM idx r) = aggs_ofM r' (searchM idx r').
  Proof. exact (aggs_invariant D Qy Fl So Sg SgR Sc live matches passes key_of fast uses_score scan hook
                  prunable visit_order sg_empty suggest_of sg_none visit_perm A R agg_new agg_collect agg_merge
                  agg_none score_seen collect_comm). Qed.

  (** Suggestions only read the suggest request (and the index). *)
  Theorem C13_suggest_invariant :
    forall (idx : list (list D)) (r r' : request Qy Fl So Sg),
      r_suggest _ _ _ _ r = r_suggest _ _ _ _ r' ->
      suggest_out D SgR (searchM idx r) <> None -> suggest_out D SgR (searchM idx r') <> None ->
      suggest_out D SgR (searchM idx r) = suggest_out D SgR (searchM idx r').
  Proof. exact (suggest_invariant D Qy Fl So Sg SgR live matches passes key_of fast uses_score scan hook
                  prunable visit_order sg_empty suggest_of sg_none). Qed.
End Statements.

(** The instance evaluated by the correspondence check satisfies the executable specification. *)
Theorem C13_model_meets_spec : forall idx r, spec idx r (model_obs idx r) = true.
Proof. exact model_meets_spec. Qed.

(** With the collector called after the cursor test (the code before the repair) the second page
    of a walk aggregates fewer documents than the first; the repaired order does not. *)
Theorem C13_collector_after_cursor_refuted :
  seen_ids (c_search_buggy ex_idx (ex_req None)) = Some [[0; 1]; [2]]
  /\ seen_ids (c_search_buggy ex_idx (ex_req (Some (1, 1)))) = Some [[1]; [2]]
  /\ seen_ids (c_search ex_idx (ex_req None)) = Some [[0; 1]; [2]]
  /\ seen_ids (c_search ex_idx (ex_req (Some (1, 1)))) = Some [[0; 1]; [2]].
Proof. exact buggy_refuted. Qed.

(** Non-vacuity: a two-segment index with a deleted, a non-matching and a filtered-out document,
    read on page 2 of a walk with limit 1, bmw, explain, sorted by a field: the request succeeds
    and the collectors still see documents 0, 1 and 5. *)
Example C13_nonvacuous :
  let d i del m p k := {| d_id := i; d_deleted := del; d_match := m; d_pass := p; d_key := k; d_prunable := true |} in
  let idx := [[d 0 false true true 2; d 1 false true true 1; d 2 true true true 0];
              [d 3 false false true 0; d 4 false true false 0; d 5 false true true 3]] in
  let r : creq :=
    {| r_query := {| q_scan := false; q_hook := false |}; r_filter := tt;
       r_sort := {| s_fast := false; s_uses_score := false |};
       r_cursor := Some (1, 1); r_limit := 1; r_candidate := None; r_return_hits := true; r_exec := Bmw;
       r_explain := true; r_profile := true; r_rescore := Some 2; r_aggs := true; r_aggs_score := true;
       r_suggest := true |} in
  seen_ids (c_search idx r) = Some [[0; 1]; [5]]
  /\ check_case {| k_idx := idx; k_req := r; k_obs := model_obs idx r |} = 0.
Proof. vm_compute. split; reflexivity. Qed.
