(** C27 — Browser persistence: what a reopened page sees after the page was closed at an
    arbitrary point of a conformant schedule.
    Statement file: theorems are closed by [exact] of lemmas proved in C27/Proofs.v. *)
From Coq Require Import List NArith Bool.
From SL Require Import Base.Tie C27.Model C27.Proofs.
Import ListNotations.
Open Scope N_scope.

(** refutations, witnesses by vm_compute *)
Theorem C27_any_order_refuted : forall fixed, exists evs s,
  run fixed st0 evs = Some s /\ reload (idb s) = None.
Proof. exact any_order_refuted. Qed.

Theorem C27_resolved_before_durable_refuted : exists evs s m r,
  run false st0 evs = Some s /\ conf_run false st0 evs = true /\
  In r (resolvedc s) /\ reload (idb s) = Some m /\ ~ incl r m.
Proof. exact resolved_before_durable_refuted. Qed.

(** Non-vacuity: conformant schedules with one / two add+commit rounds fully persisted. *)
Example C27_nonvacuous_one : forall fixed, exists s,
  run fixed st0 sched_one = Some s /\ conf_run fixed st0 sched_one = true /\
  gap s = false /\ resolvedc s = [[0]] /\ reload (idb s) = Some [0] /\
  model_obs s = Some [0].
Proof.
  intros [|]; (eexists; split; [vm_compute; reflexivity|]);
    vm_compute; repeat split; reflexivity.
Qed.

Example C27_nonvacuous_two : forall fixed, exists s,
  run fixed st0 sched_two = Some s /\ conf_run fixed st0 sched_two = true /\
  gap s = false /\ resolvedc s = [[0]; [0; 1]] /\ reload (idb s) = Some [0; 1] /\
  model_obs s = Some [0; 1].
Proof.
  intros [|]; (eexists; split; [vm_compute; reflexivity|]);
    vm_compute; repeat split; reflexivity.
Qed.
