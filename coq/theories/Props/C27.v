(** C27 — Browser persistence: what a reopened page sees after the page was closed at an
    arbitrary point of a conformant schedule.
    Statement file: theorems are closed by [exact] of lemmas proved in C27/Proofs.v. *)
From Coq Require Import List NArith Bool.
From SL Require Import Base.Tie C27.Model C27.Proofs.
Import ListNotations.
Open Scope N_scope.

(** a reopened page opens, and serves the empty index or the manifest of a commit that started *)
Theorem C27_reload_consistent : forall fixed evs s,
  run fixed st0 evs = Some s -> conf_run fixed st0 evs = true ->
  exists m, reload (idb s) = Some m /\ In m ([] :: started s).
Proof. exact reload_consistent. Qed.

(** every commit whose promise resolved is contained in what the reopened page serves
    (repaired code, or no transaction in the request-finished-but-not-durable window) *)
Theorem C27_resolved_present : forall fixed evs s,
  run fixed st0 evs = Some s -> conf_run fixed st0 evs = true ->
  (fixed = true \/ gap s = false) ->
  exists m, reload (idb s) = Some m /\ forall r, In r (resolvedc s) -> incl r m.
Proof. exact resolved_present. Qed.

Theorem C27_model_meets_spec : forall fixed evs s,
  run fixed st0 evs = Some s -> conf_run fixed st0 evs = true ->
  (fixed = true \/ gap s = false) ->
  spec (map (contents (segdocs s)) (started s)) (map (contents (segdocs s)) (resolvedc s)) (model_obs s) = true.
Proof. exact model_meets_spec. Qed.

(** the property's literal cut points: right after a completed transaction there is no gap *)
Theorem C27_no_gap_after_completed_transaction : forall fixed evs i s,
  run fixed st0 (evs ++ [EDone i]) = Some s -> conf_run fixed st0 (evs ++ [EDone i]) = true ->
  gap s = false.
Proof. exact no_gap_after_completed_transaction. Qed.

(** refutations, witnesses by vm_compute *)
Theorem C27_any_order_refuted : forall fixed, exists evs s,
  run fixed st0 evs = Some s /\ reload (idb s) = None.
Proof. exact any_order_refuted. Qed.

Theorem C27_resolved_before_durable_refuted : exists evs s m r,
  run false st0 evs = Some s /\ conf_run false st0 evs = true /\
  In r (resolvedc s) /\ reload (idb s) = Some m /\ ~ incl r m.
Proof. exact resolved_before_durable_refuted. Qed.

(** Non-vacuity: conformant schedules (for both values of [fixed]) with one / two add+commit
    rounds fully persisted: every task polled in FIFO order, every transaction completed in
    creation order, then the commit promise polled. *)
Example C27_nonvacuous_one :
  let evs := [
    EInit; ERun PMan; EReq 0%nat; EDone 0%nat; ERun PMan; EApiPoll; EAdd 0; ECommit; ERun PWal;
    ERun (PSeg 0 0); ERun (PSeg 0 1); ERun (PSeg 0 2); ERun (PSeg 0 3); ERun (PSeg 0 4);
    ERun PMan; EReq 0%nat; EDone 0%nat; ERun PWal; EReq 0%nat; EDone 0%nat; ERun (PSeg 0 0);
    EReq 0%nat; EDone 0%nat; ERun (PSeg 0 1); EReq 0%nat; EDone 0%nat; ERun (PSeg 0 2);
    EReq 0%nat; EDone 0%nat; ERun (PSeg 0 3); EReq 0%nat; EDone 0%nat; ERun (PSeg 0 4);
    EReq 0%nat; EDone 0%nat; ERun PMan; EApiPoll ] in
  forall fixed, exists s,
  run fixed st0 evs = Some s /\ conf_run fixed st0 evs = true /\
  gap s = false /\ resolvedc s = [[0]] /\ reload (idb s) = Some [0] /\
  model_obs s = Some [0].
Proof.
  intros evs [|]; (eexists; split; [vm_compute; reflexivity|]);
    vm_compute; repeat split; reflexivity.
Qed.

Example C27_nonvacuous_two :
  let evs := [
    EInit; ERun PMan; EReq 0%nat; EDone 0%nat; ERun PMan; EApiPoll; EAdd 0; ECommit; ERun PWal;
    ERun (PSeg 0 0); ERun (PSeg 0 1); ERun (PSeg 0 2); ERun (PSeg 0 3); ERun (PSeg 0 4);
    ERun PMan; EReq 0%nat; EDone 0%nat; ERun PWal; EReq 0%nat; EDone 0%nat; ERun (PSeg 0 0);
    EReq 0%nat; EDone 0%nat; ERun (PSeg 0 1); EReq 0%nat; EDone 0%nat; ERun (PSeg 0 2);
    EReq 0%nat; EDone 0%nat; ERun (PSeg 0 3); EReq 0%nat; EDone 0%nat; ERun (PSeg 0 4);
    EReq 0%nat; EDone 0%nat; ERun PMan; EApiPoll; EAdd 1; ECommit; ERun PWal; ERun (PSeg 1 0);
    ERun (PSeg 1 1); ERun (PSeg 1 2); ERun (PSeg 1 3); ERun (PSeg 1 4); ERun PMan; EReq 0%nat;
    EDone 0%nat; ERun PWal; EReq 0%nat; EDone 0%nat; ERun (PSeg 1 0); EReq 0%nat; EDone 0%nat;
    ERun (PSeg 1 1); EReq 0%nat; EDone 0%nat; ERun (PSeg 1 2); EReq 0%nat; EDone 0%nat;
    ERun (PSeg 1 3); EReq 0%nat; EDone 0%nat; ERun (PSeg 1 4); EReq 0%nat; EDone 0%nat;
    ERun PMan; EApiPoll ] in
  forall fixed, exists s,
  run fixed st0 evs = Some s /\ conf_run fixed st0 evs = true /\
  gap s = false /\ resolvedc s = [[0]; [0; 1]] /\ reload (idb s) = Some [0; 1] /\
  model_obs s = Some [0; 1].
Proof.
  intros evs [|]; (eexists; split; [vm_compute; reflexivity|]);
    vm_compute; repeat split; reflexivity.
Qed.
