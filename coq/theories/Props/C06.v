(** C06 — Readers see one consistent snapshot during commits and compaction.
    Statement file; model in C06/Model.v, proofs in C06/Proofs.v.

    Vocabulary: [run fixed r w ph evs] = the observations of reader [r] along the event sequence
    [evs] (writer steps [EW]: segment files written / manifest published / segment files removed;
    reader steps [ER r]: manifest copy, segment open, re-check after a failed segment open,
    open returns, search), starting in world [w] with the reader in phase [ph];
    [fixed = true] is the repaired [IndexReader::open], [false] the original one. *)
From Coq Require Import List NArith Bool.
From SL Require Import Base.Tie Core.Model C06.Model C06.Proofs.
Import ListNotations.
Open Scope N_scope.

(** Once [open] has returned (the reader's last manifest copy was taken right after [pre]),
    the reader holds exactly the segments of the manifest that was published at that instant,
    and EVERY search it performs later returns the contents of that manifest - whatever writer
    events (publishes, file removals, even ill-behaved ones) and other readers' events happen
    in [later].  Holds for the original and for the repaired open. *)
Theorem C06_snapshot_stable : forall fixed r w ph pre post later w2 snap got,
  no_copy r post -> no_copy r later ->
  exec fixed r w ph (pre ++ ER r RCopy :: post) = (w2, POpen snap got) ->
  snap = wman (fst (exec fixed r w ph pre)) /\ got = snap /\
  forall o, In (ER r RSearch, o) (combine later (run fixed r w2 (POpen snap got) later)) ->
            o = OSearch (sort_by_id (contents snap)).
Proof. exact snapshot_stable. Qed.

(** The repaired open never returns an error because of interleaved writer events: for every
    event sequence in which writers keep their protocol ([writers_okb]: fresh segment names,
    publish only manifests whose segment files exist, remove only files of segments that are not
    in the published manifest), from every world in which the published segments' files exist. *)
Theorem C06_open_total : forall r evs w,
  winv w -> writers_okb w evs = true -> ~ In OOpenErr (run true r w PIdle evs).
Proof. intros. apply open_total; cbn; auto. Qed.

(** Progress, finite-writers hypothesis made explicit (1): every retry of the repaired open is
    paid for by a distinct manifest publish among the interleaved events. *)
Theorem C06_open_retries_bounded : forall r evs w,
  (length (filter is_retry (run true r w PIdle evs)) <= length (filter is_publish evs))%nat.
Proof. exact retries_bounded. Qed.

(** Progress (2): from any reachable situation, if no writer event intervenes the reader's own
    next steps ([solo]) reach "open returned Ok" within a bounded number of steps. *)
Theorem C06_open_terminates_when_writers_pause : forall w ph,
  winv w -> rinv w ph -> ph <> PFailed ->
  exists n s g,
    (n <= 2 * length (wman w) + 2 * match ph with POpening _ _ t => length t | _ => 0 end + 7)%nat /\
    solo true w ph n = POpen s g.
Proof. exact open_terminates. Qed.

(** The executable specification (written from the property text: no open/search error; each
    opened reader's results all equal the contents of one manifest that was the published one at
    some instant of its open call) accepts everything the model of the repaired code can do. *)
Theorem C06_model_meets_spec : forall r evs w,
  winv w -> writers_okb w evs = true ->
  ~ In OBad (run true r w PIdle evs) ->
  spec1 r (sinit0 (wman w)) (combine evs (run true r w PIdle evs)) = true.
Proof. exact model_meets_spec. Qed.

(** The original open is NOT total: reader copies the manifest [s1; s2]; compaction publishes the
    merged segment 3 and removes the files of 1; the reader's first segment open fails. *)
Definition seg1 := {| sid := 1; sgen := 1; sdocs := [(0, 1)]; sdel := [] |}.
Definition seg2 := {| sid := 2; sgen := 2; sdocs := [(1, 2)]; sdel := [] |}.
Definition seg3 := {| sid := 3; sgen := 3; sdocs := [(0, 1); (1, 2)]; sdel := [] |}.
Definition w_two := {| wman := [seg1; seg2]; wfiles := [1; 2; 3]; wever := [1; 2; 3] |}.
Definition witness4 : list event :=
  [ER 0 RCopy; EW (WPublish [seg3]); EW (WUnlink 1); ER 0 ROpenSeg].

Theorem C06_open_total_unfixed_refuted :
  writers_okb w_two witness4 = true /\
  In OOpenErr (run false 0 w_two PIdle witness4) /\
  spec1 0 (sinit0 (wman w_two)) (combine witness4 (run false 0 w_two PIdle witness4)) = false.
Proof. vm_compute. repeat split; auto. Qed.

(** Non-vacuity: reader 1 completes its open; reader 0 copies the manifest; a commit replaces
    document 0 (tombstone in segment 1, new segment 4); a compaction merges everything into
    segment 5 and removes the files of 1, 2 and 4; reader 0's first segment open fails, it retries
    once, returns Ok and sees the post-change contents; reader 1 still returns the pre-change
    contents although all its files are gone. *)
Definition seg1d := {| sid := 1; sgen := 1; sdocs := [(0, 1)]; sdel := [0] |}.
Definition seg4 := {| sid := 4; sgen := 3; sdocs := [(0, 5)]; sdel := [] |}.
Definition seg5 := {| sid := 5; sgen := 4; sdocs := [(1, 2); (0, 5)]; sdel := [] |}.

Example C06_nonvacuous :
  let evs := [ER 1 RCopy; ER 1 ROpenSeg; ER 1 ROpenSeg; ER 1 RFinish;
              ER 0 RCopy;
              EW (WCreate 4); EW (WPublish [seg1d; seg2; seg4]);
              EW (WCreate 5); EW (WPublish [seg5]);
              EW (WUnlink 1); EW (WUnlink 2); EW (WUnlink 4);
              ER 0 ROpenSeg; ER 0 RCheck; ER 0 RCopy; ER 0 ROpenSeg; ER 0 RFinish;
              ER 0 RSearch; ER 1 RSearch] in
  winv w_two /\
  writers_okb w_two evs = true /\
  nth 13 (run true 0 w_two PIdle evs) ONone = ORetry /\
  nth 17 (run true 0 w_two PIdle evs) ONone = OSearch [(0, 5); (1, 2)] /\
  nth 18 (run true 1 w_two PIdle evs) ONone = OSearch [(0, 1); (1, 2)] /\
  ~ In OBad (run true 0 w_two PIdle evs) /\
  spec1 0 (sinit0 (wman w_two)) (combine evs (run true 0 w_two PIdle evs)) = true /\
  spec1 1 (sinit0 (wman w_two)) (combine evs (run true 1 w_two PIdle evs)) = true.
Proof.
  split.
  { split; cbn; intros s H; tauto. }
  vm_compute. repeat split; auto.
  intros H; repeat (destruct H as [H|H]; [discriminate|]); exact H.
Qed.
