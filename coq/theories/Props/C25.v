(** C25 — CLI, HTTP and FFI agree with the Rust API.
    Statement file: theorems are closed by [exact] of lemmas proved in C25/Proofs.v. *)
From Coq Require Import List NArith ZArith Bool.
From SL Require Import Base.Tie C23.Model C25.Model C25.Proofs.
Import ListNotations.
Open Scope N_scope.

(** Every CLI script (add / update, delete, commit, compact, search; one process per command, with
    their early exits) leaves the same index state (committed contents and log) as the API calls
    [cli_calls] gives for it, run through the library, and shows the same contents at every search. *)
Theorem C25_cli_refines_api : forall (cs : list cli_cmd) (s : store),
  fst (cli_run s cs) = fst (api_run s (flat_map cli_calls cs))
  /\ cli_hits (snd (cli_run s cs)) = api_hits (snd (api_run s (flat_map cli_calls cs))).
Proof. exact cli_refines_api. Qed.

(** Every HTTP request sequence (C23's handlers) equals its translated API script: an accepted
    request is its add / delete / commit calls, a rejected one is no call at all. *)
Theorem C25_http_refines_api : forall (rs : list req) (s : store),
  fst (run s rs) = fst (api_run s (flat_map http_calls rs))
  /\ http_hits (snd (run s rs)) = api_hits (snd (api_run s (flat_map http_calls rs))).
Proof. exact http_refines_api. Qed.

(** Every FFI call sequence (add_json = add + commit, commit, search) equals its translation. *)
Theorem C25_ffi_refines_api : forall (cs : list ffi_cmd) (s : store),
  fst (ffi_run s cs) = fst (api_run s (flat_map ffi_calls cs))
  /\ ffi_hits (snd (ffi_run s cs)) = api_hits (snd (api_run s (flat_map ffi_calls cs))).
Proof. exact ffi_refines_api. Qed.

(** The request `searchlite-cli search` builds from its flags. *)
Theorem C25_cli_request_eq : forall (a : cli_args) (q : str) (srt : list (str * option order)),
  c_query a = Some q -> c_limit a <> 0 -> parse_sort (c_sort a) = Some srt ->
  cli_request a =
  Some {| r_query := QString q;
          r_fields := option_map (fun f => map trim (split comma f)) (c_fields a);
          r_limit := c_limit a; r_return_hits := true; r_sort := srt; r_cursor := c_cursor a;
          r_execution := parse_execution (c_execution a);
          r_bmw_block_size := c_bmw_block_size a; r_return_stored := c_return_stored a;
          r_highlight_field := c_highlight a; r_aggs := c_aggs a |}.
Proof. exact cli_request_eq. Qed.

Theorem C25_cli_request_rejects : forall a : cli_args,
  (c_query a = None \/ c_limit a = 0 \/ parse_sort (c_sort a) = None) -> cli_request a = None.
Proof. exact cli_request_rejects. Qed.

Theorem C25_cli_request_defaults : forall q : str,
  cli_request (cli_defaults q) =
  Some {| r_query := QString q; r_fields := None; r_limit := 10; r_return_hits := true; r_sort := [];
          r_cursor := None; r_execution := Wand; r_bmw_block_size := None; r_return_stored := false;
          r_highlight_field := None; r_aggs := 0 |}.
Proof. exact cli_request_defaults. Qed.

(** The request searchlite_search builds from its arguments. *)
Theorem C25_ffi_request_eq : forall a : ffi_args,
  ffi_request a =
  {| r_query := match f_node a with Some n => QNode n | None => QString (f_query a) end;
     r_fields := None; r_limit := f_limit a; r_return_hits := true; r_sort := [];
     r_cursor := f_cursor a; r_execution := Wand; r_bmw_block_size := None; r_return_stored := true;
     r_highlight_field := None; r_aggs := f_aggs a |}.
Proof. exact ffi_request_eq. Qed.

Theorem C25_parse_execution_cases : forall v : str,
  (lower v = s_bm25 /\ parse_execution v = Bm25)
  \/ (lower v = s_bmw /\ parse_execution v = Bmw)
  \/ (lower v <> s_bm25 /\ lower v <> s_bmw /\ parse_execution v = Wand).
Proof. exact parse_execution_cases. Qed.

Theorem C25_model_meets_spec :
  (forall cs, spec_case (CaseCli cs (snd (cli_run init cs)) (snd (api_run init (flat_map cli_calls cs))) true) = true)
  /\ (forall rs, spec_case (CaseHttp rs (snd (run init rs)) (snd (api_run init (flat_map http_calls rs))) true) = true)
  /\ (forall cs, spec_case (CaseFfi cs (snd (ffi_run init cs)) (snd (api_run init (flat_map ffi_calls cs))) true) = true).
Proof. exact (conj model_meets_spec_cli (conj model_meets_spec_http model_meets_spec_ffi)). Qed.

(** Non-vacuity: a CLI add that stops at its third line keeps the first two queued; parse_sort on
    " n:DESC , tag ,, body:asc". *)
Example C25_nonvacuous :
  snd (cli_run init [CliAdd [LDoc (VGood 1 1); LDoc (VGood 2 2); LDoc VInvalid; LDoc (VGood 3 3)];
                     CliCommit; CliSearch])
    = [CExit false; CExit true; CHits [(1, 1); (2, 2)]]
  /\ flat_map cli_calls [CliAdd [LDoc (VGood 1 1); LDoc (VGood 2 2); LDoc VInvalid; LDoc (VGood 3 3)]]
    = [ApiAdd (VGood 1 1); ApiAdd (VGood 2 2); ApiAdd VInvalid]
  /\ parse_sort (Some [32; 110; 58; 68; 69; 83; 67; 32; 44; 32; 116; 97; 103; 32; 44; 44; 32; 98; 111; 100; 121; 58; 97; 115; 99])
    = Some [([110], Some Desc); ([116; 97; 103], None); ([98; 111; 100; 121], Some Asc)].
Proof. vm_compute. repeat split; reflexivity. Qed.
