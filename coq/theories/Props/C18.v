(** C18 — Collapse returns the best hit of each group.  Statement file.

    [hs] is the ranked candidate list of the request (strictly increasing main keys); [collapse]
    is [collapse_hits]; the theorems are stated over that list ([C18_collapse_*]) and, with the
    covering hypothesis, over all matching documents ([C18_collapse_covering]).  Candidates that do
    not cover are known finding 1 ([C18_best_of_all_refuted]). *)
From Coq Require Import List NArith Bool Permutation Lia.
From SL Require Import Base.Tie C18.Model C18.Proofs C18.MeetsSpec.
Import ListNotations.
Open Scope N_scope.

(** at most one hit per field value; every returned hit has a value *)
Theorem C18_collapse_one_per_value : forall cfg hs gs, collapse cfg hs = Ok gs ->
  NoDup (map (fun p => grp_of (fst p)) gs) /\ Forall (fun p => grp_of (fst p) <> None) gs.
Proof. exact one_hit_per_value. Qed.

(** each returned hit is the best-ranked candidate of its group *)
Theorem C18_collapse_best_of_candidates : forall cfg hs gs top inner,
  collapse cfg hs = Ok gs -> In (top, inner) gs ->
  In top hs /\ exists g, grp_of top = Some g /\
    forall h, In h hs -> grp_of h = Some g -> h_key top <= h_key h.
Proof. exact rep_is_best_of_candidates. Qed.

(** groups appear in the order of their best hits *)
Theorem C18_collapse_order : forall cfg hs gs, kstrict hs -> collapse cfg hs = Ok gs ->
  kstrict (map fst gs).
Proof. exact groups_in_order_of_best. Qed.

(** inner hits: exactly the other candidates of the group ([top :: rest] is a permutation of the
    group's candidates, ordered by the main key), re-sorted stably by the inner key unless the
    inner plan is the main plan, then [from] skipped and [size] kept; none without inner_hits *)
Theorem C18_collapse_inner : forall cfg hs gs top inner,
  collapse cfg hs = Ok gs -> In (top, inner) gs ->
  exists g rest, grp_of top = Some g
    /\ Permutation (top :: rest) (members g hs)
    /\ inner = match cfg with
               | None => []
               | Some c => window (i_from c) (i_size c) (if i_same c then rest else isort rest)
               end
    /\ ksorted (top :: rest) /\ isorted (isort rest) /\ Permutation rest (isort rest).
Proof. exact inner_hits_spec. Qed.

Theorem C18_window : forall from size l,
  (forall x, In x (window from size l) -> In x l)
  /\ (forall s, size = Some s -> (length (window from size l) <= s)%nat)
  /\ window from size l = (match size with None => skipn from l | Some s => firstn s (skipn from l) end).
Proof.
  intros from size l. split; [apply window_incl|]. split; [|reflexivity].
  intros s E. subst. apply window_length.
Qed.

(** over all matching documents, when the candidates contain a best-ranked document of every
    group they touch (e.g. candidate_size >= number of matches, or a single segment, or a sort
    plan other than the default) *)
Theorem C18_collapse_covering : forall cfg all hs gs top inner,
  (forall h, In h hs -> In h all) ->
  (forall g, (exists h, In h hs /\ grp_of h = Some g) ->
     exists b, In b hs /\ grp_of b = Some g /\ forall x, In x all -> grp_of x = Some g -> h_key b <= h_key x) ->
  collapse cfg hs = Ok gs -> In (top, inner) gs ->
  exists g, grp_of top = Some g /\ forall x, In x all -> grp_of x = Some g -> h_key top <= h_key x.
Proof. exact collapse_covering. Qed.

(** known finding 1: without covering the representative can be a second-best document *)
Theorem C18_best_of_all_refuted :
  respond None 2 wit_ranked
    = Ok (2, [ ({| h_id := 0; h_key := 0; h_grp := GOne 0; h_ikey := 0 |}, []);
               ({| h_id := 4; h_key := 4; h_grp := GOne 1; h_ikey := 4 |}, []) ])
  /\ best_in wit_all {| h_id := 4; h_key := 4; h_grp := GOne 1; h_ikey := 4 |} = false
  /\ covering {| full := wit_all; ranked := wit_ranked; cfg := None; isize_bound := None; limit := 2;
                 o_err := false; o_total_groups := 2; o_hits := [] |} = false.
Proof. exact best_of_all_refuted. Qed.

(** a candidate with several values of the collapse field makes the request an error *)
Theorem C18_multi_valued_is_error : forall cfg hs h, In h hs -> h_grp h = GMulti -> collapse cfg hs = Err.
Proof. exact multi_valued_is_error. Qed.

(** the model's response satisfies the executable specification used by the tie, for every
    well-formed input whose candidates cover ([wf_input]: distinct ids, candidates are matches in
    strictly increasing main-key order, covering, consistent inner_hits settings) *)
Theorem C18_model_meets_spec : forall c tg gs, wf_input c ->
  respond (cfg c) (N.to_nat (limit c)) (ranked c) = Ok (tg, gs) ->
  spec (with_obs c tg gs) = true.
Proof. exact model_meets_spec. Qed.

Example C18_wf_input_nonvacuous :
  let h i k g := {| h_id := i; h_key := k; h_grp := GOne g; h_ikey := k |} in
  wf_input {| full := [h 5 0 1; h 6 1 0; h 7 2 1]; ranked := [h 5 0 1; h 6 1 0]; cfg := None;
              isize_bound := None; limit := 2; o_err := false; o_total_groups := 0; o_hits := [] |}.
Proof.
  cbv zeta. constructor; cbn [full ranked cfg isize_bound].
  - repeat constructor; cbn; intuition discriminate.
  - intros x [<-|[<-|[]]]; cbn; tauto.
  - cbn. repeat split; repeat constructor; cbn; reflexivity.
  - intros g (x & Hx & Hg). destruct Hx as [<-|[<-|[]]]; cbn in Hg; inversion Hg; subst.
    + eexists. split; [left; reflexivity|]. split; [reflexivity|].
      intros y [<-|[<-|[<-|[]]]] Hy; cbn in *; try discriminate; lia.
    + eexists. split; [right; left; reflexivity|]. split; [reflexivity|].
      intros y [<-|[<-|[<-|[]]]] Hy; cbn in *; try discriminate; lia.
  - reflexivity.
  - intros cf H. discriminate.
Qed.

(** Non-vacuity: six candidates, three groups and a hit without value, inner hits under another
    order, from 1, size 1. *)
Example C18_nonvacuous :
  let h i k g ik := {| h_id := i; h_key := k; h_grp := g; h_ikey := ik |} in
  let hs := [h 10 0 (GOne 1) 5; h 11 1 (GOne 0) 4; h 12 2 GMissing 3; h 13 3 (GOne 1) 2; h 14 4 (GOne 1) 1; h 15 5 (GOne 1) 0] in
  collapse (Some {| i_from := 1; i_size := Some 1%nat; i_same := false |}) hs
    = Ok [ (h 10 0 (GOne 1) 5, [h 14 4 (GOne 1) 1]); (h 11 1 (GOne 0) 4, []) ].
Proof. vm_compute. reflexivity. Qed.
