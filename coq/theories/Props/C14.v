(** C14 — Compaction preserves observable contents.
    Statement file: theorems are closed by [exact] of lemmas proved in C14/{Proofs,Queries,Columns,
    Compact}.v.

    [sp sch d]        the stored form of document [d] (what a reader returns as stored fields and
                      what Index::compact feeds back into the segment writer);
    [valid sch d]     the document is accepted by validation and collection;
    [compact_safe]    ensure_compact_safe;   [compact sch m]  Index::compact over manifest [m];
    [ix_text]/[ix_kw] the strings of one field handed to the postings builder, in order;
    [flatten (fsch sch) d]  the fast-field columns of [d] (C08);  [passes]  query/filters.rs.
    Schemas are well formed ([wfl]: distinct names per level); nesting depth, array sizes, numbers
    of values, documents, segments and the shape of filters are unbounded. *)
From Coq Require Import List NArith ZArith Bool.
From SL Require Import Base.Tie C08.Model C14.Model C14.Proofs C14.Queries C14.Columns C14.Compact C14.Unfixed C14.Stored.
Import ListNotations.
Open Scope N_scope.

(** Compaction that goes through keeps the live ids (in order) and their stored fields; when
    there was something to do it leaves exactly one segment without tombstones. *)
Theorem C14_contents : forall sch m m',
  wfl sch = true -> compact sch m = COk m' ->
  live_ids m' = live_ids m /\ live_stored sch m' = live_stored sch m
  /\ ((2 <= length m)%nat -> length m' = 1%nat /\ tombstones m' = 0%nat).
Proof. exact compact_contents. Qed.

(** An unsafe schema is refused and the manifest is the one before; no refusal ever changes it. *)
Theorem C14_refuse_unchanged : forall sch m,
  (compact_safe sch = false -> (2 <= length m)%nat -> compact sch m = CErr m)
  /\ (forall m', compact sch m = CErr m' -> m' = m).
Proof. intros sch m. split; [apply compact_refuses|apply compact_err]. Qed.

(** With a compact-safe schema compaction never fails: every stored form passes validation and
    collection again (this is where empty nested objects must be kept and required nested
    properties must be stored). *)
Theorem C14_goes_through : forall sch m,
  wfl sch = true -> compact_safe sch = true ->
  (forall s p, In s m -> In p (g_docs s) -> valid sch (snd p) = true) ->
  out_ok (compact sch m) = true.
Proof. exact compact_goes_through. Qed.

(** The heart: re-ingesting the stored form of a valid document under a compact-safe schema
    gives a valid document with the same stored form, the same strings (in the same order) for
    every indexed text and keyword field, the same fast-field column cells for every column, and
    the same object count and parent links for every nested path of the schema. *)
Theorem C14_reindex_fixpoint : forall sch d,
  wfl sch = true -> compact_safe sch = true -> valid sch d = true ->
  valid sch (sp sch d) = true
  /\ sp sch (sp sch d) = sp sch d
  /\ (forall path fld, ix_text sch (sp sch d) path fld = ix_text sch d path fld)
  /\ (forall path fld, ix_kw sch (sp sch d) path fld = ix_kw sch d path fld)
  /\ (forall path fld,
        col_kw (flatten (fsch sch) (sp sch d)) path fld = col_kw (flatten (fsch sch) d) path fld
        /\ col_i64 (flatten (fsch sch) (sp sch d)) path fld = col_i64 (flatten (fsch sch) d) path fld
        /\ col_f64 (flatten (fsch sch) (sp sch d)) path fld = col_f64 (flatten (fsch sch) d) path fld)
  /\ (forall path ps', xprops_at sch path = Some ps' ->
        col_count (flatten (fsch sch) (sp sch d)) path = col_count (flatten (fsch sch) d) path
        /\ col_parents (flatten (fsch sch) (sp sch d)) path = col_parents (flatten (fsch sch) d) path).
Proof.
  intros sch d Hwf Hs Hv. pose proof (R_sp _ _ Hwf Hs Hv) as HR.
  split; [apply valid_sp; assumption|]. split; [apply sp_idem; assumption|].
  split; [intros; apply ix_text_sp; assumption|]. split; [intros; apply ix_kw_sp; assumption|].
  split.
  - intros path fld. split; [apply col_kw_R; assumption|].
    split; [apply col_i64_R; assumption|apply col_f64_R; assumption].
  - intros path ps' Hp. eapply col_nested_R; eauto.
Qed.

(** Hence the token postings (terms with positions, including the gap left by a value without
    tokens) and the field length are the same, whatever the analyzer. *)
Theorem C14_postings : forall (analyze : str -> list (N * nat)) sch d path fld,
  wfl sch = true -> compact_safe sch = true -> valid sch d = true ->
  text_postings analyze sch (sp sch d) path fld = text_postings analyze sch d path fld
  /\ text_length analyze sch (sp sch d) path fld = text_length analyze sch d path fld.
Proof.
  intros analyze sch d path fld Hwf Hs Hv. unfold text_postings, text_length.
  rewrite ix_text_sp by assumption. split; reflexivity.
Qed.

(** Filters: the re-ingested document passes exactly the well-typed filter trees the original
    passes, and a compaction that goes through leaves every filter's hit list unchanged. *)
Theorem C14_queries : forall sch,
  wfl sch = true ->
  (forall d f, compact_safe sch = true -> valid sch d = true -> well_typed (fsch sch) f = true ->
     passes (flatten (fsch sch) (sp sch d)) f = passes (flatten (fsch sch) d) f
     /\ fsem f (sp sch d) = fsem f d)
  /\ (forall m m' f,
        (forall s p, In s m -> In p (g_docs s) -> valid sch (snd p) = true) ->
        compact sch m = COk m' -> well_typed (fsch sch) f = true ->
        filter_hits sch m' f = filter_hits sch m f).
Proof.
  intros sch Hwf. split.
  - intros d f Hs Hv Hwt. split; [apply passes_sp|apply fsem_sp]; assumption.
  - intros m m' f Hv Hc Hwt. eapply compact_filter_hits; eauto.
Qed.

(** The model's observation satisfies the executable specification the tie evaluates. *)
Theorem C14_model_meets_spec : forall (i : case_in) (qh : list (list N)),
  wfl (c_sch i) = true -> docs_valid i = true ->
  forallb (well_typed (fsch (c_sch i))) (c_filters i) = true ->
  spec (c_sch i) (model i qh) = true.
Proof. exact model_meets_spec. Qed.

(** Extension of C04 ("stored fields equal to the stored projection of that version"): running
    collect_document as the code does - one pass over the document's fields, push_stored into a
    map of value lists, nested values into a second map, finalize_stored - succeeds on a valid
    document and yields exactly the stored projection [sp sch d] (as a map: same value under every
    key); and the projection of a projection is itself. *)
Theorem C04_stored_projection : forall sch d,
  wfl sch = true -> NoDup (map fst d) -> valid sch d = true ->
  exists o, collect_stored sch d = Some o /\ forall k, jlookup k o = jlookup k (sp sch d).
Proof. exact stored_projection. Qed.

Theorem C04_stored_projection_idempotent : forall sch d,
  wfl sch = true -> sp sch (sp sch d) = sp sch d.
Proof. exact sp_idem. Qed.

(** The stored form computed before the repair does not have the property: a nested filter
    changes its answer, and a valid document's stored form is refused by validation. *)
Theorem C14_unfixed_refuted :
  (wfl w1_sch = true /\ compact_safe w1_sch = true /\ valid w1_sch w1_doc = true
   /\ well_typed (fsch w1_sch) w1_filter = true
   /\ passes (flatten (fsch w1_sch) w1_doc) w1_filter = true
   /\ passes (flatten (fsch w1_sch) (sp_old w1_sch w1_doc)) w1_filter = false
   /\ passes (flatten (fsch w1_sch) (sp w1_sch w1_doc)) w1_filter = true)
  /\ (wfl w2_sch = true /\ compact_safe w2_sch = true /\ valid w2_sch w2_doc = true
      /\ valid w2_sch (sp_old w2_sch w2_doc) = false /\ valid w2_sch (sp w2_sch w2_doc) = true).
Proof. vm_compute. repeat split; reflexivity. Qed.

(** Non-vacuity: three segments with a tombstone; nested objects with an empty object, a null
    entry, a null property, a multi-valued text field with an empty string, an f64 given as an
    integer; names: c=0 a=1 t=2 x=3 u=4. *)
Example C14_nonvacuous :
  let sch := [XLeaf 2 XText true true true false; XLeaf 3 XF64 true true false true;
              XLeaf 4 XKw true false false false;
              XObj 0 true [XLeaf 1 XKw true true true true]] in
  let d1 := [(2, JArr [JStr (0, 0); JStr (1, 1); JStr (2, 2)]); (3, JNum (Some 5%Z) 7%Z); (4, JStr (9, 9));
             (0, JArr [JObj []; JNull; JObj [(1, JStr (3, 3))]; JObj [(1, JNull)]])] in
  let d2 := [(2, JNull); (0, JObj [])] in
  let m := [ {| g_docs := [(1, d1); (2, d2)]; g_del := [1] |};
             {| g_docs := [(3, d2)]; g_del := [] |}; {| g_docs := [(2, d1)]; g_del := [] |} ] in
  let f := FNested 0 (FNot (FKwEq 1 (3, 3))) in
  let i := {| c_sch := sch; c_man := m; c_filters := [f] |} in
  wfl sch = true /\ compact_safe sch = true /\ docs_valid i = true
  /\ well_typed (fsch sch) f = true
  /\ sp sch d1 = [(2, JArr [JStr (0, 0); JStr (1, 1); JStr (2, 2)]); (3, JNum None 7%Z);
                  (0, JArr [JObj []; JObj [(1, JStr (3, 3))]; JObj []])]
  /\ option_map (fun o => map (fun p => jlookup (xname p) o) sch) (collect_stored sch d1)
     = Some (map (fun p => jlookup (xname p) (sp sch d1)) sch)
  /\ out_ok (compact sch m) = true
  /\ live_ids (out_man (compact sch m)) = [1; 3; 2]
  /\ filter_hits sch m f = [1; 3; 2]
  /\ check_case (i, model i [[1; 2]]) = 0.
Proof. vm_compute. repeat split; reflexivity. Qed.
