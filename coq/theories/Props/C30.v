(** C30 — Composite aggregation paging is complete.
    Statement file.  Bucket keys are interned to [N] by their rank under [CompositeKey::cmp]
    ([key_cmp] in the model; the tie checks on every case that the unpaged response is strictly
    increasing under [key_cmp] and that an arbitrary [after] key returns exactly the buckets above
    it); distinct buckets have distinct keys ([NoDup]).  [comp_walk] sends each response's
    after_key back as [after] until it is absent. *)
From Coq Require Import List NArith Bool Permutation.
From SL Require Import Base.Tie Base.Paging C30.Model C30.Proofs.
Import ListNotations.
Open Scope N_scope.

(** Every bucket of the unpaged aggregation exactly once, in the same order; after_key is absent
    on the last page and only there; every earlier page is full.  Counts ride on the keys (the
    bucket list is the same merged list on every page; the tie compares counts and a digest of
    the sub-aggregations). *)
Theorem C30_paging_complete : forall l size fuel,
  (0 < size)%nat -> NoDup l -> (length l < fuel)%nat ->
  exists ps, comp_walk fuel size None l = Some ps
    /\ concat (map fst ps) = sort l
    /\ (exists front lastp, ps = front ++ [lastp] /\ snd lastp = None
          /\ Forall (fun p => snd p <> None /\ length (fst p) = size) front).
Proof. exact paging_complete. Qed.

(** the comparison point: size >= number of buckets returns all of them, sorted, no after_key *)
Theorem C30_unpaged : forall l size, (length l <= size)%nat -> comp_page size None l = (sort l, None).
Proof. exact unpaged_is_sorted_keys. Qed.

Theorem C30_sort_spec : forall l, NoDup l -> Permutation l (sort l) /\ ssorted (sort l).
Proof. intros l H. split; [apply sort_permutation|now apply sort_ssorted]. Qed.

(** the key survives its JSON form — needed because [after] is parsed back from the after_key —
    for terms parts and finite histogram parts (including -0.0), with distinct source names *)
Theorem C30_composite_key_roundtrip : forall srcs parts,
  NoDup (map fst srcs) -> Forall2 part_ok parts srcs ->
  key_from_value (key_to_json parts srcs) srcs = Some parts.
Proof. exact key_roundtrip. Qed.

(** ... and does not for inf / NaN histogram keys (printed as null): such buckets are outside the
    theorem (they cannot arise from JSON documents with a positive interval unless v/interval
    overflows) *)
Theorem C30_nonfinite_key_lost : forall name b, finite b = false ->
  key_from_value (key_to_json [KF64 b] [(name, SHist)]) [(name, SHist)] = None.
Proof. exact nonfinite_key_lost. Qed.

Theorem C30_model_meets_spec : forall c, wf c = true ->
  exists ps, model_pages c = Some ps /\ spec (with_pages c ps) = true.
Proof. exact model_meets_spec. Qed.

(** Non-vacuity: five buckets, page size 2; a two-source key with -0.0 round-trips and sorts
    before +0.0. *)
Example C30_nonvacuous :
  comp_walk 7 2 None [3; 0; 4; 1; 2] = Some [([0; 1], Some 1); ([2; 3], Some 3); ([4], None)]
  /\ (let srcs := [(0, STerms); (1, SHist)] in
      let k := [KStr [97]; KF64 9223372036854775808] in   (* "a", -0.0 *)
      NoDup (map fst srcs) /\ Forall2 part_ok k srcs
      /\ key_from_value (key_to_json k srcs) srcs = Some k
      /\ key_cmp k [KStr [97]; KF64 0] = Lt).
Proof.
  split; [vm_compute; reflexivity|]. cbv zeta. split; [|split; [|split]].
  - repeat constructor; cbn; intuition discriminate.
  - repeat constructor.
  - vm_compute. reflexivity.
  - vm_compute. reflexivity.
Qed.
