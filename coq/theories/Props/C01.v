(** C01 — Commits are atomic and durable across crashes. Statement file; proofs in C01/Proofs.v. *)
From Coq Require Import List NArith Bool.
From SL Require Import Base.Tie Core.Model C01.Model C01.Proofs.
Import ListNotations.
Open Scope N_scope.

(** For every history [h] of API calls (any length, any handles, compaction, reopen), every next
    call [a] and every number [j] of that call's storage operations already issued, whatever a
    reopen can find after a crash at that point - under any subset of the unsynced directory
    operations and with unsynced file contents lost - is the contents before the call or the
    complete contents after it; in particular the index always opens ([None] never occurs). *)
Theorem C01_atomic : forall (h : list api) (a : api) (j : nat),
  let '(s, d) := run_disk init disk0 h in
  forall o, In o (outcomes (run_sops d (firstn j (tr true s a)))) ->
    o = Some (contents (man s)) \/ o = Some (contents (man (step s a))).
Proof. exact crash_atomic. Qed.

(** Once a call has issued all its operations (it returned), only its result can be recovered:
    a successful commit or compaction is never lost. *)
Theorem C01_durable : forall (h : list api) (a : api),
  let '(s, d) := run_disk init disk0 h in
  outcomes (run_sops d (tr true s a)) = [Some (contents (man (step s a)))].
Proof. exact crash_durable. Qed.

(** Compaction is content-neutral at every crash point: before and after coincide. *)
Theorem C01_compact_neutral : forall n g m,
  contents [{| sid := n; sgen := g; sdocs := contents m; sdel := [] |}] = contents m.
Proof. exact contents_compact_seg. Qed.

(** The protocol before the repair (no directory fsync before the rename) does not have the
    property: after the rename, a crash that keeps the rename but drops the new segment's
    unsynced directory entries leaves an index that does not open. *)
Theorem C01_unfixed_refuted :
  let h := [NewWriter 1; AddDoc 1 1 0 1] in
  In None (model_outcomes false (h ++ [Commit 1]) 2 6).
Proof. vm_compute. auto. Qed.

Example C01_nonvacuous :
  let h := [NewWriter 1; AddDoc 1 1 0 1; Commit 1; AddDoc 1 2 1 2; DelDoc 1 3 0] in
  model_outcomes true (h ++ [Commit 1]) 5 7 = [Some [(0, 1)]; Some [(1, 2)]] /\
  model_outcomes true (h ++ [Commit 1]) 5 12 = [Some [(1, 2)]].
Proof. vm_compute. split; reflexivity. Qed.
