(** C17 — Corrupted index files are detected.
    Statement file: theorems are closed by [exact]/[apply] of lemmas proved in C17/Proofs.v,
    Wal/Theorems.v and Base/Crc32.v. *)
From Coq Require Import List NArith Arith Bool.
From SL Require Import Base.Bytes Base.Varint Base.Crc32 Base.Tie
                       Wal.Model Wal.Proofs Wal.Theorems C17.Model C17.Proofs.
Import ListNotations.
Open Scope N_scope.

(** CRC-32 (as computed bit by bit in Base/Crc32.v and by crc32fast) changes whenever exactly one
    byte of the message changes.  No hypothesis: the register update is injective. *)
Theorem C17_crc32_detects_single_byte : forall l i b,
  bytes_ok l -> byte_ok b -> (i < length l)%nat -> b <> nth i l 0 ->
  crc32 (set_nth l i b) <> crc32 l.
Proof. exact crc32_detects_set_nth. Qed.

(** Any single-byte change of any of the five checksummed files of a committed segment makes
    SegmentReader::open return an error (whatever the JSON oracle and the unmodelled parsers say). *)
Theorem C17_segment_byte_flip : forall meta_ok rest_ok fs which i b,
  1 <= which <= 5 -> bytes_ok (get_file fs which) -> byte_ok b ->
  (i < length (get_file fs which))%nat -> b <> nth i (get_file fs which) 0 ->
  open_segment crc32 meta_ok rest_ok (committed_sums crc32 fs)
               (set_file fs which (set_nth (get_file fs which) i b)) = OpenErr.
Proof.
  intros meta_ok rest_ok. apply (segment_byte_flip crc32 meta_ok rest_ok crc32_crc_detects).
Qed.

(** The same for an abstract checksum, with "one changed byte changes the checksum" as the
    explicit hypothesis. *)
Theorem C17_segment_byte_flip_generic : forall crc meta_ok rest_ok,
  crc_detects crc ->
  forall fs which i b,
  1 <= which <= 5 -> bytes_ok (get_file fs which) -> byte_ok b ->
  (i < length (get_file fs which))%nat -> b <> nth i (get_file fs which) 0 ->
  open_segment crc meta_ok rest_ok (committed_sums crc fs)
               (set_file fs which (set_nth (get_file fs which) i b)) = OpenErr.
Proof. exact segment_byte_flip. Qed.

(** Truncation (and any other replacement of a file) is rejected whenever the checksum of the new
    content differs from the recorded one.  Partial: that a proper prefix has a different CRC-32
    is a hypothesis here (checked on every generated case by the tie), not a theorem. *)
Theorem C17_truncation_partial : forall meta_ok rest_ok fs which n,
  1 <= which <= 5 ->
  crc32 (firstn n (get_file fs which)) <> crc32 (get_file fs which) ->
  open_segment crc32 meta_ok rest_ok (committed_sums crc32 fs)
               (set_file fs which (firstn n (get_file fs which))) = OpenErr.
Proof. intros meta_ok rest_ok. apply (segment_truncation crc32 meta_ok rest_ok). Qed.

(** IndexReader::open: when the segments listed before the damaged one open, the reader as a
    whole returns an error. *)
Theorem C17_reader_open_rejects : forall meta_ok rest_ok before fs after which i b,
  Forall (fun s => open_segment crc32 meta_ok rest_ok (fst s) (snd s) = OpenOk) before ->
  1 <= which <= 5 -> bytes_ok (get_file fs which) -> byte_ok b ->
  (i < length (get_file fs which))%nat -> b <> nth i (get_file fs which) 0 ->
  open_index crc32 meta_ok rest_ok
    (before ++ (committed_sums crc32 fs, set_file fs which (set_nth (get_file fs which) i b)) :: after)
  = OpenErr.
Proof.
  intros meta_ok rest_ok before fs after which i b Hb Hw Hl Hbb Hi Hne.
  apply (index_file_changed crc32 meta_ok rest_ok before _ fs after which); auto.
  apply crc32_detects_set_nth; assumption.
Qed.

(** Write-ahead log, part 1: the records wholly before any damage are always recovered — a valid
    prefix followed by arbitrary bytes replays to that prefix plus whatever the rest parses to. *)
Theorem C17_wal_prefix : forall decodable rs x,
  Forall (valid_rec decodable) rs ->
  exists rs' k,
    replay_with crc32 decodable (encode_all crc32 rs ++ x)
    = (rs ++ rs', (length (encode_all crc32 rs) + k)%nat).
Proof.
  intros decodable rs x H. eexists. eexists. apply wal_replay_clean_prefix. exact H.
Qed.

(** part 2: a truncation at any length leaves exactly the complete records (no assumption). *)
Theorem C17_wal_truncation : forall decodable rs n,
  Forall (valid_rec decodable) rs ->
  let k := intact crc32 rs n in
  replay_with crc32 decodable (firstn n (encode_all crc32 rs))
  = (firstn k rs, length (encode_all crc32 (firstn k rs))).
Proof. intros decodable rs n H. apply wal_truncation. exact H. Qed.

(** part 3: a changed byte in the tag, payload or stored checksum of a record stops replay exactly
    in front of that record: only the intact prefix is recovered, later records are not. *)
Theorem C17_wal_byte_flip : forall decodable rs1 t p rs2 j b,
  Forall (valid_rec decodable) rs1 -> nlen p < 2 ^ 64 -> bytes_ok (t :: p) -> byte_ok b ->
  (length (write_u64 (nlen p)) <= j < length (encode_rec crc32 (t, p)))%nat ->
  b <> nth j (encode_rec crc32 (t, p)) 0 ->
  replay_with crc32 decodable
    (encode_all crc32 rs1 ++ set_nth (encode_rec crc32 (t, p)) j b ++ encode_all crc32 rs2)
  = (rs1, length (encode_all crc32 rs1)).
Proof.
  intros decodable rs1 t p rs2 j b.
  apply (wal_body_flip crc32 decodable crc32_crc_detects crc32_crc_in_range).
Qed.

(** Nothing in the modelled read path panics on arbitrary bytes — after the fix to read_u64 — except
    read_terms, which can (see C17_read_terms_can_panic) but only behind two matching checksums. *)
Theorem C17_parsers_total :
  (forall crc dec d, exists r, replay_gen crc dec ShChecked d = Ok r)
  /\ (forall buf, read_u64 ShChecked buf <> Panic)
  /\ (forall buf, read_u32_var buf <> Panic)
  /\ (forall file off, docstore_get file off <> Panic)
  /\ (forall data, fast_header data <> Panic).
Proof.
  split; [|split; [|split; [|split]]].
  - intros crc dec d. eexists. apply replay_checked_total.
  - exact read_u64_checked_no_panic.
  - exact read_u32_var_no_panic.
  - exact docstore_get_no_panic.
  - exact fast_header_no_panic.
Qed.

Theorem C17_parsers_panic_guarded : forall crc meta_ok rest_ok sums fs,
  open_segment crc meta_ok rest_ok sums fs = OpenPanic ->
  verify_checksums crc sums fs = true /\ terms_inner_crc_ok crc (sf_terms fs) = true.
Proof. exact open_panic_guarded. Qed.

(** ... and the unrepaired, overflow-checked build of read_u64 did panic on a damaged log. *)
Theorem C17_unfixed_replay_panics : forall crc dec,
  replay_gen crc dec ShDebug (repeat 128 11) = Panic.
Proof. exact replay_debug_panics. Qed.

Theorem C17_read_terms_can_panic :
  exists buf, read_terms crc32 buf = Panic.
Proof. eexists. exact (proj1 read_terms_panics). Qed.

(** the prediction used by the tie meets the executable specification, and for byte flips of a
    file whose recorded sum is its CRC-32 the prediction is "error" *)
Theorem C17_model_meets_spec : forall orig c,
  let o := seg_predict orig c in
  ((o =? O_ERR) || (o =? O_SAME)) = true
  /\ (bytes_ok orig -> k_kind c = 0 -> (N.to_nat (k_pos c) < length orig)%nat ->
      k_mask c <> 0 -> k_mask c < 256 -> k_sum c = crc32 orig -> o = O_ERR).
Proof.
  intros orig c. split; [apply seg_predict_meets_spec|apply seg_predict_flip].
Qed.

(** Non-vacuity: a tiny segment; flipping one bit of its terms file is rejected, the intact one
    passes the gate; a three-record log damaged in its second record keeps the first. *)
Example C17_nonvacuous :
  let terms := [1; 0; 0; 0; 0; 0; 0; 0] ++ (write_u64 1 ++ [97] ++ le64 7)
               ++ le32 (crc32 (write_u64 1 ++ [97] ++ le64 7)) in
  let fs := {| sf_meta := [123; 125]; sf_terms := terms; sf_post := [1; 2; 3];
               sf_docs := [2; 0; 0; 0; 123; 125]; sf_fast := [] |} in
  let ok := fun _ : list N => true in
  let okf := fun _ : seg_files => true in
  open_segment crc32 ok okf (committed_sums crc32 fs) fs = OpenOk
  /\ read_terms crc32 terms = Ok [([97], 7)]
  /\ open_segment crc32 ok okf (committed_sums crc32 fs)
       (set_file fs 2 (set_nth terms 9 (N.lxor 97 1))) = OpenErr
  /\ docstore_get (sf_docs fs) 0 = Ok [123; 125]
  /\ (let rs := [(1, [123; 125]); (3, [97; 98]); (2, [])] in
      replay_with crc32 all_decodable
        (encode_all crc32 [(1, [123; 125])] ++ set_nth (encode_rec crc32 (3, [97; 98])) 2 0
         ++ encode_all crc32 [(2, [])])
      = ([(1, [123; 125])], 8%nat)).
Proof. vm_compute. repeat split. Qed.
