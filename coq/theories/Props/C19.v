(** C19 — Rescoring only affects the rescore window.  Statement file.

    [hits] is the ranked candidate list the request without rescore produces; [os] gives, for each
    of the first [w] hits, what the rescore query does to it (Keep: no match, untouched; Drop:
    rejected by min_score; New k s: combined score bits [s] and the key [k] rebuilt from it —
    the combination itself is f32 arithmetic, recomputed and compared bit for bit by the tie).
    [rescore_hits true] is the repaired function (repo commit "fix: rescore re-sort window ..."),
    [rescore_hits false] the code as found. *)
From Coq Require Import List NArith Bool Permutation.
From SL Require Import Base.Tie C19.Model C19.Proofs.
Import ListNotations.
Open Scope N_scope.

(** hits after the window keep their scores, their relative order and their place: the result is
    the re-sorted surviving window followed by [skipn w hits], untouched *)
Theorem C19_tail_untouched : forall w hits os,
  rescore_hits true w hits os = hsort (apply_all (firstn w hits) os) ++ skipn w hits.
Proof. exact rescore_fixed. Qed.

(** the window is reordered by the new keys, stably, and loses or gains nothing by the sort *)
Theorem C19_window_sorted : forall l,
  ksorted (hsort l) /\ Permutation l (hsort l) /\ (ksorted l -> hsort l = l).
Proof. intros l. split; [apply hsort_ksorted|split; [apply hsort_perm|apply hsort_id]]. Qed.

(** every hit of the surviving window comes from a window hit through its outcome: untouched when
    the rescore query does not match, with the combined score when it does, never when rejected *)
Theorem C19_window_scores : forall hs os g, In g (apply_all hs os) ->
  exists i h, nth_error hs i = Some h /\
    match nth i os Keep with
    | Keep => g = h
    | Drop => False
    | New k s => g = {| h_id := h_id h; h_key := k; h_score := s |}
    end.
Proof.
  intros hs os g H. destruct (apply_all_in hs os g H) as (i & h & Hn & Hi).
  exists i, h. split; [exact Hn|]. now apply apply_out_spec.
Qed.

(** the code as found violates the statement: with one rejected hit in a window of 2, the hit
    ranked third (outside the window) is sorted in front of the rescored window hit *)
Theorem C19_tail_untouched_unfixed_refuted :
  rescore_hits false 2 wit_hits wit_outs
    = [ {| h_id := 2; h_key := 12; h_score := 100 |}; {| h_id := 1; h_key := 20; h_score := 90 |};
        {| h_id := 3; h_key := 13; h_score := 100 |} ]
  /\ ~ (exists head, rescore_hits false 2 wit_hits wit_outs = head ++ skipn 2 wit_hits).
Proof. exact unfixed_refuted. Qed.

Theorem C19_model_meets_spec : forall c,
  spec (with_observed c (respond true (N.to_nat (limit c)) (N.to_nat (window_size c)) (ranked c) (outs c))) = true.
Proof. exact model_meets_spec. Qed.

(** Non-vacuity: the witness input under the repaired function. *)
Example C19_nonvacuous :
  rescore_hits true 2 wit_hits wit_outs
    = [ {| h_id := 1; h_key := 20; h_score := 90 |}; {| h_id := 2; h_key := 12; h_score := 100 |};
        {| h_id := 3; h_key := 13; h_score := 100 |} ]
  /\ check_case {| ranked := wit_hits; outs := wit_outs; limit := 3; window_size := 2;
                   observed := rescore_hits false 2 wit_hits wit_outs |} = 2.
Proof. split; vm_compute; reflexivity. Qed.
