(** C10 — Hit order and scores follow the sort spec and BM25.
    Statement file: theorems are closed by [exact] of lemmas proved in Base/OrdSort.v and
    C10/Proofs.v.

    Reading guide.  A [cand] is a matching live document: its position (segment ordinal, document
    number), the values its fast fields hold for the plan's fields, and the f32 score the
    executor computed (raw bits).  [cand_key p c] is [SortPlan::build_key], [key_cmp] is
    [SortKey::cmp] (with [SortKeyPart::cmp], [total_cmp] on float bits, byte order on keywords),
    [rank p k cs] is what [search] returns for limit [k]: the candidates sorted by key, cut.
    [rank_segments] / [rank_heap] are the two shapes the code really has (per-segment top_k on the
    score fast path, one bounded heap on the sort path).  The score layer ([node_score], over
    exact rationals with the logarithm of idf supplied) is tied to the implementation's f32
    scores at relative tolerance 1e-4 by the correspondence check; what is proved about it here
    is the exact extent of known class 1 (match-only executions report 0.0). *)
From Coq Require Import List NArith ZArith QArith Bool Permutation.
From SL Require Import Base.Tie Base.OrdSort C10.Model C10.Proofs.
Import ListNotations.
Open Scope N_scope.

(** every key the code builds for plan [p] is a key "of plan p": one part per plan field, in the
    field's direction, holding a value of the field's type or Missing *)
Theorem C10_keys_of_one_plan : forall p vals score seg doc,
  key_ok p (build_key p vals score seg doc).
Proof. exact build_key_ok. Qed.

(** SortKey::cmp is a strict total order on the keys of one plan: reflexive-equal only
    (irreflexive as a strict order), Equal only on identical keys, antisymmetric (hence
    trichotomous: exactly one of Less / Equal / Greater, mirrored when the arguments are
    swapped), transitive *)
Theorem C10_key_total : forall p a b c, key_ok p a -> key_ok p b -> key_ok p c ->
  key_cmp a a = Eq /\
  (key_cmp a b = Eq -> a = b) /\
  key_cmp b a = CompOpp (key_cmp a b) /\
  (key_cmp a b = Lt -> key_cmp b c = Lt -> key_cmp a c = Lt).
Proof.
  intros p a b c Ha Hb Hc. repeat split.
  - now apply (key_cmp_refl p).
  - now apply (key_cmp_eq p).
  - now apply (key_cmp_anti p).
  - now apply (key_cmp_trans p).
Qed.

(** ... and only there: [SortKeyPart::cmp] answers Equal for two values of different types, so
    on keys that do not come from one plan the comparison has cycles.  [C10_keys_of_one_plan]
    is what makes this unreachable for the keys of one request (cursor keys are rebuilt with
    [key_from_values] from caller-supplied values — C11's business). *)
Theorem C10_type_mismatch_breaks_order :
  exists a b c, key_cmp a b = Lt /\ key_cmp b c = Lt /\ key_cmp c a = Lt.
Proof.
  exists {| k_parts := [{| p_order := Asc; p_val := VI64 1 |}]; k_seg := 0; k_doc := 0 |},
         {| k_parts := [{| p_order := Asc; p_val := VStr [120] |}]; k_seg := 0; k_doc := 1 |},
         {| k_parts := [{| p_order := Asc; p_val := VI64 0 |}]; k_seg := 0; k_doc := 2 |}.
  vm_compute. repeat split.
Qed.

(** hits = the matching documents sorted by key, cut to the limit: strictly increasing, a
    prefix-permutation of the candidates (everything left out is after every hit), as many as
    the limit allows — and this determines the answer uniquely *)
Theorem C10_order : forall p k cs,
  NoDup (map (fun c => (c_seg c, c_doc c)) cs) ->
  let hs := rank p k cs in
  ssorted (cand_cmp p) hs /\
  (exists rest, Permutation cs (hs ++ rest) /\
                forall h r, In h hs -> In r rest -> cand_cmp p h r = Lt) /\
  length hs = Nat.min k (length cs) /\
  (forall hs' rest', Permutation cs (hs' ++ rest') -> ssorted (cand_cmp p) hs' ->
     (forall h r, In h hs' -> In r rest' -> cand_cmp p h r = Lt) ->
     length hs' = Nat.min k (length cs) -> hs' = hs).
Proof.
  intros p k cs Hd hs. split; [apply rank_ssorted; exact Hd|]. split.
  - exists (skipn k (sort (cand_cmp p) cs)). split; [apply rank_split|].
    intros h r. now apply rank_rest_after.
  - split; [apply rank_length|]. intros hs' rest'. now apply rank_unique.
Qed.

(** the per-segment top_k of the score fast path and the bounded heap of the sort path (both
    with capacity [m >= limit]; the code uses max(candidate_size, limit) + 1) return exactly that *)
Theorem C10_truncation_neutral : forall p k m segs,
  NoDup (map (fun c => (c_seg c, c_doc c)) (concat segs)) -> (k <= m)%nat ->
  rank_segments p k m segs = rank p k (concat segs) /\
  rank_heap p k m (concat segs) = rank p k (concat segs).
Proof.
  intros p k m segs Hd Hkm. split.
  - now apply (rank_segments_eq p (concat segs) Hd).
  - now apply (rank_heap_eq p (concat segs) Hd).
Qed.

(** M meets S: the ranking satisfies the executable reading of the property's order (compare the
    plan's fields from the left in their directions, missing after present, then segment, then
    document) used by the correspondence check *)
Theorem C10_order_meets_spec : forall p k cs,
  NoDup (map (fun c => (c_seg c, c_doc c)) cs) -> order_spec p k cs (rank p k cs) = true.
Proof. exact rank_meets_spec. Qed.

(** the property's "comes before" is the code's Less *)
Theorem C10_spec_order_is_key_order : forall p a b,
  cand_before p a b = match cand_cmp p a b with Lt => true | _ => false end.
Proof. exact cand_before_cmp. Qed.

(** missing values are last in both directions: a value against Missing is Less whatever the two
    directions are, at the first field or behind any number of equal fields *)
Theorem C10_missing_last :
  (forall o1 o2 v, v <> VMissing ->
     part_cmp {| p_order := o1; p_val := v |} {| p_order := o2; p_val := VMissing |} = Lt /\
     part_cmp {| p_order := o2; p_val := VMissing |} {| p_order := o1; p_val := v |} = Gt) /\
  (forall f a b,
     field_value f (hd RNone (c_vals a)) (c_score a) <> VMissing ->
     field_value f (hd RNone (c_vals b)) (c_score b) = VMissing ->
     cand_cmp [f] a b = Lt /\ cand_cmp [f] b a = Gt) /\
  (forall xs ys x y ra rb sa da sb db,
     parts_cmp xs ys = Eq -> length xs = length ys ->
     p_val x <> VMissing -> p_val y = VMissing ->
     key_cmp {| k_parts := xs ++ x :: ra; k_seg := sa; k_doc := da |}
             {| k_parts := ys ++ y :: rb; k_seg := sb; k_doc := db |} = Lt).
Proof.
  split; [exact part_missing_last|]. split; [exact missing_last_one_field|exact missing_last_prefix].
Qed.

(** the multi-value rule: the value [build_key] puts in the key is Missing iff the document has
    no value, otherwise one of the document's values, minimal for an ascending field and maximal
    for a descending one (as numbers / byte strings; f64 values are not NaN — JSON cannot carry
    one) *)
Theorem C10_multi_value_rule : forall f rv score,
  rv_ok f rv -> value_spec f rv score (field_value f rv score) = true.
Proof. exact multi_value_rule. Qed.

(** scores, term level: the model's term score is the textbook BM25 expression
    idf * tf * (k1 + 1) / (tf + k1 * (1 - b + b * dl / avgdl)) times the weight (stored field
    length, positive average length, denominator clamp inactive), and a single-term leaf scores
    it with weight = enclosing boosts x node boost x field boost.  The composite nodes (bool sum,
    dis_max, constant_score, function_score) are defined compositionally in [node_score]; their
    agreement with the code is carried by the tie. *)
Theorem C10_score_formula_term : forall idf tf dl avgdl k1 b w,
  (0 < avgdl)%Q -> (0 < dl)%Q ->
  ((1 # 1000000) <= tf + k1 * (1 - b + b * (dl / avgdl)))%Q ->
  (score_tf idf tf dl avgdl k1 b w ==
   idf * (tf * (k1 + 1)) / (tf + k1 * (1 - b + b * (dl / avgdl))) * w)%Q.
Proof. exact score_tf_formula. Qed.

Theorem C10_score_formula_leaf : forall e d inh k fb bo t s,
  find_t k (sd_terms d) = Some t -> find_k k (sg_keys (e_seg e)) = Some s ->
  (node_score e d inh (QLeaf [(k, fb)] bo) ==
   score_tf (ks_idf s) (qofN (ts_tf t)) (term_doc_len (ts_dl t) (ks_avgdl s)) (ks_avgdl s)
            (e_k1 e) (e_b e) 1 * (inh * bo * fb))%Q.
Proof. exact leaf_score_formula. Qed.

(** scores: the reported score is the property's score exactly outside known class 1 ... *)
Theorem C10_score_outside_match_only : forall c d,
  match_only c = false -> model_score c d = spec_score c d.
Proof. intros c d H. unfold model_score. now rewrite H. Qed.

(** ... and inside it the code reports 0.0 whatever BM25 says (refutation witness: one segment,
    one document holding the term once, sorted by an i64 field) *)
Definition witness_doc : mdoc :=
  {| m_id := 0; m_seg := 0; m_doc := 0; m_vals := [RI64 [3%Z]];
     m_sdoc := {| sd_terms := [{| ts_key := 0; ts_tf := 1; ts_dl := 2 |}]; sd_flags := [];
                  sd_nums := []; sd_oracle := [] |} |}.
Definition witness_case : case :=
  {| cs_plan := [{| pf_kind := FI64; pf_order := Asc |}]; cs_limit := 5%nat;
     cs_k1 := 6 # 5; cs_b := 3 # 4;
     cs_segs := [{| sg_docs := 1; sg_keys := [{| ks_key := 0; ks_df := 1; ks_avgdl := 2 # 1; ks_idf := 1 # 1 |}] |}];
     cs_query := QLeaf [(0, (1 # 1)%Q)] (1 # 1);
     cs_force_score := false; cs_docs := [witness_doc]; cs_hits := [(0, 0)] |}.

Theorem C10_score_match_only_refuted :
  match_only witness_case = true /\
  Qeq_bool (model_score witness_case witness_doc) (spec_score witness_case witness_doc) = false /\
  check_case witness_case = 101.
Proof. vm_compute. repeat split. Qed.

(* ---------------------------------------------------------------- non-vacuity *)

Definition ex_plan : plan :=
  [{| pf_kind := FKeyword; pf_order := Desc |}; {| pf_kind := FScore; pf_order := Desc |};
   {| pf_kind := FF64; pf_order := Asc |}].
Definition ex_cands : list cand :=
  [ {| c_id := 0; c_seg := 0; c_doc := 0; c_vals := [RStr [[97]; [99]]; RNone; RF64 [4607182418800017408]]; c_score := 1065353216 |};
    {| c_id := 1; c_seg := 0; c_doc := 1; c_vals := [RStr []; RNone; RF64 []]; c_score := 1073741824 |};
    {| c_id := 2; c_seg := 1; c_doc := 0; c_vals := [RStr [[99]]; RNone; RF64 [9223372036854775808; 0]]; c_score := 1065353216 |};
    {| c_id := 3; c_seg := 1; c_doc := 1; c_vals := [RStr [[98]]; RNone; RF64 []]; c_score := 1077936128 |} ].

(** keyword desc (max of the values; missing last), then score desc, then f64 asc (min; missing
    last), then (segment, doc): c (seg 1) and a,c (seg 0) tie on "c" and on score 1.0; the f64
    minimum -0.0 of document 2 is before 1.0 of document 0 *)
Example C10_example_rank : map c_id (rank ex_plan 3 ex_cands) = [2; 0; 3].
Proof. vm_compute. reflexivity. Qed.

Example C10_example_hypotheses :
  NoDup (map (fun c => (c_seg c, c_doc c)) ex_cands) /\
  order_spec ex_plan 3 ex_cands (rank ex_plan 3 ex_cands) = true /\
  rank_segments ex_plan 3 4 [firstn 2 ex_cands; skipn 2 ex_cands] = rank ex_plan 3 ex_cands.
Proof.
  split; [|split; vm_compute; reflexivity].
  cbn. repeat constructor; cbn; intuition congruence.
Qed.
