(** C11 — Cursor pagination is complete, duplicate-free and safe.
    Statement file: theorems are closed by [exact] of lemmas proved in Base/Paging.v,
    C11/Codec.v and C11/Proofs.v.

    Reading guide.  [segs] = the keys of the matching documents, per segment, in any scan order;
    keys are the reader's [SortKey]s interned to [N] (strict total order, distinct documents have
    distinct keys: [NoDup (concat segs)]).  [sort (concat segs)] is the strictly increasing
    enumeration of those keys ([C11_order_is_the_big_request]: it is exactly what one request
    whose limit covers all matches returns).  [walk_search] follows [next_cursor] from the first
    page until it is absent.  Scores ride on the keys (the tie maps key -> (id, score bits)), so
    "same documents in the same order" carries "same scores". *)
From Coq Require Import List NArith Bool Permutation.
From SL Require Import Base.Tie Base.Paging C11.Model C11.Codec C11.Proofs.
Import ListNotations.
Open Scope N_scope.

(** The walk returns every matching document exactly once, in key order, for every page size,
    both ranking paths (per-segment top-k on the score fast path / one bounded heap on the sort
    path) and every candidate_size; it ends (the last page, and only the last, has no cursor;
    every earlier page is full); and every page reports total_hits_estimate = number of matches.
    Hypothesis [<= MAX_CURSOR_ADVANCE]: the documented depth limit of cursors (README "bounded,
    up to ~50k returned hits"); beyond it the next cursor is refused, see [C11_deep_cursor_rejected]. *)
Theorem C11_walk_complete : forall segs fast limit cand fuel,
  (0 < limit)%nat -> NoDup (concat segs) ->
  N.of_nat (length (concat segs)) <= MAX_CURSOR_ADVANCE ->
  (length (concat segs) < fuel)%nat ->
  exists ps, walk_search fuel fast limit cand None segs = WOk ps
    /\ concat (map m_hits ps) = sort (concat segs)
    /\ Forall (fun p => m_total p = N.of_nat (length (concat segs))) ps
    /\ (exists front lastp, ps = front ++ [lastp] /\ m_next lastp = None
          /\ Forall (fun p => m_next p <> None /\ length (m_hits p) = limit) front).
Proof. exact walk_search_complete. Qed.

(** termination, separately: the walk needs no more than (number of matches + 1) requests *)
Theorem C11_walk_terminates : forall segs fast limit cand,
  (0 < limit)%nat -> NoDup (concat segs) ->
  N.of_nat (length (concat segs)) <= MAX_CURSOR_ADVANCE ->
  exists ps, walk_search (S (length (concat segs))) fast limit cand None segs = WOk ps.
Proof.
  intros segs fast limit cand H1 H2 H3.
  destruct (walk_search_complete segs fast limit cand (S (length (concat segs))) H1 H2 H3) as (ps & H & _).
  - apply PeanoNat.Nat.lt_succ_diag_r.
  - exists ps. exact H.
Qed.

(** the comparison point: one request whose limit covers all matches *)
Theorem C11_order_is_the_big_request : forall segs fast limit cand,
  (length (concat segs) < limit)%nat ->
  search_page fast limit cand None segs = POk (sort (concat segs)) None (N.of_nat (length (concat segs))).
Proof. exact big_request. Qed.

(** ... and [sort] is what it should be: the same keys, strictly increasing *)
Theorem C11_sort_spec : forall l, NoDup l -> Permutation l (sort l) /\ ssorted (sort l).
Proof. intros l H. split; [apply sort_permutation|now apply sort_ssorted]. Qed.

(** per-segment / per-heap truncation to top_k loses nothing among the first top_k *)
Theorem C11_per_segment_topk_suffices : forall k ls,
  topk k (concat (map (topk k) ls)) = topk k (concat ls).
Proof. exact topk_concat. Qed.

(** safety of the page function: a cursor naming no matching document is an error *)
Theorem C11_unknown_cursor_rejected : forall segs fast limit cand c,
  (0 < limit)%nat -> ~ In (ck c) (concat segs) ->
  exists e, search_page fast limit cand (Some c) segs = PErr e.
Proof. exact unknown_cursor_rejected. Qed.

Theorem C11_deep_cursor_rejected : forall segs fast limit cand c,
  MAX_CURSOR_ADVANCE < cret c -> (0 < limit)%nat ->
  search_page fast limit cand (Some c) segs = PErr CursorTooFar.
Proof. exact deep_cursor_rejected. Qed.

(** byte-exact v1 codec: 42 lower-case hex characters <-> (version, generation, score bits,
    segment, doc, returned) *)
Theorem C11_cursor_roundtrip : forall c, cursor_wf c ->
  c_ver c = CURSOR_VERSION -> c_ret c <= MAX_CURSOR_ADVANCE ->
  decode_v1 (encode_v1 c) = Ok c.
Proof. exact cursor_roundtrip. Qed.

Theorem C11_reject_bad_length : forall raw, length raw <> CURSOR_HEX_LEN -> decode_v1 raw = Err BadLength.
Proof. exact reject_bad_length. Qed.

Theorem C11_reject_non_hex : forall raw c, In c raw -> hexish c = false -> exists e, decode_v1 raw = Err e.
Proof. exact reject_non_hex. Qed.

Theorem C11_reject_version : forall c, cursor_wf c -> c_ver c <> CURSOR_VERSION ->
  decode_v1 (encode_v1 c) = Err BadVersion.
Proof. exact reject_version. Qed.

Theorem C11_reject_too_far : forall c, cursor_wf c -> c_ver c = CURSOR_VERSION ->
  MAX_CURSOR_ADVANCE < c_ret c -> decode_v1 (encode_v1 c) = Err TooFar.
Proof. exact reject_too_far. Qed.

(** a cursor of another index generation is rejected — whoever produced the string *)
Theorem C11_reject_foreign_generation : forall raw g c, decode_v1 raw = Ok c -> c_gen c <> g ->
  decode_cursor_fast raw g = Err Stale.
Proof. exact reject_foreign_generation. Qed.

(** sort cursors (payload after hex + serde, both trusted): round trip and rejection of another
    generation or another sort plan *)
Theorem C11_sort_cursor_roundtrip : forall g ret h nf seg doc, ret <= MAX_CURSOR_ADVANCE ->
  decode_sort (Some (encode_sort g ret h nf seg doc)) g h nf = Ok (encode_sort g ret h nf seg doc).
Proof. exact sort_cursor_roundtrip. Qed.

Theorem C11_reject_foreign : forall payload g h nf,
  (forall s, payload = Some s -> s_gen s <> g \/ s_plan s <> h) ->
  exists e, decode_sort payload g h nf = Err e.
Proof. exact sort_cursor_reject_foreign. Qed.

(** a score cursor offered to a sort request: its payload starts with byte 0x01, which no JSON
    document starts with (the parse itself is serde's, trusted) *)
Theorem C11_v1_payload_not_json : forall c, c_ver c = CURSOR_VERSION ->
  exists rest, bytes_of c = 1 :: rest /\ ~ In 1 [32; 9; 10; 13; 123; 91].
Proof. exact v1_payload_not_json. Qed.

(** the model meets the executable specification used by the tie *)
Theorem C11_model_meets_spec : forall c, wf c = true -> nlen (full c) <= MAX_CURSOR_ADVANCE ->
  exists ps, model_pages c = Some ps /\ spec (with_pages c ps) = true.
Proof. exact model_meets_spec. Qed.

(** Non-vacuity: three segments with interleaved keys, page size 2, score fast path: four pages,
    cursors 1, 3, 5, totals 7; and a concrete cursor string. *)
Example C11_nonvacuous :
  let segs := [[5; 0; 3]; [6; 1]; [2; 4]] in
  NoDup (concat segs)
  /\ walk_search 8 true 2 0 None segs =
     WOk [ {| m_hits := [0; 1]; m_next := Some {| ck := 1; cret := 2 |}; m_total := 7 |};
           {| m_hits := [2; 3]; m_next := Some {| ck := 3; cret := 4 |}; m_total := 7 |};
           {| m_hits := [4; 5]; m_next := Some {| ck := 5; cret := 6 |}; m_total := 7 |};
           {| m_hits := [6]; m_next := None; m_total := 7 |} ]
  /\ walk_search 8 false 2 0 None segs = walk_search 8 true 2 0 None segs
  /\ encode_v1 {| c_ver := 1; c_gen := 3; c_score := 1065353216; c_seg := 1; c_doc := 7; c_ret := 4 |}
     = [48;49; 48;48;48;48;48;48;48;51; 51;102;56;48;48;48;48;48; 48;48;48;48;48;48;48;49;
        48;48;48;48;48;48;48;55; 48;48;48;48;48;48;48;52]
  /\ decode_cursor_fast
       [48;49; 48;48;48;48;48;48;48;51; 51;102;56;48;48;48;48;48; 48;48;48;48;48;48;48;49;
        48;48;48;48;48;48;48;55; 48;48;48;48;48;48;48;52] 4 = Err Stale.
Proof.
  cbv zeta. split.
  - repeat constructor; cbn; intuition discriminate.
  - vm_compute. repeat split; reflexivity.
Qed.
