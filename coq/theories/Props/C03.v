(** C03 — Storage errors leave committed state unchanged or fully applied. Statement file. *)
From Coq Require Import List NArith Bool.
From SL Require Import Base.Tie Core.Model C02.Model C03.Model C03.Proofs C03.Others.
Import ListNotations.

(** One failing storage call anywhere in a commit (before or after its effect): the commit either
    returns an error with the running index's and the stored index's contents unchanged and the
    queue kept for a retry, or returns success with both showing the new state; the stored
    manifest never refers to a missing segment. *)
Theorem C03_single_fault : forall f : faults,
  (nfaults f <= 1)%nat ->
  let r := commit_f true true f in
  (r_ok r = true -> r_mem_new r = true /\ r_disk_new r = true) /\
  (r_ok r = false -> r_mem_new r = false /\ r_disk_new r = false /\ r_queue_kept r = true) /\
  (r_disk_new r = true -> r_newseg r = true).
Proof. exact single_fault_prop. Qed.

(** Any number of failing calls (in particular two): the stored index never refers to missing files. *)
Theorem C03_any_faults_openable : forall f : faults,
  r_disk_new (commit_f true true f) = true -> r_newseg (commit_f true true f) = true.
Proof. exact any_faults_openable_prop. Qed.

(** add_document / delete_documents under a failing log write: committed contents never change; a
    successful call queues the operation (handle and log); a failed call never leaves it in the
    handle's queue (it may survive in the log only - the 'orphan' the specification allows). *)
Theorem C03_add_fault_safe : forall f : fk,
  a_contents_changed (add_f f) = false /\
  (a_ok (add_f f) = true -> a_in_queue (add_f f) = true /\ a_in_log (add_f f) = true) /\
  (a_ok (add_f f) = false -> a_in_queue (add_f f) = false).
Proof. exact add_fault_safe. Qed.

(** rollback under failing truncation steps: contents unchanged, the handle's queue is cleared,
    and a rollback that returns success has cleared the log. *)
Theorem C03_rollback_fault_safe : forall f1 f2 : fk,
  b_contents_changed (rollback_f f1 f2) = false /\ b_queue_cleared (rollback_f f1 f2) = true /\
  (b_ok (rollback_f f1 f2) = true -> b_log_cleared (rollback_f f1 f2) = true).
Proof. exact rollback_fault_safe. Qed.

(** compaction under any combination of failing steps: the running index and the stored index
    always refer to existing segment files only (and compaction is content-neutral), and a
    compaction that returns success has switched both. *)
Theorem C03_compact_faults_openable : forall f1 f2 f3 f4 : fk,
  compact_openable (compact_f f1 f2 f3 f4) = true.
Proof. exact compact_faults_openable. Qed.

Theorem C03_compact_ok_complete : forall f1 f2 f3 f4 : fk,
  c_ok (compact_f f1 f2 f3 f4) = true ->
  c_mem_new (compact_f f1 f2 f3 f4) = true /\ c_disk_new (compact_f f1 f2 f3 f4) = true.
Proof. exact compact_ok_complete. Qed.

(** The code as found violated both sentences (repaired by two fix: commits). *)
Theorem C03_unfixed_truncate_refuted :
  exists f, nfaults f = 1%nat /\ single_ok (commit_f false true f) = false.
Proof.
  exists {| f_walsync := NoF; f_seg := NoF; f_store := NoF; f_marker := NoF; f_markersync := NoF;
            f_etrunc := NoF; f_erestore := NoF; f_trunc := FBefore |}. vm_compute. auto.
Qed.

Theorem C03_unfixed_cleanup_refuted :
  exists f, nfaults f = 2%nat /\ openable (commit_f true false f) = false.
Proof.
  exists {| f_walsync := NoF; f_seg := NoF; f_store := NoF; f_marker := NoF; f_markersync := FBefore;
            f_etrunc := NoF; f_erestore := FBefore; f_trunc := NoF |}. vm_compute. auto.
Qed.

Example C03_nonvacuous :
  commit_f true true {| f_walsync := NoF; f_seg := NoF; f_store := FAfter; f_marker := NoF; f_markersync := NoF;
                        f_etrunc := NoF; f_erestore := NoF; f_trunc := NoF |}
  = {| r_ok := false; r_mem_new := false; r_disk_new := false; r_newseg := false; r_queue_kept := true |}.
Proof. reflexivity. Qed.
