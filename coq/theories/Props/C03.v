(** C03 — Storage errors leave committed state unchanged or fully applied. Statement file. *)
From Coq Require Import List NArith Bool.
From SL Require Import Base.Tie Core.Model C02.Model C03.Model C03.Proofs C03.Others C03.History C03.HistoryProofs.
Import ListNotations.

(** One failing storage call anywhere in a commit (before or after its effect): the commit either
    returns an error with the running index's and the stored index's contents unchanged and the
    queue kept for a retry, or returns success with both showing the new state; the stored
    manifest never refers to a missing segment. *)
Theorem C03_single_fault : forall f : faults,
  (nfaults f <= 1)%nat ->
  let r := commit_f true true f in
  (r_ok r = true -> r_mem_new r = true /\ r_disk_new r = true) /\
  (r_ok r = false -> r_mem_new r = false /\ r_disk_new r = false /\ r_queue_kept r = true) /\
  (r_disk_new r = true -> r_newseg r = true).
Proof. exact single_fault_prop. Qed.

(** Any number of failing calls (in particular two): the stored index never refers to missing files. *)
Theorem C03_any_faults_openable : forall f : faults,
  r_disk_new (commit_f true true f) = true -> r_newseg (commit_f true true f) = true.
Proof. exact any_faults_openable_prop. Qed.

(** add_document / delete_documents under a failing log write: committed contents never change; a
    successful call queues the operation (handle and log); a failed call never leaves it in the
    handle's queue (it may survive in the log only - the 'orphan' the specification allows). *)
Theorem C03_add_fault_safe : forall f : fk,
  a_contents_changed (add_f f) = false /\
  (a_ok (add_f f) = true -> a_in_queue (add_f f) = true /\ a_in_log (add_f f) = true) /\
  (a_ok (add_f f) = false -> a_in_queue (add_f f) = false).
Proof. exact add_fault_safe. Qed.

(** rollback under failing truncation steps: contents unchanged, the handle's queue is cleared,
    and a rollback that returns success has cleared the log. *)
Theorem C03_rollback_fault_safe : forall f1 f2 : fk,
  b_contents_changed (rollback_f f1 f2) = false /\ b_queue_cleared (rollback_f f1 f2) = true /\
  (b_ok (rollback_f f1 f2) = true -> b_log_cleared (rollback_f f1 f2) = true).
Proof. exact rollback_fault_safe. Qed.

(** compaction under any combination of failing steps: the running index and the stored index
    always refer to existing segment files only (and compaction is content-neutral), and a
    compaction that returns success has switched both. *)
Theorem C03_compact_faults_openable : forall f1 f2 f3 f4 : fk,
  compact_openable (compact_f f1 f2 f3 f4) = true.
Proof. exact compact_faults_openable. Qed.

Theorem C03_compact_ok_complete : forall f1 f2 f3 f4 : fk,
  c_ok (compact_f f1 f2 f3 f4) = true ->
  c_mem_new (compact_f f1 f2 f3 f4) = true /\ c_disk_new (compact_f f1 f2 f3 f4) = true.
Proof. exact compact_ok_complete. Qed.

(** Whole histories.  C03/History.v composes the per-call fault models into a model of the writer
    over any sequence of writer(), add, delete, commit, rollback, drop, compact and reopen calls,
    each call taking the fault assignment of its storage-touching steps.  Every history of that
    model in which at most one storage call fails - whichever call of whichever kind, before or
    after its effect - is accepted by the specification written from the statement: a call that
    returned an error left the contents seen by new readers and by a reopen unchanged, with the
    operations still in the log or in the handle (retryable); a call that returned success applied
    its effects fully; and the final healthy commit yields the committed contents with the
    outstanding operations applied. *)
Theorem C03_history_single_fault : forall script c,
  (script_faults script <= 1)%nat -> case_of script = Some c -> spec c = true.
Proof. exact history_faults_meet_spec. Qed.

(** One call of the model is one of the specification's possibilities (the step of the proof
    above, useful on its own: it is what ties [ok_step] / [err_step] to the fault models). *)
Theorem C03_call_refines_spec : forall s a f s' ok,
  hstep s a f = Some (s', ok) -> (cfault_count f <= 1)%nat -> hM s = hD s ->
  hM s' = hD s' /\ In (hM s', hQ s') (step_of ok a (hM s, hQ s)).
Proof. exact hstep_in_spec. Qed.

(** The code as found violated both sentences (repaired by two fix: commits). *)
Theorem C03_unfixed_truncate_refuted :
  exists f, nfaults f = 1%nat /\ single_ok (commit_f false true f) = false.
Proof.
  exists {| f_walsync := NoF; f_seg := NoF; f_store := NoF; f_marker := NoF; f_markersync := NoF;
            f_etrunc := NoF; f_erestore := NoF; f_trunc := FBefore |}. vm_compute. auto.
Qed.

Theorem C03_unfixed_cleanup_refuted :
  exists f, nfaults f = 2%nat /\ openable (commit_f true false f) = false.
Proof.
  exists {| f_walsync := NoF; f_seg := NoF; f_store := NoF; f_marker := NoF; f_markersync := FBefore;
            f_etrunc := NoF; f_erestore := FBefore; f_trunc := NoF |}. vm_compute. auto.
Qed.

Example C03_nonvacuous :
  commit_f true true {| f_walsync := NoF; f_seg := NoF; f_store := FAfter; f_marker := NoF; f_markersync := NoF;
                        f_etrunc := NoF; f_erestore := NoF; f_trunc := NoF |}
  = {| r_ok := false; r_mem_new := false; r_disk_new := false; r_newseg := false; r_queue_kept := true |}.
Proof. reflexivity. Qed.

(** a history with a fault inside a commit, one inside an add (orphan record) and a failed
    rollback is produced by the model and accepted *)
Example C03_history_nonvacuous :
  (exists c, case_of [(NewWriter 1, FNone); (AddDoc 1 1 0 1, FNone);
                      (Commit 1, FCommitF {| f_walsync := NoF; f_seg := NoF; f_store := FAfter; f_marker := NoF;
                                            f_markersync := NoF; f_etrunc := NoF; f_erestore := NoF; f_trunc := NoF |});
                      (Commit 1, FNone); (AddDoc 1 2 1 2, FNone); (DropWriter 1, FNone)] = Some c /\ spec c = true) /\
  (exists c, case_of [(NewWriter 1, FNone); (AddDoc 1 1 0 1, FAddW FAfter); (DropWriter 1, FNone);
                      (NewWriter 1, FNone); (Commit 1, FNone)] = Some c /\ spec c = true /\
             snd c = (Some [(0, 1)], Some [(0, 1)])) /\
  (exists c, case_of [(NewWriter 1, FNone); (AddDoc 1 1 0 1, FNone); (Rollback 1, FRollbackF FBefore NoF);
                      (Commit 1, FNone)] = Some c /\ spec c = true).
Proof.
  repeat split; eexists; (split; [vm_compute; reflexivity|]); try (split; vm_compute; reflexivity); vm_compute; reflexivity.
Qed.
