(** C03 — Storage errors leave committed state unchanged or fully applied. Statement file. *)
From Coq Require Import List NArith Bool.
From SL Require Import Base.Tie Core.Model C02.Model C03.Model C03.Proofs.
Import ListNotations.

(** One failing storage call anywhere in a commit (before or after its effect): the commit either
    returns an error with the running index's and the stored index's contents unchanged and the
    queue kept for a retry, or returns success with both showing the new state; the stored
    manifest never refers to a missing segment. *)
Theorem C03_single_fault : forall f : faults,
  (nfaults f <= 1)%nat ->
  let r := commit_f true true f in
  (r_ok r = true -> r_mem_new r = true /\ r_disk_new r = true) /\
  (r_ok r = false -> r_mem_new r = false /\ r_disk_new r = false /\ r_queue_kept r = true) /\
  (r_disk_new r = true -> r_newseg r = true).
Proof. exact single_fault_prop. Qed.

(** Any number of failing calls (in particular two): the stored index never refers to missing files. *)
Theorem C03_any_faults_openable : forall f : faults,
  r_disk_new (commit_f true true f) = true -> r_newseg (commit_f true true f) = true.
Proof. exact any_faults_openable_prop. Qed.

(** The code as found violated both sentences (repaired by two fix: commits). *)
Theorem C03_unfixed_truncate_refuted :
  exists f, nfaults f = 1%nat /\ single_ok (commit_f false true f) = false.
Proof.
  exists {| f_walsync := NoF; f_seg := NoF; f_store := NoF; f_marker := NoF; f_markersync := NoF;
            f_etrunc := NoF; f_erestore := NoF; f_trunc := FBefore |}. vm_compute. auto.
Qed.

Theorem C03_unfixed_cleanup_refuted :
  exists f, nfaults f = 2%nat /\ openable (commit_f true false f) = false.
Proof.
  exists {| f_walsync := NoF; f_seg := NoF; f_store := NoF; f_marker := NoF; f_markersync := FBefore;
            f_etrunc := NoF; f_erestore := FBefore; f_trunc := NoF |}. vm_compute. auto.
Qed.

Example C03_nonvacuous :
  commit_f true true {| f_walsync := NoF; f_seg := NoF; f_store := FAfter; f_marker := NoF; f_markersync := NoF;
                        f_etrunc := NoF; f_erestore := NoF; f_trunc := NoF |}
  = {| r_ok := false; r_mem_new := false; r_disk_new := false; r_newseg := false; r_queue_kept := true |}.
Proof. reflexivity. Qed.
