(** C08 — Filters follow the documented filter semantics.
    Statement file: theorems are closed by [exact] of lemmas proved in C08/Proofs.v.

    [passes (flatten sch d) f] : query/filters.rs evaluated over the fast-field columns that
    index-time collection leaves for document [d];  [fsem f d] : the documented semantics
    evaluated on the JSON tree of [d].  Nesting depth, array sizes, numbers of values and
    the shape of the filter tree are unbounded. *)
From Coq Require Import List NArith ZArith Bool.
From SL Require Import Base.Tie C08.Model C08.Proofs.
Import ListNotations.
Open Scope N_scope.

(** A document passes a (well-typed) filter tree exactly when the documented semantics hold. *)
Theorem C08_filter_exact : forall (sch : schema) (d : obj) (f : filter),
  well_typed sch f = true -> passes (flatten sch d) f = fsem f d.
Proof. exact filter_exact. Qed.

(** The specification [fsem], unfolded clause by clause (this is what "documented semantics"
    means here; each equation holds for every object [o], the root document included). *)

(** keyword equality / membership: case-insensitive, any value of the field *)
Theorem C08_sem_keyword : forall fld v vs o,
  fsem (FKwEq fld v) o = existsb (fun s => ci_eq v s) (strings_of o fld)
  /\ fsem (FKwIn fld vs) o = existsb (fun s => existsb (fun v => ci_eq v s) vs) (strings_of o fld).
Proof. intros. split; [apply sem_kw_eq | apply sem_kw_in]. Qed.

(** numeric ranges: inclusive at both ends, any value of the field, i64 values for I64Range
    and f64 values for F64Range *)
Theorem C08_sem_range : forall fld lo hi o,
  fsem (FI64 fld lo hi) o = existsb (fun x => Z.leb lo x && Z.leb x hi) (ints_of o fld)
  /\ fsem (FF64 fld lo hi) o = existsb (fun x => Z.leb lo x && Z.leb x hi) (floats_of o fld).
Proof. intros. split; [apply sem_i64 | apply sem_f64]. Qed.

(** a nested clause holds iff ONE object under key [p] of the bound object satisfies it *)
Theorem C08_sem_nested : forall p g o,
  fsem (FNested p g) o = existsb (fun o' => fsem g o') (objects_in o p).
Proof. exact sem_nested. Qed.

(** And: every plain member holds, and for every [Nested p _] member one object under [o.p]
    satisfies ALL the members with path [p] jointly (recursively an And, so deeper sibling
    paths are bound to one object as well) *)
Theorem C08_sem_and : forall l o,
  fsem (FAnd l) o
  = forallb (fun c => match c with
                      | FNested p _ => existsb (fun o' => fsem (FAnd (inners p l)) o') (objects_in o p)
                      | _ => fsem c o
                      end) l.
Proof. exact sem_and. Qed.

Theorem C08_sem_or : forall l o, fsem (FOr l) o = existsb (fun c => fsem c o) l.
Proof. exact sem_or. Qed.

Theorem C08_sem_not : forall g o, fsem (FNot g) o = negb (fsem g o).
Proof. exact sem_not. Qed.

(** The evaluation fuel is immaterial: any amount at least [need f] gives [fsem f]. *)
Theorem C08_fuel_irrelevant : forall f o n, (need f <= n)%nat -> fs n f o = fsem f o.
Proof. intros. apply fs_enough. assumption. Qed.

(** What the tie evaluates: for a well-typed filter the model's hit list is the specification's. *)
Theorem C08_model_meets_spec : forall i : case_in,
  well_typed (c_sch i) (c_filter i) = true -> model_hits i = spec_hits i.
Proof. exact model_meets_spec. Qed.

(** Non-vacuity: the two-parent document of the defect report.
    names: c=0 a=1 r=2 t=3; strings: alice=(0,0) Alice=(4,0) bob=(1,1) p=(2,2) q=(3,3). *)
Example C08_nonvacuous :
  let sch := [PObj 0 false [PLeaf 1 KKw false; PObj 2 true [PLeaf 3 KKw false]]] in
  let d := [(0, JArr [JObj [(1, JStr (0, 0)); (2, JArr [JObj [(3, JStr (2, 2))]])];
                      JObj [(1, JStr (1, 1)); (2, JArr [JObj [(3, JStr (3, 3))]])]])] in
  let f who tag := FAnd [FNested 0 (FKwEq 1 who); FNested 0 (FNested 2 (FKwEq 3 tag))] in
  valid sch d = true
  /\ well_typed sch (f (4, 0) (2, 2)) = true
  /\ passes (flatten sch d) (f (4, 0) (2, 2)) = true /\ fsem (f (4, 0) (2, 2)) d = true
  /\ passes (flatten sch d) (f (1, 1) (2, 2)) = false /\ fsem (f (1, 1) (2, 2)) d = false
  /\ col_parents (flatten sch d) [0; 2] = [Some 0%nat; Some 1%nat].
Proof. vm_compute. repeat split; reflexivity. Qed.
