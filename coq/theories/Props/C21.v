(** C21 — Highlights are well-formed for any text.
    Statement file: theorems are closed by [exact] of lemmas proved in C21/Proofs.v, C21/SpecProofs.v. *)
From Coq Require Import List NArith Bool.
From SL Require Import Base.Tie C21.Model C21.Proofs C21.SpecProofs.
Import ListNotations.
Open Scope N_scope.

(** Full statement.  [highlight] is the model of the repaired [highlight_fragments] (and of
    [make_snippet], which is the instance pre = post = "**", size = 120, nfrag = 1).  Premises:
    [wf]        what the regex crate guarantees about its matches (inside the text, non-empty, on char
                boundaries; matches inside a fragment ordered and inside it) and assumption A1 (a
                window containing the match it was built around contains at least one regex match);
    [size_hyp]  the statement's "fragment size at least twice the length of the matched text" (bytes).
    Conclusion, for every returned fragment [f] ([wellformed_fragment]): [f] is non-empty; there are
    [k >= 1] tag pairs whose removal leaves [s]; [s] is a substring of the text; [s] has at most
    [size] bytes (hence at most [size] characters); and at most [nfrag] fragments are returned. *)
Theorem C21_wellformed : forall (i : hl_in) (out : list (list N)),
  wf i = true -> size_hyp i = true -> highlight i = Some out ->
  Forall (fun f =>
            f <> []
            /\ exists s k, tagged (pre i) (post i) f s k /\ (1 <= k)%nat
                 /\ (exists a b, text i = a ++ s ++ b)
                 /\ nlen s <= size i) out
  /\ N.of_nat (length out) <= nfrag i.
Proof. exact wellformed. Qed.

(** The count bound needs no premise at all. *)
Theorem C21_count : forall (i : hl_in) (out : list (list N)),
  highlight i = Some out -> N.of_nat (length out) <= nfrag i.
Proof. exact highlight_count. Qed.

(** The repaired window: contains the match, lies on char boundaries inside the text, spans at most
    [sz] bytes — for any text, any match on char boundaries and any size >= 2 * |match|. *)
Theorem C21_window : forall (t : list N) (sz s e : N),
  match_wf t (s, e) = true -> 2 * (e - s) <= sz ->
  let (st, en) := window t sz (s, e) in
  st <= s /\ e <= en /\ en <= nlen t /\ en - st <= sz
  /\ boundary t st = true /\ boundary t en = true.
Proof. exact window_spec. Qed.

(** The model meets the executable specification used by the tie (left-to-right tag scan), whenever the
    scan is unambiguous ([tags_clean]: the first byte of each tag does not occur in the text). *)
Theorem C21_model_meets_spec : forall (i : hl_in) (out : list (list N)),
  wf i = true -> tags_clean i = true -> highlight i = Some out -> spec i out = true.
Proof. exact model_meets_spec. Qed.

(** Soundness of the executable specification: a fragment accepted by the tie's per-fragment check
    [frag_ok] is well-formed in the sense of C21_wellformed — for any text and any (non-empty) tags. *)
Theorem C21_spec_sound : forall (i : hl_in) (f : list N),
  frag_ok i f = true ->
  f <> []
  /\ exists s k, tagged (pre i) (post i) f s k /\ (1 <= k)%nat
       /\ (exists a b, text i = a ++ s ++ b)
       /\ nlen s <= size i.
Proof. exact frag_ok_sound. Qed.

(** The code before the fix (raw byte offsets, no snapping) does NOT satisfy the statement:
    "éééé rust", term "rust", fragment_size 8 gives one empty fragment. *)
Definition refuting_input : hl_in :=
  {| text := [195;169;195;169;195;169;195;169;32;114;117;115;116]; size := 8; nfrag := 1;
     pre := [60;101;109;62]; post := [60;47;101;109;62];
     ms := [(9, 13)]; fms := [(5, 13, [])] |}.

Theorem C21_unsnapped_window_refuted :
  match_wf (text refuting_input) (9, 13) = true /\ size_hyp refuting_input = true
  /\ highlight_unsnapped refuting_input = Some [[]].
Proof. vm_compute. repeat split; reflexivity. Qed.

(** Non-vacuity: the same text with the repaired window ("é rust" around the match, the regex finds
    "rust" at 3..7 inside it). *)
Example C21_nonvacuous :
  let i := {| text := [195;169;195;169;195;169;195;169;32;114;117;115;116]; size := 8; nfrag := 1;
              pre := [60;101;109;62]; post := [60;47;101;109;62];
              ms := [(9, 13)]; fms := [(6, 13, [(3, 7)])] |} in
  wf i = true /\ size_hyp i = true /\ tags_clean i = true
  /\ highlight i = Some [[195;169;32; 60;101;109;62; 114;117;115;116; 60;47;101;109;62]].
Proof. vm_compute. repeat split; reflexivity. Qed.
