(** C16 — Search never panics on any request.
    Statement file.  PARTIAL by construction: the theorems below are totality ("never [Panic]")
    statements for the enumerated kernels of searchlite-core/src/api/reader.rs that were modelled
    with explicit panic outcomes (cursor codec, sort-cursor path after the JSON parse, limit /
    next-cursor arithmetic).  The rest of the search path is covered by the panic-site inventory and
    by the fuzzing tie (a test), not by a theorem. *)
From Coq Require Import List NArith Bool.
From SL Require Import Base.Tie C16.Model C16.Proofs.
Import ListNotations.
Open Scope N_scope.

(** [PaginationCursor::decode] (score cursor): any byte string — in particular any UTF-8 string —
    yields fields or an error, never a panic (array index, [try_into().unwrap()], [from_utf8]). *)
Theorem C16_cursor_decode_total : forall raw : list N, decode raw <> Panic.
Proof. exact decode_total. Qed.

(** [hex_decode] (sort cursor). *)
Theorem C16_hex_decode_total : forall raw : list N, hex_decode raw <> Panic.
Proof. exact hex_decode_total. Qed.

(** [decode_cursor], sort path: whatever serde_json makes of the decoded bytes ([parse] is an
    arbitrary function), the checks that follow return a cursor position or an error. *)
Theorem C16_sort_cursor_total : forall raw parse generation plan_hash nfields,
  decode_sort_cursor raw parse generation plan_hash nfields <> Panic.
Proof. exact decode_sort_cursor_total. Qed.

(** [hex_encode] / [PaginationCursor::encode]: the table lookups [HEX[b >> 4]], [HEX[b & 15]] are in
    range for every byte. *)
Theorem C16_hex_encode_total : forall bytes : list N,
  Forall (fun b => b < 256) bytes -> exists r, hex_encode bytes = Ok r.
Proof. exact hex_encode_total. Qed.

(** next-cursor step of [IndexReader::search]: [&hits[limit - 1]] and the [returned] arithmetic never
    panic (no underflow, index in range) for any 64-bit limit / cursor position / hit count, and the
    new position fits a u32. *)
Theorem C16_next_page_total : forall limit cursor_returned nhits : N,
  next_page limit cursor_returned nhits <> Panic
  /\ forall r, next_page limit cursor_returned nhits = Ok (Some r) -> r <= U32_MAX.
Proof.
  intros. split; [apply next_page_total|]. intros r. apply next_page_bound.
Qed.

(** candidate window arithmetic stays far from overflow *)
Theorem C16_candidate_bounds : forall limit cand rh,
  base_candidate limit cand <= MAX_CANDIDATE_SIZE
  /\ top_k rh (base_candidate limit cand) <= MAX_CANDIDATE_SIZE + 1.
Proof. exact candidate_bounds. Qed.

(** the model's own outcome always satisfies the executable specification *)
Theorem C16_model_meets_spec : forall raw,
  spec (CCursor raw (obs_of_dec (decode raw)) (obs_of_hex (hex_decode raw))) = true.
Proof. exact model_meets_spec. Qed.

(** The code before the fix ([from_utf8(chunk).unwrap()]) panics: "a" + 20 x "é" + "a" (42 bytes,
    valid UTF-8) on the score path, "aéa" on the sort path. *)
Theorem C16_prefix_code_panics :
  nlen prefix_witness = 42 /\ decode_prefix prefix_witness = Panic
  /\ hex_decode_prefix [97; 195; 169; 97] = Panic.
Proof. vm_compute. repeat split; reflexivity. Qed.

(** Non-vacuity: a well-formed cursor decodes; the non-ASCII one is an error after the fix. *)
Example C16_nonvacuous :
  decode (48 :: 49 :: repeat 48 40) = Ok (1, 0, 0, 0, 0, 0)
  /\ decode prefix_witness = Err E_UTF8 0
  /\ hex_decode [43; 102; 65; 57] = Ok [15; 169]
  /\ next_page 18446744073709551615 7 18446744073709551616 = Ok (Some 4294967295).
Proof. vm_compute. repeat split; reflexivity. Qed.
