(** C02 — Queued operations survive crashes exactly once. Statement file.
    Byte level: Wal/Theorems.v (log codec).  Record level and re-application: C02/Proofs.v.
    Whole histories: C02/History.v is a model of the single-handle writer protocol in which every
    call is a list of micro-operations and a crash may come at any boundary with any outcome the
    index side and the log side allow; [C02_history_meets_spec] proves that every history of that
    model, of any length and with any number of crashes, satisfies the executable specification
    C02.Model.spec written from the statement.  The tie checks on every run that the events of
    real crash runs are histories of the model ([corr_case]). *)
From Coq Require Import List NArith Bool.
From SL Require Import Base.Tie Base.Bytes Base.Crc32 Wal.Model Wal.Theorems Core.Model C01.Model C01.Proofs C02.Model C02.Proofs C02.Windows C02.History C02.HistoryProofs.
Import ListNotations.
Open Scope N_scope.

(** A torn tail - any strict prefix of a record - never parses as a record, for every record
    sequence before it: replay returns exactly the complete records and where they end. *)
Theorem C02_replay_torn_tail : forall crc decodable rs r t,
  Forall (valid_rec decodable) rs -> nlen (snd r) < 2 ^ 64 -> strict_prefix t (encode_rec crc r) ->
  replay_with crc decodable (encode_all crc rs ++ t) = (rs, length (encode_all crc rs)).
Proof. exact wal_replay_torn_tail. Qed.

(** A zero-filled tail is ignored as well (for the real CRC-32). *)
Theorem C02_replay_zero_fill : forall decodable rs k,
  Forall (valid_rec decodable) rs ->
  replay_with crc32 decodable (encode_all crc32 rs ++ repeat 0 k) = (rs, length (encode_all crc32 rs)).
Proof. exact wal_replay_zero_fill_crc32. Qed.

(** Cutting the log at the valid length reported by replay makes later appends visible
    (what the repaired IndexWriter::new does); without the cut they are lost. *)
Theorem C02_truncate_then_append : forall crc decodable rs r t rs',
  Forall (valid_rec decodable) rs -> Forall (valid_rec decodable) rs' ->
  nlen (snd r) < 2 ^ 64 -> strict_prefix t (encode_rec crc r) ->
  let d := encode_all crc rs ++ t in
  replay_with crc decodable (firstn (snd (replay_with crc decodable d)) d ++ encode_all crc rs')
  = (rs ++ rs', (length (encode_all crc rs) + length (encode_all crc rs'))%nat).
Proof. exact wal_replay_truncate_then_append. Qed.

(** Record level: whatever a crash leaves of the log, the recovered queue is the synced queue
    followed by a prefix of the unsynced operations, in their original order. *)
Theorem C02_crash_queue_bounds : forall w tail x,
  w_entry w = true ->
  strip_prefix wrec_eqb (w_dur w) (w_vol w) = Some tail ->
  forallb is_op tail = true ->
  In x (wal_crash w) ->
  exists p s, ops_of tail = p ++ s /\ pending x = pending (w_dur w) ++ p.
Proof. exact crash_queue_bounds. Qed.

(** Every operation followed by a successful log sync is recovered exactly. *)
Theorem C02_synced_never_lost : forall w x,
  w_entry w = true -> In x (wal_crash (wal_apply w WFsync)) -> x = w_vol w.
Proof. exact synced_queue_exact. Qed.

(** With the repaired open the log's directory entry is durable from the first writer on, for
    every later sequence of log operations. *)
Theorem C02_log_entry_durable : forall ops,
  w_entry (fold_left wal_apply ops (wal_apply wal0 WOpen)) = true.
Proof. exact entry_durable_from_open. Qed.

(** Re-applying an already committed batch (commit marker lost in the crash) in front of new
    operations gives the same contents as applying the new operations only: no committed,
    deleted or superseded operation changes contents a second time. *)
Theorem C02_reapply_harmless : forall q r c id,
  alookup id (apply_all (q ++ r) (apply_all q c)) = alookup id (apply_all r (apply_all q c)).
Proof. exact reapply_harmless. Qed.

(** The commit protocol seen jointly on the manifest side (C01's crash-aware disk) and on the log:
    from any consistent disk with a durable log entry and an unsynced tail of operations, at
    EVERY operation boundary of the commit, every combination of what a crash can leave of the
    index and of the log is: the old contents with a recovered queue between the synced queue and
    the whole batch, or the new contents with an empty queue or exactly the whole batch (whose
    re-application is harmless) - never old contents with a lost batch, never a half batch. *)
Theorem C02_commit_windows :
  forall (d : disk) (w : wal_st) (m0 m1 : manifest) (segops : list sop) (tail : list wrec),
  k_man d = (m0, true) -> k_manp d = None -> safe_all d m0 ->
  Forall (fun o => (exists n, o = OSegBegin n) \/ (exists n, o = OSegSynced n)) segops ->
  ready_all (run_sops d segops) m1 ->
  w_entry w = true -> w_exists w = true -> w_vol w = w_dur w ++ tail -> forallb is_op tail = true ->
  forall (j : nat) c x,
    In c (outcomes (fst (jrun (d, w) (firstn j (commit_ops m1 segops))))) ->
    In x (wal_crash (snd (jrun (d, w) (firstn j (commit_ops m1 segops))))) ->
    (c = Some (contents m0) /\ exists p s, ops_of tail = p ++ s /\ C02.Model.pending x = C02.Model.pending (w_dur w) ++ p) \/
    (c = Some (contents m1) /\ (C02.Model.pending x = [] \/ C02.Model.pending x = C02.Model.pending (w_dur w) ++ ops_of tail)).
Proof. exact commit_windows. Qed.

(** Whole histories.  Whatever the model of the writer protocol can produce - any sequence of
    writer creations, adds, deletes, commits, rollbacks, drops, reopens and compactions, cut by any
    number of crashes, each at any micro-operation boundary of the call in flight and with any
    outcome a crash can leave of the manifest and of the log - is allowed by the specification:
    every recovered queue lies between the operations known to be synced and all operations issued
    since the last commit or rollback, in order; a commit in flight shows the old contents with
    such a queue or the new contents with the queue empty or exactly the batch; and the contents
    after a final healthy commit are the recovered contents with the outstanding operations
    applied once. *)
Theorem C02_history_meets_spec : forall c : case02, corr_case c = true -> spec c = true.
Proof. exact history_meets_spec. Qed.

(** The same, step by step: along an accepted history the specification never objects and its
    state stays related to the model's (same contents, log invariant, handle queue). *)
Theorem C02_history_simulation : forall evs s m i,
  R s m -> accepts m evs = true ->
  exists s', spec_run s i evs = (None, s') /\ R s' (final_state m evs).
Proof. exact accepts_spec. Qed.

(** The unrepaired open (directory entry of a new log never fsynced) loses synced operations. *)
Theorem C02_unfixed_entry_refuted :
  let w := fold_left wal_apply [WAppend (ROp (PAdd 0 1)); WFsync]
             {| w_dur := []; w_vol := []; w_entry := false; w_exists := true |} in
  In [] (wal_crash w) /\ pending (w_dur w) = [PAdd 0 1].
Proof. vm_compute. split; auto. Qed.

Example C02_nonvacuous :
  let w := fold_left wal_apply [WAppend (ROp (PAdd 0 1)); WFsync; WAppend (ROp (PDel 0)); WAppend (ROp (PAdd 1 2))]
             (wal_apply wal0 WOpen) in
  map pending (wal_crash w) = [[PAdd 0 1]; [PAdd 0 1; PDel 0]; [PAdd 0 1; PDel 0; PAdd 1 2]] /\
  spec ([ECall (NewWriter 1); ECall (AddDoc 1 1 0 1); ECall (DropWriter 1);
         ECrash (NewWriter 1) true false (Some []) (Some [PAdd 0 1])], [(0, 1)]) = true.
Proof. vm_compute. split; reflexivity. Qed.

(** the model produces histories with crashes inside commits, and refuses one that loses a synced
    operation *)
Example C02_history_nonvacuous :
  corr_case ([ECall (NewWriter 1); ECall (AddDoc 1 1 0 1); ECall (AddDoc 1 2 1 2);
              ECrash (Commit 1) false true (Some [(0, 1); (1, 2)]) (Some [PAdd 0 1; PAdd 1 2]);
              ECall (NewWriter 1); ECall (DelDoc 1 3 0);
              ECrash (Commit 1) false true (Some [(0, 1); (1, 2)]) (Some [PAdd 0 1; PAdd 1 2; PDel 0]);
              ECall (NewWriter 1)], [(1, 2)]) = true /\
  accepts m0 [ECall (NewWriter 1); ECall (AddDoc 1 1 0 1); ECall (DropWriter 1);
              ECrash (NewWriter 1) true false (Some []) (Some [])] = false.
Proof. vm_compute. split; reflexivity. Qed.
