(** C15 — Every accepted document can be committed.
    Statement file: theorems are closed by [exact] of lemmas proved in C15/Proofs.v.

    [accept sch d]      : IndexWriter::add_document queues document [d];
    [commit_ok sch d b] : the commit that processes [d] succeeds ([b]: the stored form of [d]
                          exceeds the 32 MiB docstore limit);
    [conforms sch d]    : [d] conforms to the schema (specification).
    Documents, schemas and nesting depth are unbounded. *)
From Coq Require Import List NArith Bool.
From SL Require Import Base.Tie C15.Model C15.Proofs.
Import ListNotations.
Open Scope N_scope.

(** A document accepted when it is queued can be committed — outside known class 1 (stored form
    larger than the docstore limit, which only the commit notices). *)
Theorem C15_accept_implies_commit : forall sch d big,
  accept sch d = true -> big = false -> commit_ok sch d big = true.
Proof. exact accept_implies_commit. Qed.

(** ... and the exclusion is needed (known finding, class 1). *)
Theorem C15_accept_implies_commit_refuted :
  exists sch d big, accept sch d = true /\ commit_ok sch d big = false.
Proof. exact accept_implies_commit_refuted. Qed.

(** Add-time validation accepts exactly the documents that conform to the schema ... *)
Theorem C15_accept_iff_conforms : forall sch d, accept sch d = conforms sch d.
Proof. exact accept_is_conforms. Qed.

(** ... so a document that violates the schema (missing or blank id, wrong value type, unknown
    field, malformed or missing required nested value) is rejected when it is queued. *)
Theorem C15_rejects_bad : forall sch d, conforms sch d = false -> accept sch d = false.
Proof. exact rejects_bad. Qed.

(** What the tie evaluates: the model's (add, commit, later commit) outcome meets the executable
    specification for every input outside class 1. *)
Theorem C15_model_meets_spec : forall i, c_big i = false -> spec i (model i) = true.
Proof. exact model_meets_spec. Qed.

(** Non-vacuity.  names: _id=0 title=1 c=2 a=3 r=4 t=5 bogus=9.
    schema: title (string), nested c{a string; nested r{t string} nullable}. *)
Example C15_nonvacuous :
  let sch := mkschema 0 [PLeaf 1 LStr true; PObj 2 false [PLeaf 3 LStr false; PObj 4 true [PLeaf 5 LStr false]]] [] in
  let good := [(0, VStr false); (1, VStr false);
               (2, VArr [VObj [(3, VStr false); (4, VArr [VObj [(5, VStr false)]])]; VObj [(3, VArr [VStr false])]])] in
  let unknown_field := (9, VNum true) :: good in
  let array_of_arrays := [(0, VStr false); (2, VArr [VArr [VObj [(3, VStr false)]]])] in
  let wrong_type := [(0, VStr false); (2, VObj [(3, VArr [VNum true])])] in
  let missing_required := [(0, VStr false); (2, VObj [(4, VNull)])] in
  let blank_id := [(0, VStr true); (1, VStr false)] in
  accept sch good = true /\ commit_ok sch good false = true
  /\ accept sch unknown_field = false /\ collect_ok sch unknown_field = false
  /\ accept sch array_of_arrays = false /\ collect_ok sch array_of_arrays = false
  /\ accept sch wrong_type = false /\ collect_ok sch wrong_type = true
  /\ accept sch missing_required = false
  /\ accept sch blank_id = false.
Proof. vm_compute. repeat split; reflexivity. Qed.
