(** C14 — proofs, part 2: what a faithful projection preserves — the filter semantics, the
    per-field strings handed to the postings builder, and the fast-field columns. *)
From Coq Require Import List NArith ZArith Bool PeanoNat Lia.
From SL Require Import C08.Model C08.Proofs C14.Model C14.Proofs.
Import ListNotations.
Open Scope N_scope.

(* ------------------------------------------------------------------ the fast schema *)
Definition fps (ps : list xprop) : list prop := flat_map fprop ps.

Lemma fprop_shape p : fprop p = [] \/ exists x, fprop p = [x] /\ pname x = xname p.
Proof.
  destruct p as [n k nl st ix fa|n nl fs]; simpl.
  - destruct k, fa; try (left; reflexivity); right; eexists; split; reflexivity.
  - right. eexists; split; reflexivity.
Qed.

Lemma find_prop_fps ps n :
  NoDup (map xname ps) ->
  find_prop (fps ps) n
  = match xfind ps n with
    | Some q => match fprop q with [x] => Some x | _ => None end
    | None => None
    end.
Proof.
  intros Hnd. induction ps as [|p ps IH]; simpl; [reflexivity|].
  inversion Hnd as [|? ? Hp Hnd']; subst. specialize (IH Hnd'). unfold fps in *. simpl.
  destruct (fprop_shape p) as [He|[x [He Hx]]]; rewrite He; simpl.
  - destruct (N.eqb (xname p) n) eqn:E; [|exact IH].
    apply N.eqb_eq in E. subst n. rewrite IH, (xfind_none ps _ Hp), He. reflexivity.
  - rewrite Hx. destruct (N.eqb (xname p) n); [rewrite He; reflexivity|exact IH].
Qed.

Definition xk_of (k : kind) : xkind := match k with KKw => XKw | KI64 => XI64 | KF64 => XF64 end.

Lemma kind_is_leaf ps fld k :
  NoDup (map xname ps) -> kind_is (fps ps) fld k = true ->
  exists nl st ix, xfind ps fld = Some (XLeaf fld (xk_of k) nl st ix true).
Proof.
  intros Hnd H. unfold kind_is, find_kind in H. rewrite (find_prop_fps _ _ Hnd) in H.
  destruct (xfind ps fld) as [q|] eqn:Hq; [|discriminate H].
  pose proof (xfind_name _ _ _ Hq) as Hn.
  destruct q as [n k' nl st ix fa|n nl fs]; simpl in H, Hn; subst n.
  - destruct k', fa; simpl in H; try discriminate H; destruct k; try discriminate H;
      do 3 eexists; reflexivity.
  - discriminate H.
Qed.

Lemma find_obj_fps ps p ps'' :
  NoDup (map xname ps) -> find_obj (fps ps) p = Some ps'' ->
  exists nl fs, xfind ps p = Some (XObj p nl fs) /\ ps'' = fps fs.
Proof.
  intros Hnd H. unfold find_obj in H. rewrite (find_prop_fps _ _ Hnd) in H.
  destruct (xfind ps p) as [q|] eqn:Hq; [|discriminate H].
  pose proof (xfind_name _ _ _ Hq) as Hn.
  destruct q as [n k' nl st ix fa|n nl fs]; simpl in H, Hn; subst n.
  - destruct k', fa; simpl in H; discriminate H.
  - injection H as <-. do 2 eexists. split; reflexivity.
Qed.

Lemma wfl_child ps n nl fs : wfl ps = true -> xfind ps n = Some (XObj n nl fs) -> wfl fs = true.
Proof. intros Hwf Hf. apply xfind_In in Hf. apply (wfl_in _ _ Hwf Hf). Qed.

Lemma relevant_fast k ix : k <> XText -> relevant k ix true = true.
Proof. intros H. unfold relevant, r_fast. destruct k; try congruence; apply orb_true_r. Qed.

Lemma xk_not_text k : xk_of k <> XText.
Proof. destruct k; discriminate. Qed.

Lemma R_leaf ps o o' n k nl st ix fa :
  R ps o o' -> xfind ps n = Some (XLeaf n k nl st ix fa) -> relevant k ix fa = true -> vals_eq k n o o'.
Proof. intros HR. inversion HR as [? ? ? H1 _]; subst. apply H1. Qed.

Lemma R_objs ps o o' n nl fs :
  R ps o o' -> xfind ps n = Some (XObj n nl fs) -> Forall2 (R fs) (objects_in o n) (objects_in o' n).
Proof. intros HR. inversion HR as [? ? ? _ H2]; subst. apply H2. Qed.

(* ------------------------------------------------------------------ filters *)
Lemma existsb_Forall2 {A} (P : A -> A -> Prop) (f : A -> bool) l l' :
  Forall2 P l l' -> (forall a b, P a b -> f b = f a) -> existsb f l' = existsb f l.
Proof.
  intros H Hf. induction H as [|a b l l' Hab _ IH]; simpl; [reflexivity|].
  rewrite (Hf _ _ Hab), IH. reflexivity.
Qed.

Lemma fs_R : forall n,
  (forall f ps o o', wfl ps = true -> R ps o o' -> wt (fps ps) f = true -> fs n f o' = fs n f o) /\
  (forall l ps o o', wfl ps = true -> R ps o o' -> forallb (wt (fps ps)) l = true ->
     fs_all n l o' = fs_all n l o).
Proof.
  induction n as [|n [IH1 IH2]]; [split; reflexivity|].
  assert (Hnest : forall p ps o o' (g : obj -> bool) ps'',
            wfl ps = true -> R ps o o' -> find_obj (fps ps) p = Some ps'' ->
            (forall fs a b, ps'' = fps fs -> wfl fs = true -> R fs a b -> g b = g a) ->
            existsb g (objects_in o' p) = existsb g (objects_in o p)).
  { intros p ps o o' g ps'' Hwf HR Hf Hg.
    destruct (find_obj_fps _ _ _ (wfl_nodup _ Hwf) Hf) as [nl [fs' [Hx ->]]].
    eapply existsb_Forall2; [eapply R_objs; eauto|].
    intros a b Hab. eapply Hg; eauto. eapply wfl_child; eauto. }
  split.
  - intros f ps o o' Hwf HR Hwt. pose proof (wfl_nodup _ Hwf) as Hnd.
    destruct f as [fld v|fld vs|fld lo hi|fld lo hi|p g|l|l|g]; simpl in Hwt.
    + destruct (kind_is_leaf _ _ _ Hnd Hwt) as [nl [st [ix Hx]]].
      pose proof (R_leaf _ _ _ _ _ _ _ _ _ HR Hx (relevant_fast _ _ (xk_not_text _))) as He.
      simpl in He. simpl. rewrite He. reflexivity.
    + destruct (kind_is_leaf _ _ _ Hnd Hwt) as [nl [st [ix Hx]]].
      pose proof (R_leaf _ _ _ _ _ _ _ _ _ HR Hx (relevant_fast _ _ (xk_not_text _))) as He.
      simpl in He. simpl. rewrite He. reflexivity.
    + destruct (kind_is_leaf _ _ _ Hnd Hwt) as [nl [st [ix Hx]]].
      pose proof (R_leaf _ _ _ _ _ _ _ _ _ HR Hx (relevant_fast _ _ (xk_not_text _))) as He.
      simpl in He. simpl. rewrite He. reflexivity.
    + destruct (kind_is_leaf _ _ _ Hnd Hwt) as [nl [st [ix Hx]]].
      pose proof (R_leaf _ _ _ _ _ _ _ _ _ HR Hx (relevant_fast _ _ (xk_not_text _))) as He.
      simpl in He. simpl. rewrite He. reflexivity.
    + rewrite !fs_S_nested.
      destruct (find_obj (fps ps) p) as [ps''|] eqn:Hf; [|discriminate Hwt].
      eapply Hnest; eauto. intros fs a b -> Hwf' Hab. eapply IH1; eauto.
    + rewrite !fs_S_and. eapply IH2; eauto.
    + rewrite !fs_S_or. apply existsb_ext_in. intros c Hc.
      rewrite forallb_forall in Hwt. eapply IH1; eauto.
    + rewrite !fs_S_not. f_equal. eapply IH1; eauto.
  - intros l ps o o' Hwf HR Hwt. rewrite !fs_all_S.
    apply forallb_ext_in. intros c Hc.
    pose proof Hwt as Hall. rewrite forallb_forall in Hall. specialize (Hall c Hc).
    destruct c as [fld v|fld vs|fld lo hi|fld lo hi|p g|l'|l'|g]; try (eapply IH1; eauto).
    simpl in Hall. destruct (find_obj (fps ps) p) as [ps''|] eqn:Hf; [|discriminate Hall].
    eapply Hnest; eauto. intros fs a b -> Hwf' Hab. eapply IH2; eauto.
    eapply wt_inners; eauto.
Qed.

Theorem fsem_sp sch d f :
  wfl sch = true -> compact_safe sch = true -> valid sch d = true ->
  well_typed (fsch sch) f = true -> fsem f (sp sch d) = fsem f d.
Proof.
  intros Hwf Hs Hv Hwt. unfold fsem. eapply (proj1 (fs_R (need f))); eauto.
  apply R_sp; assumption.
Qed.

Theorem passes_sp sch d f :
  wfl sch = true -> compact_safe sch = true -> valid sch d = true ->
  well_typed (fsch sch) f = true ->
  passes (flatten (fsch sch) (sp sch d)) f = passes (flatten (fsch sch) d) f.
Proof.
  intros Hwf Hs Hv Hwt. rewrite !(filter_exact _ _ _ Hwt). apply fsem_sp; assumption.
Qed.

(* ------------------------------------------------------------------ strings per field *)
Lemma flat_map_Forall2 {A B} (P : A -> A -> Prop) (f : A -> list B) l l' :
  Forall2 P l l' -> (forall a b, P a b -> f b = f a) -> flat_map f l' = flat_map f l.
Proof.
  intros H Hf. induction H as [|a b l l' Hab _ IH]; simpl; [reflexivity|].
  rewrite (Hf _ _ Hab), IH. reflexivity.
Qed.

Lemma leaf_vals_R path : forall ps o o' ps' fld k nl st ix fa,
  wfl ps = true -> R ps o o' -> xprops_at ps path = Some ps' ->
  xfind ps' fld = Some (XLeaf fld k nl st ix fa) -> relevant k ix fa = true ->
  (k = XText \/ k = XKw) ->
  leaf_vals collect_strings o' path fld = leaf_vals collect_strings o path fld.
Proof.
  induction path as [|c rest IH]; intros ps o o' ps' fld k nl st ix fa Hwf HR Hp Hx Hr Hk; simpl in *.
  - injection Hp as <-. pose proof (R_leaf _ _ _ _ _ _ _ _ _ HR Hx Hr) as He.
    rewrite <- !strings_of_collect. destruct Hk as [-> | ->]; exact He.
  - destruct (xfind ps c) as [q|] eqn:Hq; [|discriminate Hp].
    pose proof (xfind_name _ _ _ Hq) as Hn.
    destruct q as [|n nl' fs]; [discriminate Hp|]. simpl in Hn. subst n.
    eapply flat_map_Forall2; [eapply R_objs; eauto|].
    intros a b Hab. apply (IH fs a b ps' fld k nl st ix fa); auto. eapply wfl_child; eauto.
Qed.

Theorem ix_text_sp sch d path fld :
  wfl sch = true -> compact_safe sch = true -> valid sch d = true ->
  ix_text sch (sp sch d) path fld = ix_text sch d path fld.
Proof.
  intros Hwf Hs Hv. unfold ix_text, xleaf_at.
  destruct (xprops_at sch path) as [ps'|] eqn:Hp; [|reflexivity].
  destruct (xfind ps' fld) as [q|] eqn:Hq; [|reflexivity].
  pose proof (xfind_name _ _ _ Hq) as Hn.
  destruct q as [n k nl st ix fa|]; [|reflexivity]. simpl in Hn. subst n.
  destruct k; try reflexivity. destruct (r_indexed XText ix) eqn:Hi; [|reflexivity].
  eapply leaf_vals_R; eauto using R_sp.
  unfold relevant. rewrite Hi. reflexivity.
Qed.

Theorem ix_kw_sp sch d path fld :
  wfl sch = true -> compact_safe sch = true -> valid sch d = true ->
  ix_kw sch (sp sch d) path fld = ix_kw sch d path fld.
Proof.
  intros Hwf Hs Hv. unfold ix_kw, xleaf_at.
  destruct (xprops_at sch path) as [ps'|] eqn:Hp; [|reflexivity].
  destruct (xfind ps' fld) as [q|] eqn:Hq; [|reflexivity].
  pose proof (xfind_name _ _ _ Hq) as Hn.
  destruct q as [n k nl st ix fa|]; [|reflexivity]. simpl in Hn. subst n.
  destruct k; try reflexivity. destruct (r_indexed XKw ix) eqn:Hi; [|reflexivity].
  eapply leaf_vals_R; eauto using R_sp.
  unfold relevant. rewrite Hi. reflexivity.
Qed.
