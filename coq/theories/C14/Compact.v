(** C14 — proofs, part 4: Index::compact over a manifest, and the model against the executable
    specification. *)
From Coq Require Import List NArith ZArith Bool PeanoNat Lia.
From SL Require Import Base.Tie C08.Model C08.Proofs C14.Model C14.Proofs C14.Queries.
Import ListNotations.
Open Scope N_scope.

(* ------------------------------------------------------------------ segments *)
Lemma map_snd_enum {A} (l : list A) i : map snd (enum_from i l) = l.
Proof. revert i. induction l as [|a l IH]; intros i; simpl; [reflexivity|]. rewrite IH. reflexivity. Qed.

Lemma filter_all {A} (f : A -> bool) l : (forall x, f x = true) -> List.filter f l = l.
Proof. intros H. induction l as [|a l IH]; simpl; [reflexivity|]. rewrite H, IH. reflexivity. Qed.

Lemma seg_live_nodel docs : seg_live {| g_docs := docs; g_del := [] |} = docs.
Proof. unfold seg_live. simpl. rewrite filter_all by reflexivity. apply map_snd_enum. Qed.

Lemma live_single docs : live [{| g_docs := docs; g_del := [] |}] = docs.
Proof. unfold live. simpl. rewrite seg_live_nodel. apply app_nil_r. Qed.

Definition reingest (sch : xschema) (m : xman) : list (N * obj) :=
  map (fun p => (fst p, sp sch (snd p))) (live m).

(** the shape of a compaction that went through *)
Lemma compact_ok sch m m' :
  compact sch m = COk m' ->
  ((length m <= 1)%nat /\ m' = m)
  \/ ((2 <= length m)%nat /\ compact_safe sch = true
      /\ m' = [{| g_docs := reingest sch m; g_del := [] |}]).
Proof.
  unfold compact. destruct m as [|s [|s' m]]; intros H.
  - injection H as <-. left. simpl. split; [lia|reflexivity].
  - injection H as <-. left. simpl. split; [lia|reflexivity].
  - destruct (compact_safe sch); [|discriminate H].
    destruct (forallb _ _); [|discriminate H]. injection H as <-.
    right. simpl. split; [lia|]. split; reflexivity.
Qed.

Lemma compact_err sch m m' : compact sch m = CErr m' -> m' = m.
Proof.
  unfold compact. destruct m as [|s [|s' m]]; intros H; try discriminate H.
  destruct (compact_safe sch); [|injection H as <-; reflexivity].
  destruct (forallb _ _); [discriminate H|injection H as <-; reflexivity].
Qed.

Lemma in_seg_live s p : In p (seg_live s) -> In p (g_docs s).
Proof.
  unfold seg_live. intros H. apply in_map_iff in H as [[i q] [<- H]]. apply filter_In in H as [H _].
  simpl. revert H. generalize 0. induction (g_docs s) as [|a l IH]; intros n H; simpl in *; [contradiction|].
  destruct H as [H|H]; [injection H as _ <-; left; reflexivity|right; eapply IH; eauto].
Qed.

Definition all_valid (sch : xschema) (m : xman) : Prop :=
  forall s p, In s m -> In p (g_docs s) -> valid sch (snd p) = true.

Lemma live_valid sch m p : all_valid sch m -> In p (live m) -> valid sch (snd p) = true.
Proof.
  intros H Hin. unfold live in Hin. apply in_flat_map in Hin as [s [Hs Hp]].
  eapply H; eauto. apply in_seg_live. exact Hp.
Qed.

Lemma reingest_valid sch m :
  wfl sch = true -> compact_safe sch = true -> all_valid sch m ->
  forallb (fun p => valid sch (snd p)) (reingest sch m) = true.
Proof.
  intros Hwf Hs Hv. apply forallb_forall. intros p Hin. unfold reingest in Hin.
  apply in_map_iff in Hin as [q [<- Hq]]. simpl. apply valid_sp; auto. eapply live_valid; eauto.
Qed.

Theorem compact_goes_through sch m :
  wfl sch = true -> compact_safe sch = true -> all_valid sch m -> out_ok (compact sch m) = true.
Proof.
  intros Hwf Hs Hv. unfold compact. destruct m as [|s [|s' m]]; try reflexivity.
  rewrite Hs. change (map _ (live (s :: s' :: m))) with (reingest sch (s :: s' :: m)).
  rewrite reingest_valid by assumption. reflexivity.
Qed.

Theorem compact_refuses sch m :
  compact_safe sch = false -> (2 <= length m)%nat -> compact sch m = CErr m.
Proof.
  intros Hs Hl. unfold compact. destruct m as [|s [|s' m]]; simpl in Hl; try lia.
  rewrite Hs. reflexivity.
Qed.

Theorem compact_contents sch m m' :
  wfl sch = true -> compact sch m = COk m' ->
  live_ids m' = live_ids m /\ live_stored sch m' = live_stored sch m
  /\ ((2 <= length m)%nat -> length m' = 1%nat /\ tombstones m' = 0%nat).
Proof.
  intros Hwf H. destruct (compact_ok _ _ _ H) as [[Hl ->]|[Hl [Hs ->]]].
  - repeat split; lia.
  - unfold live_ids, live_stored. rewrite live_single. unfold reingest. rewrite !map_map. simpl.
    split; [reflexivity|]. split; [|intros _; split; reflexivity].
    apply map_ext. intros p. rewrite sp_idem by exact Hwf. reflexivity.
Qed.

Lemma filter_hits_map (P P' : obj -> bool) (h : obj -> obj) (l : list (N * obj)) :
  (forall p, In p l -> P (h (snd p)) = P' (snd p)) ->
  map fst (List.filter (fun p => P (snd p)) (map (fun p => (fst p, h (snd p))) l))
  = map fst (List.filter (fun p => P' (snd p)) l).
Proof.
  induction l as [|a l IH]; intros H; simpl; [reflexivity|].
  rewrite (H a (or_introl eq_refl)). destruct (P' (snd a)); simpl; rewrite IH; auto.
  - intros p Hp. apply H. right. exact Hp.
  - intros p Hp. apply H. right. exact Hp.
Qed.

Theorem compact_filter_hits sch m m' f :
  wfl sch = true -> all_valid sch m -> compact sch m = COk m' ->
  well_typed (fsch sch) f = true -> filter_hits sch m' f = filter_hits sch m f.
Proof.
  intros Hwf Hv H Hwt. destruct (compact_ok _ _ _ H) as [[Hl ->]|[Hl [Hs ->]]]; [reflexivity|].
  unfold filter_hits. rewrite live_single. unfold reingest.
  apply (filter_hits_map (fun d => passes (flatten (fsch sch) d) f) (fun d => passes (flatten (fsch sch) d) f)).
  intros p Hp. apply passes_sp; auto. eapply live_valid; eauto.
Qed.

(* ------------------------------------------------------------------ the executable specification *)
Section JInd.
  Variable P : jval -> Prop.
  Hypothesis Hn : P JNull.
  Hypothesis Hb : forall b, P (JBool b).
  Hypothesis Hs : forall s, P (JStr s).
  Hypothesis Hnum : forall i f, P (JNum i f).
  Hypothesis Ha : forall l, Forall P l -> P (JArr l).
  Hypothesis Ho : forall m, Forall (fun kv => P (snd kv)) m -> P (JObj m).
  Fixpoint jval_ind2 (v : jval) : P v :=
    match v with
    | JNull => Hn
    | JBool b => Hb b
    | JStr s => Hs s
    | JNum i f => Hnum i f
    | JArr l => Ha l ((fix go (l : list jval) : Forall P l :=
                         match l with [] => Forall_nil P | x :: l' => Forall_cons x (jval_ind2 x) (go l') end) l)
    | JObj m => Ho m ((fix go (m : list (N * jval)) : Forall (fun kv => P (snd kv)) m :=
                         match m with
                         | [] => Forall_nil _
                         | kv :: m' => Forall_cons kv (jval_ind2 (snd kv)) (go m')
                         end) m)
    end.
End JInd.

Lemma jeqb_refl v : jeqb v v = true.
Proof.
  induction v as [| | |i f|l IH|m IH] using jval_ind2; simpl.
  - reflexivity.
  - destruct b; reflexivity.
  - rewrite !N.eqb_refl. reflexivity.
  - destruct i; simpl; rewrite ?Z.eqb_refl; reflexivity.
  - induction IH as [|x l Hx _ IHl]; [reflexivity|]. rewrite Hx, IHl. reflexivity.
  - induction IH as [|[k x] m Hx _ IHm]; [reflexivity|]. simpl in Hx.
    rewrite N.eqb_refl, Hx, IHm. reflexivity.
Qed.

Lemma list_eqb_refl {A} (e : A -> A -> bool) l : (forall x, e x x = true) -> list_eqb e l l = true.
Proof. intros H. induction l as [|a l IH]; simpl; [reflexivity|]. rewrite H, IH. reflexivity. Qed.

Lemma docs_eqb_refl l : docs_eqb l l = true.
Proof.
  apply list_eqb_refl. intros [i o]. unfold doc_eqb. rewrite N.eqb_refl. simpl fst. simpl snd.
  rewrite (jeqb_refl (JObj o)). reflexivity.
Qed.

Lemma hits_eqb_refl l : hits_eqb l l = true.
Proof. apply list_eqb_refl. intros x. apply list_eqb_refl. apply N.eqb_refl. Qed.

Lemma same_contents_refl v : same_contents v v = true.
Proof. unfold same_contents. rewrite docs_eqb_refl, !hits_eqb_refl. reflexivity. Qed.

Lemma unsafe_has_unstored b p : safe_prop b p = false -> has_unstored p = true.
Proof.
  revert b. induction p as [n k nl st ix fa|n nl fs IH] using xprop_ind2; intros b H; simpl in *.
  - destruct st; [|reflexivity]. rewrite !implb_true_r in H. discriminate H.
  - apply existsb_exists. rewrite Forall_forall in IH.
    assert (Hex : exists q, In q fs /\ safe_prop true q = false).
    { clear IH. induction fs as [|q fs IHf]; simpl in H; [discriminate H|].
      destruct (safe_prop true q) eqn:E.
      - destruct (IHf H) as [q' [Hin Hq']]. exists q'. split; [right; exact Hin|exact Hq'].
      - exists q. split; [left; reflexivity|exact E]. }
    destruct Hex as [q [Hin Hq]]. exists q. split; [exact Hin|]. eapply IH; eauto.
Qed.

Lemma unsafe_schema_has_unstored sch : compact_safe sch = false -> existsb has_unstored sch = true.
Proof.
  unfold compact_safe. intros H. apply existsb_exists.
  induction sch as [|q sch IH]; simpl in H; [discriminate H|].
  destruct (safe_prop false q) eqn:E.
  - destruct (IH H) as [q' [Hin Hq']]. exists q'. split; [right; exact Hin|exact Hq'].
  - exists q. split; [left; reflexivity|]. eapply unsafe_has_unstored; eauto.
Qed.

Lemma docs_valid_all i : docs_valid i = true -> all_valid (c_sch i) (c_man i).
Proof.
  unfold docs_valid, all_valid. intros H s p Hs Hp.
  rewrite forallb_forall in H. specialize (H s Hs). rewrite forallb_forall in H. auto.
Qed.

Lemma nlen_le1 {A} (l : list A) : N.leb (nlen l) 1 = true <-> (length l <= 1)%nat.
Proof. unfold nlen. rewrite N.leb_le. lia. Qed.

(** The model's observation always satisfies the executable specification. *)
Theorem model_meets_spec i qh :
  wfl (c_sch i) = true -> docs_valid i = true ->
  forallb (well_typed (fsch (c_sch i))) (c_filters i) = true ->
  spec (c_sch i) (model i qh) = true.
Proof.
  intros Hwf Hdv Hwt. pose proof (docs_valid_all _ Hdv) as Hv.
  unfold spec, model. set (sch := c_sch i) in *. set (m := c_man i) in *.
  destruct (compact sch m) as [m'|m'] eqn:Hc; cbn [out_ok out_man o_ok o_before o_after o_listing_same].
  - destruct (compact_ok _ _ _ Hc) as [[Hl ->]|[Hl [Hs Hm']]].
    + rewrite same_contents_refl. cbn [view_of v_segs v_tombs].
      rewrite (proj2 (nlen_le1 m) Hl), !N.eqb_refl. reflexivity.
    + assert (Hsame : view_of sch m' (c_filters i) qh
                      = {| v_stored := v_stored (view_of sch m (c_filters i) qh);
                           v_fhits := v_fhits (view_of sch m (c_filters i) qh);
                           v_qhits := qh; v_segs := 1; v_tombs := 0 |}).
      { destruct (compact_contents _ _ _ Hwf Hc) as [_ [Hst _]].
        unfold view_of. cbn [v_stored v_fhits]. rewrite Hst. f_equal.
        - apply map_ext_in. intros f Hf. rewrite forallb_forall in Hwt.
          rewrite (compact_filter_hits _ _ _ f Hwf Hv Hc (Hwt f Hf)). reflexivity.
        - subst m'. reflexivity.
        - subst m'. reflexivity. }
      rewrite Hsame. unfold same_contents. cbn [v_stored v_fhits v_qhits v_segs v_tombs view_of].
      rewrite docs_eqb_refl, !hits_eqb_refl.
      assert (Hn : N.leb (nlen m) 1 = false).
      { apply not_true_is_false. rewrite nlen_le1. lia. }
      rewrite Hn. reflexivity.
  - pose proof (compact_err _ _ _ Hc) as ->.
    rewrite same_contents_refl, !N.eqb_refl. cbn [andb].
    destruct (compact_safe sch) eqn:Hs; [|apply unsafe_schema_has_unstored; exact Hs].
    pose proof (compact_goes_through _ m Hwf Hs Hv) as Hok. rewrite Hc in Hok. discriminate Hok.
Qed.
