(** C14 — proofs, part 1: the stored form of a valid document is valid, is its own stored form,
    and is "faithful": every indexed or fast field has the same values, every nested path the
    same objects in the same order. *)
From Coq Require Import List NArith ZArith Bool PeanoNat Lia.
From SL Require Import C08.Model C08.Proofs C14.Model.
Import ListNotations.
Open Scope N_scope.

(* ------------------------------------------------------------------ induction on schema trees *)
Section XInd.
  Variable P : xprop -> Prop.
  Hypothesis Hl : forall n k nl st ix fa, P (XLeaf n k nl st ix fa).
  Hypothesis Ho : forall n nl fs, Forall P fs -> P (XObj n nl fs).
  Fixpoint xprop_ind2 (p : xprop) : P p :=
    match p with
    | XLeaf n k nl st ix fa => Hl n k nl st ix fa
    | XObj n nl fs =>
        Ho n nl fs ((fix go (l : list xprop) : Forall P l :=
                       match l with
                       | [] => Forall_nil P
                       | q :: l' => Forall_cons q (xprop_ind2 q) (go l')
                       end) fs)
    end.
End XInd.

(* ------------------------------------------------------------------ names and lookups *)
Lemma memN_In x l : memN x l = true <-> In x l.
Proof.
  induction l as [|y l IH]; simpl; [split; [discriminate|tauto]|].
  rewrite orb_true_iff, IH, N.eqb_eq. split; intros [H|H]; auto.
Qed.

Lemma nodupN_NoDup l : nodupN l = true -> NoDup l.
Proof.
  induction l as [|x l IH]; simpl; intros H; [constructor|].
  apply andb_true_iff in H as [H1 H2]. constructor; [|auto].
  intros Hin. apply memN_In in Hin. rewrite Hin in H1. discriminate.
Qed.

Lemma xfind_name ps n p : xfind ps n = Some p -> xname p = n.
Proof.
  induction ps as [|q ps IH]; simpl; [discriminate|].
  destruct (N.eqb (xname q) n) eqn:E; [|exact IH].
  intros H. injection H as <-. apply N.eqb_eq. exact E.
Qed.

Lemma xfind_In ps n p : xfind ps n = Some p -> In p ps.
Proof.
  induction ps as [|q ps IH]; simpl; [discriminate|].
  destruct (N.eqb (xname q) n); [intros H; injection H as <-; left; reflexivity|].
  intros H. right. auto.
Qed.

Lemma xfind_none ps n : ~ In n (map xname ps) -> xfind ps n = None.
Proof.
  induction ps as [|q ps IH]; simpl; intros H; [reflexivity|].
  destruct (N.eqb (xname q) n) eqn:E.
  - apply N.eqb_eq in E. exfalso. apply H. left. exact E.
  - apply IH. intros Hin. apply H. right. exact Hin.
Qed.

Lemma xfind_self ps p : NoDup (map xname ps) -> In p ps -> xfind ps (xname p) = Some p.
Proof.
  induction ps as [|q ps IH]; simpl; intros Hnd Hin; [contradiction|].
  inversion Hnd as [|? ? Hq Hnd']; subst.
  destruct Hin as [->|Hin]; [rewrite N.eqb_refl; reflexivity|].
  destruct (N.eqb (xname q) (xname p)) eqn:E; [|auto].
  apply N.eqb_eq in E. exfalso. apply Hq. rewrite E. apply in_map. exact Hin.
Qed.

Lemma xfind_some_of_in ps p : In p ps -> exists q, xfind ps (xname p) = Some q.
Proof.
  induction ps as [|r ps IH]; simpl; intros Hin; [contradiction|].
  destruct (N.eqb (xname r) (xname p)) eqn:E; [eexists; reflexivity|].
  destruct Hin as [->|Hin]; [rewrite N.eqb_refl in E; discriminate|]. auto.
Qed.

(** An association list built by [flat_map] from per-property entries (at most one entry each,
    keyed by the property's name) is looked up through the schema. *)
Definition keyed (e : xprop -> list (N * jval)) : Prop :=
  forall q, e q = [] \/ exists v, e q = [(xname q, v)].

Definition head_val (l : list (N * jval)) : option jval :=
  match l with [] => None | kv :: _ => Some (snd kv) end.

Lemma jlookup_entries ps e n :
  NoDup (map xname ps) -> keyed e ->
  jlookup n (flat_map e ps) = match xfind ps n with Some q => head_val (e q) | None => None end.
Proof.
  intros Hnd Hk. induction ps as [|p ps IH]; simpl; [reflexivity|].
  inversion Hnd as [|? ? Hp Hnd']; subst. specialize (IH Hnd').
  destruct (Hk p) as [He|[v He]]; rewrite He; simpl.
  - destruct (N.eqb (xname p) n) eqn:E.
    + apply N.eqb_eq in E. subst n. rewrite IH, (xfind_none ps _ Hp), He. reflexivity.
    + exact IH.
  - rewrite (N.eqb_sym n (xname p)). destruct (N.eqb (xname p) n); [rewrite He; reflexivity|exact IH].
Qed.

(* ------------------------------------------------------------------ unfolding *)
Lemma sp_nprop_obj n nl fs raw :
  sp_nprop (XObj n nl fs) raw
  = match raw with
    | JObj m => [(n, JObj (sp_obj fs m))]
    | JArr l => [(n, JArr (flat_map (fun x => match x with JObj m => [JObj (sp_obj fs m)] | _ => [] end) l))]
    | _ => []
    end.
Proof. reflexivity. Qed.

Lemma valid_prop_obj n nl fs v :
  valid_prop (XObj n nl fs) v
  = match v with
    | JNull => nl
    | JObj m => valid_obj fs m
    | JArr l => forallb (fun x => match x with JNull => nl | JObj m => valid_obj fs m | _ => false end) l
    | _ => false
    end.
Proof. reflexivity. Qed.

Definition nentry (m : obj) (q : xprop) : list (N * jval) :=
  match jlookup (xname q) m with Some r => sp_nprop q r | None => [] end.

Lemma sp_obj_entries fs m : sp_obj fs m = flat_map (nentry m) fs.
Proof. reflexivity. Qed.

Lemma keyed_sp_nprop q raw : sp_nprop q raw = [] \/ exists v, sp_nprop q raw = [(xname q, v)].
Proof.
  destruct q as [n k nl st ix fa|n nl fs].
  - simpl. destruct (is_null raw); [left; reflexivity|]. destruct st; [right; eexists|left]; reflexivity.
  - rewrite sp_nprop_obj. destruct raw; try (left; reflexivity); right; eexists; reflexivity.
Qed.

Lemma keyed_nentry m : keyed (nentry m).
Proof.
  intros q. unfold nentry. destruct (jlookup (xname q) m); [apply keyed_sp_nprop|left; reflexivity].
Qed.

Definition tentry (d : obj) (p : xprop) : list (N * jval) :=
  match jlookup (xname p) d with Some v => sp_top p v | None => [] end.

Lemma keyed_tentry d : keyed (tentry d).
Proof.
  intros q. unfold tentry. destruct (jlookup (xname q) d) as [v|]; [|left; reflexivity].
  destruct q as [n k nl st ix fa|n nl fs]; [|apply keyed_sp_nprop].
  simpl. destruct st; [right; eexists|left]; reflexivity.
Qed.

Lemma sp_entries sch d : sp sch d = flat_map (tentry d) sch.
Proof. reflexivity. Qed.

Lemma wfl_nodup ps : wfl ps = true -> NoDup (map xname ps).
Proof. unfold wfl. intros H. apply andb_true_iff in H as [H _]. apply nodupN_NoDup. exact H. Qed.

Lemma wfl_in ps p : wfl ps = true -> In p ps -> wfb p = true.
Proof.
  unfold wfl. intros H Hin. apply andb_true_iff in H as [_ H].
  rewrite forallb_forall in H. auto.
Qed.

Lemma wfb_obj n nl fs : wfb (XObj n nl fs) = wfl fs.
Proof. reflexivity. Qed.

(* ------------------------------------------------------------------ collected values *)
Definition selected (k : xkind) (x : jval) : Prop := sel k x = [x].

Lemma sel_selected k x y : In y (sel k x) -> selected k y.
Proof.
  unfold selected. destruct k, x as [| |s|[i|] f| |]; simpl; try contradiction;
    intros [<-|[]]; reflexivity.
Qed.

Lemma collect_vals_selected k v y : In y (collect_vals k v) -> selected k y.
Proof.
  unfold collect_vals. destruct v; try apply sel_selected.
  intros H. apply in_flat_map in H as [x [_ H]]. eapply sel_selected; eauto.
Qed.

Lemma flat_map_sel_id k ws : Forall (selected k) ws -> flat_map (sel k) ws = ws.
Proof.
  induction 1 as [|x ws Hx _ IH]; simpl; [reflexivity|]. rewrite Hx, IH. reflexivity.
Qed.

Lemma selected_not_arr k x : selected k x -> forall l, x <> JArr l.
Proof. unfold selected. intros H l ->. destruct k; discriminate. Qed.

Lemma collect_vals_wrap k ws : Forall (selected k) ws -> collect_vals k (wrap ws) = ws.
Proof.
  intros H. unfold wrap. destruct ws as [|x [|y ws]].
  - reflexivity.
  - inversion H as [|? ? Hx _]; subst. unfold collect_vals.
    pose proof (selected_not_arr _ _ Hx) as Hn.
    destruct x; try exact Hx. exfalso. eapply Hn. reflexivity.
  - unfold collect_vals. apply flat_map_sel_id. exact H.
Qed.

Lemma collect_vals_idem k v : collect_vals k (wrap (collect_vals k v)) = collect_vals k v.
Proof.
  apply collect_vals_wrap. apply Forall_forall. intros y. apply collect_vals_selected.
Qed.

Lemma selected_scalar_ok k x : selected k x -> scalar_ok k x = true.
Proof.
  unfold selected. destruct k, x as [| |s|[i|] f| |]; simpl; intros H; try discriminate; reflexivity.
Qed.

Lemma leaf_ok_wrap k nl ws : Forall (selected k) ws -> leaf_ok k nl (wrap ws) = true.
Proof.
  intros H. unfold wrap. destruct ws as [|x [|y ws]].
  - reflexivity.
  - inversion H as [|? ? Hx _]; subst. pose proof (selected_scalar_ok _ _ Hx) as Hs.
    pose proof (selected_not_arr _ _ Hx) as Hn.
    unfold leaf_ok. destruct x; try exact Hs.
    + destruct k; discriminate Hs.
    + exfalso. eapply Hn. reflexivity.
  - unfold leaf_ok. apply forallb_forall. intros z Hz. apply selected_scalar_ok.
    rewrite Forall_forall in H. auto.
Qed.

(** values seen by the index: unchanged by collect + wrap *)
Definition strs_of (v : jval) : list str := collect_strings (Some v).
Definition ints_of_v (v : jval) : list Z := collect_i64s (Some v).
Definition flts_of_v (v : jval) : list Z := collect_f64s (Some v).

Definition sstr (x : jval) : list str := match x with JStr s => [s] | _ => [] end.
Definition sint (x : jval) : list Z := match x with JNum (Some i) _ => [i] | _ => [] end.
Definition sflt (x : jval) : list Z := match x with JNum _ f => [f] | _ => [] end.

Lemma wrap_strs ws : (forall l, ~ In (JArr l) ws) -> strs_of (wrap ws) = flat_map sstr ws.
Proof.
  intros Hn. unfold wrap. destruct ws as [|x [|y ws]]; try reflexivity.
  unfold strs_of. simpl. destruct x; simpl; try reflexivity. exfalso. eapply Hn. left. reflexivity.
Qed.
Lemma wrap_ints ws : (forall l, ~ In (JArr l) ws) -> ints_of_v (wrap ws) = flat_map sint ws.
Proof.
  intros Hn. unfold wrap. destruct ws as [|x [|y ws]]; try reflexivity.
  unfold ints_of_v. simpl. destruct x as [| | |[i|] f| |]; simpl; try reflexivity. exfalso. eapply Hn. left. reflexivity.
Qed.
Lemma wrap_flts ws : (forall l, ~ In (JArr l) ws) -> flts_of_v (wrap ws) = flat_map sflt ws.
Proof.
  intros Hn. unfold wrap. destruct ws as [|x [|y ws]]; try reflexivity.
  unfold flts_of_v. simpl. destruct x; simpl; try reflexivity. exfalso. eapply Hn. left. reflexivity.
Qed.

Lemma collect_vals_no_arr k v l : ~ In (JArr l) (collect_vals k v).
Proof.
  intros H. apply collect_vals_selected in H. eapply selected_not_arr; eauto.
Qed.

Lemma flat_map_flat_map {A B C} (f : A -> list B) (g : B -> list C) l :
  flat_map g (flat_map f l) = flat_map (fun x => flat_map g (f x)) l.
Proof. induction l as [|a l IH]; simpl; [reflexivity|]. rewrite flat_map_app, IH. reflexivity. Qed.

Lemma strs_collect k v : (k = XText \/ k = XKw) -> strs_of (wrap (collect_vals k v)) = strs_of v.
Proof.
  intros Hk. rewrite wrap_strs by (intros l; apply collect_vals_no_arr).
  unfold collect_vals, strs_of. destruct v as [| |s|i f|l|m]; simpl.
  1-4,6: destruct Hk as [-> | ->]; simpl; try reflexivity; destruct i; reflexivity.
  rewrite flat_map_flat_map. apply flat_map_ext. intros x.
  destruct Hk as [-> | ->]; destruct x as [| |s|[i|] f| |]; reflexivity.
Qed.

Lemma ints_collect v : ints_of_v (wrap (collect_vals XI64 v)) = ints_of_v v.
Proof.
  rewrite wrap_ints by (intros l; apply collect_vals_no_arr).
  unfold collect_vals, ints_of_v. destruct v as [| |s|[i|] f|l|m]; simpl; try reflexivity.
  rewrite flat_map_flat_map. apply flat_map_ext. intros x.
  destruct x as [| |s|[i|] f| |]; reflexivity.
Qed.

Lemma flts_collect v : flts_of_v (wrap (collect_vals XF64 v)) = flts_of_v v.
Proof.
  rewrite wrap_flts by (intros l; apply collect_vals_no_arr).
  unfold collect_vals, flts_of_v. destruct v as [| |s|[i|] f|l|m]; simpl; try reflexivity.
  rewrite flat_map_flat_map. apply flat_map_ext. intros x.
  destruct x as [| |s|[i|] f| |]; reflexivity.
Qed.

(* ------------------------------------------------------------------ faithful projections *)
Definition relevant (k : xkind) (ix fa : bool) : bool := r_indexed k ix || r_fast k fa.

Definition vals_eq (k : xkind) (fld : N) (o o' : obj) : Prop :=
  match k with
  | XText | XKw => strings_of o' fld = strings_of o fld
  | XI64 => ints_of o' fld = ints_of o fld
  | XF64 => floats_of o' fld = floats_of o fld
  end.

(** [R ps o o']: object [o'] carries, for the schema level [ps], the same values as [o] in every
    indexed or fast leaf and, under every nested property, the same number of objects, pairwise
    related. *)
Inductive R : list xprop -> obj -> obj -> Prop :=
| R_intro ps o o' :
    (forall n k nl st ix fa, xfind ps n = Some (XLeaf n k nl st ix fa) ->
       relevant k ix fa = true -> vals_eq k n o o') ->
    (forall n nl fs, xfind ps n = Some (XObj n nl fs) ->
       Forall2 (R fs) (objects_in o n) (objects_in o' n)) ->
    R ps o o'.

Lemma vals_eq_lookup k n o o' :
  jlookup n o' = jlookup n o -> vals_eq k n o o'.
Proof.
  intros H. destruct k; simpl; unfold strings_of, ints_of, floats_of; rewrite H; reflexivity.
Qed.

Lemma objects_in_lookup n o o' : jlookup n o' = jlookup n o -> objects_in o' n = objects_in o n.
Proof. intros H. unfold objects_in. rewrite H. reflexivity. Qed.

Definition objs_of (v : option jval) : list obj :=
  match v with
  | Some (JObj m) => [m]
  | Some (JArr l) => flat_map (fun x => match x with JObj m => [m] | _ => [] end) l
  | _ => []
  end.

Lemma objects_in_objs o p : objects_in o p = objs_of (jlookup p o).
Proof. reflexivity. Qed.

(** what a property's entry does to one nested-object property *)
Definition faithful (p : xprop) (o o' : obj) : Prop :=
  match p with
  | XLeaf n k _ _ ix fa => relevant k ix fa = true -> vals_eq k n o o'
  | XObj n _ fs => Forall2 (R fs) (objects_in o n) (objects_in o' n)
  end.

Definition Q (p : xprop) : Prop :=
  wfb p = true -> safe_prop true p = true ->
  forall raw o o', valid_prop p raw = true ->
    jlookup (xname p) o = Some raw -> jlookup (xname p) o' = head_val (sp_nprop p raw) ->
    faithful p o o'.

Lemma safe_leaf_stored b k nl st ix fa :
  safe_prop b (XLeaf 0 k nl st ix fa) = true -> relevant k ix fa = true -> st = true.
Proof.
  simpl. unfold relevant. intros H Hr. rewrite Hr in H. destruct st; [reflexivity|discriminate].
Qed.

Lemma Q_leaf n k nl st ix fa : Q (XLeaf n k nl st ix fa).
Proof.
  intros _ Hs raw o o' _ Ho Ho' Hr. simpl in *.
  assert (st = true) as -> by (eapply (safe_leaf_stored true); eauto).
  destruct raw; simpl in Ho'; try (apply vals_eq_lookup; congruence).
  (* null: no entry, no values *)
  destruct k; simpl; unfold strings_of, ints_of, floats_of; rewrite Ho, Ho'; reflexivity.
Qed.

Lemma forall_in_absent_faithful p o o' :
  jlookup (xname p) o = None -> jlookup (xname p) o' = None -> faithful p o o'.
Proof.
  intros H H'. destruct p as [n k nl st ix fa|n nl fs]; simpl in *.
  - intros _. apply vals_eq_lookup. congruence.
  - rewrite !objects_in_objs, H, H'. constructor.
Qed.

Lemma R_sp_obj fs m :
  wfl fs = true -> forallb (safe_prop true) fs = true -> Forall Q fs ->
  valid_obj fs m = true -> R fs m (sp_obj fs m).
Proof.
  intros Hwf Hsafe HQ Hv.
  pose proof (wfl_nodup _ Hwf) as Hnd.
  unfold valid_obj in Hv. apply andb_true_iff in Hv as [_ Hv]. rewrite forallb_forall in Hv.
  rewrite forallb_forall in Hsafe. rewrite Forall_forall in HQ.
  assert (Hall : forall p, In p fs -> faithful p m (sp_obj fs m)).
  { intros p Hin.
    assert (Hl : jlookup (xname p) (sp_obj fs m) = head_val (nentry m p)).
    { rewrite sp_obj_entries, (jlookup_entries _ _ _ Hnd (keyed_nentry m)), (xfind_self _ _ Hnd Hin).
      reflexivity. }
    unfold nentry in Hl. specialize (Hv p Hin).
    destruct (jlookup (xname p) m) as [raw|] eqn:Hm.
    - apply (HQ p Hin (wfl_in _ _ Hwf Hin) (Hsafe p Hin) raw); assumption.
    - apply forall_in_absent_faithful; assumption. }
  constructor.
  - intros n k nl st ix fa Hf Hr. apply xfind_In in Hf. apply (Hall _ Hf Hr).
  - intros n nl fs' Hf. apply xfind_In in Hf. apply (Hall _ Hf).
Qed.

Lemma Forall2_arr fs nl l :
  (forall m, valid_obj fs m = true -> R fs m (sp_obj fs m)) ->
  forallb (fun x => match x with JNull => nl | JObj m => valid_obj fs m | _ => false end) l = true ->
  Forall2 (R fs)
    (flat_map (fun x => match x with JObj m => [m] | _ => [] end) l)
    (flat_map (fun x => match x with JObj m => [m] | _ => [] end)
       (flat_map (fun x => match x with JObj m => [JObj (sp_obj fs m)] | _ => [] end) l)).
Proof.
  intros HR. induction l as [|x l IHl]; intros Hv; [constructor|].
  cbn [forallb] in Hv. apply andb_true_iff in Hv as [Hx Hl]. specialize (IHl Hl).
  destruct x as [| | | | |m]; try discriminate Hx; try exact IHl.
  cbn [flat_map app]. constructor; [apply HR; exact Hx|exact IHl].
Qed.

Lemma Q_obj n nl fs : Forall Q fs -> Q (XObj n nl fs).
Proof.
  intros IH Hwf Hsafe raw o o' Hv Ho Ho'. cbn [xname] in Ho, Ho'. rewrite wfb_obj in Hwf.
  change (safe_prop true (XObj n nl fs)) with (forallb (safe_prop true) fs) in Hsafe.
  rewrite valid_prop_obj in Hv. rewrite sp_nprop_obj in Ho'.
  unfold faithful. rewrite !objects_in_objs, Ho, Ho'.
  assert (HR : forall m, valid_obj fs m = true -> R fs m (sp_obj fs m))
    by (intros m Hm; apply R_sp_obj; assumption).
  destruct raw as [| | | |l|m]; try discriminate Hv.
  - constructor.
  - cbn [head_val snd objs_of]. eapply Forall2_arr; eauto.
  - cbn [head_val snd objs_of]. constructor; [|constructor]. apply HR. exact Hv.
Qed.

Lemma Q_all p : Q p.
Proof. induction p using xprop_ind2; [apply Q_leaf|apply Q_obj; assumption]. Qed.

Lemma R_nested fs m :
  wfl fs = true -> forallb (safe_prop true) fs = true -> valid_obj fs m = true -> R fs m (sp_obj fs m).
Proof. intros. apply R_sp_obj; try assumption. apply Forall_forall. intros p _. apply Q_all. Qed.

(** the whole document *)
Lemma strings_of_v o fld v : jlookup fld o = Some v -> strings_of o fld = strs_of v.
Proof. intros H. unfold strings_of, strs_of, collect_strings. rewrite H. reflexivity. Qed.
Lemma ints_of_vv o fld v : jlookup fld o = Some v -> ints_of o fld = ints_of_v v.
Proof. intros H. unfold ints_of, ints_of_v, collect_i64s. rewrite H. reflexivity. Qed.
Lemma floats_of_vv o fld v : jlookup fld o = Some v -> floats_of o fld = flts_of_v v.
Proof. intros H. unfold floats_of, flts_of_v, collect_f64s. rewrite H. reflexivity. Qed.

Lemma safe_top_inner fs : forallb (safe_prop true) fs = safe_prop false (XObj 0 false fs).
Proof. reflexivity. Qed.

Theorem R_sp sch d :
  wfl sch = true -> compact_safe sch = true -> valid sch d = true -> R sch d (sp sch d).
Proof.
  intros Hwf Hsafe Hv.
  pose proof (wfl_nodup _ Hwf) as Hnd.
  unfold valid in Hv. apply andb_true_iff in Hv as [_ Hv]. rewrite forallb_forall in Hv.
  unfold compact_safe in Hsafe. rewrite forallb_forall in Hsafe.
  assert (Hl : forall p, In p sch -> jlookup (xname p) (sp sch d) = head_val (tentry d p)).
  { intros p Hin.
    rewrite sp_entries, (jlookup_entries _ _ _ Hnd (keyed_tentry d)), (xfind_self _ _ Hnd Hin).
    reflexivity. }
  constructor.
  - intros n k nl st ix fa Hf Hr. apply xfind_In in Hf.
    specialize (Hl _ Hf). specialize (Hsafe _ Hf). unfold tentry in Hl. simpl in Hl.
    assert (st = true) as -> by (eapply (safe_leaf_stored false); eauto).
    destruct (jlookup n d) as [v|] eqn:Hd; [|simpl in Hl; apply vals_eq_lookup; congruence].
    simpl in Hl. destruct k; simpl.
    + rewrite (strings_of_v _ _ _ Hl), (strings_of_v _ _ _ Hd). apply strs_collect. auto.
    + rewrite (strings_of_v _ _ _ Hl), (strings_of_v _ _ _ Hd). apply strs_collect. auto.
    + rewrite (ints_of_vv _ _ _ Hl), (ints_of_vv _ _ _ Hd). apply ints_collect.
    + rewrite (floats_of_vv _ _ _ Hl), (floats_of_vv _ _ _ Hd). apply flts_collect.
  - intros n nl fs Hf. apply xfind_In in Hf.
    specialize (Hl _ Hf). specialize (Hsafe _ Hf). specialize (Hv _ Hf).
    unfold tentry in Hl. simpl in Hl, Hv.
    destruct (jlookup n d) as [v|] eqn:Hd.
    + apply (Q_all (XObj n nl fs) (wfl_in _ _ Hwf Hf) Hsafe v d (sp sch d) Hv Hd Hl).
    + apply (forall_in_absent_faithful (XObj n nl fs)); assumption.
Qed.

Lemma flat_map_ext_in' {A B} (f g : A -> list B) l :
  (forall x, In x l -> f x = g x) -> flat_map f l = flat_map g l.
Proof.
  induction l as [|a l IH]; intros H; simpl; [reflexivity|].
  rewrite (H a (or_introl eq_refl)), IH; [reflexivity|]. intros x Hx. apply H. right. exact Hx.
Qed.

(* ------------------------------------------------------------------ the stored form is its own stored form *)
Definition Idem (p : xprop) : Prop :=
  wfb p = true -> forall raw v, head_val (sp_nprop p raw) = Some v -> sp_nprop p v = sp_nprop p raw.

Lemma sp_obj_idem fs m : wfl fs = true -> Forall Idem fs -> sp_obj fs (sp_obj fs m) = sp_obj fs m.
Proof.
  intros Hwf HI. pose proof (wfl_nodup _ Hwf) as Hnd. rewrite Forall_forall in HI.
  change (flat_map (nentry (sp_obj fs m)) fs = flat_map (nentry m) fs).
  apply flat_map_ext_in'. intros p Hin. unfold nentry at 1.
  rewrite sp_obj_entries, (jlookup_entries _ _ _ Hnd (keyed_nentry m)), (xfind_self _ _ Hnd Hin).
  destruct (head_val (nentry m p)) as [v|] eqn:Hh.
  - unfold nentry in *. destruct (jlookup (xname p) m) as [raw|]; [|discriminate Hh].
    apply (HI p Hin (wfl_in _ _ Hwf Hin)). exact Hh.
  - destruct (keyed_nentry m p) as [He|[v He]]; rewrite He in *; [reflexivity|discriminate Hh].
Qed.

Lemma flat_map_objs_idem fs l :
  (forall m, sp_obj fs (sp_obj fs m) = sp_obj fs m) ->
  flat_map (fun x => match x with JObj m => [JObj (sp_obj fs m)] | _ => [] end)
    (flat_map (fun x => match x with JObj m => [JObj (sp_obj fs m)] | _ => [] end) l)
  = flat_map (fun x => match x with JObj m => [JObj (sp_obj fs m)] | _ => [] end) l.
Proof.
  intros H. induction l as [|x l IH]; [reflexivity|].
  destruct x; cbn [flat_map app]; try exact IH. rewrite H, IH. reflexivity.
Qed.

Lemma Idem_all p : Idem p.
Proof.
  induction p as [n k nl st ix fa|n nl fs IH] using xprop_ind2; intros Hwf raw v Hh.
  - simpl in *. destruct (is_null raw) eqn:En; [discriminate Hh|].
    destruct st; [|discriminate Hh]. simpl in Hh. injection Hh as <-. rewrite En. reflexivity.
  - rewrite wfb_obj in Hwf. rewrite sp_nprop_obj in *.
    assert (HI : forall m, sp_obj fs (sp_obj fs m) = sp_obj fs m)
      by (intros m; apply sp_obj_idem; assumption).
    destruct raw; try discriminate Hh; simpl in Hh; injection Hh as <-.
    + rewrite flat_map_objs_idem by exact HI. reflexivity.
    + rewrite HI. reflexivity.
Qed.

Theorem sp_idem sch d : wfl sch = true -> sp sch (sp sch d) = sp sch d.
Proof.
  intros Hwf. pose proof (wfl_nodup _ Hwf) as Hnd.
  change (flat_map (tentry (sp sch d)) sch = flat_map (tentry d) sch).
  apply flat_map_ext_in'. intros p Hin. unfold tentry at 1.
  rewrite sp_entries, (jlookup_entries _ _ _ Hnd (keyed_tentry d)), (xfind_self _ _ Hnd Hin).
  destruct (head_val (tentry d p)) as [v|] eqn:Hh.
  - unfold tentry in *. destruct (jlookup (xname p) d) as [raw|]; [|discriminate Hh].
    destruct p as [n k nl st ix fa|n nl fs].
    + simpl in *. destruct st; [|discriminate Hh]. simpl in Hh. injection Hh as <-.
      rewrite collect_vals_idem. reflexivity.
    + apply (Idem_all (XObj n nl fs) (wfl_in _ _ Hwf Hin)). exact Hh.
  - destruct (keyed_tentry d p) as [He|[v He]]; rewrite He in *; [reflexivity|discriminate Hh].
Qed.

(* ------------------------------------------------------------------ the stored form is valid *)
Lemma known_keys_flat_map ps e : keyed e -> forallb (known_key ps) (flat_map e ps) = true.
Proof.
  intros Hk. apply forallb_forall. intros kv Hin. apply in_flat_map in Hin as [p [Hp Hin]].
  destruct (Hk p) as [He|[v He]]; rewrite He in Hin; [contradiction|].
  destruct Hin as [<-|[]]. unfold known_key. simpl.
  destruct (xfind_some_of_in _ _ Hp) as [q ->]. reflexivity.
Qed.

Definition Vld (p : xprop) : Prop :=
  wfb p = true -> safe_prop true p = true -> forall raw, valid_prop p raw = true ->
  match head_val (sp_nprop p raw) with
  | Some v => valid_prop p v = true
  | None => xnullable p = true
  end.

Lemma valid_sp_obj fs m :
  wfl fs = true -> forallb (safe_prop true) fs = true -> Forall Vld fs ->
  valid_obj fs m = true -> valid_obj fs (sp_obj fs m) = true.
Proof.
  intros Hwf Hsafe HV Hv. pose proof (wfl_nodup _ Hwf) as Hnd.
  unfold valid_obj in *. apply andb_true_iff in Hv as [_ Hv]. rewrite forallb_forall in Hv.
  rewrite forallb_forall in Hsafe. rewrite Forall_forall in HV.
  apply andb_true_iff. split.
  - rewrite sp_obj_entries. apply known_keys_flat_map. apply keyed_nentry.
  - apply forallb_forall. intros p Hin.
    rewrite sp_obj_entries, (jlookup_entries _ _ _ Hnd (keyed_nentry m)), (xfind_self _ _ Hnd Hin).
    specialize (Hv p Hin). unfold nentry.
    destruct (jlookup (xname p) m) as [raw|]; [|exact Hv].
    pose proof (HV p Hin (wfl_in _ _ Hwf Hin) (Hsafe p Hin) raw Hv) as H.
    destruct (head_val (sp_nprop p raw)); exact H.
Qed.

Lemma valid_arr_sp fs nl l :
  (forall m, valid_obj fs m = true -> valid_obj fs (sp_obj fs m) = true) ->
  forallb (fun x => match x with JNull => nl | JObj m => valid_obj fs m | _ => false end) l = true ->
  forallb (fun x => match x with JNull => nl | JObj m => valid_obj fs m | _ => false end)
    (flat_map (fun x => match x with JObj m => [JObj (sp_obj fs m)] | _ => [] end) l) = true.
Proof.
  intros H. induction l as [|x l IH]; intros Hv; [reflexivity|].
  cbn [forallb] in Hv. apply andb_true_iff in Hv as [Hx Hl]. specialize (IH Hl).
  destruct x; try discriminate Hx; cbn [flat_map app forallb]; try exact IH.
  rewrite (H _ Hx), IH. reflexivity.
Qed.

Lemma Vld_all p : Vld p.
Proof.
  induction p as [n k nl st ix fa|n nl fs IH] using xprop_ind2; intros Hwf Hsafe raw Hv.
  - simpl in *. destruct (is_null raw) eqn:En.
    + destruct raw; try discriminate En. exact Hv.
    + destruct st; simpl; [exact Hv|].
      apply andb_true_iff in Hsafe as [_ Hs]. destruct nl; [reflexivity|discriminate Hs].
  - rewrite wfb_obj in Hwf.
    change (safe_prop true (XObj n nl fs)) with (forallb (safe_prop true) fs) in Hsafe.
    assert (HS : forall m, valid_obj fs m = true -> valid_obj fs (sp_obj fs m) = true)
      by (intros m Hm; apply valid_sp_obj; assumption).
    rewrite sp_nprop_obj. rewrite valid_prop_obj in Hv.
    destruct raw; try discriminate Hv; cbn [head_val snd xnullable].
    + exact Hv.
    + rewrite valid_prop_obj. apply valid_arr_sp; assumption.
    + rewrite valid_prop_obj. apply HS. exact Hv.
Qed.

Theorem valid_sp sch d :
  wfl sch = true -> compact_safe sch = true -> valid sch d = true -> valid sch (sp sch d) = true.
Proof.
  intros Hwf Hsafe Hv. pose proof (wfl_nodup _ Hwf) as Hnd.
  unfold valid in *. apply andb_true_iff in Hv as [_ Hv]. rewrite forallb_forall in Hv.
  unfold compact_safe in Hsafe. rewrite forallb_forall in Hsafe.
  apply andb_true_iff. split.
  - rewrite sp_entries. apply known_keys_flat_map. apply keyed_tentry.
  - apply forallb_forall. intros p Hin.
    rewrite sp_entries, (jlookup_entries _ _ _ Hnd (keyed_tentry d)), (xfind_self _ _ Hnd Hin).
    specialize (Hv p Hin). unfold tentry.
    destruct (jlookup (xname p) d) as [raw|]; [|reflexivity].
    destruct p as [n k nl st ix fa|n nl fs].
    + simpl. destruct st; [|reflexivity]. simpl. apply leaf_ok_wrap.
      apply Forall_forall. intros y. apply collect_vals_selected.
    + pose proof (Vld_all (XObj n nl fs) (wfl_in _ _ Hwf Hin) (Hsafe _ Hin) raw Hv) as H.
      change (sp_top (XObj n nl fs) raw) with (sp_nprop (XObj n nl fs) raw).
      destruct (head_val (sp_nprop (XObj n nl fs) raw)); [exact H|reflexivity].
Qed.
