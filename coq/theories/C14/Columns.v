(** C14 — proofs, part 3: the fast-field columns of the stored form are the columns of the
    document (C08's [flatten]), for every column of the schema. *)
From Coq Require Import List NArith ZArith Bool PeanoNat Lia.
From SL Require Import C08.Model C08.Proofs C14.Model C14.Proofs C14.Queries.
Import ListNotations.
Open Scope N_scope.

Definition RR (ps : list xprop) (rows rows' : list row) : Prop :=
  Forall2 (fun r r' => r_parent r = r_parent r' /\ R ps (r_obj r) (r_obj r')) rows rows'.

Lemma RR_tag ps par l l' : Forall2 (R ps) l l' -> RR ps (map (mkrow par) l) (map (mkrow par) l').
Proof. induction 1; simpl; constructor; auto. Qed.

Lemma child_rows_RR ps rows rows' r nl fs :
  RR ps rows rows' -> xfind ps r = Some (XObj r nl fs) ->
  forall i, RR fs (child_rows_from i rows r) (child_rows_from i rows' r).
Proof.
  intros H Hx. induction H as [|a b rows rows' [_ Hab] _ IH]; intros i; simpl; [constructor|].
  apply Forall2_app; [|apply IH].
  rewrite <- !objects_in_slots. apply RR_tag. eapply R_objs; eauto.
Qed.

Lemma table_from_RR rest : forall ps rows rows' ps',
  wfl ps = true -> RR ps rows rows' -> xprops_at ps rest = Some ps' ->
  RR ps' (table_from rows rest) (table_from rows' rest).
Proof.
  induction rest as [|r rest IH]; intros ps rows rows' ps' Hwf H Hp; simpl in *.
  - injection Hp as <-. exact H.
  - destruct (xfind ps r) as [q|] eqn:Hq; [|discriminate Hp].
    pose proof (xfind_name _ _ _ Hq) as Hn.
    destruct q as [|n nl fs]; [discriminate Hp|]. simpl in Hn. subst n.
    apply (IH fs); [eapply wfl_child; eauto| |exact Hp].
    eapply child_rows_RR; eauto.
Qed.

Lemma table_RR sch d d' c rest ps' :
  wfl sch = true -> R sch d d' -> xprops_at sch (c :: rest) = Some ps' ->
  RR ps' (table d (c :: rest)) (table d' (c :: rest)).
Proof.
  intros Hwf HR Hp. simpl in *.
  destruct (xfind sch c) as [q|] eqn:Hq; [|discriminate Hp].
  pose proof (xfind_name _ _ _ Hq) as Hn.
  destruct q as [|n nl fs]; [discriminate Hp|]. simpl in Hn. subst n.
  apply (table_from_RR rest fs); [eapply wfl_child; eauto| |exact Hp].
  unfold top_rows. rewrite <- !objects_in_slots. apply RR_tag. eapply R_objs; eauto.
Qed.

(** paths of the fast schema are paths of the schema *)
Lemma props_at_fps path : forall ps ps'',
  wfl ps = true -> props_at (fps ps) path = Some ps'' ->
  exists ps', xprops_at ps path = Some ps' /\ ps'' = fps ps' /\ wfl ps' = true.
Proof.
  induction path as [|c rest IH]; intros ps ps'' Hwf H; simpl in *.
  - injection H as <-. eauto.
  - destruct (find_obj (fps ps) c) as [fs''|] eqn:Hf; [|discriminate H].
    destruct (find_obj_fps _ _ _ (wfl_nodup _ Hwf) Hf) as [nl [fs [Hx ->]]].
    rewrite Hx. apply IH; [eapply wfl_child; eauto|exact H].
Qed.

Lemma map_RR {A} ps rows rows' (f : obj -> A) :
  RR ps rows rows' -> (forall a b, R ps a b -> f b = f a) ->
  map (fun r => f (r_obj r)) rows' = map (fun r => f (r_obj r)) rows.
Proof.
  intros H Hf. induction H as [|a b rows rows' [_ Hab] _ IH]; simpl; [reflexivity|].
  rewrite (Hf _ _ Hab), IH. reflexivity.
Qed.

Section Cols.
  Variables (sch : xschema) (d d' : obj).
  Hypothesis Hwf : wfl sch = true.
  Hypothesis HR : R sch d d'.

  Lemma column_R {A} (want : kind) (coll : option jval -> list A) path fld :
    (forall ps o o' nl st ix, R ps o o' -> xfind ps fld = Some (XLeaf fld (xk_of want) nl st ix true) ->
       coll (jlookup fld o') = coll (jlookup fld o)) ->
    column (fsch sch) d' want coll path fld = column (fsch sch) d want coll path fld.
  Proof.
    intros Hcoll. unfold column, kind_at.
    destruct (props_at (fsch sch) path) as [ps''|] eqn:Hp; [|reflexivity].
    destruct (props_at_fps _ _ _ Hwf Hp) as [ps' [Hxp [-> Hwf']]].
    destruct (find_kind (fps ps') fld) as [k|] eqn:Hk; [|reflexivity].
    destruct (kind_eqb k want) eqn:Ek; [|reflexivity]. apply kind_eqb_eq in Ek. subst k.
    assert (Hki : kind_is (fps ps') fld want = true)
      by (unfold kind_is; rewrite Hk; apply kind_eqb_refl).
    destruct (kind_is_leaf _ _ _ (wfl_nodup _ Hwf') Hki) as [nl [st [ix Hx]]].
    destruct path as [|c rest].
    - simpl in Hxp. injection Hxp as <-. f_equal. eapply Hcoll; eauto.
    - pose proof (table_RR _ _ _ _ _ _ Hwf HR Hxp) as Ht.
      apply (map_RR ps' _ _ (fun o => coll (jlookup fld o)) Ht).
      intros a b Hab. eapply Hcoll; eauto.
  Qed.

  Lemma col_kw_R path fld :
    col_kw (flatten (fsch sch) d') path fld = col_kw (flatten (fsch sch) d) path fld.
  Proof.
    simpl. apply column_R. intros ps o o' nl st ix Hab Hx.
    pose proof (R_leaf _ _ _ _ _ _ _ _ _ Hab Hx (relevant_fast _ _ (xk_not_text KKw))) as He.
    simpl in He. rewrite <- !strings_of_collect. exact He.
  Qed.

  Lemma col_i64_R path fld :
    col_i64 (flatten (fsch sch) d') path fld = col_i64 (flatten (fsch sch) d) path fld.
  Proof.
    simpl. apply column_R. intros ps o o' nl st ix Hab Hx.
    pose proof (R_leaf _ _ _ _ _ _ _ _ _ Hab Hx (relevant_fast _ _ (xk_not_text KI64))) as He.
    simpl in He. rewrite <- !ints_of_collect. exact He.
  Qed.

  Lemma col_f64_R path fld :
    col_f64 (flatten (fsch sch) d') path fld = col_f64 (flatten (fsch sch) d) path fld.
  Proof.
    simpl. apply column_R. intros ps o o' nl st ix Hab Hx.
    pose proof (R_leaf _ _ _ _ _ _ _ _ _ Hab Hx (relevant_fast _ _ (xk_not_text KF64))) as He.
    simpl in He. rewrite <- !floats_of_collect. exact He.
  Qed.

  Lemma RR_length ps rows rows' : RR ps rows rows' -> length rows' = length rows.
  Proof. induction 1; simpl; congruence. Qed.

  Lemma RR_parents ps rows rows' : RR ps rows rows' -> map r_parent rows' = map r_parent rows.
  Proof. induction 1 as [|a b ? ? [Hp _] _ IH]; simpl; [reflexivity|]. rewrite Hp, IH. reflexivity. Qed.

  (** _nested_count and _nested_parent of every nested path of the schema *)
  Lemma col_nested_R path ps' :
    xprops_at sch path = Some ps' ->
    col_count (flatten (fsch sch) d') path = col_count (flatten (fsch sch) d) path
    /\ col_parents (flatten (fsch sch) d') path = col_parents (flatten (fsch sch) d) path.
  Proof.
    intros Hp. simpl. destruct path as [|c rest]; [split; reflexivity|].
    pose proof (table_RR _ _ _ _ _ _ Hwf HR Hp) as H.
    split; [eapply RR_length; eauto|eapply RR_parents; eauto].
  Qed.
End Cols.
