(** C14 — the stored form as the code computed it before the repair (stored_nested_value dropped
    nested objects and arrays whose stored form is empty) and the two witnesses against it. *)
From Coq Require Import List NArith ZArith Bool.
From SL Require Import C08.Model C14.Model.
Import ListNotations.
Open Scope N_scope.

Fixpoint sp_nprop_old (p : xprop) (raw : jval) {struct p} : list (N * jval) :=
  match p with
  | XLeaf n _ _ st _ _ => if is_null raw then [] else if st then [(n, raw)] else []
  | XObj n _ fs =>
      let spo := fun (m : obj) =>
        flat_map (fun q => match jlookup (xname q) m with
                           | Some r => sp_nprop_old q r
                           | None => []
                           end) fs in
      match raw with
      | JObj m => match spo m with [] => [] | o => [(n, JObj o)] end
      | JArr l =>
          match flat_map (fun x => match x with
                                   | JObj m => match spo m with [] => [] | o => [JObj o] end
                                   | _ => []
                                   end) l with
          | [] => []
          | a => [(n, JArr a)]
          end
      | _ => []
      end
  end.

Definition sp_top_old (p : xprop) (v : jval) : list (N * jval) :=
  match p with
  | XLeaf n k _ st _ _ => if st then [(n, wrap (collect_vals k v))] else []
  | XObj _ _ _ => sp_nprop_old p v
  end.

Definition sp_old (sch : xschema) (d : obj) : obj :=
  flat_map (fun p => match jlookup (xname p) d with Some v => sp_top_old p v | None => [] end) sch.

(** c : [{}, {a: "x"}] with Nested c (Not (a = "x")): the empty object satisfies the clause; the
    old stored form is c : [{a: "x"}], which does not. *)
Definition w1_sch : xschema := [XObj 0 true [XLeaf 1 XKw true true true true]].
Definition w1_doc : obj := [(0, JArr [JObj []; JObj [(1, JStr (0, 0))]])].
Definition w1_filter : filter := FNested 0 (FNot (FKwEq 1 (0, 0))).

(** c : {k: "v", inner: {}} with a required nested object [inner]: the old stored form lacks
    [inner] and is refused by validation, so compaction failed. *)
Definition w2_sch : xschema :=
  [XObj 0 true [XLeaf 1 XKw true true true true; XObj 2 false [XLeaf 3 XKw true true true true]]].
Definition w2_doc : obj := [(0, JObj [(1, JStr (0, 0)); (2, JObj [])])].
