(** The stored projection (extension of C04: "stored fields equal to the stored projection of
    that version").

    [M]  [collect_stored] : segment.rs collect_document as the code runs it — one pass over the
         document's fields in map order, unknown fields bail, handle_field pushes the collected
         values of a stored leaf into a HashMap entry (extending an existing entry), a nested
         field inserts its filtered value into a second map, finalize_stored unwraps
         single-valued entries and lays the nested values over the result.
    [S]  [sp] (C14/Model.v) : the stored projection written over the schema.
    Theorem: for a valid document (distinct keys) the two are the same map. *)
From Coq Require Import List NArith ZArith Bool Lia.
From SL Require Core.Model Core.AList.
From SL Require Import C08.Model C14.Model C14.Proofs.
Import ListNotations.
Open Scope N_scope.

Notation alookup := Core.Model.alookup.
Notation ainsert := Core.Model.ainsert.

Record acc := mkacc { a_stored : list (N * list jval); a_nested : list (N * jval) }.

(** CollectedDocument::push_stored: entry(path).or_default().extend(values) *)
Definition push_stored (n : N) (vals : list jval) (s : list (N * list jval)) : list (N * list jval) :=
  ainsert n (match alookup n s with Some old => old ++ vals | None => vals end) s.

(** stored_nested_value(nested, value) *)
Definition stored_nested_value (p : xprop) (v : jval) : option jval := head_val (sp_nprop p v).

(** one iteration of collect_document's loop; [None] = bail *)
Definition collect_field (sch : xschema) (a : option acc) (kv : N * jval) : option acc :=
  match a with
  | None => None
  | Some a =>
      match xfind sch (fst kv) with
      | Some (XLeaf n k _ st _ _) =>
          Some (if st then mkacc (push_stored n (collect_vals k (snd kv)) (a_stored a)) (a_nested a) else a)
      | Some (XObj n nl fs) =>
          match snd kv with
          | JNull => if nl then Some a else None
          | v =>
              if valid_prop (XObj n nl fs) v                      (* collect_nested succeeds *)
              then Some (match stored_nested_value (XObj n nl fs) v with
                         | Some f => mkacc (a_stored a) (ainsert n f (a_nested a))
                         | None => a
                         end)
              else None
          end
      | None => None                                              (* unknown field *)
      end
  end.

(** finalize_stored (the nested map is iterated in an unspecified order; its keys are distinct) *)
Definition finalize_stored (a : acc) : obj :=
  fold_right (fun e out => ainsert (fst e) (snd e) out)
             (map (fun e => (fst e, wrap (snd e))) (a_stored a)) (a_nested a).

Definition collect_stored (sch : xschema) (d : obj) : option obj :=
  option_map finalize_stored (fold_left (collect_field sch) d (Some (mkacc [] []))).

(* ------------------------------------------------------------------ proofs *)
Lemma jlookup_is k (m : obj) : jlookup k m = alookup k m.
Proof. induction m as [|[k' v] m IH]; simpl; [reflexivity|]. rewrite IH. reflexivity. Qed.

Lemma jlookup_app k (a b : obj) :
  jlookup k (a ++ b) = match jlookup k a with Some x => Some x | None => jlookup k b end.
Proof.
  induction a as [|[k' v] a IH]; simpl; [reflexivity|]. destruct (N.eqb k k'); [reflexivity|exact IH].
Qed.

Definition leaf_contrib (p : xprop) (v : jval) : option (list jval) :=
  match p with XLeaf _ k _ true _ _ => Some (collect_vals k v) | _ => None end.

Definition nest_contrib (p : xprop) (v : jval) : option jval :=
  match p with XObj _ _ _ => stored_nested_value p v | _ => None end.

Definition Inv (sch : xschema) (d1 : obj) (a : acc) : Prop :=
  (forall k, alookup k (a_stored a)
             = match xfind sch k, jlookup k d1 with Some p, Some v => leaf_contrib p v | _, _ => None end)
  /\ (forall k, alookup k (a_nested a)
                = match xfind sch k, jlookup k d1 with Some p, Some v => nest_contrib p v | _, _ => None end).

Lemma collect_field_step sch a n0 v p :
  xfind sch n0 = Some p -> valid_prop p v = true ->
  collect_field sch (Some a) (n0, v)
  = Some (mkacc (match leaf_contrib p v with
                 | Some vals => push_stored n0 vals (a_stored a)
                 | None => a_stored a
                 end)
                (match nest_contrib p v with
                 | Some f => ainsert n0 f (a_nested a)
                 | None => a_nested a
                 end)).
Proof.
  intros Hf Hv. pose proof (xfind_name _ _ _ Hf) as Hn. unfold collect_field. simpl fst. simpl snd. rewrite Hf.
  destruct p as [n k nl st ix fa|n nl fs]; simpl in Hn; subst n.
  - simpl. destruct st; destruct a; reflexivity.
  - unfold nest_contrib, leaf_contrib.
    destruct v; try (rewrite Hv; destruct (stored_nested_value (XObj n0 nl fs) _); destruct a; reflexivity).
    simpl in Hv. rewrite Hv. unfold stored_nested_value. simpl. destruct a; reflexivity.
Qed.

Lemma fold_inv sch : forall d2 d1 a,
  Inv sch d1 a -> NoDup (map fst (d1 ++ d2)) ->
  (forall kv, In kv d2 -> exists p, xfind sch (fst kv) = Some p /\ valid_prop p (snd kv) = true) ->
  exists a', fold_left (collect_field sch) d2 (Some a) = Some a' /\ Inv sch (d1 ++ d2) a'.
Proof.
  induction d2 as [|[n0 v] d2 IH]; intros d1 a HI Hnd Hv.
  - exists a. rewrite app_nil_r. split; [reflexivity|exact HI].
  - destruct (Hv (n0, v) (or_introl eq_refl)) as [p [Hf Hp]]. simpl in Hf, Hp.
    cbn [fold_left]. rewrite (collect_field_step _ _ _ _ _ Hf Hp).
    assert (Hfresh : jlookup n0 d1 = None).
    { destruct (jlookup n0 d1) eqn:E; [|reflexivity]. exfalso.
      rewrite jlookup_is in E. apply Core.AList.alookup_In in E.
      rewrite map_app in Hnd. apply NoDup_remove_2 in Hnd. apply Hnd.
      apply in_or_app. left. apply (in_map fst) in E. exact E. }
    replace (d1 ++ (n0, v) :: d2) with ((d1 ++ [(n0, v)]) ++ d2) in * by (rewrite <- app_assoc; reflexivity).
    apply IH; [|exact Hnd|intros kv Hin; apply Hv; right; exact Hin].
    destruct HI as [HS HN]. split; intros k; cbn [a_stored a_nested]; rewrite jlookup_app; simpl jlookup.
    + destruct (leaf_contrib p v) as [vals|] eqn:Hc.
      * unfold push_stored. rewrite Core.AList.alookup_ainsert.
        destruct (N.eqb k n0) eqn:E.
        -- apply N.eqb_eq in E. subst k. rewrite HS, Hf, Hfresh, Hc. reflexivity.
        -- rewrite HS. destruct (xfind sch k); [|reflexivity]. destruct (jlookup k d1); reflexivity.
      * rewrite HS. destruct (N.eqb k n0) eqn:E.
        -- apply N.eqb_eq in E. subst k. rewrite Hf, Hfresh, Hc. reflexivity.
        -- destruct (xfind sch k); [|reflexivity]. destruct (jlookup k d1); reflexivity.
    + destruct (nest_contrib p v) as [f|] eqn:Hc.
      * rewrite Core.AList.alookup_ainsert.
        destruct (N.eqb k n0) eqn:E.
        -- apply N.eqb_eq in E. subst k. rewrite Hf, Hfresh, Hc. reflexivity.
        -- rewrite HN. destruct (xfind sch k); [|reflexivity]. destruct (jlookup k d1); reflexivity.
      * rewrite HN. destruct (N.eqb k n0) eqn:E.
        -- apply N.eqb_eq in E. subst k. rewrite Hf, Hfresh, Hc. reflexivity.
        -- destruct (xfind sch k); [|reflexivity]. destruct (jlookup k d1); reflexivity.
Qed.

Lemma lookup_finalize a k :
  jlookup k (finalize_stored a)
  = match alookup k (a_nested a) with
    | Some f => Some f
    | None => option_map wrap (alookup k (a_stored a))
    end.
Proof.
  unfold finalize_stored. induction (a_nested a) as [|[k' f] l IH]; cbn [fold_right fst snd].
  - rewrite jlookup_is. induction (a_stored a) as [|[k' vals] s IHs]; simpl; [reflexivity|].
    destruct (N.eqb k k'); [reflexivity|exact IHs].
  - rewrite jlookup_is, Core.AList.alookup_ainsert. simpl. destruct (N.eqb k k'); [reflexivity|].
    rewrite <- jlookup_is. exact IH.
Qed.

Lemma valid_entries sch d :
  valid sch d = true ->
  NoDup (map fst d) ->
  forall kv, In kv d -> exists p, xfind sch (fst kv) = Some p /\ valid_prop p (snd kv) = true.
Proof.
  intros Hv Hnd [k v] Hin. unfold valid in Hv. apply andb_true_iff in Hv as [Hk Hp].
  rewrite forallb_forall in Hk, Hp. specialize (Hk _ Hin). unfold known_key in Hk. simpl in *.
  destruct (xfind sch k) as [p|] eqn:Hf; [|discriminate Hk]. exists p. split; [reflexivity|].
  specialize (Hp p (xfind_In _ _ _ Hf)). rewrite (xfind_name _ _ _ Hf) in Hp.
  assert (Hl : jlookup k d = Some v).
  { rewrite jlookup_is. apply Core.AList.In_alookup_nodup; assumption. }
  rewrite Hl in Hp. exact Hp.
Qed.

Theorem stored_projection sch d :
  wfl sch = true -> NoDup (map fst d) -> valid sch d = true ->
  exists o, collect_stored sch d = Some o /\ forall k, jlookup k o = jlookup k (sp sch d).
Proof.
  intros Hwf Hnd Hv. pose proof (wfl_nodup _ Hwf) as Hnames.
  destruct (fold_inv sch d [] (mkacc [] [])) as [a [Hfold [HS HN]]].
  - split; intros k; simpl; destruct (xfind sch k); reflexivity.
  - exact Hnd.
  - apply valid_entries; assumption.
  - unfold collect_stored. rewrite Hfold. simpl in HS, HN. exists (finalize_stored a). split; [reflexivity|].
    intros k. rewrite lookup_finalize, HS, HN.
    rewrite sp_entries, (jlookup_entries _ _ _ Hnames (keyed_tentry d)).
    destruct (xfind sch k) as [p|] eqn:Hf; [|reflexivity].
    pose proof (xfind_name _ _ _ Hf) as Hn. unfold tentry. rewrite Hn.
    destruct (jlookup k d) as [v|]; [|reflexivity].
    destruct p as [n kd nl st ix fa|n nl fs].
    + simpl. destruct st; reflexivity.
    + unfold leaf_contrib, nest_contrib, stored_nested_value, sp_top.
      destruct (head_val (sp_nprop (XObj n nl fs) v)); reflexivity.
Qed.
