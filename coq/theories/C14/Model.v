(** C14 — Compaction preserves observable contents.  Definitions only.

    Built on the JSON document model, the fast-field column model ([flatten]) and the filter
    evaluator ([passes]) / filter semantics ([fsem]) of C08/Model.v.

    [M]  [compact_safe]  : index/mod.rs ensure_compact_safe over Schema::resolved_fields;
         [sp]            : the stored form of one document = segment.rs collect_document /
                           handle_field / push_stored / finalize_stored / stored_nested_value;
         [valid]         : Schema::validate_document (+ what collect_document insists on);
         [ix_text], [ix_kw], [flatten (fsch sch)] : what index-time collection hands to the
                           postings builder (per field: the value strings in collection order) and to
                           the fast-field writer for ONE document;
         [compact]       : Index::compact over a manifest of segments (guard, refusal, re-ingestion
                           of the stored form of every live document in segment/ordinal order).
    [S]  [spec]          : the property text as a checker over what a reader observes before and
                           after the call.

    Strings, numbers and field names are represented as in C08 (interned strings with their
    lowercase id, i64 value + order-preserving f64 rank, interned names).  The names of the
    properties of one level are distinct (one name space for leaf and nested fields), as are the
    keys of a JSON object.  The document id is carried beside the document ([N * obj]); it is
    stored and re-read verbatim (a string) and is not part of [obj]. *)
From Coq Require Import List NArith ZArith Bool PeanoNat.
From SL Require Import Base.Tie C08.Model.
Import ListNotations.
Open Scope N_scope.

(* ------------------------------------------------------------------ schema *)
Inductive xkind := XText | XKw | XI64 | XF64.

(** text / keyword / numeric field with its flags as written in the schema, or a nested object *)
Inductive xprop :=
| XLeaf (name : N) (k : xkind) (nullable stored indexed fast : bool)
| XObj (name : N) (nullable : bool) (fields : list xprop).

Definition xschema := list xprop.

Definition xname (p : xprop) : N := match p with XLeaf n _ _ _ _ _ => n | XObj n _ _ => n end.
Definition xnullable (p : xprop) : bool := match p with XLeaf _ _ b _ _ _ => b | XObj _ b _ => b end.

Fixpoint xfind (ps : list xprop) (n : N) : option xprop :=
  match ps with
  | [] => None
  | p :: ps' => if N.eqb (xname p) n then Some p else xfind ps' n
  end.

(** Schema::resolved_fields: numeric fields are always indexed, text fields are never fast *)
Definition r_indexed (k : xkind) (indexed : bool) : bool :=
  match k with XI64 | XF64 => true | _ => indexed end.
Definition r_fast (k : xkind) (fast : bool) : bool :=
  match k with XText => false | _ => fast end.

(** ensure_compact_safe: every indexed-or-fast resolved field (nested paths included) is stored,
    and every required (non-nullable) property of a nested object is stored (a required property
    that is missing from the stored form could not be re-validated).  [inner] = inside a nested
    object. *)
Fixpoint safe_prop (inner : bool) (p : xprop) : bool :=
  match p with
  | XLeaf _ k nl st ix fa =>
      implb (r_indexed k ix || r_fast k fa) st && implb (inner && negb nl) st
  | XObj _ _ fs => forallb (safe_prop true) fs
  end.

Definition compact_safe (sch : xschema) : bool := forallb (safe_prop false) sch.

(** The fast-field schema in the sense of C08: the keyword / i64 / f64 leaves that have a column. *)
Fixpoint fprop (p : xprop) : list prop :=
  match p with
  | XLeaf n XKw nl _ _ true => [PLeaf n KKw nl]
  | XLeaf n XI64 nl _ _ true => [PLeaf n KI64 nl]
  | XLeaf n XF64 nl _ _ true => [PLeaf n KF64 nl]
  | XLeaf _ _ _ _ _ _ => []
  | XObj n nl fs => [PObj n nl (flat_map fprop fs)]
  end.

Definition fsch (sch : xschema) : schema := flat_map fprop sch.

(** Well-formed schema: the names of one level are distinct, recursively. *)
Fixpoint memN (x : N) (l : list N) : bool :=
  match l with [] => false | y :: l' => N.eqb x y || memN x l' end.

Fixpoint nodupN (l : list N) : bool :=
  match l with [] => true | x :: l' => negb (memN x l') && nodupN l' end.

Fixpoint wfb (p : xprop) : bool :=
  match p with
  | XLeaf _ _ _ _ _ _ => true
  | XObj _ _ fs => nodupN (map xname fs) && forallb wfb fs
  end.

Definition wfl (ps : list xprop) : bool := nodupN (map xname ps) && forallb wfb ps.

(* ------------------------------------------------------------------ M: validation *)
Definition scalar_ok (k : xkind) (v : jval) : bool :=
  match k, v with
  | XText, JStr _ | XKw, JStr _ => true
  | XI64, JNum (Some _) _ => true
  | XF64, JNum _ _ => true
  | _, _ => false
  end.

(** validate_field_value / NestedProperty::validate_value for leaves *)
Definition leaf_ok (k : xkind) (nullable : bool) (v : jval) : bool :=
  match v with
  | JNull => nullable
  | JArr l => forallb (scalar_ok k) l
  | _ => scalar_ok k v
  end.

Definition known_key (ps : list xprop) (kv : N * jval) : bool :=
  match xfind ps (fst kv) with Some _ => true | None => false end.

(** NestedField::validate (and collect_nested): null only when nullable; an object; or an array
    of objects (null entries only when nullable).  An object has only declared properties, each
    valid, and every non-nullable property is present. *)
Fixpoint valid_prop (p : xprop) (v : jval) {struct p} : bool :=
  match p with
  | XLeaf _ k nl _ _ _ => leaf_ok k nl v
  | XObj _ nl fs =>
      let vobj := fun (m : obj) =>
        forallb (known_key fs) m
        && forallb (fun q => match jlookup (xname q) m with
                             | Some x => valid_prop q x
                             | None => xnullable q
                             end) fs in
      match v with
      | JNull => nl
      | JObj m => vobj m
      | JArr l => forallb (fun x => match x with JNull => nl | JObj m => vobj m | _ => false end) l
      | _ => false
      end
  end.

Definition valid_obj (fs : list xprop) (m : obj) : bool :=
  forallb (known_key fs) m
  && forallb (fun q => match jlookup (xname q) m with
                       | Some x => valid_prop q x
                       | None => xnullable q
                       end) fs.

(** Schema::validate_document: every field is declared and valid; no top-level field is required *)
Definition valid (sch : xschema) (d : obj) : bool :=
  forallb (known_key sch) d
  && forallb (fun p => match jlookup (xname p) d with
                       | Some x => valid_prop p x
                       | None => true
                       end) sch.

(* ------------------------------------------------------------------ M: the stored form *)
(** collect_strings / collect_i64s / collect_f64s followed by the conversion push_stored applies:
    strings and i64 numbers are stored as they are, an f64 value is stored as a float number
    (serde_json::Value::from(f64): as_i64() of the stored number is None). *)
Definition sel (k : xkind) (x : jval) : list jval :=
  match k, x with
  | XText, JStr s | XKw, JStr s => [JStr s]
  | XI64, JNum (Some i) f => [JNum (Some i) f]
  | XF64, JNum _ f => [JNum None f]
  | _, _ => []
  end.

Definition collect_vals (k : xkind) (v : jval) : list jval :=
  match v with JArr l => flat_map (sel k) l | _ => sel k v end.

(** finalize_stored: exactly one value is unwrapped, anything else (none included) is an array *)
Definition wrap (vals : list jval) : jval := match vals with [x] => x | _ => JArr vals end.

Definition is_null (v : jval) : bool := match v with JNull => true | _ => false end.

(** stored_nested_value: null properties are dropped, leaf properties are kept verbatim when
    stored, nested objects are filtered recursively; an object or array that ends up empty is
    kept (so that the objects of an array keep their number and position). *)
Fixpoint sp_nprop (p : xprop) (raw : jval) {struct p} : list (N * jval) :=
  match p with
  | XLeaf n _ _ st _ _ => if is_null raw then [] else if st then [(n, raw)] else []
  | XObj n _ fs =>
      let spo := fun (m : obj) =>
        JObj (flat_map (fun q => match jlookup (xname q) m with
                                 | Some r => sp_nprop q r
                                 | None => []
                                 end) fs) in
      match raw with
      | JObj m => [(n, spo m)]
      | JArr l => [(n, JArr (flat_map (fun x => match x with JObj m => [spo m] | _ => [] end) l))]
      | _ => []
      end
  end.

Definition sp_obj (fs : list xprop) (m : obj) : obj :=
  flat_map (fun q => match jlookup (xname q) m with Some r => sp_nprop q r | None => [] end) fs.

(** collect_document + finalize_stored for one top-level field *)
Definition sp_top (p : xprop) (v : jval) : list (N * jval) :=
  match p with
  | XLeaf n k _ st _ _ => if st then [(n, wrap (collect_vals k v))] else []
  | XObj _ _ _ => sp_nprop p v
  end.

(** The stored form of a document (keys in schema order; the real map is unordered). *)
Definition sp (sch : xschema) (d : obj) : obj :=
  flat_map (fun p => match jlookup (xname p) d with Some v => sp_top p v | None => [] end) sch.

(* ------------------------------------------------------------------ M: what one document puts into the index *)
(** collect_nested walks the document depth first: the values of leaf [fld] under the nested
    path [path], in collection order. *)
Fixpoint leaf_vals {A} (coll : option jval -> list A) (o : obj) (path : list N) (fld : N) : list A :=
  match path with
  | [] => coll (jlookup fld o)
  | c :: rest => flat_map (fun o' => leaf_vals coll o' rest fld) (objects_in o c)
  end.

Fixpoint xprops_at (ps : list xprop) (path : list N) : option (list xprop) :=
  match path with
  | [] => Some ps
  | c :: rest =>
      match xfind ps c with Some (XObj _ _ fs) => xprops_at fs rest | _ => None end
  end.

Definition xleaf_at (sch : xschema) (path : list N) (fld : N) : option (xkind * bool * bool) :=
  match xprops_at sch path with
  | Some ps => match xfind ps fld with
               | Some (XLeaf _ k _ _ ix fa) => Some (k, r_indexed k ix, r_fast k fa)
               | _ => None
               end
  | None => None
  end.

(** The strings handed to the analyzer for text field "path.fld" (in order: they determine
    postings, positions and the field length) and the strings indexed as keyword terms. *)
Definition ix_text (sch : xschema) (d : obj) (path : list N) (fld : N) : list str :=
  match xleaf_at sch path fld with
  | Some (XText, true, _) => leaf_vals collect_strings d path fld
  | _ => []
  end.

Definition ix_kw (sch : xschema) (d : obj) (path : list N) (fld : N) : list str :=
  match xleaf_at sch path fld with
  | Some (XKw, true, _) => leaf_vals collect_strings d path fld
  | _ => []
  end.

(** write_segment_stream's position bookkeeping for one text field: token (term, position)
    pairs of successive values are shifted by the running offset; a value without tokens still
    advances the offset by one.  [analyze] is the field's analyzer (an oracle). *)
Section Postings.
  Variable analyze : str -> list (N * nat).

  Definition max_pos (toks : list (N * nat)) : nat := fold_right (fun t a => Nat.max (snd t) a) 0%nat toks.

  Fixpoint postings_from (off : nat) (vals : list str) : list (N * nat) :=
    match vals with
    | [] => []
    | s :: rest =>
        let toks := analyze s in
        map (fun t => (fst t, (off + snd t)%nat)) toks
        ++ postings_from (match toks with [] => S off | _ => (off + S (max_pos toks))%nat end) rest
    end.

  Definition text_postings (sch : xschema) (d : obj) (path : list N) (fld : N) : list (N * nat) :=
    postings_from 0 (ix_text sch d path fld).

  Definition text_length (sch : xschema) (d : obj) (path : list N) (fld : N) : nat :=
    list_sum (map (fun s => length (analyze s)) (ix_text sch d path fld)).
End Postings.

(* ------------------------------------------------------------------ M: Index::compact *)
(** A segment: the documents it was built from (id, ingested document) and its tombstones
    (ordinals).  A reader shows, for every live ordinal, the id, [sp sch doc] as stored fields,
    and matches queries/filters against what [doc] put into the index. *)
Record xseg := mkseg { g_docs : list (N * obj); g_del : list N }.
Definition xman := list xseg.

Fixpoint enum_from {A} (i : N) (l : list A) : list (N * A) :=
  match l with [] => [] | a :: l' => (i, a) :: enum_from (N.succ i) l' end.

Definition seg_live (s : xseg) : list (N * obj) :=
  map snd (List.filter (fun p => negb (memN (fst p) (g_del s))) (enum_from 0 (g_docs s))).

(** live (id, ingested document) pairs in segment / ordinal order *)
Definition live (m : xman) : list (N * obj) := flat_map seg_live m.

Inductive outcome := COk (m : xman) | CErr (m : xman).

(** Index::compact: nothing to do with at most one segment; refusal when the schema is not
    compact-safe; otherwise every live document's stored form is read back, validated and
    collected again into one new segment (an invalid stored form makes write_segment_from_iter
    fail: nothing is published). *)
Definition compact (sch : xschema) (m : xman) : outcome :=
  match m with
  | [] | [_] => COk m
  | _ =>
      if compact_safe sch then
        let docs := map (fun p => (fst p, sp sch (snd p))) (live m) in
        if forallb (fun p => valid sch (snd p)) docs
        then COk [{| g_docs := docs; g_del := [] |}]
        else CErr m
      else CErr m
  end.

Definition out_man (o : outcome) : xman := match o with COk m => m | CErr m => m end.
Definition out_ok (o : outcome) : bool := match o with COk _ => true | CErr _ => false end.

(** Reader-level observations of a manifest *)
Definition live_ids (m : xman) : list N := map fst (live m).
Definition live_stored (sch : xschema) (m : xman) : list (N * obj) :=
  map (fun p => (fst p, sp sch (snd p))) (live m).
Definition filter_hits (sch : xschema) (m : xman) (f : filter) : list N :=
  map fst (List.filter (fun p => passes (flatten (fsch sch) (snd p)) f) (live m)).
Definition tombstones (m : xman) : nat := list_sum (map (fun s => length (g_del s)) m).

(* ------------------------------------------------------------------ S *)
(** JSON equality (object keys in the given order; the engine orders keys by schema position) *)
Definition oz_eqb (a b : option Z) : bool :=
  match a, b with Some x, Some y => Z.eqb x y | None, None => true | _, _ => false end.

Fixpoint jeqb (a b : jval) {struct a} : bool :=
  match a, b with
  | JNull, JNull => true
  | JBool x, JBool y => Bool.eqb x y
  | JStr s, JStr t => N.eqb (fst s) (fst t) && N.eqb (snd s) (snd t)
  | JNum i f, JNum j g => oz_eqb i j && Z.eqb f g
  | JArr l, JArr m =>
      (fix go (l m : list jval) {struct l} : bool :=
         match l, m with
         | [], [] => true
         | x :: l', y :: m' => jeqb x y && go l' m'
         | _, _ => false
         end) l m
  | JObj l, JObj m =>
      (fix go (l m : list (N * jval)) {struct l} : bool :=
         match l, m with
         | [], [] => true
         | (k, x) :: l', (k', y) :: m' => N.eqb k k' && jeqb x y && go l' m'
         | _, _ => false
         end) l m
  | _, _ => false
  end.

Fixpoint list_eqb {A} (e : A -> A -> bool) (a b : list A) : bool :=
  match a, b with
  | [], [] => true
  | x :: a', y :: b' => e x y && list_eqb e a' b'
  | _, _ => false
  end.

Definition doc_eqb (a b : N * obj) : bool := N.eqb (fst a) (fst b) && jeqb (JObj (snd a)) (JObj (snd b)).
Definition docs_eqb := list_eqb doc_eqb.
Definition hits_eqb := list_eqb (list_eqb N.eqb).

(** some field of the schema is not stored: its data cannot be rebuilt from stored values *)
Fixpoint has_unstored (p : xprop) : bool :=
  match p with
  | XLeaf _ _ _ st _ _ => negb st
  | XObj _ _ fs => existsb has_unstored fs
  end.

(** What a reader sees: the live documents with their stored fields (ascending id), the hit ids
    of a list of filters and of a list of queries, the number of segments and of tombstones; and
    whether the directory listing (names and sizes) is the one before the call. *)
Record view := mkview {
  v_stored : list (N * obj);
  v_fhits : list (list N);
  v_qhits : list (list N);
  v_segs : N;
  v_tombs : N
}.

Record case_obs := mkobs { o_ok : bool; o_before : view; o_after : view; o_listing_same : bool }.

Definition same_contents (a b : view) : bool :=
  docs_eqb (v_stored a) (v_stored b)            (* live documents and their stored fields *)
  && hits_eqb (v_fhits a) (v_fhits b)           (* which documents any filter matches *)
  && hits_eqb (v_qhits a) (v_qhits b).          (* which documents any query matches *)

(** The property, read off its statement:
    - compaction never changes live documents, stored fields, query or filter matches;
    - when it goes through, a single segment without deleted documents is left (an index that
      already had at most one segment is left as it is);
    - a refusal changes nothing at all, and happens only when some field is not stored. *)
Definition spec (sch : xschema) (o : case_obs) : bool :=
  same_contents (o_before o) (o_after o)
  && (if o_ok o then
        if N.leb (v_segs (o_before o)) 1
        then N.eqb (v_segs (o_after o)) (v_segs (o_before o)) && N.eqb (v_tombs (o_after o)) (v_tombs (o_before o))
             && o_listing_same o
        else N.eqb (v_segs (o_after o)) 1 && N.eqb (v_tombs (o_after o)) 0
      else
        N.eqb (v_segs (o_after o)) (v_segs (o_before o)) && N.eqb (v_tombs (o_after o)) (v_tombs (o_before o))
        && o_listing_same o && existsb has_unstored sch).

(* ------------------------------------------------------------------ the tie *)
(** One case: a schema, the manifest at the time of the call (segments with the documents they
    were built from, in ordinal order, and their tombstones), filters.  The engine sorts every
    hit list and the stored lists by id; ids are unique among live documents. *)
Record case_in := mkcase { c_sch : xschema; c_man : xman; c_filters : list filter }.

Fixpoint ins_id {A} (p : N * A) (l : list (N * A)) : list (N * A) :=
  match l with
  | [] => [p]
  | q :: l' => if N.leb (fst p) (fst q) then p :: l else q :: ins_id p l'
  end.
Definition sort_id {A} (l : list (N * A)) : list (N * A) := fold_right ins_id [] l.
Fixpoint insN (x : N) (l : list N) : list N :=
  match l with [] => [x] | y :: l' => if N.leb x y then x :: l else y :: insN x l' end.
Definition sortN (l : list N) : list N := fold_right insN [] l.

Definition nlen {A} (l : list A) : N := N.of_nat (length l).

Definition view_of (sch : xschema) (m : xman) (fs : list filter) (qh : list (list N)) : view :=
  {| v_stored := sort_id (live_stored sch m);
     v_fhits := map (fun f => sortN (filter_hits sch m f)) fs;
     v_qhits := qh;
     v_segs := nlen m;
     v_tombs := N.of_nat (tombstones m) |}.

(** The model's prediction.  Text queries are not evaluated in Coq: the model predicts that
    their hit lists [qh] are the same before and after (C14_reindex_fixpoint: the index holds
    the same strings per field). *)
Definition model (i : case_in) (qh : list (list N)) : case_obs :=
  let r := compact (c_sch i) (c_man i) in
  {| o_ok := out_ok r;
     o_before := view_of (c_sch i) (c_man i) (c_filters i) qh;
     o_after := view_of (c_sch i) (out_man r) (c_filters i) qh;
     o_listing_same := match r with CErr _ => true | COk _ => N.leb (nlen (c_man i)) 1 end |}.

Definition view_eqb (a b : view) : bool :=
  docs_eqb (v_stored a) (v_stored b) && hits_eqb (v_fhits a) (v_fhits b)
  && hits_eqb (v_qhits a) (v_qhits b) && N.eqb (v_segs a) (v_segs b) && N.eqb (v_tombs a) (v_tombs b).

Definition obs_eqb (a b : case_obs) : bool :=
  Bool.eqb (o_ok a) (o_ok b) && view_eqb (o_before a) (o_before b) && view_eqb (o_after a) (o_after b)
  && Bool.eqb (o_listing_same a) (o_listing_same b).

Definition docs_valid (i : case_in) : bool :=
  forallb (fun s => forallb (fun p => valid (c_sch i) (snd p)) (g_docs s)) (c_man i).

(** A case whose schema is not well formed or whose documents the model considers invalid is a
    broken correspondence (the engine only commits documents the index accepted). *)
Definition check_case (c : case_in * case_obs) : N :=
  let (i, o) := c in
  if wfl (c_sch i) && docs_valid i then
    verdict (obs_eqb o (model i (v_qhits (o_before o)))) (spec (c_sch i) o) 0
  else 1.
