(** C18 — proofs about [collapse] over the ranked candidate list, the covering corollary, and the
    witness for candidates that do not cover a group's best hit. *)
From Coq Require Import List NArith Bool Arith Lia Permutation.
From SL Require Import Base.Tie C18.Model.
Import ListNotations.
Open Scope N_scope.

(* ------------------------------------------------------------------ sorting by the main key *)

Fixpoint ksorted (l : list hit) : Prop :=
  match l with
  | [] => True
  | x :: t => Forall (fun y => h_key x <= h_key y) t /\ ksorted t
  end.

(** strictly increasing main keys: the ranked candidates (keys are distinct ranks) *)
Fixpoint kstrict (l : list hit) : Prop :=
  match l with
  | [] => True
  | x :: t => Forall (fun y => h_key x < h_key y) t /\ kstrict t
  end.

Fixpoint isorted (l : list hit) : Prop :=
  match l with
  | [] => True
  | x :: t => Forall (fun y => h_ikey x <= h_ikey y) t /\ isorted t
  end.

Lemma kinsert_perm : forall x s, Permutation (x :: s) (kinsert x s).
Proof.
  intros x s. induction s as [|a s IH]; cbn [kinsert]; [apply Permutation_refl|].
  destruct (h_key x <=? h_key a); [apply Permutation_refl|].
  eapply perm_trans; [apply perm_swap|]. now apply perm_skip.
Qed.

Lemma ksort_perm : forall l, Permutation l (ksort l).
Proof.
  induction l as [|a l IH]; cbn; [constructor|].
  eapply perm_trans; [|apply kinsert_perm]. now apply perm_skip.
Qed.

Lemma kinsert_ksorted : forall x s, ksorted s -> ksorted (kinsert x s).
Proof.
  intros x s. induction s as [|a s IH]; cbn [kinsert ksorted]; intros H.
  - split; [constructor|exact I].
  - destruct H as [Ha Hs]. destruct (N.leb_spec (h_key x) (h_key a)) as [Hxa|Hxa]; cbn [ksorted].
    + split; [|split; assumption]. constructor; [exact Hxa|].
      eapply Forall_impl; [|exact Ha]. cbn. intros; lia.
    + split; [|apply IH; exact Hs].
      eapply Permutation_Forall; [apply kinsert_perm|]. constructor; [lia|exact Ha].
Qed.

Lemma ksort_ksorted : forall l, ksorted (ksort l).
Proof. induction l; cbn; [exact I|]. now apply kinsert_ksorted. Qed.

Lemma kinsert_head : forall x s, Forall (fun y => h_key x <= h_key y) s -> kinsert x s = x :: s.
Proof.
  intros x [|a s] H; cbn [kinsert]; [reflexivity|]. inversion H; subst.
  destruct (N.leb_spec (h_key x) (h_key a)); [reflexivity|lia].
Qed.

Lemma iinsert_perm : forall x s, Permutation (x :: s) (iinsert x s).
Proof.
  intros x s. induction s as [|a s IH]; cbn [iinsert]; [apply Permutation_refl|].
  destruct (h_ikey x <=? h_ikey a); [apply Permutation_refl|].
  eapply perm_trans; [apply perm_swap|]. now apply perm_skip.
Qed.

Lemma isort_perm : forall l, Permutation l (isort l).
Proof.
  induction l as [|a l IH]; cbn; [constructor|].
  eapply perm_trans; [|apply iinsert_perm]. now apply perm_skip.
Qed.

Lemma iinsert_isorted : forall x s, isorted s -> isorted (iinsert x s).
Proof.
  intros x s. induction s as [|a s IH]; cbn [iinsert isorted]; intros H.
  - split; [constructor|exact I].
  - destruct H as [Ha Hs]. destruct (N.leb_spec (h_ikey x) (h_ikey a)) as [Hxa|Hxa]; cbn [isorted].
    + split; [|split; assumption]. constructor; [exact Hxa|].
      eapply Forall_impl; [|exact Ha]. cbn. intros; lia.
    + split; [|apply IH; exact Hs].
      eapply Permutation_Forall; [apply iinsert_perm|]. constructor; [lia|exact Ha].
Qed.

Lemma isort_isorted : forall l, isorted (isort l).
Proof. induction l; cbn; [exact I|]. now apply iinsert_isorted. Qed.

(* ------------------------------------------------------------------ groups in order of appearance *)

Lemma memN_true : forall x l, memN x l = true <-> In x l.
Proof.
  intros x l. unfold memN. rewrite existsb_exists. split.
  - intros (y & Hy & E). apply N.eqb_eq in E. now subst.
  - intros H. exists x. split; [exact H|apply N.eqb_refl].
Qed.

Lemma memN_false : forall x l, memN x l = false <-> ~ In x l.
Proof.
  intros x l. rewrite <- memN_true. destruct (memN x l); split; intros; try congruence; tauto.
Qed.

Lemma fg_notin_seen : forall hs seen g, In g (first_groups hs seen) -> ~ In g seen.
Proof.
  induction hs as [|h t IH]; intros seen g H; [destruct H|].
  cbn [first_groups] in H. destruct (grp_of h) as [g0|].
  - destruct (memN g0 seen) eqn:M.
    + now apply IH.
    + destruct H as [E|H].
      * subst. now apply memN_false.
      * intros Hs. apply (IH (g0 :: seen) g H). now right.
  - now apply IH.
Qed.

Lemma fg_nodup : forall hs seen, NoDup (first_groups hs seen).
Proof.
  induction hs as [|h t IH]; intros seen; cbn [first_groups]; [constructor|].
  destruct (grp_of h) as [g0|]; [|apply IH].
  destruct (memN g0 seen); [apply IH|].
  constructor; [|apply IH]. intros H. apply (fg_notin_seen t (g0 :: seen) g0 H). now left.
Qed.

Lemma fg_has_member : forall hs seen g, In g (first_groups hs seen) ->
  exists h, In h hs /\ grp_of h = Some g.
Proof.
  induction hs as [|h t IH]; intros seen g H; [destruct H|].
  cbn [first_groups] in H. destruct (grp_of h) as [g0|] eqn:G.
  - destruct (memN g0 seen).
    + destruct (IH seen g H) as (x & Hx & Ex). exists x. split; [now right|exact Ex].
    + destruct H as [E|H].
      * subst. exists h. split; [now left|exact G].
      * destruct (IH (g0 :: seen) g H) as (x & Hx & Ex). exists x. split; [now right|exact Ex].
  - destruct (IH seen g H) as (x & Hx & Ex). exists x. split; [now right|exact Ex].
Qed.

Lemma in_group_iff : forall g h, in_group g h = true <-> grp_of h = Some g.
Proof.
  intros g h. unfold in_group. destruct (grp_of h) as [g'|]; split; intros H; try discriminate.
  - apply N.eqb_eq in H. now subst.
  - inversion H. apply N.eqb_refl.
Qed.

Lemma members_in : forall g hs h, In h (members g hs) <-> In h hs /\ grp_of h = Some g.
Proof. intros. unfold members. rewrite filter_In, in_group_iff. tauto. Qed.

(* ------------------------------------------------------------------ one group *)

Lemma group_out_spec : forall cfg g hs p, In p (group_out cfg g hs) ->
  exists rest, ksort (members g hs) = fst p :: rest
    /\ snd p = match cfg with
               | None => []
               | Some c => window (i_from c) (i_size c) (if i_same c then rest else isort rest)
               end.
Proof.
  intros cfg g hs p H. unfold group_out in H.
  destruct (ksort (members g hs)) as [|top rest]; [destruct H|].
  destruct H as [E|[]]. subst p. exists rest. split; reflexivity.
Qed.

Lemma group_out_nonempty : forall cfg g hs, members g hs <> [] -> exists p, group_out cfg g hs = [p].
Proof.
  intros cfg g hs H. unfold group_out.
  destruct (ksort (members g hs)) as [|top rest] eqn:E.
  - exfalso. apply H. apply Permutation_nil. rewrite <- E. apply Permutation_sym, ksort_perm.
  - eexists. reflexivity.
Qed.

Lemma collapse_ok : forall cfg hs gs, collapse cfg hs = Ok gs ->
  gs = flat_map (fun g => group_out cfg g hs) (first_groups hs []).
Proof. intros cfg hs gs H. unfold collapse in H. destruct (existsb is_multi hs); congruence. Qed.

(** each representative is a candidate with a collapse value, and no candidate of the same group
    ranks before it *)
Theorem rep_is_best_of_candidates : forall cfg hs gs top inner,
  collapse cfg hs = Ok gs -> In (top, inner) gs ->
  In top hs /\ exists g, grp_of top = Some g /\
    forall h, In h hs -> grp_of h = Some g -> h_key top <= h_key h.
Proof.
  intros cfg hs gs top inner Hc Hin. apply collapse_ok in Hc. subst gs.
  apply in_flat_map in Hin as (g & Hg & Hp).
  apply group_out_spec in Hp as (rest & Hs & _). cbn [fst] in Hs.
  assert (Hperm : Permutation (members g hs) (top :: rest)) by (rewrite <- Hs; apply ksort_perm).
  assert (Htop : In top (members g hs)) by (eapply Permutation_in; [apply Permutation_sym, Hperm|now left]).
  apply members_in in Htop as [Hth Htg]. split; [exact Hth|]. exists g. split; [exact Htg|].
  intros h Hh Hgh.
  assert (Hm : In h (top :: rest)) by (eapply Permutation_in; [exact Hperm|apply members_in; tauto]).
  pose proof (ksort_ksorted (members g hs)) as Hk. rewrite Hs in Hk. destruct Hk as [Hf _].
  destruct Hm as [E|Hm]; [subst; lia|]. rewrite Forall_forall in Hf. now apply Hf.
Qed.

(** inner hits: the other candidates of the group, under the inner order, windowed *)
Theorem inner_hits_spec : forall cfg hs gs top inner,
  collapse cfg hs = Ok gs -> In (top, inner) gs ->
  exists g rest, grp_of top = Some g
    /\ Permutation (top :: rest) (members g hs)
    /\ inner = match cfg with
               | None => []
               | Some c => window (i_from c) (i_size c) (if i_same c then rest else isort rest)
               end
    /\ ksorted (top :: rest) /\ isorted (isort rest) /\ Permutation rest (isort rest).
Proof.
  intros cfg hs gs top inner Hc Hin.
  destruct (rep_is_best_of_candidates cfg hs gs top inner Hc Hin) as (_ & g0 & Hg0 & _).
  apply collapse_ok in Hc. subst gs.
  apply in_flat_map in Hin as (g & Hg & Hp).
  apply group_out_spec in Hp as (rest & Hs & Hi). cbn [fst snd] in Hs, Hi.
  exists g, rest.
  assert (Hperm : Permutation (members g hs) (top :: rest)) by (rewrite <- Hs; apply ksort_perm).
  assert (Htop : In top (members g hs)) by (eapply Permutation_in; [apply Permutation_sym, Hperm|now left]).
  apply members_in in Htop as [_ Htg].
  repeat split; try assumption.
  - now apply Permutation_sym.
  - pose proof (ksort_ksorted (members g hs)) as Hk. rewrite Hs in Hk. exact (proj1 Hk).
  - pose proof (ksort_ksorted (members g hs)) as Hk. rewrite Hs in Hk. exact (proj2 Hk).
  - apply isort_isorted.
  - apply isort_perm.
Qed.

(** the window is a contiguous part of the list it is taken from *)
Lemma window_incl : forall from size l x, In x (window from size l) -> In x l.
Proof.
  intros from size l x H. unfold window in H.
  assert (Hs : In x (skipn from l)).
  { destruct size as [s|]; [|exact H].
    rewrite <- (firstn_skipn s (skipn from l)). apply in_or_app. now left. }
  rewrite <- (firstn_skipn from l). apply in_or_app. now right.
Qed.

Lemma window_length : forall from s l, (length (window from (Some s) l) <= s)%nat.
Proof. intros. unfold window. rewrite firstn_length. lia. Qed.

(* ------------------------------------------------------------------ at most one hit per value *)

Lemma reps_groups : forall cfg hs l,
  (forall g, In g l -> members g hs <> []) ->
  map (fun p => grp_of (fst p)) (flat_map (fun g => group_out cfg g hs) l) = map Some l.
Proof.
  intros cfg hs l. induction l as [|g l IH]; intros H; [reflexivity|].
  cbn [flat_map map]. rewrite map_app, IH by (intros; apply H; now right). f_equal.
  destruct (group_out_nonempty cfg g hs (H g (or_introl eq_refl))) as (p & Ep).
  assert (Hin : In p (group_out cfg g hs)) by (rewrite Ep; now left).
  apply group_out_spec in Hin as (rest & Hs & _). rewrite Ep. cbn [map app]. f_equal.
  assert (Htop : In (fst p) (members g hs)).
  { eapply Permutation_in; [apply Permutation_sym, ksort_perm|]. rewrite Hs. now left. }
  now apply members_in in Htop.
Qed.

Lemma fg_members_nonempty : forall hs seen g, In g (first_groups hs seen) -> members g hs <> [].
Proof.
  intros hs seen g H. destruct (fg_has_member hs seen g H) as (h & Hh & Eg).
  intros E. assert (Hm : In h (members g hs)) by (apply members_in; tauto).
  rewrite E in Hm. destruct Hm.
Qed.

Theorem one_hit_per_value : forall cfg hs gs, collapse cfg hs = Ok gs ->
  NoDup (map (fun p => grp_of (fst p)) gs)
  /\ Forall (fun p => grp_of (fst p) <> None) gs.
Proof.
  intros cfg hs gs Hc. pose proof Hc as Hc'. apply collapse_ok in Hc. subst gs. split.
  - rewrite reps_groups by (intros g Hg; eapply fg_members_nonempty; exact Hg).
    apply FinFun.Injective_map_NoDup; [intros x y E; now inversion E|apply fg_nodup].
  - rewrite Forall_forall. intros [top inner] Hin.
    destruct (rep_is_best_of_candidates cfg hs _ top inner Hc' Hin) as (_ & g & Hg & _).
    cbn [fst]. congruence.
Qed.

(* ------------------------------------------------------------------ groups in order of best hits *)

Lemma flat_map_ext_in' {A B} : forall (f g : A -> list B) l,
  (forall x, In x l -> f x = g x) -> flat_map f l = flat_map g l.
Proof.
  intros f g l H. induction l as [|a l IH]; [reflexivity|]. cbn [flat_map].
  rewrite H by now left. rewrite IH by (intros; apply H; now right). reflexivity.
Qed.

Lemma members_cons_other : forall g h t, grp_of h <> Some g -> members g (h :: t) = members g t.
Proof.
  intros g h t H. unfold members. cbn [filter].
  destruct (in_group g h) eqn:E; [|reflexivity]. apply in_group_iff in E. contradiction.
Qed.

Lemma group_out_cons_other : forall cfg g h t, grp_of h <> Some g ->
  group_out cfg g (h :: t) = group_out cfg g t.
Proof. intros. unfold group_out. now rewrite members_cons_other. Qed.

Lemma reps_ordered_gen : forall cfg hs seen, kstrict hs ->
  let R := map fst (flat_map (fun g => group_out cfg g hs) (first_groups hs seen)) in
  Forall (fun r => In r hs) R /\ kstrict R.
Proof.
  intros cfg hs. induction hs as [|h t IH]; intros seen Hs; cbv zeta; [split; [constructor|exact I]|].
  destruct Hs as [Hh Ht]. cbn [first_groups].
  assert (Hother : forall seen' , (forall g, In g (first_groups t seen') -> grp_of h <> Some g) ->
            flat_map (fun g => group_out cfg g (h :: t)) (first_groups t seen')
            = flat_map (fun g => group_out cfg g t) (first_groups t seen')).
  { intros seen' H. apply flat_map_ext_in'. intros g Hg. apply group_out_cons_other. now apply H. }
  destruct (grp_of h) as [g0|] eqn:G.
  - destruct (memN g0 seen) eqn:M.
    + rewrite Hother.
      * destruct (IH seen Ht) as [Hin Hk]. split; [|exact Hk].
        eapply Forall_impl; [|exact Hin]. cbn. intros; now right.
      * intros g Hg E. assert (E' : g0 = g) by congruence. subst g.
        apply (fg_notin_seen t seen g0 Hg). now apply memN_true.
    + cbn [flat_map]. rewrite Hother.
      * destruct (IH (g0 :: seen) Ht) as [Hin Hk].
        assert (Hgo : group_out cfg g0 (h :: t) =
                      [(h, match cfg with
                           | None => []
                           | Some c => window (i_from c) (i_size c)
                                         (if i_same c then ksort (members g0 t) else isort (ksort (members g0 t)))
                           end)]).
        { unfold group_out, members. cbn [filter].
          assert (E : in_group g0 h = true) by now apply in_group_iff.
          rewrite E. change (ksort (h :: filter (in_group g0) t)) with (kinsert h (ksort (filter (in_group g0) t))).
          rewrite kinsert_head; [reflexivity|].
          eapply Permutation_Forall; [apply ksort_perm|].
          rewrite Forall_forall in *. intros y Hy. apply filter_In in Hy as [Hy _].
          specialize (Hh y Hy). lia. }
        rewrite Hgo. cbn [app map fst]. split.
        -- constructor; [now left|]. eapply Forall_impl; [|exact Hin]. cbn. intros; now right.
        -- cbn [kstrict]. split; [|exact Hk].
           rewrite Forall_forall in *. intros y Hy. apply Hh. now apply Hin.
      * intros g Hg E. assert (E' : g0 = g) by congruence. subst g.
        apply (fg_notin_seen t (g0 :: seen) g0 Hg). now left.
  - rewrite Hother.
    + destruct (IH seen Ht) as [Hin Hk]. split; [|exact Hk].
      eapply Forall_impl; [|exact Hin]. cbn. intros; now right.
    + intros g Hg E. discriminate.
Qed.

Theorem groups_in_order_of_best : forall cfg hs gs, kstrict hs -> collapse cfg hs = Ok gs ->
  kstrict (map fst gs).
Proof.
  intros cfg hs gs Hs Hc. apply collapse_ok in Hc. subst gs.
  exact (proj2 (reps_ordered_gen cfg hs [] Hs)).
Qed.

(* ------------------------------------------------------------------ covering candidates *)

(** when the candidates contain, for every group they touch, a best-ranked matching document of
    that group, the representative is best-ranked among all matches *)
Theorem collapse_covering : forall cfg all hs gs top inner,
  (forall h, In h hs -> In h all) ->
  (forall g, (exists h, In h hs /\ grp_of h = Some g) ->
     exists b, In b hs /\ grp_of b = Some g /\ forall x, In x all -> grp_of x = Some g -> h_key b <= h_key x) ->
  collapse cfg hs = Ok gs -> In (top, inner) gs ->
  exists g, grp_of top = Some g /\ forall x, In x all -> grp_of x = Some g -> h_key top <= h_key x.
Proof.
  intros cfg all hs gs top inner Hsub Hcov Hc Hin.
  destruct (rep_is_best_of_candidates cfg hs gs top inner Hc Hin) as (Hth & g & Hg & Hbest).
  exists g. split; [exact Hg|]. intros x Hx Hgx.
  destruct (Hcov g) as (b & Hb & Hgb & Hmin); [exists top; tauto|].
  specialize (Hbest b Hb Hgb). specialize (Hmin x Hx Hgx). lia.
Qed.

(** ... and when they do not, it need not be: two segments, limit 2 (top_k = 3 per segment).
    all matches: d0 d1 d2 (group 0), d3 (group 1) in segment 0; d4 (group 1) in segment 1;
    candidates: d0 d1 d2 | d4 — d3, the best of group 1, is cut *)
Definition wit_all : list hit :=
  [ {| h_id := 0; h_key := 0; h_grp := GOne 0; h_ikey := 0 |};
    {| h_id := 1; h_key := 1; h_grp := GOne 0; h_ikey := 1 |};
    {| h_id := 2; h_key := 2; h_grp := GOne 0; h_ikey := 2 |};
    {| h_id := 3; h_key := 3; h_grp := GOne 1; h_ikey := 3 |};
    {| h_id := 4; h_key := 4; h_grp := GOne 1; h_ikey := 4 |} ].
Definition wit_ranked : list hit :=
  [ {| h_id := 0; h_key := 0; h_grp := GOne 0; h_ikey := 0 |};
    {| h_id := 1; h_key := 1; h_grp := GOne 0; h_ikey := 1 |};
    {| h_id := 2; h_key := 2; h_grp := GOne 0; h_ikey := 2 |};
    {| h_id := 4; h_key := 4; h_grp := GOne 1; h_ikey := 4 |} ].

Theorem best_of_all_refuted :
  respond None 2 wit_ranked
    = Ok (2, [ ({| h_id := 0; h_key := 0; h_grp := GOne 0; h_ikey := 0 |}, []);
               ({| h_id := 4; h_key := 4; h_grp := GOne 1; h_ikey := 4 |}, []) ])
  /\ best_in wit_all {| h_id := 4; h_key := 4; h_grp := GOne 1; h_ikey := 4 |} = false
  /\ covering {| full := wit_all; ranked := wit_ranked; cfg := None; isize_bound := None; limit := 2;
                 o_err := false; o_total_groups := 2; o_hits := [] |} = false.
Proof. repeat split; vm_compute; reflexivity. Qed.

(** several values of the collapse field on a candidate: the request is an error *)
Theorem multi_valued_is_error : forall cfg hs h, In h hs -> h_grp h = GMulti -> collapse cfg hs = Err.
Proof.
  intros cfg hs h Hin Hm. unfold collapse.
  assert (E : existsb is_multi hs = true).
  { apply existsb_exists. exists h. split; [exact Hin|]. unfold is_multi. now rewrite Hm. }
  now rewrite E.
Qed.
