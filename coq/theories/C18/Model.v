(** C18 — collapse: model of [IndexReader::collapse_hits], [collapse_value], [resort_hits] and of
    what [search] does with the groups (searchlite-core/src/api/reader.rs).  Definitions only.

    A hit carries its interned id, its main sort key (rank in the uncollapsed big request), the
    value of the collapse field (missing / one interned value / several values) and its key under
    the inner-hits sort plan (rank in a big request sorted by that plan). *)
From Coq Require Import List NArith Bool Arith.
From SL Require Import Base.Tie.
Import ListNotations.
Open Scope N_scope.

Inductive gval := GMissing | GOne (g : N) | GMulti.

Record hit := { h_id : N; h_key : N; h_grp : gval; h_ikey : N }.

Definition grp_of (h : hit) : option N := match h_grp h with GOne g => Some g | _ => None end.
Definition is_multi (h : hit) : bool := match h_grp h with GMulti => true | _ => false end.
Definition in_group (g : N) (h : hit) : bool := match grp_of h with Some g' => g' =? g | None => false end.

Definition memN (x : N) (l : list N) : bool := existsb (N.eqb x) l.

(** [order]: collapse values in order of first appearance; hits without a value are skipped *)
Fixpoint first_groups (hs : list hit) (seen : list N) : list N :=
  match hs with
  | [] => []
  | h :: t =>
      match grp_of h with
      | Some g => if memN g seen then first_groups t seen else g :: first_groups t (g :: seen)
      | None => first_groups t seen
      end
  end.

Definition members (g : N) (hs : list hit) : list hit := filter (in_group g) hs.

(** stable sorts by the main key and by the inner key *)
Fixpoint kinsert (x : hit) (s : list hit) : list hit :=
  match s with
  | [] => [x]
  | y :: s' => if h_key x <=? h_key y then x :: s else y :: kinsert x s'
  end.
Definition ksort (l : list hit) : list hit := fold_right kinsert [] l.

Fixpoint iinsert (x : hit) (s : list hit) : list hit :=
  match s with
  | [] => [x]
  | y :: s' => if h_ikey x <=? h_ikey y then x :: s else y :: iinsert x s'
  end.
Definition isort (l : list hit) : list hit := fold_right iinsert [] l.

(** inner_hits configuration: from, size (None = unlimited), and whether the inner plan's hash
    equals the main plan's (then no re-sort) *)
Record icfg := { i_from : nat; i_size : option nat; i_same : bool }.

(** [drain(0..from)] / clear, then [truncate(size)] / clear *)
Definition window (from : nat) (size : option nat) (l : list hit) : list hit :=
  let l' := skipn from l in
  match size with None => l' | Some s => firstn s l' end.

Definition group_out (cfg : option icfg) (g : N) (hs : list hit) : list (hit * list hit) :=
  match ksort (members g hs) with
  | [] => []
  | top :: rest =>
      [(top, match cfg with
             | None => []
             | Some c => window (i_from c) (i_size c) (if i_same c then rest else isort rest)
             end)]
  end.

Inductive res (A : Type) := Ok (a : A) | Err.
Arguments Ok {A} a.
Arguments Err {A}.

(** collapse_hits: a hit with several values of the collapse field is an error *)
Definition collapse (cfg : option icfg) (hs : list hit) : res (list (hit * list hit)) :=
  if existsb is_multi hs then Err
  else Ok (flat_map (fun g => group_out cfg g hs) (first_groups hs [])).

(** search: total_groups = number of groups, the page = the first [limit] groups *)
Definition respond (cfg : option icfg) (limit : nat) (hs : list hit) : res (N * list (hit * list hit)) :=
  match collapse cfg hs with
  | Err => Err
  | Ok gs => Ok (N.of_nat (length gs), firstn limit gs)
  end.

(* ------------------------------------------------------------------ the tie *)

Record ohit := { o_id : N; o_inner : list N }.

Record case := {
  full : list hit;          (* all matching documents, in the order of the uncollapsed big request *)
  ranked : list hit;        (* the ranked candidates (a sub-list of [full]) *)
  cfg : option icfg;
  isize_bound : option N;   (* inner_hits.size when given *)
  limit : N;
  o_err : bool;
  o_total_groups : N;
  o_hits : list ohit
}.

Fixpoint find_hit (id : N) (l : list hit) : option hit :=
  match l with
  | [] => None
  | h :: t => if h_id h =? id then Some h else find_hit id t
  end.

Fixpoint nodupb (l : list N) : bool :=
  match l with [] => true | x :: t => negb (memN x t) && nodupb t end.

Fixpoint increasing (l : list N) : bool :=
  match l with
  | a :: ((b :: _) as t) => (a <? b) && increasing t
  | _ => true
  end.

Fixpoint nondecreasing (l : list N) : bool :=
  match l with
  | a :: ((b :: _) as t) => (a <=? b) && nondecreasing t
  | _ => true
  end.

Definition opt_all {A} (f : A -> bool) (o : option A) : bool :=
  match o with Some a => f a | None => false end.

(** best-ranked matching document of group [g] among all matches: nobody in [full] with the same
    value has a smaller main key *)
Definition best_in (l : list hit) (h : hit) : bool :=
  match grp_of h with
  | Some g => forallb (fun x => negb (in_group g x) || (h_key h <=? h_key x)) l
  | None => false
  end.

(** Executable specification, from the property text (single-valued collapse field: the spec only
    speaks about responses that are not errors):
      - at most one hit per field value;
      - each returned hit is the best-ranked matching document of its group;
      - groups appear in the order of their best hits;
      - inner hits: other members of the same group only, no repetition, ordered by the inner
        sort, at most [size] of them. *)
Definition spec_hit (c : case) (o : ohit) : bool :=
  opt_all (fun h =>
    best_in (full c) h
    && nodupb (o_inner o)
    && negb (memN (o_id o) (o_inner o))
    && forallb (fun i => opt_all (fun x => match grp_of h, grp_of x with
                                            | Some g, Some g' => g =? g'
                                            | _, _ => false
                                            end) (find_hit i (full c))) (o_inner o)
    && (match cfg c with
        | Some _ => nondecreasing (map (fun i => match find_hit i (full c) with Some x => h_ikey x | None => 0 end) (o_inner o))
        | None => match o_inner o with [] => true | _ => false end
        end)
    && (match isize_bound c with Some s => N.of_nat (length (o_inner o)) <=? s | None => true end))
  (find_hit (o_id o) (full c)).

Definition spec (c : case) : bool :=
  if o_err c then true
  else
    let hs := map (fun o => find_hit (o_id o) (full c)) (o_hits c) in
    forallb (fun x => match x with Some _ => true | None => false end) hs
    && nodupb (flat_map (fun x => match x with Some h => match grp_of h with Some g => [g] | None => [] end | None => [] end) hs)
    && increasing (flat_map (fun x => match x with Some h => [h_key h] | None => [] end) hs)
    && forallb (spec_hit c) (o_hits c).

Fixpoint list_eqb {A B} (eqb : A -> B -> bool) (a : list A) (b : list B) : bool :=
  match a, b with
  | [], [] => true
  | x :: a', y :: b' => eqb x y && list_eqb eqb a' b'
  | _, _ => false
  end.

Definition group_eqb (m : hit * list hit) (o : ohit) : bool :=
  (h_id (fst m) =? o_id o) && list_eqb (fun x i => h_id x =? i) (snd m) (o_inner o).

Definition corr (c : case) : bool :=
  match respond (cfg c) (N.to_nat (limit c)) (ranked c) with
  | Err => o_err c
  | Ok (tg, gs) => negb (o_err c) && (tg =? o_total_groups c) && list_eqb group_eqb gs (o_hits c)
  end.

(** Known class 1: the ranked candidates do not contain the best hit of some group they touch
    (the candidates are the first top_k hits overall, or of every segment; grouping happens after
    that cut), so a representative can be a group's second-best document. *)
Definition covering (c : case) : bool :=
  forallb (fun h => negb (best_in (full c) h) || opt_all (fun _ => true) (find_hit (h_id h) (ranked c))
                    || match grp_of h with
                       | Some g => negb (existsb (in_group g) (ranked c))
                       | None => true
                       end) (full c).

Definition known_class (c : case) : N := if covering c then 0 else 1.

Definition idsb (l : list hit) : bool := nodupb (map h_id l).

Definition wf (c : case) : bool :=
  idsb (full c) && increasing (map h_key (full c))
  && forallb (fun h => opt_all (fun x => (h_key x =? h_key h)) (find_hit (h_id h) (full c))) (ranked c)
  && increasing (map h_key (ranked c))
  && (0 <? limit c).

Definition check_case (c : case) : N :=
  if wf c then verdict (corr c) (spec c) (known_class c) else 2.
