(** C18 — the model's response satisfies the executable specification on well-formed, covering
    inputs. *)
From Coq Require Import List NArith Bool Arith Lia Permutation.
From SL Require Import Base.Tie C18.Model C18.Proofs.
Import ListNotations.
Open Scope N_scope.

Definition to_ohit (p : hit * list hit) : ohit :=
  {| o_id := h_id (fst p); o_inner := map h_id (snd p) |}.

Definition with_obs (c : case) (tg : N) (gs : list (hit * list hit)) : case :=
  {| full := full c; ranked := ranked c; cfg := cfg c; isize_bound := isize_bound c; limit := limit c;
     o_err := false; o_total_groups := tg; o_hits := map to_ohit gs |}.

(** well-formed harness input, as propositions *)
Record wf_input (c : case) : Prop := {
  wf_ids : NoDup (map h_id (full c));
  wf_sub : forall h, In h (ranked c) -> In h (full c);
  wf_strict : kstrict (ranked c);
  wf_cover : forall g, (exists h, In h (ranked c) /\ grp_of h = Some g) ->
     exists b, In b (ranked c) /\ grp_of b = Some g /\
       forall x, In x (full c) -> grp_of x = Some g -> h_key b <= h_key x;
  wf_size : isize_bound c = match cfg c with
                            | Some cf => option_map N.of_nat (i_size cf)
                            | None => None
                            end;
  wf_same : forall cf, cfg c = Some cf -> i_same cf = true ->
     forall h, In h (ranked c) -> h_ikey h = h_key h
}.

(* ------------------------------------------------------------------ small facts *)

Lemma id_inj : forall l a b, NoDup (map h_id l) -> In a l -> In b l -> h_id a = h_id b -> a = b.
Proof.
  induction l as [|x l IH]; intros a b Hnd Ha Hb E; [destruct Ha|].
  cbn [map] in Hnd. inversion Hnd as [|? ? Hx Hnd']; subst.
  destruct Ha as [Ha|Ha], Hb as [Hb|Hb]; subst.
  - reflexivity.
  - exfalso. apply Hx. rewrite E. now apply in_map.
  - exfalso. apply Hx. rewrite <- E. now apply in_map.
  - now apply IH.
Qed.

Lemma find_hit_in : forall l h, NoDup (map h_id l) -> In h l -> find_hit (h_id h) l = Some h.
Proof.
  induction l as [|x l IH]; intros h Hnd Hin; [destruct Hin|].
  cbn [find_hit]. destruct (N.eqb_spec (h_id x) (h_id h)) as [E|E].
  - f_equal. eapply id_inj; [exact Hnd|now left|exact Hin|exact E].
  - destruct Hin as [Hin|Hin]; [subst; contradiction|].
    apply IH; [|exact Hin]. cbn [map] in Hnd. now inversion Hnd.
Qed.

Lemma kstrict_ids : forall all l, NoDup (map h_id all) -> (forall h, In h l -> In h all) ->
  kstrict l -> NoDup (map h_id l).
Proof.
  intros all l Hnd. induction l as [|h t IH]; intros Hsub Hs; cbn [map]; [constructor|].
  destruct Hs as [Hh Ht]. constructor.
  - intros Hin. apply in_map_iff in Hin as (x & Ex & Hx).
    assert (x = h) by (eapply id_inj; [exact Hnd|apply Hsub; now right|apply Hsub; now left|exact Ex]).
    subst x. rewrite Forall_forall in Hh. specialize (Hh h Hx). lia.
  - apply IH; [intros; apply Hsub; now right|exact Ht].
Qed.

Lemma NoDup_map_filter {A B} : forall (f : A -> B) p l, NoDup (map f l) -> NoDup (map f (filter p l)).
Proof.
  intros f p l. induction l as [|a l IH]; intros H; cbn [filter map]; [constructor|].
  cbn [map] in H. inversion H as [|? ? Ha Hl]; subst. destruct (p a); cbn [map]; [|now apply IH].
  constructor; [|now apply IH]. intros Hin. apply Ha.
  apply in_map_iff in Hin as (x & Ex & Hx). apply filter_In in Hx as [Hx _].
  rewrite <- Ex. now apply in_map.
Qed.

Lemma nodup_app_both {A} : forall (a b : list A), NoDup (a ++ b) -> NoDup a /\ NoDup b.
Proof.
  induction a as [|x a IH]; cbn; intros b H; [split; [constructor|exact H]|].
  inversion H as [|? ? Hx Hab]; subst. destruct (IH b Hab) as [Ha Hb]. split; [|exact Hb].
  constructor; [|exact Ha]. intros Hin. apply Hx. apply in_or_app. now left.
Qed.

Lemma in_firstn' {A} : forall k (s : list A) x, In x (firstn k s) -> In x s.
Proof. intros k s x H. rewrite <- (firstn_skipn k s). apply in_or_app. now left. Qed.

Lemma NoDup_map_window : forall from size l, NoDup (map h_id l) -> NoDup (map h_id (window from size l)).
Proof.
  intros from size l H. unfold window.
  assert (Hs : NoDup (map h_id (skipn from l))).
  { rewrite <- (firstn_skipn from l), map_app in H. now apply nodup_app_both in H. }
  destruct size as [s|]; [|exact Hs].
  rewrite <- (firstn_skipn s (skipn from l)), map_app in Hs. now apply nodup_app_both in Hs.
Qed.

Lemma nodupb_true : forall l, NoDup l -> nodupb l = true.
Proof.
  induction l as [|x l IH]; intros H; [reflexivity|]. inversion H; subst. cbn [nodupb].
  rewrite (proj2 (memN_false x l)) by assumption. cbn. now apply IH.
Qed.

Lemma isorted_app : forall a b, isorted (a ++ b) -> isorted a /\ isorted b.
Proof.
  induction a as [|h a IH]; cbn; intros b H; [tauto|].
  destruct H as [Hh H]. destruct (IH b H) as [Ha Hb]. rewrite Forall_app in Hh. tauto.
Qed.

Lemma isorted_window : forall from size l, isorted l -> isorted (window from size l).
Proof.
  intros from size l H. unfold window.
  assert (Hs : isorted (skipn from l)).
  { rewrite <- (firstn_skipn from l) in H. now apply isorted_app in H. }
  destruct size as [s|]; [|exact Hs].
  rewrite <- (firstn_skipn s (skipn from l)) in Hs. now apply isorted_app in Hs.
Qed.

Lemma isorted_nondecreasing : forall l, isorted l -> nondecreasing (map h_ikey l) = true.
Proof.
  induction l as [|a [|b t] IH]; intros H; try reflexivity.
  destruct H as [Ha Ht]. cbn [map nondecreasing]. apply andb_true_iff. split.
  - inversion Ha; subst. now apply N.leb_le.
  - now apply IH.
Qed.

Lemma kstrict_increasing : forall l, kstrict l -> increasing (map h_key l) = true.
Proof.
  induction l as [|a [|b t] IH]; intros H; try reflexivity.
  destruct H as [Ha Ht]. cbn [map increasing]. apply andb_true_iff. split.
  - inversion Ha; subst. now apply N.ltb_lt.
  - now apply IH.
Qed.

Lemma kstrict_app : forall a b, kstrict (a ++ b) -> kstrict a.
Proof.
  induction a as [|h a IH]; cbn; intros b H; [exact I|].
  destruct H as [Hh H]. rewrite Forall_app in Hh. split; [tauto|]. now apply (IH b).
Qed.

Lemma ksorted_same_isorted : forall l, (forall h, In h l -> h_ikey h = h_key h) -> ksorted l -> isorted l.
Proof.
  induction l as [|a l IH]; intros He H; [exact I|]. destruct H as [Ha Hl]. split.
  - rewrite Forall_forall in *. intros y Hy. rewrite (He a) by now left. rewrite (He y) by now right.
    now apply Ha.
  - apply IH; [intros; apply He; now right|exact Hl].
Qed.

(* ------------------------------------------------------------------ one returned group *)

Lemma spec_hit_ok : forall c tg gs top inner,
  wf_input c -> collapse (cfg c) (ranked c) = Ok gs -> In (top, inner) gs ->
  spec_hit (with_obs c tg []) (to_ohit (top, inner)) = true.
Proof.
  intros c tg gs top inner W Hc Hin.
  pose proof (kstrict_ids (full c) (ranked c) (wf_ids c W) (wf_sub c W) (wf_strict c W)) as Hrid.
  destruct (inner_hits_spec (cfg c) (ranked c) gs top inner Hc Hin)
    as (g & rest & Hg & Hperm & Hinner & Hks & His & Hip).
  destruct (rep_is_best_of_candidates (cfg c) (ranked c) gs top inner Hc Hin) as (Htr & _).
  destruct (collapse_covering (cfg c) (full c) (ranked c) gs top inner (wf_sub c W) (wf_cover c W) Hc Hin)
    as (g' & Hg' & Hbest).
  assert (g' = g) by congruence. subst g'.
  (* facts about the group's candidates *)
  assert (Hmem : forall x, In x (top :: rest) -> In x (ranked c) /\ grp_of x = Some g).
  { intros x Hx. apply members_in. eapply Permutation_in; [exact Hperm|exact Hx]. }
  assert (Hnd : NoDup (map h_id (top :: rest))).
  { eapply Permutation_NoDup; [apply Permutation_map, Permutation_sym, Hperm|].
    unfold members. now apply NoDup_map_filter. }
  cbn [map] in Hnd. apply NoDup_cons_iff in Hnd as [Htop_notin Hnd_rest].
  (* the list the window is taken from *)
  set (L := match cfg c with
            | Some cf => if i_same cf then rest else isort rest
            | None => rest
            end).
  assert (HLperm : Permutation rest L).
  { unfold L. destruct (cfg c) as [cf|]; [|apply Permutation_refl].
    destruct (i_same cf); [apply Permutation_refl|exact Hip]. }
  assert (Hinner_in : forall x, In x inner -> In x rest).
  { intros x Hx. rewrite Hinner in Hx. destruct (cfg c) as [cf|]; [|destruct Hx].
    apply window_incl in Hx. eapply Permutation_in; [apply Permutation_sym, HLperm|]. exact Hx. }
  assert (Hfind : forall x, In x (top :: rest) -> find_hit (h_id x) (full c) = Some x).
  { intros x Hx. apply find_hit_in; [exact (wf_ids c W)|]. apply (wf_sub c W). now apply Hmem. }
  unfold spec_hit. cbn [with_obs full cfg isize_bound to_ohit o_id o_inner fst snd].
  rewrite (Hfind top) by now left. cbn [opt_all].
  repeat (apply andb_true_iff; split).
  - (* best among all matches *)
    unfold best_in. rewrite Hg. apply forallb_forall. intros x Hx.
    destruct (in_group g x) eqn:E; [|reflexivity]. cbn [negb orb].
    apply N.leb_le. apply Hbest; [exact Hx|]. now apply in_group_iff.
  - (* no repetition among inner hits *)
    apply nodupb_true. rewrite Hinner. destruct (cfg c) as [cf|]; [|constructor].
    apply NoDup_map_window. eapply Permutation_NoDup; [apply Permutation_map; exact HLperm|exact Hnd_rest].
  - (* the representative is not an inner hit *)
    apply negb_true_iff, memN_false. intros Hm. apply Htop_notin.
    apply in_map_iff in Hm as (x & Ex & Hx). rewrite <- Ex. apply in_map. now apply Hinner_in.
  - (* inner hits belong to the same group *)
    apply forallb_forall. intros i Hi. apply in_map_iff in Hi as (x & <- & Hx).
    assert (Hxr : In x (top :: rest)) by (right; now apply Hinner_in).
    rewrite (Hfind x Hxr). cbn [opt_all]. rewrite Hg. rewrite (proj2 (Hmem x Hxr)). apply N.eqb_refl.
  - (* ordered by the inner sort *)
    destruct (cfg c) as [cf|] eqn:Ecfg.
    + rewrite map_map.
      rewrite (map_ext_in _ h_ikey).
      2:{ intros x Hx. rewrite (Hfind x) by (right; now apply Hinner_in). reflexivity. }
      apply isorted_nondecreasing. rewrite Hinner. apply isorted_window.
      destruct (i_same cf) eqn:Es; [|exact His].
      apply ksorted_same_isorted; [|exact (proj2 Hks)].
      intros h Hh. apply (wf_same c W cf Ecfg Es). apply Hmem. now right.
    + rewrite Hinner. reflexivity.
  - (* at most size of them *)
    rewrite (wf_size c W). destruct (cfg c) as [cf|]; [|reflexivity].
    destruct (i_size cf) as [s|]; [|reflexivity]. cbn [option_map].
    apply N.leb_le. rewrite map_length, Hinner.
    pose proof (window_length (i_from cf) s (if i_same cf then rest else isort rest)). lia.
Qed.

Lemma spec_hit_obs_irrelevant : forall c tg gs gs' o,
  spec_hit (with_obs c tg gs) o = spec_hit (with_obs c tg gs') o.
Proof. reflexivity. Qed.

(* ------------------------------------------------------------------ the whole response *)

Theorem model_meets_spec : forall c tg gs, wf_input c ->
  respond (cfg c) (N.to_nat (limit c)) (ranked c) = Ok (tg, gs) ->
  spec (with_obs c tg gs) = true.
Proof.
  intros c tg gs W Hr. unfold respond in Hr.
  destruct (collapse (cfg c) (ranked c)) as [GS|] eqn:Hc; [|discriminate].
  inversion Hr; subst tg gs. clear Hr.
  set (lim := N.to_nat (limit c)). set (gs := firstn lim GS).
  assert (Hsub : forall p, In p gs -> In p GS) by (intros p; apply in_firstn').
  assert (Hfind : map (fun o => find_hit (o_id o) (full c)) (map to_ohit gs) = map (fun p => Some (fst p)) gs).
  { rewrite map_map. apply map_ext_in. intros [top inner] Hp. cbn [to_ohit o_id fst].
    apply find_hit_in; [exact (wf_ids c W)|]. apply (wf_sub c W).
    now destruct (rep_is_best_of_candidates (cfg c) (ranked c) GS top inner Hc (Hsub _ Hp)). }
  unfold spec. cbn [with_obs o_err o_hits full].
  rewrite Hfind.
  repeat (apply andb_true_iff; split).
  - apply forallb_forall. intros x Hx. apply in_map_iff in Hx as (p & <- & _). reflexivity.
  - (* at most one hit per value *)
    destruct (one_hit_per_value (cfg c) (ranked c) GS Hc) as [Hnd Hsome].
    assert (Hnd' : NoDup (map (fun p : hit * list hit => grp_of (fst p)) gs)).
    { unfold gs. rewrite <- firstn_map.
      rewrite <- (firstn_skipn lim (map _ GS)) in Hnd. now apply nodup_app_both in Hnd. }
    apply nodupb_true.
    assert (E : map Some (flat_map (fun x : option hit =>
                   match x with
                   | Some h => match grp_of h with Some g => [g] | None => [] end
                   | None => []
                   end) (map (fun p : hit * list hit => Some (fst p)) gs))
                = map (fun p : hit * list hit => grp_of (fst p)) gs).
    { assert (Hs' : Forall (fun p : hit * list hit => grp_of (fst p) <> None) gs).
      { rewrite Forall_forall in *. intros p Hp. apply Hsome. now apply Hsub. }
      clear - Hs'. induction gs as [|p l IH]; [reflexivity|]. inversion Hs'; subst.
      cbn [map flat_map]. rewrite map_app, IH by assumption.
      destruct (grp_of (fst p)); [reflexivity|congruence]. }
    rewrite <- E in Hnd'. now apply NoDup_map_inv in Hnd'.
  - (* groups in order of their best hits *)
    assert (E : flat_map (fun x : option hit => match x with Some h => [h_key h] | None => [] end)
                  (map (fun p : hit * list hit => Some (fst p)) gs) = map h_key (map fst gs)).
    { clear. induction gs as [|p l IH]; [reflexivity|]. cbn [map flat_map app]. now rewrite IH. }
    rewrite E. apply kstrict_increasing.
    pose proof (groups_in_order_of_best (cfg c) (ranked c) GS (wf_strict c W) Hc) as Hk.
    unfold gs. rewrite <- firstn_map. rewrite <- (firstn_skipn lim (map fst GS)) in Hk.
    now apply kstrict_app in Hk.
  - apply forallb_forall. intros o Ho. apply in_map_iff in Ho as ([top inner] & <- & Hp).
    rewrite (spec_hit_obs_irrelevant c _ _ []).
    eapply spec_hit_ok; [exact W|exact Hc|now apply Hsub].
Qed.
