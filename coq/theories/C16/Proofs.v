(** C16 — totality (no [Panic]) of the modelled kernels. *)
From Coq Require Import List NArith Bool Lia ZifyBool Arith.
From SL Require Import Base.Tie C16.Model.
Import ListNotations.
Open Scope N_scope.

Arguments N.add : simpl never.
Arguments N.sub : simpl never.
Arguments N.mul : simpl never.
Arguments N.div : simpl never.
Arguments N.modulo : simpl never.
Arguments N.eqb : simpl never.
Arguments N.ltb : simpl never.
Arguments N.leb : simpl never.
Arguments N.min : simpl never.
Arguments N.max : simpl never.

(** * hex_decode *)

Lemma decode_chunks_total_n : forall n raw i,
  (length raw <= n)%nat -> decode_chunks false i raw <> Panic.
Proof.
  induction n as [|n IH]; intros raw i Hn.
  - destruct raw; [cbn; discriminate|cbn in Hn; lia].
  - destruct raw as [|c1 [|c2 rest]]; try (cbn; discriminate).
    cbn [decode_chunks]. destruct (utf8_ok2 c1 c2); [|discriminate].
    destruct (parse_u8_hex c1 c2); [|discriminate].
    assert (Hr : (length rest <= n)%nat) by (cbn [length] in Hn; lia).
    pose proof (IH rest (i + 1) Hr) as Hrest.
    destruct (decode_chunks false (i + 1) rest); try discriminate. congruence.
Qed.

Lemma hex_decode_total : forall raw, hex_decode raw <> Panic.
Proof.
  intros raw. unfold hex_decode, hex_decode_with.
  destruct (N.odd (nlen raw)); [discriminate|].
  eapply decode_chunks_total_n. apply le_n.
Qed.

(** * PaginationCursor::decode *)

Lemma set_nth_some : forall l i v, (i < length l)%nat ->
  exists r, set_nth l i v = Some r /\ length r = length l.
Proof.
  induction l as [|x l IH]; intros i v Hi; cbn [length] in Hi; [lia|].
  destruct i as [|i]; cbn [set_nth].
  - eexists; split; reflexivity.
  - destruct (IH i v ltac:(lia)) as (r & Hr & Hl). rewrite Hr.
    eexists; split; [reflexivity|]. cbn [length]. lia.
Qed.

Lemma fill_chunks_total_n : forall n raw bytes i,
  (length raw <= n)%nat ->
  (2 * N.to_nat i + length raw <= 2 * length bytes)%nat ->
  fill_chunks false bytes i raw <> Panic
  /\ forall bs, fill_chunks false bytes i raw = Ok bs -> length bs = length bytes.
Proof.
  induction n as [|n IH]; intros raw bytes i Hn Hb.
  - destruct raw; [|cbn in Hn; lia]. cbn. split; [discriminate|]. intros bs H. congruence.
  - destruct raw as [|c1 [|c2 rest]]; try (cbn; split; [discriminate|intros bs H; congruence]).
    cbn [fill_chunks]. cbn [length] in Hn, Hb.
    destruct (utf8_ok2 c1 c2); [|split; [discriminate|intros bs H; discriminate]].
    destruct (parse_u8_hex c1 c2) as [v|]; [|split; [discriminate|intros bs H; discriminate]].
    destruct (set_nth_some bytes (N.to_nat i) v ltac:(lia)) as (r & Hr & Hl). rewrite Hr.
    rewrite <- Hl. apply IH; lia.
Qed.

Lemma be32_at_ok : forall bytes a b, b = a + 4 -> a + 4 <= nlen bytes -> exists v, be32_at bytes a b = Ok v.
Proof.
  intros bytes a b -> H. unfold be32_at.
  replace (a <=? a + 4) with true by lia. replace (a + 4 <=? nlen bytes) with true by lia.
  cbn [andb]. replace (a + 4 - a) with 4 by lia.
  set (l := firstn (N.to_nat 4) (skipn (N.to_nat a) bytes)).
  assert (Hl : length l = 4%nat).
  { unfold l. rewrite firstn_length, skipn_length. unfold nlen in H. lia. }
  destruct l as [|b0 [|b1 [|b2 [|b3 [|b4 l]]]]]; cbn [length] in Hl; try lia.
  eexists. reflexivity.
Qed.

Lemma decode_total : forall raw, decode raw <> Panic.
Proof.
  intros raw. unfold decode, decode_with.
  destruct (negb (nlen raw =? 42)) eqn:Hlen; [discriminate|].
  assert (Hl : length raw = 42%nat) by (unfold nlen in Hlen; lia).
  pose proof (fill_chunks_total_n 42 raw (repeat 0 21) 0 ltac:(lia)
                ltac:(rewrite repeat_length; cbn; lia)) as [Hnp Hok].
  destruct (fill_chunks false (repeat 0 21) 0 raw) as [bytes| |] eqn:Hf; [|discriminate|congruence].
  specialize (Hok bytes eq_refl). rewrite repeat_length in Hok.
  destruct bytes as [|version rest]; [cbn in Hok; lia|].
  destruct (negb (version =? 1)); [discriminate|].
  assert (Hn : nlen (version :: rest) = 21) by (unfold nlen; rewrite Hok; reflexivity).
  destruct (be32_at_ok (version :: rest) 1 5 eq_refl ltac:(lia)) as (g & ->).
  destruct (be32_at_ok (version :: rest) 5 9 eq_refl ltac:(lia)) as (sb & ->).
  destruct (be32_at_ok (version :: rest) 9 13 eq_refl ltac:(lia)) as (so & ->).
  destruct (be32_at_ok (version :: rest) 13 17 eq_refl ltac:(lia)) as (d & ->).
  destruct (be32_at_ok (version :: rest) 17 21 eq_refl ltac:(lia)) as (r & ->).
  destruct (MAX_CURSOR_ADVANCE <? r); discriminate.
Qed.

(** the code before the fix panics on a valid UTF-8 string of 42 bytes: "a" + 20 x "é" + "a" *)
Definition prefix_witness : list N :=
  97 :: flat_map (fun _ => [195; 169]) (seq 0 20) ++ [97].

Lemma decode_prefix_panics : nlen prefix_witness = 42 /\ decode_prefix prefix_witness = Panic.
Proof. vm_compute. split; reflexivity. Qed.

Lemma hex_decode_prefix_panics : hex_decode_prefix [97; 195; 169; 97] = Panic.
Proof. vm_compute. reflexivity. Qed.

(** * hex_encode *)

Lemma hex_encode_total : forall bytes, Forall (fun b => b < 256) bytes -> exists r, hex_encode bytes = Ok r.
Proof.
  induction bytes as [|b rest IH]; intros H.
  - eexists; reflexivity.
  - inversion H as [|? ? Hb Hrest]; subst. destruct (IH Hrest) as (r & Hr).
    cbn [hex_encode]. rewrite Hr.
    assert (H1 : (N.to_nat (b / 16) < length HEX)%nat).
    { cbn [HEX length]. pose proof (N.div_lt_upper_bound b 16 16 ltac:(lia) ltac:(lia)). lia. }
    assert (H2 : (N.to_nat (b mod 16) < length HEX)%nat).
    { cbn [HEX length]. pose proof (N.mod_lt b 16 ltac:(lia)). lia. }
    apply nth_error_Some in H1. apply nth_error_Some in H2.
    destruct (nth_error HEX (N.to_nat (b / 16))); [|congruence].
    destruct (nth_error HEX (N.to_nat (b mod 16))); [|congruence].
    eexists; reflexivity.
Qed.

(** * sort-cursor path *)

Lemma decode_sort_cursor_total : forall raw parse generation plan_hash nfields,
  decode_sort_cursor raw parse generation plan_hash nfields <> Panic.
Proof.
  intros. unfold decode_sort_cursor.
  pose proof (hex_decode_total raw) as Hh.
  destruct (hex_decode raw) as [bytes| |]; [|discriminate|congruence].
  destruct (parse bytes) as [st|]; [|discriminate].
  repeat match goal with |- context [if ?c then _ else _] => destruct c; try discriminate end.
Qed.

(** * limit arithmetic *)

Lemma next_page_total : forall limit cursor_returned nhits,
  next_page limit cursor_returned nhits <> Panic.
Proof.
  intros. unfold next_page, checked_sub.
  destruct ((0 <? limit) && (limit <? nhits)) eqn:Hg; [|discriminate].
  replace (1 <=? limit) with true by lia.
  replace (limit - 1 <? nhits) with true by lia. discriminate.
Qed.

Lemma next_page_bound : forall limit cursor_returned nhits r,
  next_page limit cursor_returned nhits = Ok (Some r) -> r <= U32_MAX.
Proof.
  intros limit ret nhits r. unfold next_page, checked_sub.
  destruct ((0 <? limit) && (limit <? nhits)); [|discriminate].
  destruct (1 <=? limit); [|discriminate].
  destruct (limit - 1 <? nhits); [|discriminate].
  intros H. injection H as <-.
  destruct (sat_add ret limit <=? U32_MAX) eqn:Hc; lia.
Qed.

Lemma candidate_bounds : forall limit cand rh,
  base_candidate limit cand <= MAX_CANDIDATE_SIZE
  /\ top_k rh (base_candidate limit cand) <= MAX_CANDIDATE_SIZE + 1.
Proof.
  intros. unfold base_candidate, top_k, sat_add, MAX_CANDIDATE_SIZE, USIZE_MAX.
  split; [lia|]. destruct (negb rh || _); lia.
Qed.

(** * the model, seen as an observation, satisfies the executable specification *)
Definition obs_of_dec (m : outcome cursor_fields) : dec_obs :=
  match m with Ok f => DOk f | Err c k => DErr c k | Panic => DPanic end.
Definition obs_of_hex (m : outcome (list N)) : hex_obs :=
  match m with Ok f => HOk f | Err c k => HErr c k | Panic => HPanic end.

Lemma model_meets_spec : forall raw,
  spec (CCursor raw (obs_of_dec (decode raw)) (obs_of_hex (hex_decode raw))) = true.
Proof.
  intros raw. cbn [spec].
  pose proof (decode_total raw). pose proof (hex_decode_total raw).
  destruct (decode raw); destruct (hex_decode raw); cbn; congruence.
Qed.
