(** C16 — panic-outcome models of request-reachable partial operations in
    searchlite-core/src/api/reader.rs.  Definitions only; proofs are in Proofs.v.

    Every operation of the Rust code that can panic (slice/array indexing, [unwrap], checked
    arithmetic under overflow-checks) is written as an explicit [Panic] outcome guarded by the
    condition under which Rust panics; the totality theorems then show that no input reaches them.

    Modelled kernels (byte-exact where bytes are involved):
      - [hex_decode]                      (sort-cursor path, reader.rs)
      - [PaginationCursor::decode]        (score-cursor path) — and the code before the fix
      - [PaginationCursor::encode] / [hex_encode] (table lookups [HEX[b >> 4]])
      - [decode_cursor] sort path after the JSON parse (serde_json is an oracle)
      - limit / candidate / next-cursor arithmetic of [IndexReader::search]. *)

From Coq Require Import List NArith Bool.
From SL Require Import Base.Tie.
Import ListNotations.
Open Scope N_scope.

Inductive outcome (A : Type) : Type :=
| Ok (a : A)
| Err (class idx : N)      (* an error returned to the caller: class, byte index (0 if none) *)
| Panic.
Arguments Ok {A} a.
Arguments Err {A} class idx.
Arguments Panic {A}.

Definition E_LEN : N := 1.      (* "invalid cursor length" / "expected even-length hex string" *)
Definition E_UTF8 : N := 2.     (* "invalid cursor: non-hex data at byte index i" (after the fix) *)
Definition E_DIGIT : N := 3.    (* "decoding cursor at byte index i"                            *)
Definition E_VERSION : N := 4.  (* "unsupported cursor version"                                 *)
Definition E_ADVANCE : N := 5.  (* "cursor requests .. hits, which exceeds max supported"      *)
Definition E_JSON : N := 6.     (* "parsing sort cursor payload"                                *)
Definition E_STALE : N := 7.
Definition E_PLAN : N := 8.
Definition E_VALUES : N := 9.

Definition nlen {A} (l : list A) : N := N.of_nat (length l).

(** -- pieces of std ------------------------------------------------------------------------------ *)

(** [char::to_digit(16)] on one byte *)
Definition hexval (c : N) : option N :=
  if (48 <=? c) && (c <=? 57) then Some (c - 48)
  else if (97 <=? c) && (c <=? 102) then Some (c - 87)
  else if (65 <=? c) && (c <=? 70) then Some (c - 55)
  else None.

(** [std::str::from_utf8] on a 2-byte chunk: two ASCII bytes or one 2-byte character *)
Definition utf8_ok2 (c1 c2 : N) : bool :=
  ((c1 <? 128) && (c2 <? 128))
  || ((194 <=? c1) && (c1 <=? 223) && (128 <=? c2) && (c2 <=? 191)).

(** [u8::from_str_radix(s, 16)] on a 2-byte string: an optional leading '+', then hex digits
    (a lone sign, '-', non-digits are [InvalidDigit]; two hex digits never overflow a u8) *)
Definition parse_u8_hex (c1 c2 : N) : option N :=
  if c1 =? 43 then hexval c2
  else match hexval c1, hexval c2 with
       | Some a, Some b => Some (16 * a + b)
       | _, _ => None
       end.

(** -- hex_decode ---------------------------------------------------------------------------------
      if raw.len() & 1 != 0 { bail!(..) }
      for (i, chunk) in raw.as_bytes().chunks_exact(2).enumerate() {
        let hex = from_utf8(chunk).with_context(..)?;            // after the fix
        let value = u8::from_str_radix(hex, 16).with_context(..)?;
        bytes.push(value); }                                                                       *)
Fixpoint decode_chunks (utf8_unwrap : bool) (i : N) (raw : list N) : outcome (list N) :=
  match raw with
  | c1 :: c2 :: rest =>
      if utf8_ok2 c1 c2 then
        match parse_u8_hex c1 c2 with
        | Some v =>
            match decode_chunks utf8_unwrap (i + 1) rest with
            | Ok bs => Ok (v :: bs)
            | Err c k => Err c k
            | Panic => Panic
            end
        | None => Err E_DIGIT i
        end
      else if utf8_unwrap then Panic        (* from_utf8(chunk).unwrap() of the code before the fix *)
      else Err E_UTF8 i
  | _ => Ok []                             (* chunks_exact drops a trailing single byte *)
  end.

Definition hex_decode_with (utf8_unwrap : bool) (raw : list N) : outcome (list N) :=
  if N.odd (nlen raw) then Err E_LEN 0 else decode_chunks utf8_unwrap 0 raw.

Definition hex_decode := hex_decode_with false.
Definition hex_decode_prefix := hex_decode_with true.

(** -- PaginationCursor::decode -------------------------------------------------------------------
      if raw.len() != 42 { bail!(..) }
      let mut bytes = [0u8; 21];
      for (i, chunk) in raw.as_bytes().chunks_exact(2).enumerate() { ..; bytes[i] = value; }
      version check; u32::from_be_bytes(bytes[a..b].try_into().unwrap()) x5; returned check      *)

(** [bytes[i] = v]: panics when [i] is out of bounds *)
Fixpoint set_nth (l : list N) (i : nat) (v : N) : option (list N) :=
  match l, i with
  | [], _ => None
  | _ :: l', O => Some (v :: l')
  | x :: l', S i' => match set_nth l' i' v with Some r => Some (x :: r) | None => None end
  end.

Fixpoint fill_chunks (utf8_unwrap : bool) (bytes : list N) (i : N) (raw : list N) : outcome (list N) :=
  match raw with
  | c1 :: c2 :: rest =>
      if utf8_ok2 c1 c2 then
        match parse_u8_hex c1 c2 with
        | Some v =>
            match set_nth bytes (N.to_nat i) v with
            | Some bytes' => fill_chunks utf8_unwrap bytes' (i + 1) rest
            | None => Panic                 (* index out of bounds *)
            end
        | None => Err E_DIGIT i
        end
      else if utf8_unwrap then Panic
      else Err E_UTF8 i
  | _ => Ok bytes
  end.

(** [u32::from_be_bytes(bytes[a..b].try_into().unwrap())]: the slice panics when out of range, the
    [try_into().unwrap()] when the slice does not have 4 bytes *)
Definition be32_at (bytes : list N) (a b : N) : outcome N :=
  if (a <=? b) && (b <=? nlen bytes) then
    match firstn (N.to_nat (b - a)) (skipn (N.to_nat a) bytes) with
    | [b0; b1; b2; b3] => Ok (((b0 * 256 + b1) * 256 + b2) * 256 + b3)
    | _ => Panic
    end
  else Panic.

Definition MAX_CURSOR_ADVANCE : N := 50000.

Definition cursor_fields : Type := (N * N * N * N * N * N)%type.
  (* version, generation, score bits, segment ord, doc id, returned *)

Definition decode_with (utf8_unwrap : bool) (raw : list N) : outcome cursor_fields :=
  if negb (nlen raw =? 42) then Err E_LEN 0 else
  match fill_chunks utf8_unwrap (repeat 0 21) 0 raw with
  | Panic => Panic
  | Err c k => Err c k
  | Ok bytes =>
      match bytes with
      | [] => Panic                          (* bytes[0] *)
      | version :: _ =>
          if negb (version =? 1) then Err E_VERSION 0 else
          match be32_at bytes 1 5, be32_at bytes 5 9, be32_at bytes 9 13, be32_at bytes 13 17,
                be32_at bytes 17 21 with
          | Ok g, Ok sb, Ok so, Ok d, Ok r =>
              if MAX_CURSOR_ADVANCE <? r then Err E_ADVANCE 0
              else Ok (version, g, sb, so, d, r)
          | _, _, _, _, _ => Panic
          end
      end
  end.

Definition decode := decode_with false.
Definition decode_prefix := decode_with true.     (* the code before the fix *)

(** -- hex_encode / PaginationCursor::encode: [HEX[(byte >> 4) as usize]], [HEX[(byte & 0x0f)]] --- *)
Definition HEX : list N := [48;49;50;51;52;53;54;55;56;57;97;98;99;100;101;102].

Fixpoint hex_encode (bytes : list N) : outcome (list N) :=
  match bytes with
  | [] => Ok []
  | b :: rest =>
      match nth_error HEX (N.to_nat (b / 16)), nth_error HEX (N.to_nat (b mod 16)) with
      | Some h, Some l =>
          match hex_encode rest with
          | Ok r => Ok (h :: l :: r)
          | Err c k => Err c k
          | Panic => Panic
          end
      | _, _ => Panic                        (* index out of bounds *)
      end
  end.

(** -- decode_cursor, sort path: after [hex_decode], [serde_json::from_slice] (oracle: [parsed]),
       then the checks in order; [key_from_values] compares the number of values. ---------------- *)
Record sort_state := { s_version : N; s_generation : N; s_returned : N; s_plan_hash : N; s_nvalues : N }.

Definition decode_sort_cursor (raw : list N) (parse : list N -> option sort_state)
           (generation plan_hash nfields : N) : outcome N :=
  match hex_decode raw with
  | Panic => Panic
  | Err c k => Err c k
  | Ok bytes =>
      match parse bytes with
      | None => Err E_JSON 0
      | Some st =>
          if negb (s_version st =? 2) then Err E_VERSION 0
          else if negb (s_generation st =? generation) then Err E_STALE 0
          else if negb (s_plan_hash st =? plan_hash) then Err E_PLAN 0
          else if MAX_CURSOR_ADVANCE <? s_returned st then Err E_ADVANCE 0
          else if negb (s_nvalues st =? nfields) then Err E_VALUES 0
          else Ok (s_returned st)
      end
  end.

(** -- limit / candidate / next-cursor arithmetic of IndexReader::search (usize = 64 bits) --------
      base_candidate = candidate_size.unwrap_or(limit).max(limit).min(MAX_CANDIDATE_SIZE)
      top_k = if !return_hits || effective_limit == 0 { 0 } else { effective_limit.saturating_add(1) }
      if req.limit > 0 && hits.len() > req.limit {
        let last = &hits[req.limit - 1];
        let returned = cursor_returned.saturating_add(req.limit).try_into().unwrap_or(u32::MAX); .. } *)
Definition USIZE_MAX : N := 18446744073709551615.
Definition U32_MAX : N := 4294967295.
Definition MAX_CANDIDATE_SIZE : N := 20000.

Definition sat_add (a b : N) : N := N.min (a + b) USIZE_MAX.
(** [a - b] with overflow checks: panics on underflow *)
Definition checked_sub (a b : N) : outcome N := if b <=? a then Ok (a - b) else Panic.

Definition base_candidate (limit : N) (cand : option N) : N :=
  N.min (N.max (match cand with Some c => c | None => limit end) limit) MAX_CANDIDATE_SIZE.

Definition top_k (return_hits : bool) (effective_limit : N) : N :=
  if negb return_hits || (effective_limit =? 0) then 0 else sat_add effective_limit 1.

(** [Ok None]: no next cursor; [Ok (Some r)]: next cursor with [returned = r] *)
Definition next_page (limit cursor_returned nhits : N) : outcome (option N) :=
  if (0 <? limit) && (limit <? nhits) then
    match checked_sub limit 1 with
    | Ok idx =>
        if idx <? nhits then                       (* &hits[limit - 1] *)
          let s := sat_add cursor_returned limit in
          Ok (Some (if s <=? U32_MAX then s else U32_MAX))
        else Panic
    | _ => Panic
    end
  else Ok None.

(** -- the tie ------------------------------------------------------------------------------------- *)
Inductive dec_obs := DOk (f : cursor_fields) | DErr (class idx : N) | DPanic.
Inductive hex_obs := HOk (bytes : list N) | HErr (class idx : N) | HPanic.

Inductive c16_case :=
| CCursor (raw : list N) (d : dec_obs) (h : hex_obs)
    (* the real PaginationCursor::decode and hex_decode on one cursor string *)
| CLimit (limit : N) (cand : option N) (cursor_returned : N) (outcome_code : N) (next_returned : option N)
    (* a search with this limit / candidate_size and a cursor carrying [returned] *)
| CFuzz (outcome_code : N) (panic_class : N).
    (* one fuzzed search: 0 Ok, 1 Err, 2 Panic, 3 Hang; [panic_class] is 0, or the number of a listed
       finding (known_findings.jsonl) whose panic message the engine recognised *)

Definition list_eqb (a b : list N) : bool :=
  (Nat.eqb (length a) (length b)) && forallb (fun p => N.eqb (fst p) (snd p)) (combine a b).

Definition fields_eqb (a b : cursor_fields) : bool :=
  let '(a1, a2, a3, a4, a5, a6) := a in
  let '(b1, b2, b3, b4, b5, b6) := b in
  (a1 =? b1) && (a2 =? b2) && (a3 =? b3) && (a4 =? b4) && (a5 =? b5) && (a6 =? b6).

Definition dec_matches (m : outcome cursor_fields) (o : dec_obs) : bool :=
  match m, o with
  | Ok f, DOk g => fields_eqb f g
  | Err c k, DErr c' k' => (c =? c') && (k =? k')
  | Panic, DPanic => true
  | _, _ => false
  end.

Definition hex_matches (m : outcome (list N)) (o : hex_obs) : bool :=
  match m, o with
  | Ok f, HOk g => list_eqb f g
  | Err c k, HErr c' k' => (c =? c') && (k =? k')
  | Panic, HPanic => true
  | _, _ => false
  end.

(** Specification ("a search returns results or an error; it never panics, aborts or hangs"), read
    off the observation alone. *)
Definition spec (c : c16_case) : bool :=
  match c with
  | CCursor _ d h =>
      negb (match d with DPanic => true | _ => false end)
      && negb (match h with HPanic => true | _ => false end)
  | CLimit _ _ _ code _ => code <=? 1
  | CFuzz code _ => code <=? 1
  end.

Definition corr (c : c16_case) : bool :=
  match c with
  | CCursor raw d h => dec_matches (decode raw) d && hex_matches (hex_decode raw) h
  | CLimit limit cand ret code next =>
      match next with
      | Some r =>
          (* a next cursor was produced: more than [limit] hits were collected *)
          match next_page limit ret (limit + 1) with
          | Ok (Some r') => r =? r'
          | _ => false
          end
      | None => true
      end
  | CFuzz _ _ => true
  end.

(** known classes: only a panic (code 2) can belong to one *)
Definition known_class (c : c16_case) : N :=
  match c with
  | CFuzz code pc => if code =? 2 then pc else 0
  | _ => 0
  end.

Definition check_case (c : c16_case) : N := verdict (corr c) (spec c) (known_class c).
