(** Core/AList.v — lemmas about the association-list helpers of Core/Model.v. *)
From Coq Require Import List NArith Bool Lia Sorting.Sorted.
From SL Require Import Core.Model.
Import ListNotations.
Open Scope N_scope.

Lemma alookup_aremove {V} k k' (l : list (N * V)) :
  alookup k (aremove k' l) = if k =? k' then None else alookup k l.
Proof.
  induction l as [|[a v] l IH]; cbn.
  - now destruct (k =? k').
  - destruct (k' =? a) eqn:E1.
    + apply N.eqb_eq in E1; subst a. rewrite IH.
      destruct (k =? k') eqn:E2; reflexivity.
    + cbn. destruct (k =? a) eqn:E2.
      * apply N.eqb_eq in E2; subst a.
        destruct (k =? k') eqn:E3; [apply N.eqb_eq in E3; subst; rewrite N.eqb_refl in E1; discriminate | reflexivity].
      * exact IH.
Qed.

Lemma alookup_ainsert {V} k k' (v : V) l :
  alookup k (ainsert k' v l) = if k =? k' then Some v else alookup k l.
Proof.
  unfold ainsert; cbn. destruct (k =? k') eqn:E; [reflexivity|].
  rewrite alookup_aremove, E. reflexivity.
Qed.

Lemma alookup_In {V} k (v : V) l : alookup k l = Some v -> In (k, v) l.
Proof.
  induction l as [|[a w] l IH]; cbn; [discriminate|].
  destruct (k =? a) eqn:E.
  - intros H; inversion H; subst. apply N.eqb_eq in E; subst. now left.
  - intros H; right; auto.
Qed.

Lemma alookup_None_notin {V} k (l : list (N * V)) : alookup k l = None -> ~ In k (map fst l).
Proof.
  induction l as [|[a w] l IH]; cbn; [tauto|].
  destruct (k =? a) eqn:E; [discriminate|].
  intros H [H1|H1]; [subst; rewrite N.eqb_refl in E; discriminate | exact (IH H H1)].
Qed.

Lemma In_alookup_nodup {V} k (v : V) l :
  NoDup (map fst l) -> In (k, v) l -> alookup k l = Some v.
Proof.
  induction l as [|[a w] l IH]; cbn; [tauto|].
  intros Hnd [H|H].
  - inversion H; subst. now rewrite N.eqb_refl.
  - inversion Hnd as [|? ? Hn Hnd']; subst.
    destruct (k =? a) eqn:E.
    + apply N.eqb_eq in E; subst a. exfalso. apply Hn. apply in_map_iff. exists (k, v). split; auto.
    + auto.
Qed.

Lemma aremove_In {V} k (p : N * V) l : In p (aremove k l) -> In p l /\ fst p <> k.
Proof.
  induction l as [|[a w] l IH]; cbn; [tauto|].
  destruct (k =? a) eqn:E.
  - intros H. destruct (IH H). split; auto.
  - cbn. intros [H|H].
    + subst p. split; [now left|]. cbn. intros ->. rewrite N.eqb_refl in E. discriminate.
    + destruct (IH H). split; auto.
Qed.

Lemma In_aremove {V} k (p : N * V) l : In p l -> fst p <> k -> In p (aremove k l).
Proof.
  induction l as [|[a w] l IH]; cbn; [tauto|].
  intros [H|H] Hne.
  - subst p. cbn in Hne. destruct (k =? a) eqn:E; [apply N.eqb_eq in E; congruence | now left].
  - destruct (k =? a); [auto | right; auto].
Qed.

Lemma aremove_nodup {V} k (l : list (N * V)) : NoDup (map fst l) -> NoDup (map fst (aremove k l)).
Proof.
  induction l as [|[a w] l IH]; cbn; [auto|].
  intros H; inversion H as [|? ? Hn Hnd]; subst.
  destruct (k =? a); [auto|]. cbn. constructor; [|auto].
  intros Hin. apply Hn. apply in_map_iff in Hin as [p [Hp Hin]].
  apply aremove_In in Hin as [Hin _]. apply in_map_iff. exists p; auto.
Qed.

(** Sorted association lists (BTreeMap) *)
Definition keys_sorted (l : list (N * N)) : Prop := StronglySorted N.lt (map fst l).

Lemma alookup_bt_insert k k' v l :
  alookup k (bt_insert k' v l) = if k =? k' then Some v else alookup k l.
Proof.
  induction l as [|[a w] l IH]; cbn.
  - destruct (k =? k'); reflexivity.
  - destruct (k' <? a) eqn:E1; cbn.
    + destruct (k =? k'); reflexivity.
    + destruct (k' =? a) eqn:E2; cbn.
      * apply N.eqb_eq in E2; subst a. destruct (k =? k'); reflexivity.
      * destruct (k =? a) eqn:E3.
        -- apply N.eqb_eq in E3; subst a.
           destruct (k =? k') eqn:E4; [apply N.eqb_eq in E4; subst; rewrite N.eqb_refl in E2; discriminate|reflexivity].
        -- exact IH.
Qed.

Lemma bt_insert_keys k v l x : In x (map fst (bt_insert k v l)) -> x = k \/ In x (map fst l).
Proof.
  induction l as [|[a w] l IH]; cbn.
  - intros [H|[]]; auto.
  - destruct (k <? a); cbn.
    + intros [H|[H|H]]; auto.
    + destruct (k =? a) eqn:E; cbn.
      * intros [H|H]; auto.
      * intros [H|H]; auto. destruct (IH H); auto.
Qed.

Lemma bt_insert_sorted k v l : keys_sorted l -> keys_sorted (bt_insert k v l).
Proof.
  unfold keys_sorted. induction l as [|[a w] l IH]; cbn; intros H.
  - constructor; constructor.
  - inversion H as [|? ? Hs Hall]; subst.
    destruct (k <? a) eqn:E1; cbn.
    + apply N.ltb_lt in E1. constructor; [exact H|].
      constructor; [exact E1|]. eapply Forall_impl; [|exact Hall]. intros; lia.
    + destruct (k =? a) eqn:E2; cbn.
      * apply N.eqb_eq in E2; subst a. constructor; auto.
      * apply N.ltb_ge in E1. apply N.eqb_neq in E2.
        constructor; [auto|].
        apply Forall_forall. intros x Hx.
        apply bt_insert_keys in Hx as [->|Hx]; [lia|].
        rewrite Forall_forall in Hall. auto.
Qed.

Lemma aremove_keys_sub {V} k (l : list (N * V)) x : In x (map fst (aremove k l)) -> In x (map fst l).
Proof.
  intros H. apply in_map_iff in H as [p [<- Hp]]. apply aremove_In in Hp as [Hp _].
  apply in_map_iff. exists p; auto.
Qed.

Lemma aremove_sorted k l : keys_sorted l -> keys_sorted (aremove k l).
Proof.
  unfold keys_sorted. induction l as [|[a w] l IH]; cbn; intros H; [constructor|].
  inversion H as [|? ? Hs Hall]; subst.
  destruct (k =? a); [auto|]. cbn. constructor; [auto|].
  apply Forall_forall. intros x Hx. apply aremove_keys_sub in Hx.
  rewrite Forall_forall in Hall. auto.
Qed.

Lemma sorted_nodup (l : list N) : StronglySorted N.lt l -> NoDup l.
Proof.
  induction l as [|a l IH]; intros H; [constructor|].
  inversion H as [|? ? Hs Hall]; subst. constructor; [|auto].
  intros Hin. rewrite Forall_forall in Hall. specialize (Hall _ Hin). lia.
Qed.

Lemma memN_In x l : memN x l = true <-> In x l.
Proof.
  induction l as [|y l IH]; cbn; [split; [discriminate|tauto]|].
  rewrite orb_true_iff, IH, N.eqb_eq. split; intros [H|H]; auto.
Qed.

Lemma memN_app x a b : memN x (a ++ b) = memN x a || memN x b.
Proof. induction a as [|y a IH]; cbn; [reflexivity|]. now rewrite IH, orb_assoc. Qed.

Lemma In_keys_alookup {V} k (l : list (N * V)) : In k (map fst l) -> exists v, alookup k l = Some v.
Proof.
  induction l as [|[a w] l IH]; cbn; [tauto|].
  intros [H|H].
  - subst. rewrite N.eqb_refl. eauto.
  - destruct (k =? a); eauto.
Qed.
