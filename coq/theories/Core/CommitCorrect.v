(** Core/CommitCorrect.v — the main lemma about [commit_with]. *)
From Coq Require Import List NArith Bool Lia Sorting.Sorted.
From SL Require Import Core.Model Core.AList Core.Entries Core.Commit.
Import ListNotations.
Open Scope N_scope.

Lemma last_op_Some_In ops id : forall p, last_op ops id = Some p -> In id (map pop_id ops).
Proof.
  induction ops as [|q ops IH]; intros p; cbn; [discriminate|].
  destruct (last_op ops id) eqn:E.
  - intros _. right. eapply IH. reflexivity.
  - destruct (pop_id q =? id) eqn:E2; [|discriminate]. intros _. left. now apply N.eqb_eq.
Qed.

Lemma In_last_op_Some ops id : In id (map pop_id ops) -> exists p, last_op ops id = Some p.
Proof.
  induction ops as [|q ops IH]; cbn; [tauto|].
  intros [H|H].
  - destruct (last_op ops id); [eauto|]. subst. rewrite N.eqb_refl. eauto.
  - destruct (IH H) as [p ->]. eauto.
Qed.

Lemma ids_of_pops ops : ids_of ops = map pop_id (pops ops).
Proof. unfold ids_of, pops. now rewrite map_map. Qed.

Lemma enum_from_ge {A} (l : list A) : forall i o x, In (o, x) (enum_from i l) -> i <= o.
Proof.
  induction l as [|a l IH]; intros i o x; cbn; [tauto|].
  intros [H|H]; [inversion H; lia|]. apply IH in H. lia.
Qed.

Lemma enum_from_inj {A} (l : list A) : forall i o x y,
  In (o, x) (enum_from i l) -> In (o, y) (enum_from i l) -> x = y.
Proof.
  induction l as [|a l IH]; intros i o x y; cbn; [tauto|].
  intros [H1|H1] [H2|H2].
  - congruence.
  - inversion H1; subst. apply enum_from_ge in H2. lia.
  - inversion H2; subst. apply enum_from_ge in H1. lia.
  - eapply IH; eauto.
Qed.

Definition new_entries (fresh : N) (pnew : list (N * N)) : list entry :=
  map (mk_entry fresh) (enum_from 0 pnew).

Lemma new_entries_view fresh pnew :
  map (fun e => (e_id e, e_ver e)) (new_entries fresh pnew) = pnew.
Proof.
  unfold new_entries. rewrite map_map.
  transitivity (map snd (enum_from 0 pnew)); [|apply enum_from_map].
  apply map_ext. intros [o [i v]]. reflexivity.
Qed.

Lemma new_entries_sid fresh pnew e : In e (new_entries fresh pnew) -> e_sid e = fresh.
Proof. unfold new_entries. intros H. apply in_map_iff in H as [p [<- _]]. reflexivity. Qed.

Lemma new_entries_inj fresh pnew e e' :
  In e (new_entries fresh pnew) -> In e' (new_entries fresh pnew) -> e_addr e = e_addr e' -> e = e'.
Proof.
  unfold new_entries. intros H H' Ha.
  apply in_map_iff in H as [[o x] [<- Hp]]. apply in_map_iff in H' as [[o' x'] [<- Hp']].
  unfold e_addr, e_sid, e_ord, mk_entry in Ha; cbn in Ha. inversion Ha; subst o'.
  assert (x = x') by (eapply enum_from_inj; eauto). now subst.
Qed.

Lemma new_entries_ids fresh pnew : map e_id (new_entries fresh pnew) = map fst pnew.
Proof.
  rewrite <- (new_entries_view fresh pnew) at 2. rewrite map_map. reflexivity.
Qed.

Lemma seg_entries_new fresh g pnew :
  seg_entries {| sid := fresh; sgen := g; sdocs := pnew; sdel := [] |} = new_entries fresh pnew.
Proof. unfold seg_entries, new_entries. rewrite seg_live_nodel by reflexivity. reflexivity. Qed.

Lemma entries_single s : entries [s] = seg_entries s.
Proof. unfold entries; cbn. apply app_nil_r. Qed.

Lemma NoDup_app_intro {A} (a b : list A) :
  NoDup a -> NoDup b -> (forall x, In x a -> In x b -> False) -> NoDup (a ++ b).
Proof.
  induction a as [|x a IH]; cbn; intros Ha Hb Hd; [exact Hb|].
  inversion Ha as [|? ? Hn Ha']; subst. constructor.
  - intros Hin. apply in_app_iff in Hin as [Hin|Hin]; [tauto|]. eapply Hd; [now left | exact Hin].
  - apply IH; auto. intros y Hy Hy'. eapply Hd; [right; exact Hy | exact Hy'].
Qed.

Lemma maxgen_single s : maxgen [s] = sgen s.
Proof. unfold maxgen; cbn. apply N.max_0_r. Qed.

Lemma commit_with_correct L0 m fresh ops m' L' b :
  ids_nodup m -> addr_inj m -> mfresh m fresh -> covers L0 m -> Lfresh L0 fresh ->
  commit_with L0 m fresh ops = (m', L', b) ->
  ids_nodup m' /\ addr_inj m' /\ mfresh m' (N.succ fresh) /\ covers L' m' /\ Lfresh L' (N.succ fresh) /\
  (forall id, elookup id (entries m') = op_result (last_op (pops ops) id) (elookup id (entries m))) /\
  maxgen m <= maxgen m' /\
  (b = false -> maxgen m' = maxgen m /\ incl (entries m') (entries m)) /\
  (b = true -> maxgen m < maxgen m').
Proof.
  intros Hnd Hinj Hmf [Hc1 Hc2] HLf Hcw.
  unfold commit_with in Hcw.
  pose proof (loop_all L0 ops [] (L0, [], []) (loop_init L0)) as Hloop. cbn [app] in Hloop.
  destruct (fold_left commit_op ops (L0, [], [])) as [[L1 pnew] tomb].
  destruct Hloop as [HL [HT [HS HP]]].
  set (K := ids_of ops) in *.
  set (keep := fun e : entry => negb (mem_addr (e_addr e) tomb)).
  set (surv := filter keep (entries m)).
  set (new := new_entries fresh pnew).
  (* tombstoned exactly the touched ids *)
  assert (S1 : forall e, In e (entries m) -> (mem_addr (e_addr e) tomb = true <-> In (e_id e) K)).
  { intros e He. rewrite mem_addr_In, HT. split.
    - intros [id [Hid Hl]]. rewrite (Hc2 id _ e Hl He eq_refl). exact Hid.
    - intros Hin. exists (e_id e). split; [exact Hin | apply Hc1; exact He]. }
  assert (Ssurv : forall e, In e surv <-> In e (entries m) /\ ~ In (e_id e) K).
  { intros e. unfold surv. rewrite filter_In. unfold keep. split.
    - intros [He Hk]. split; [exact He|]. intros Hin. apply S1 in Hin; [|exact He]. rewrite Hin in Hk. discriminate.
    - intros [He Hk]. split; [exact He|]. destruct (mem_addr (e_addr e) tomb) eqn:E; [|reflexivity].
      exfalso. apply Hk. now apply S1. }
  assert (HpK : forall id, In id (map fst pnew) -> In id K).
  { intros id Hin. apply In_keys_alookup in Hin as [v Hv]. rewrite HP in Hv.
    destruct (last_op (pops ops) id) eqn:E; [|discriminate].
    apply last_op_Some_In in E. unfold K. now rewrite ids_of_pops. }
  assert (Hpnd : NoDup (map fst pnew)) by (apply sorted_nodup; exact HS).
  (* the shape of the result, uniformly *)
  assert (Hshape : entries m' = surv ++ new /\ L' = ins_all (map ae new) L1 /\
                   maxgen m <= maxgen m' /\
                   (b = false -> maxgen m' = maxgen m /\ new = []) /\ (b = true -> maxgen m < maxgen m')).
  { destruct pnew as [|p pnew'] eqn:Epn.
    - inversion Hcw; subst m' L' b. rewrite entries_add_tombs. rewrite !(maxgen_add_tombs tomb m).
      unfold new, new_entries; cbn. rewrite app_nil_r. repeat split; try reflexivity; try lia; try discriminate.
    - inversion Hcw; subst m' L' b. rewrite entries_app, entries_add_tombs, entries_single, seg_entries_new.
      rewrite live_after_new_ins_all, maxgen_app. rewrite !(maxgen_add_tombs tomb m).
      rewrite !maxgen_single; cbn [sgen].
      repeat split; try reflexivity; try discriminate; lia. }
  destruct Hshape as [Hent [HL' [Hgen [Hb0 Hb1]]]].
  assert (Hnew_sid : forall e, In e new -> e_sid e = fresh) by (intros; eapply new_entries_sid; eauto).
  assert (Hnew_ids : map e_id new = map fst pnew) by apply new_entries_ids.
  assert (Hsurv_sid : forall e, In e surv -> e_sid e < fresh).
  { intros e He. apply Ssurv in He as [He _]. now apply Hmf. }
  destruct (ins_all_spec (map ae new) L1) as [I1 [I2 I3]].
  { rewrite map_ae_snd, Hnew_ids. exact Hpnd. }
  rewrite <- HL' in I1, I2, I3.
  assert (HL1 : forall id a, alookup id L1 = Some a -> ~ In id K /\ alookup id L0 = Some a).
  { intros id a Hl. rewrite HL in Hl. destruct (memN id K) eqn:E; [discriminate|].
    split; [|exact Hl]. intros Hin. apply memN_In in Hin. congruence. }
  assert (F0 : b = false -> maxgen m' = maxgen m /\ incl (entries m') (entries m)).
  { intros Hb. destruct (Hb0 Hb) as [Hg Hnil]. split; [exact Hg|].
    intros e He. rewrite Hent, Hnil, app_nil_r in He. apply Ssurv in He. tauto. }
  repeat split.
  - (* ids_nodup *)
    unfold ids_nodup. rewrite Hent, map_app.
    apply NoDup_app_intro.
    + unfold surv. apply NoDup_map_filter. exact Hnd.
    + rewrite Hnew_ids. exact Hpnd.
    + intros id Hs Hn. rewrite Hnew_ids in Hn. apply HpK in Hn.
      apply in_map_iff in Hs as [e [<- He]]. apply Ssurv in He as [_ He]. tauto.
  - (* addr_inj *)
    unfold addr_inj. rewrite Hent. intros e e' He He' Ha.
    apply in_app_iff in He as [He|He]; apply in_app_iff in He' as [He'|He'].
    + apply Hinj; auto; [apply Ssurv in He; tauto | apply Ssurv in He'; tauto].
    + exfalso. apply Hsurv_sid in He. apply Hnew_sid in He'. unfold e_addr in Ha. inversion Ha. lia.
    + exfalso. apply Hsurv_sid in He'. apply Hnew_sid in He. unfold e_addr in Ha. inversion Ha. lia.
    + eapply new_entries_inj; eauto.
  - (* mfresh *)
    unfold mfresh. rewrite Hent. intros e He. apply in_app_iff in He as [He|He].
    + apply Hsurv_sid in He. lia.
    + apply Hnew_sid in He. lia.
  - (* covers part 1 *)
    rewrite Hent. intros e He. apply in_app_iff in He as [He|He].
    + apply Ssurv in He as [He HnK].
      rewrite I2.
      * rewrite HL. destruct (memN (e_id e) K) eqn:E; [apply memN_In in E; tauto | now apply Hc1].
      * rewrite map_ae_snd, Hnew_ids. intros Hin. apply HnK, HpK, Hin.
    + apply (I1 (ae e)). now apply in_map.
  - (* covers part 2 *)
    rewrite Hent. intros id a e Hl He Ha.
    destruct (I3 _ _ Hl) as [Hin|Hl1].
    + apply in_map_iff in Hin as [e' [He' Hin']]. unfold ae in He'.
      assert (Ha' : e_addr e' = a) by congruence. assert (Hi' : e_id e' = id) by congruence. clear He'.
      apply in_app_iff in He as [He|He].
      * exfalso. apply Hsurv_sid in He. apply Hnew_sid in Hin'.
        assert (e_sid e = e_sid e') by (unfold e_addr in *; congruence). lia.
      * assert (e = e') by (eapply new_entries_inj; eauto; congruence). now subst.
    + apply HL1 in Hl1 as [HnK Hl0].
      apply in_app_iff in He as [He|He].
      * apply Ssurv in He as [He _]. eapply Hc2; eauto.
      * exfalso. apply Hnew_sid in He. apply HLf in Hl0. rewrite <- Ha in Hl0. unfold e_addr in Hl0; cbn in Hl0. lia.
  - (* Lfresh *)
    intros id a Hl. destruct (I3 _ _ Hl) as [Hin|Hl1].
    + apply in_map_iff in Hin as [e' [He' Hin']]. unfold ae in He'.
      assert (Ha' : e_addr e' = a) by congruence.
      apply Hnew_sid in Hin'. rewrite <- Ha'. unfold e_addr; cbn. lia.
    + apply HL1 in Hl1 as [_ Hl0]. apply HLf in Hl0. lia.
  - (* the view *)
    intros id. rewrite Hent, elookup_app.
    assert (En : elookup id new = alookup id pnew).
    { unfold elookup, new. now rewrite new_entries_view. }
    destruct (memN id K) eqn:E.
    + apply memN_In in E. unfold surv.
      rewrite elookup_filter_drop.
      2:{ intros e He Hid. unfold keep. apply negb_false_iff. apply S1; [exact He | now rewrite Hid]. }
      rewrite En, HP. unfold K in E. rewrite ids_of_pops in E.
      apply In_last_op_Some in E as [p ->]. destruct p; reflexivity.
    + assert (HnK : ~ In id K) by (intros Hin; apply memN_In in Hin; congruence).
      assert (Elast : last_op (pops ops) id = None).
      { destruct (last_op (pops ops) id) eqn:E2; [|reflexivity].
        apply last_op_Some_In in E2. exfalso. apply HnK. unfold K. now rewrite ids_of_pops. }
      unfold surv. rewrite elookup_filter_keep.
      2:{ intros e He Hid. unfold keep. apply negb_true_iff.
          destruct (mem_addr (e_addr e) tomb) eqn:E3; [|reflexivity].
          exfalso. apply HnK. rewrite <- Hid. now apply S1. }
      rewrite Elast. cbn [op_result].
      destruct (elookup id (entries m)); [reflexivity|].
      rewrite En, HP, Elast. reflexivity.
  - exact Hgen.
  - apply F0; assumption.
  - apply F0; assumption.
  - apply Hb1; assumption.
Qed.
