(** Core/Refine.v — the concrete index machine refines the map specification on every history
    that contains no stale commit. *)
From Coq Require Import List NArith Bool Lia Sorting.Sorted.
From SL Require Import Core.Model Core.AList Core.Entries Core.Commit Core.CommitCorrect.
Import ListNotations.
Open Scope N_scope.

Definition winv (m : manifest) (n : N) (w : writer) : Prop :=
  Lfresh (wlive w) n /\ wgen w <= maxgen m /\ (wgen w = maxgen m -> covers (wlive w) m).

Definition Inv (s : istate) : Prop :=
  ids_nodup (man s) /\ addr_inj (man s) /\ mfresh (man s) (nsid s) /\
  (forall h w, alookup h (ws s) = Some w -> winv (man s) (nsid s) w).

Definition R (s : istate) (a : sstate) : Prop :=
  (forall id, elookup id (entries (man s)) = alookup id (scont a)) /\
  NoDup (map fst (scont a)) /\
  wal s = slog a /\
  (forall h, option_map wq (alookup h (ws s)) = option_map hq (alookup h (shs a))).

Lemma Inv_init : Inv init.
Proof.
  unfold Inv; cbn. split; [constructor|]. split; [intros e e' []|]. split; [intros e []|].
  intros h w Hl. discriminate.
Qed.

Lemma R_init : R init sinit.
Proof. repeat split; cbn; try constructor. Qed.

Lemma Lfresh_mono L n n' : Lfresh L n -> n <= n' -> Lfresh L n'.
Proof. intros H Hle id a Hl. specialize (H _ _ Hl). lia. Qed.

Lemma mfresh_mono m n n' : mfresh m n -> n <= n' -> mfresh m n'.
Proof. intros H Hle e He. specialize (H _ He). lia. Qed.

Lemma covers_incl L m m' : covers L m -> incl (entries m') (entries m) -> covers L m'.
Proof.
  intros [H1 H2] Hi. split.
  - intros e He. apply H1, Hi, He.
  - intros id a e Hl He Ha. eapply H2; eauto.
Qed.

(** Queue bookkeeping of a handle-map update, shared by several cases. *)
Lemma handles_insert (wsl : list (N * writer)) (hsl : list (N * shandle)) h w hd :
  (forall h', option_map wq (alookup h' wsl) = option_map hq (alookup h' hsl)) ->
  wq w = hq hd ->
  forall h', option_map wq (alookup h' (ainsert h w wsl)) = option_map hq (alookup h' (ainsert h hd hsl)).
Proof.
  intros H Hq h'. rewrite !alookup_ainsert. destruct (h' =? h); cbn; [now rewrite Hq | apply H].
Qed.

Lemma handles_lookup (wsl : list (N * writer)) (hsl : list (N * shandle)) h :
  (forall h', option_map wq (alookup h' wsl) = option_map hq (alookup h' hsl)) ->
  match alookup h wsl, alookup h hsl with
  | Some w, Some hd => wq w = hq hd
  | None, None => True
  | _, _ => False
  end.
Proof.
  intros H. specialize (H h). destruct (alookup h wsl), (alookup h hsl); cbn in H; try discriminate; auto.
  now inversion H.
Qed.

Lemma winv_insert s h w :
  (forall h' w', alookup h' (ws s) = Some w' -> winv (man s) (nsid s) w') ->
  winv (man s) (nsid s) w ->
  forall h' w', alookup h' (ainsert h w (ws s)) = Some w' -> winv (man s) (nsid s) w'.
Proof.
  intros H Hw h' w' Hl. rewrite alookup_ainsert in Hl. destruct (h' =? h).
  - inversion Hl; subst; exact Hw.
  - eapply H; eauto.
Qed.

Definition step_not_stale (a : sstate) (x : api) : Prop :=
  match x with
  | Commit h =>
      match alookup h (shs a) with
      | Some hd => existsb (stale_op hd (sgone a)) (hq hd) = false
      | None => True
      end
  | _ => True
  end.

Lemma filter_all_true {A} (p : A -> bool) l : existsb (fun x => negb (p x)) l = false -> filter p l = l.
Proof.
  induction l as [|x l IH]; cbn; [reflexivity|].
  intros H. apply orb_false_iff in H as [H1 H2]. apply negb_false_iff in H1. rewrite H1. now rewrite IH.
Qed.

Lemma existsb_ext' {A} (p q : A -> bool) l : (forall x, p x = q x) -> existsb p l = existsb q l.
Proof. intros H. induction l as [|x l IH]; cbn; [reflexivity|]. now rewrite H, IH. Qed.

Lemma elookup_contents m id : elookup id (entries m) = alookup id (contents m).
Proof. unfold elookup. now rewrite contents_entries. Qed.

Ltac split4 := split; [|split; [|split]].
Ltac split3 := split; [|split].

Lemma step_simulation s a x :
  Inv s -> R s a -> step_not_stale a x -> Inv (step s x) /\ R (step s x) (sstep a x).
Proof.
  intros [Hnd [Hinj [Hmf Hws]]] [Hview [Hsnd [Hwal Hh]]] Hns.
  destruct x as [h|h c id ver|h c id|h|h|h| |]; cbn [step sstep].
  - (* NewWriter *)
    split.
    + unfold Inv; cbn [man nsid ws set_writer]. split4; auto.
      intros h' w' Hl. eapply (winv_insert s); eauto.
      unfold winv; cbn [wlive wgen]. split3.
      * now apply load_live_fresh.
      * lia.
      * intros _. now apply load_live_covers.
    + unfold R; cbn [man wal ws set_writer scont slog shs]. split4; auto.
      apply handles_insert; auto.
  - (* AddDoc *)
    pose proof (handles_lookup _ _ h Hh) as Hl.
    destruct (alookup h (ws s)) as [w|] eqn:Ew, (alookup h (shs a)) as [hd|] eqn:Eh; try contradiction.
    2:{ split; [unfold Inv | unfold R]; split4; auto. }
    split.
    + unfold Inv; cbn [man nsid ws]. split4; auto.
      intros h' w' Hl'. rewrite alookup_ainsert in Hl'. destruct (h' =? h) eqn:E.
      * inversion Hl'; subst w'. apply (Hws _ _ Ew).
      * eapply Hws; eauto.
    + unfold R; cbn [man wal ws scont slog shs]. split4; auto.
      * now rewrite Hwal.
      * apply handles_insert; auto. cbn. now rewrite Hl.
  - (* DelDoc *)
    pose proof (handles_lookup _ _ h Hh) as Hl.
    destruct (alookup h (ws s)) as [w|] eqn:Ew, (alookup h (shs a)) as [hd|] eqn:Eh; try contradiction.
    2:{ split; [unfold Inv | unfold R]; split4; auto. }
    split.
    + unfold Inv; cbn [man nsid ws]. split4; auto.
      intros h' w' Hl'. rewrite alookup_ainsert in Hl'. destruct (h' =? h) eqn:E.
      * inversion Hl'; subst w'. apply (Hws _ _ Ew).
      * eapply Hws; eauto.
    + unfold R; cbn [man wal ws scont slog shs]. split4; auto.
      * now rewrite Hwal.
      * apply handles_insert; auto. cbn. now rewrite Hl.
  - (* Commit *)
    pose proof (handles_lookup _ _ h Hh) as Hl.
    destruct (alookup h (ws s)) as [w|] eqn:Ew, (alookup h (shs a)) as [hd|] eqn:Eh; try contradiction.
    2:{ split; [unfold Inv | unfold R]; split4; auto. }
    cbn [step_not_stale] in Hns. rewrite Eh in Hns.
    rewrite <- Hl.
    destruct (wq w) as [|q0 qs] eqn:Eq.
    { split; [unfold Inv | unfold R]; split4; auto. }
    rewrite <- Eq in *. clear Eq q0 qs.
    assert (Hfilt : filter (fun q => negb (stale_op hd (sgone a) q)) (wq w) = wq w).
    { rewrite Hl. apply filter_all_true. rewrite <- Hns. apply existsb_ext'. intros q. now rewrite negb_involutive. }
    destruct (Hws _ _ Ew) as [HLf [Hgle Hcov]].
    unfold commit_core.
    set (L0 := if maxgen (man s) =? wgen w then wlive w else load_live (man s)).
    assert (HL0 : covers L0 (man s) /\ Lfresh L0 (nsid s)).
    { unfold L0. destruct (maxgen (man s) =? wgen w) eqn:E.
      - apply N.eqb_eq in E. split; [apply Hcov; lia | exact HLf].
      - split; [now apply load_live_covers | now apply load_live_fresh]. }
    destruct HL0 as [HL0c HL0f].
    destruct (commit_with L0 (man s) (nsid s) (wq w)) as [[m' L'] b] eqn:Ecw.
    destruct (commit_with_correct _ _ _ _ _ _ _ Hnd Hinj Hmf HL0c HL0f Ecw)
      as [Hnd' [Hinj' [Hmf' [Hcov' [HLf' [Hview' [Hgen' [Hb0 Hb1]]]]]]]].
    split.
    + unfold Inv; cbn [man nsid ws]. split4; auto.
      intros h' w' Hl'. rewrite alookup_ainsert in Hl'. destruct (h' =? h) eqn:E.
      * inversion Hl'; subst w'. unfold winv; cbn [wlive wgen]. split3; auto. lia.
      * destruct (Hws _ _ Hl') as [A1 [A2 A3]]. unfold winv. split3.
        -- eapply Lfresh_mono; eauto. lia.
        -- lia.
        -- intros Hg. destruct b.
           ++ specialize (Hb1 eq_refl). lia.
           ++ destruct (Hb0 eq_refl) as [Hg' Hincl]. eapply covers_incl; [apply A3; lia | exact Hincl].
    + unfold R; cbn [man wal ws scont slog shs]. split4; auto.
      * intros id'. rewrite Hview', Hfilt, fold_apply_lookup, Hview. reflexivity.
      * rewrite Hfilt. now apply fold_apply_nodup.
      * apply handles_insert; auto.
  - (* Rollback *)
    pose proof (handles_lookup _ _ h Hh) as Hl.
    destruct (alookup h (ws s)) as [w|] eqn:Ew, (alookup h (shs a)) as [hd|] eqn:Eh; try contradiction.
    2:{ split; [unfold Inv | unfold R]; split4; auto. }
    split.
    + unfold Inv; cbn [man nsid ws]. split4; auto.
      intros h' w' Hl'. rewrite alookup_ainsert in Hl'. destruct (h' =? h) eqn:E.
      * inversion Hl'; subst w'. apply (Hws _ _ Ew).
      * eapply Hws; eauto.
    + unfold R; cbn [man wal ws scont slog shs]. split4; auto.
      apply handles_insert; auto.
  - (* DropWriter *)
    split.
    + unfold Inv; cbn [man nsid ws]. split4; auto.
      intros h' w' Hl'. rewrite alookup_aremove in Hl'. destruct (h' =? h); [discriminate|]. eapply Hws; eauto.
    + unfold R; cbn [man wal ws scont slog shs]. split4; auto.
      intros h'. rewrite !alookup_aremove. destruct (h' =? h); [reflexivity | apply Hh].
  - (* Compact *)
    destruct (man s) as [|s1 [|s2 rest]] eqn:Em.
    1,2: split; [unfold Inv | unfold R]; rewrite ?Em; split4; auto; rewrite <- ?Em; auto.
    rewrite <- Em in *. clear Em s1 s2 rest.
    set (sg := {| sid := nsid s; sgen := maxgen (man s) + 1; sdocs := contents (man s); sdel := [] |}).
    assert (Hent : entries [sg] = new_entries (nsid s) (contents (man s))).
    { rewrite entries_single. apply seg_entries_new. }
    split.
    + unfold Inv; cbn [man nsid ws]. split4.
      * unfold ids_nodup. rewrite Hent, new_entries_ids, contents_entries, map_map. exact Hnd.
      * unfold addr_inj. rewrite Hent. intros; eapply new_entries_inj; eauto.
      * unfold mfresh. rewrite Hent. intros e He. apply new_entries_sid in He. lia.
      * intros h' w' Hl'. destruct (Hws _ _ Hl') as [A1 [A2 A3]]. unfold winv. rewrite maxgen_single. cbn [sg sgen].
        split3; [eapply Lfresh_mono; eauto; lia | lia | intros; lia].
    + unfold R; cbn [man wal ws scont slog shs]. split4; auto.
      intros id'. rewrite Hent. unfold elookup. rewrite new_entries_view, <- Hview. apply eq_sym, elookup_contents.
  - (* Reopen *)
    split.
    + unfold Inv; cbn [man nsid ws]. split4; auto. intros h' w' Hl'. discriminate.
    + unfold R; cbn [man wal ws scont slog shs]. split4; auto.
Qed.

(** * Histories *)

Definition view_eq (l : list (N * N)) (c : cmap) : Prop :=
  NoDup (map fst l) /\ forall id, alookup id l = alookup id c.

Lemma has_stale_step a x h : has_stale a (x :: h) = false -> step_not_stale a x /\ has_stale (sstep a x) h = false.
Proof.
  cbn [has_stale]. intros H. apply orb_false_iff in H as [H1 H2]. split; [|exact H2].
  destruct x; cbn; auto. destruct (alookup h0 (shs a)); auto.
Qed.

Lemma run_refines h : forall s a,
  Inv s -> R s a -> has_stale a h = false -> Forall2 view_eq (run_obs s h) (srun_obs a h).
Proof.
  induction h as [|x h IH]; intros s a HI HR Hst; cbn [run_obs srun_obs]; [constructor|].
  apply has_stale_step in Hst as [Hns Hst].
  destruct (step_simulation s a x HI HR Hns) as [HI' HR'].
  constructor; [|now apply IH].
  destruct HI' as [Hnd _]. destruct HR' as [Hview _]. split.
  - rewrite contents_entries, map_map. exact Hnd.
  - intros id. rewrite <- elookup_contents. apply Hview.
Qed.

Theorem refines_spec h :
  has_stale sinit h = false -> Forall2 view_eq (run_obs init h) (srun_obs sinit h).
Proof. intros H. apply run_refines; [apply Inv_init | apply R_init | exact H]. Qed.
