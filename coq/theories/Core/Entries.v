(** Core/Entries.v — live entries of a manifest, tombstoning, and the per-operation view. *)
From Coq Require Import List NArith Bool Lia.
From SL Require Import Core.Model Core.AList.
Import ListNotations.
Open Scope N_scope.

(** (segment id, ordinal, doc id, version) of a live document *)
Definition entry := (N * N * N * N)%type.
Definition e_sid (e : entry) : N := fst (fst (fst e)).
Definition e_ord (e : entry) : N := snd (fst (fst e)).
Definition e_id  (e : entry) : N := snd (fst e).
Definition e_ver (e : entry) : N := snd e.
Definition e_addr (e : entry) : N * N := (e_sid e, e_ord e).

Definition mk_entry (s : N) (p : N * (N * N)) : entry := (s, fst p, fst (snd p), snd (snd p)).
Definition seg_entries (s : seg) : list entry := map (mk_entry (sid s)) (seg_live s).
Definition entries (m : manifest) : list entry := flat_map seg_entries m.

Lemma contents_entries m : contents m = map (fun e => (e_id e, e_ver e)) (entries m).
Proof.
  unfold contents, entries. induction m as [|s m IH]; cbn; [reflexivity|].
  rewrite map_app, <- IH. f_equal. unfold seg_entries. rewrite map_map.
  apply map_ext. intros [o [i v]]. reflexivity.
Qed.

Lemma entries_app a b : entries (a ++ b) = entries a ++ entries b.
Proof. unfold entries. apply flat_map_app. Qed.

Definition addr_eqb (a b : N * N) : bool := (fst a =? fst b) && (snd a =? snd b).
Definition mem_addr (a : N * N) (l : list (N * N)) : bool := existsb (addr_eqb a) l.

Lemma addr_eqb_eq a b : addr_eqb a b = true <-> a = b.
Proof.
  destruct a, b; unfold addr_eqb; cbn. rewrite andb_true_iff, !N.eqb_eq.
  split; [intros [-> ->]; reflexivity | intros H; inversion H; auto].
Qed.

Lemma mem_addr_In a l : mem_addr a l = true <-> In a l.
Proof.
  unfold mem_addr. rewrite existsb_exists. split.
  - intros [x [Hx E]]. apply addr_eqb_eq in E. now subst.
  - intros H. exists a. split; [auto|]. now apply addr_eqb_eq.
Qed.

Lemma memN_tomb_filter s o T :
  memN o (map snd (filter (fun a => fst a =? s) T)) = mem_addr (s, o) T.
Proof.
  induction T as [|[sd od] T IH]; cbn; [reflexivity|].
  destruct (sd =? s) eqn:E; cbn.
  - rewrite IH. unfold addr_eqb; cbn. rewrite (N.eqb_sym s sd), E. reflexivity.
  - rewrite IH. unfold addr_eqb; cbn. rewrite (N.eqb_sym s sd), E. reflexivity.
Qed.

Lemma filter_filter_and {A} (p q : A -> bool) l :
  filter p (filter q l) = filter (fun x => q x && p x) l.
Proof.
  induction l as [|a l IH]; cbn; [reflexivity|].
  destruct (q a); cbn; [destruct (p a); cbn; now rewrite IH | exact IH].
Qed.

Lemma filter_map_comm {A B} (f : A -> B) (p : B -> bool) l :
  filter p (map f l) = map f (filter (fun x => p (f x)) l).
Proof.
  induction l as [|a l IH]; cbn; [reflexivity|].
  destruct (p (f a)); cbn; now rewrite IH.
Qed.

Lemma seg_entries_add_tombs T s :
  seg_entries (add_tombs T s) = filter (fun e => negb (mem_addr (e_addr e) T)) (seg_entries s).
Proof.
  unfold seg_entries, seg_live, add_tombs; cbn [sid sdel sdocs].
  rewrite filter_map_comm. f_equal.
  rewrite filter_filter_and. apply filter_ext. intros [o [i v]]; cbn.
  rewrite memN_app, negb_orb. f_equal. now rewrite memN_tomb_filter.
Qed.

Lemma entries_add_tombs T m :
  entries (map (add_tombs T) m) = filter (fun e => negb (mem_addr (e_addr e) T)) (entries m).
Proof.
  unfold entries. induction m as [|s m IH]; cbn [map flat_map filter]; [reflexivity|].
  rewrite filter_app, <- IH, seg_entries_add_tombs. reflexivity.
Qed.

Lemma maxgen_add_tombs T m : maxgen (map (add_tombs T) m) = maxgen m.
Proof. induction m as [|s m IH]; cbn [map maxgen fold_right]; [reflexivity|]. unfold maxgen in IH. rewrite IH. reflexivity. Qed.

Lemma maxgen_app a b : maxgen (a ++ b) = N.max (maxgen a) (maxgen b).
Proof.
  unfold maxgen. induction a as [|s a IH]; cbn [app fold_right].
  - rewrite N.max_0_l. reflexivity.
  - rewrite IH. rewrite N.max_assoc. reflexivity.
Qed.

(** Entries of a fresh segment holding [docs], none deleted. *)
Lemma enum_from_map {A} i (l : list A) : map snd (enum_from i l) = l.
Proof. revert i; induction l as [|a l IH]; intros i; cbn; [reflexivity|]. now rewrite IH. Qed.

Lemma seg_live_nodel s : sdel s = [] -> seg_live s = enum_from 0 (sdocs s).
Proof.
  unfold seg_live. intros ->. cbn.
  induction (enum_from 0 (sdocs s)) as [|a l IH]; cbn; [reflexivity|]. now rewrite IH.
Qed.

(** * Last operation on an id *)
Fixpoint last_op (ops : list pop) (id : N) : option pop :=
  match ops with
  | [] => None
  | p :: ops' =>
      match last_op ops' id with
      | Some q => Some q
      | None => if pop_id p =? id then Some p else None
      end
  end.

Lemma last_op_app ops p id :
  last_op (ops ++ [p]) id = if pop_id p =? id then Some p else last_op ops id.
Proof.
  induction ops as [|q ops IH]; cbn.
  - destruct (pop_id p =? id); reflexivity.
  - rewrite IH. destruct (pop_id p =? id); reflexivity.
Qed.

Definition op_result (o : option pop) (dflt : option N) : option N :=
  match o with
  | Some (PAdd _ v) => Some v
  | Some (PDel _) => None
  | None => dflt
  end.

(** The specification fold, characterised per id. *)
Lemma fold_apply_lookup ops : forall c id,
  alookup id (fold_left apply_op ops c) = op_result (last_op ops id) (alookup id c).
Proof.
  induction ops as [|p ops IH] using rev_ind; intros c id; [reflexivity|].
  rewrite fold_left_app; cbn [fold_left]. rewrite last_op_app.
  destruct p as [i v|i]; cbn [apply_op pop_id].
  - rewrite alookup_ainsert. rewrite (N.eqb_sym id i).
    destruct (i =? id); cbn; [reflexivity | apply IH].
  - rewrite alookup_aremove. rewrite (N.eqb_sym id i).
    destruct (i =? id); cbn; [reflexivity | apply IH].
Qed.

Lemma fold_apply_nodup ops : forall c, NoDup (map fst c) -> NoDup (map fst (fold_left apply_op ops c)).
Proof.
  induction ops as [|p ops IH]; intros c H; cbn; [exact H|].
  apply IH. destruct p as [i v|i]; cbn.
  - constructor; [|now apply aremove_nodup].
    intros Hin. apply in_map_iff in Hin as [q [Hq Hin]]. apply aremove_In in Hin as [_ Hne]. congruence.
  - now apply aremove_nodup.
Qed.
