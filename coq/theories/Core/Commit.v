(** Core/Commit.v — one commit implements the fold of its operations over the reader's view. *)
From Coq Require Import List NArith Bool Lia Sorting.Sorted.
From SL Require Import Core.Model Core.AList Core.Entries.
Import ListNotations.
Open Scope N_scope.

Definition ids_of (ops : list qop) : list N := map (fun q => pop_id (snd q)) ops.
Definition pops (ops : list qop) : list pop := map snd ops.

Definition elookup (id : N) (es : list entry) : option N :=
  alookup id (map (fun e => (e_id e, e_ver e)) es).

Lemma alookup_app {V} k (a b : list (N * V)) :
  alookup k (a ++ b) = match alookup k a with Some v => Some v | None => alookup k b end.
Proof.
  induction a as [|[x v] a IH]; cbn; [reflexivity|]. destruct (k =? x); [reflexivity | exact IH].
Qed.

Lemma elookup_app id a b :
  elookup id (a ++ b) = match elookup id a with Some v => Some v | None => elookup id b end.
Proof. unfold elookup. rewrite map_app. apply alookup_app. Qed.

Lemma elookup_filter_keep id p es :
  (forall e, In e es -> e_id e = id -> p e = true) -> elookup id (filter p es) = elookup id es.
Proof.
  unfold elookup. induction es as [|e es IH]; intros H; cbn; [reflexivity|].
  destruct (p e) eqn:Ep; cbn.
  - destruct (id =? e_id e); [reflexivity|]. apply IH. intros; apply H; auto. now right.
  - destruct (id =? e_id e) eqn:E.
    + apply N.eqb_eq in E. rewrite H in Ep; [discriminate | now left | auto].
    + apply IH. intros; apply H; auto. now right.
Qed.

Lemma elookup_filter_drop id p es :
  (forall e, In e es -> e_id e = id -> p e = false) -> elookup id (filter p es) = None.
Proof.
  unfold elookup. induction es as [|e es IH]; intros H; cbn; [reflexivity|].
  destruct (p e) eqn:Ep; cbn.
  - destruct (id =? e_id e) eqn:E.
    + apply N.eqb_eq in E. rewrite H in Ep; [discriminate | now left | auto].
    + apply IH. intros; apply H; auto. now right.
  - apply IH. intros; apply H; auto. now right.
Qed.

Lemma elookup_Some_In id v es : elookup id es = Some v -> exists e, In e es /\ e_id e = id /\ e_ver e = v.
Proof.
  unfold elookup. intros H. apply alookup_In in H. apply in_map_iff in H as [e [He Hin]].
  inversion He; subst. eauto.
Qed.

Lemma elookup_None id es : elookup id es = None -> forall e, In e es -> e_id e <> id.
Proof.
  unfold elookup. intros H e Hin Heq. apply alookup_None_notin in H. apply H.
  rewrite map_map. cbn. apply in_map_iff. exists e; auto.
Qed.

Lemma NoDup_map_filter {A B} (f : A -> B) p l : NoDup (map f l) -> NoDup (map f (filter p l)).
Proof.
  induction l as [|a l IH]; cbn; intros H; [constructor|].
  inversion H as [|? ? Hn Hnd]; subst.
  destruct (p a); cbn; [|auto]. constructor; [|auto].
  intros Hin. apply Hn. apply in_map_iff in Hin as [x [Hx Hin]]. apply filter_In in Hin as [Hin _].
  apply in_map_iff. exists x; auto.
Qed.

(** * Generic "insert all" fold (shared by load_live_docs and the post-commit cache update) *)
Definition ins_all (xs : list ((N * N) * N)) (L : lmap) : lmap :=
  fold_left (fun acc x => ainsert (snd x) (fst x) acc) xs L.

Lemma ins_all_spec xs : forall L,
  NoDup (map snd xs) ->
  (forall x, In x xs -> alookup (snd x) (ins_all xs L) = Some (fst x)) /\
  (forall id, ~ In id (map snd xs) -> alookup id (ins_all xs L) = alookup id L) /\
  (forall id a, alookup id (ins_all xs L) = Some a -> In (a, id) xs \/ alookup id L = Some a).
Proof.
  induction xs as [|[a i] xs IH]; intros L Hnd; cbn.
  - repeat split; try tauto.
  - inversion Hnd as [|? ? Hn Hnd']; subst. cbn in Hn.
    destruct (IH (ainsert i a L) Hnd') as [H1 [H2 H3]]. repeat split.
    + intros x [Hx|Hx].
      * subst x. cbn. rewrite H2 by exact Hn. rewrite alookup_ainsert, N.eqb_refl. reflexivity.
      * apply H1; auto.
    + intros id Hid. rewrite H2 by tauto. rewrite alookup_ainsert.
      destruct (id =? i) eqn:E; [apply N.eqb_eq in E; subst; tauto | reflexivity].
    + intros id b Hb. destruct (H3 _ _ Hb) as [Hin|Hl]; [left; now right|].
      rewrite alookup_ainsert in Hl. destruct (id =? i) eqn:E.
      * apply N.eqb_eq in E; subst. inversion Hl; subst. left; now left.
      * now right.
Qed.

Definition ae (e : entry) : (N * N) * N := (e_addr e, e_id e).

Lemma fold_left_map {A B C} (f : A -> B -> A) (g : C -> B) l a :
  fold_left f (map g l) a = fold_left (fun acc x => f acc (g x)) l a.
Proof. revert a; induction l as [|x l IH]; intros a; cbn; [reflexivity | apply IH]. Qed.

Lemma load_seg_ins_all s L : load_seg L s = ins_all (map ae (seg_entries s)) L.
Proof.
  unfold load_seg, ins_all, seg_entries. rewrite map_map, fold_left_map.
  reflexivity.
Qed.

Lemma ins_all_app a b L : ins_all (a ++ b) L = ins_all b (ins_all a L).
Proof. unfold ins_all. apply fold_left_app. Qed.

Lemma load_live_ins_all m : load_live m = ins_all (map ae (entries m)) [].
Proof.
  unfold load_live. generalize (@nil (N * (N * N))) as L.
  induction m as [|s m IH]; intros L; cbn [fold_left]; [reflexivity|].
  rewrite IH, load_seg_ins_all. unfold entries; cbn [flat_map]. rewrite map_app, ins_all_app. reflexivity.
Qed.

Lemma live_after_new_ins_all L fresh pnew :
  live_after_new L fresh pnew =
  ins_all (map ae (map (mk_entry fresh) (enum_from 0 pnew))) L.
Proof.
  unfold live_after_new, ins_all. rewrite map_map, fold_left_map. reflexivity.
Qed.

(** * Invariants of a manifest and of a live map against it *)
Definition ids_nodup (m : manifest) : Prop := NoDup (map e_id (entries m)).
Definition addr_inj (m : manifest) : Prop :=
  forall e e', In e (entries m) -> In e' (entries m) -> e_addr e = e_addr e' -> e = e'.
Definition mfresh (m : manifest) (n : N) : Prop := forall e, In e (entries m) -> e_sid e < n.
Definition Lfresh (L : lmap) (n : N) : Prop := forall id a, alookup id L = Some a -> fst a < n.

Definition covers (L : lmap) (m : manifest) : Prop :=
  (forall e, In e (entries m) -> alookup (e_id e) L = Some (e_addr e)) /\
  (forall id a e, alookup id L = Some a -> In e (entries m) -> e_addr e = a -> e_id e = id).

Lemma map_ae_snd es : map snd (map ae es) = map e_id es.
Proof. rewrite map_map. reflexivity. Qed.

Lemma load_live_covers m : ids_nodup m -> addr_inj m -> covers (load_live m) m.
Proof.
  intros Hnd Hinj. rewrite load_live_ins_all.
  destruct (ins_all_spec (map ae (entries m)) []) as [H1 [H2 H3]].
  { rewrite map_ae_snd. exact Hnd. }
  split.
  - intros e He. apply (H1 (ae e)). apply in_map. exact He.
  - intros id a e Hl He Ha. destruct (H3 _ _ Hl) as [Hin|Hl']; [|discriminate].
    apply in_map_iff in Hin as [e' [He' Hin']]. unfold ae in He'. inversion He'; subst.
    assert (e = e') by (apply Hinj; auto). now subst.
Qed.

Lemma load_live_fresh m n : mfresh m n -> Lfresh (load_live m) n.
Proof.
  intros Hf id a Hl. rewrite load_live_ins_all in Hl.
  assert (G : forall xs L, (forall x, In x xs -> fst (fst x) < n) -> Lfresh L n -> Lfresh (ins_all xs L) n).
  { induction xs as [|[b i] xs IH]; intros L Hx HL; cbn; [exact HL|].
    apply IH; [intros; apply Hx; now right|].
    intros k c Hk. rewrite alookup_ainsert in Hk. destruct (k =? i).
    - inversion Hk; subst. apply (Hx (c, i)). now left.
    - eapply HL; eauto. }
  eapply G; [| |exact Hl].
  - intros x Hx. apply in_map_iff in Hx as [e [<- He]]. cbn. apply Hf; exact He.
  - intros k c Hk; discriminate.
Qed.

(** * The loop over pending operations *)
Definition loop_inv (L0 : lmap) (done : list qop) (st : cstate) : Prop :=
  let '(L, pnew, tomb) := st in
  (forall id, alookup id L = if memN id (ids_of done) then None else alookup id L0) /\
  (forall a, In a tomb <-> exists id, In id (ids_of done) /\ alookup id L0 = Some a) /\
  keys_sorted pnew /\
  (forall id, alookup id pnew = op_result (last_op (pops done) id) None).

Lemma ids_of_app a b : ids_of (a ++ b) = ids_of a ++ ids_of b.
Proof. unfold ids_of. apply map_app. Qed.
Lemma pops_app a b : pops (a ++ b) = pops a ++ pops b.
Proof. unfold pops. apply map_app. Qed.

Lemma loop_step L0 done st q : loop_inv L0 done st -> loop_inv L0 (done ++ [q]) (commit_op st q).
Proof.
  destruct st as [[L pnew] tomb]. intros [HL [HT [HS HP]]].
  destruct q as [c p]. unfold commit_op; cbn [snd].
  assert (Hmem : forall id, memN id (ids_of (done ++ [(c, p)])) = memN id (ids_of done) || (id =? pop_id p)).
  { intros id. rewrite ids_of_app, memN_app. cbn. now rewrite orb_false_r. }
  assert (Htomb : forall i tomb',
     pop_id p = i ->
     tomb' = match alookup i L with Some a => tomb ++ [a] | None => tomb end ->
     forall a, In a tomb' <-> exists id, In id (ids_of (done ++ [(c, p)])) /\ alookup id L0 = Some a).
  { intros i tomb' Hi -> a. rewrite ids_of_app. cbn [ids_of map snd app]. rewrite Hi. split.
    - intros Hin.
      assert (In a tomb \/ alookup i L = Some a) as [Hin'|Hin'].
      { destruct (alookup i L); [apply in_app_iff in Hin as [?|[?|[]]]; subst; auto | auto]. }
      + apply HT in Hin' as [id [H1 H2]]. exists id. split; [apply in_app_iff; now left | exact H2].
      + exists i. split; [apply in_app_iff; right; now left|].
        specialize (HL i). rewrite Hin' in HL. destruct (memN i (ids_of done)); [discriminate | congruence].
    - intros [id [Hin Hl]]. apply in_app_iff in Hin as [Hin|[Hin|[]]].
      + assert (In a tomb) by (apply HT; eauto). destruct (alookup i L); [apply in_app_iff; now left | assumption].
      + subst id. destruct (memN i (ids_of done)) eqn:Em.
        * apply memN_In in Em. assert (In a tomb) by (apply HT; eauto).
          destruct (alookup i L); [apply in_app_iff; now left | assumption].
        * specialize (HL i). rewrite Em in HL. rewrite HL, Hl. apply in_app_iff. right; now left. }
  destruct p as [i v|i]; cbn [pop_id] in *.
  - repeat split.
    + intros id. rewrite alookup_aremove, Hmem. rewrite HL.
      destruct (id =? i); [now rewrite orb_true_r | now rewrite orb_false_r].
    + apply (Htomb i _ eq_refl eq_refl a).
    + apply (Htomb i _ eq_refl eq_refl a).
    + now apply bt_insert_sorted.
    + intros id. rewrite alookup_bt_insert. unfold pops in *. rewrite map_app. cbn [map snd]. rewrite last_op_app. cbn [pop_id].
      rewrite (N.eqb_sym id i). destruct (i =? id); [reflexivity | apply HP].
  - repeat split.
    + intros id. rewrite alookup_aremove, Hmem. rewrite HL.
      destruct (id =? i); [now rewrite orb_true_r | now rewrite orb_false_r].
    + apply (Htomb i _ eq_refl eq_refl a).
    + apply (Htomb i _ eq_refl eq_refl a).
    + now apply aremove_sorted.
    + intros id. rewrite alookup_aremove. unfold pops in *. rewrite map_app. cbn [map snd]. rewrite last_op_app. cbn [pop_id].
      rewrite (N.eqb_sym id i). destruct (i =? id); [reflexivity | apply HP].
Qed.

Lemma loop_all L0 ops : forall done st,
  loop_inv L0 done st -> loop_inv L0 (done ++ ops) (fold_left commit_op ops st).
Proof.
  induction ops as [|q ops IH]; intros done st H; cbn [fold_left].
  - now rewrite app_nil_r.
  - replace (done ++ q :: ops) with ((done ++ [q]) ++ ops) by (rewrite <- app_assoc; reflexivity).
    apply IH. now apply loop_step.
Qed.

Lemma loop_init L0 : loop_inv L0 [] (L0, [], []).
Proof.
  repeat split; cbn; try tauto.
  - intros [id [[] _]].
  - constructor.
Qed.
