(** Core/Model.v — the index write path as a state machine (no faults, no crashes):
    IndexWriter::{new, add_document, delete_documents, commit, rollback, drop},
    Index::{compact, open} and load_live_docs, transcribed from
    searchlite-core/src/api/writer.rs and src/index/mod.rs.

    Documents are (id, ver): [id] is the interned document id (the interning preserves the
    string order, which is what BTreeMap iteration in [commit] depends on), [ver] identifies the
    content.  Every add/delete *call* carries a ghost call number (unique per history) so that the
    specification can speak about "operations" as the user issued them.

    Definitions only; proofs are in Core/Refine.v. *)

From Coq Require Import List NArith Bool.
Import ListNotations.
Open Scope N_scope.

(** * Generic association-list helpers (HashMap / BTreeMap semantics) *)

Fixpoint alookup {V} (k : N) (l : list (N * V)) : option V :=
  match l with
  | [] => None
  | (k', v) :: l' => if k =? k' then Some v else alookup k l'
  end.

Fixpoint aremove {V} (k : N) (l : list (N * V)) : list (N * V) :=
  match l with
  | [] => []
  | (k', v) :: l' => if k =? k' then aremove k l' else (k', v) :: aremove k l'
  end.

Definition ainsert {V} (k : N) (v : V) (l : list (N * V)) : list (N * V) := (k, v) :: aremove k l.

(** BTreeMap<String, Document>: kept sorted by key, insert replaces. *)
Fixpoint bt_insert (k v : N) (l : list (N * N)) : list (N * N) :=
  match l with
  | [] => [(k, v)]
  | (k', v') :: l' =>
      if k <? k' then (k, v) :: l
      else if k =? k' then (k, v) :: l'
      else (k', v') :: bt_insert k v l'
  end.

Fixpoint memN (x : N) (l : list N) : bool :=
  match l with [] => false | y :: l' => (x =? y) || memN x l' end.

Fixpoint enum_from {A} (i : N) (l : list A) : list (N * A) :=
  match l with [] => [] | a :: l' => (i, a) :: enum_from (N.succ i) l' end.

(** * Operations *)

Inductive pop := PAdd (id ver : N) | PDel (id : N).
Definition pop_id (p : pop) : N := match p with PAdd i _ => i | PDel i => i end.

(** One queued operation = ghost call number + the operation. *)
Definition qop := (N * pop)%type.

(** * Concrete state *)

Record seg := { sid : N; sgen : N; sdocs : list (N * N); sdel : list N }.

Definition manifest := list seg.

Definition maxgen (m : manifest) : N := fold_right (fun s a => N.max (sgen s) a) 0 m.

(** Live (ordinal, (id, ver)) entries of a segment. *)
Definition seg_live (s : seg) : list (N * (N * N)) :=
  filter (fun p => negb (memN (fst p) (sdel s))) (enum_from 0 (sdocs s)).

(** What a fresh reader returns for match_all, in segment / ordinal order. *)
Definition contents (m : manifest) : list (N * N) := flat_map (fun s => map snd (seg_live s)) m.

(** id -> (segment id, ordinal), HashMap semantics: a later insert overwrites. *)
Definition lmap := list (N * (N * N)).

Definition load_seg (acc : lmap) (s : seg) : lmap :=
  fold_left (fun acc p => ainsert (fst (snd p)) (sid s, fst p) acc) (seg_live s) acc.

(** [load_live_docs] *)
Definition load_live (m : manifest) : lmap := fold_left load_seg m [].

Record writer := { wq : list qop; wlive : lmap; wgen : N }.

Record istate := {
  man  : manifest;           (* the published manifest (memory = disk when nothing fails)      *)
  wal  : list qop;           (* entries of wal.log after the last commit marker                *)
  ws   : list (N * writer);  (* live writer handles                                            *)
  nsid : N                   (* fresh segment names (uuids in the code)                        *)
}.

Definition init : istate := {| man := []; wal := []; ws := []; nsid := 1 |}.

(** * The commit loop over pending operations
    state = (live map, pending_new (BTreeMap), tombstones as (segment id, ordinal) list) *)
Definition cstate := (lmap * list (N * N) * list (N * N))%type.

Definition commit_op (st : cstate) (q : qop) : cstate :=
  let '(L, pnew, tomb) := st in
  match snd q with
  | PAdd id ver =>
      let tomb' := match alookup id L with Some a => tomb ++ [a] | None => tomb end in
      (aremove id L, bt_insert id ver pnew, tomb')
  | PDel id =>
      let tomb' := match alookup id L with Some a => tomb ++ [a] | None => tomb end in
      (aremove id L, aremove id pnew, tomb')
  end.

Definition add_tombs (tomb : list (N * N)) (s : seg) : seg :=
  {| sid := sid s; sgen := sgen s; sdocs := sdocs s;
     sdel := sdel s ++ map snd (filter (fun a => fst a =? sid s) tomb) |}.

Definition live_after_new (L : lmap) (sidn : N) (pnew : list (N * N)) : lmap :=
  fold_left (fun acc p => ainsert (fst (snd p)) (sidn, fst p) acc) (enum_from 0 pnew) L.

(** The body of [IndexWriter::commit] for a non-empty queue, given the live map it starts from.
    Returns the new manifest, the writer's new live map, and whether a segment was written. *)
Definition commit_with (L0 : lmap) (m : manifest) (fresh : N) (ops : list qop)
  : manifest * lmap * bool :=
  let '(L1, pnew, tomb) := fold_left commit_op ops (L0, [], []) in
  let m1 := map (add_tombs tomb) m in
  match pnew with
  | [] => (m1, L1, false)
  | _ :: _ =>
      let sg := {| sid := fresh; sgen := maxgen m1 + 1; sdocs := pnew; sdel := [] |} in
      (m1 ++ [sg], live_after_new L1 fresh pnew, true)
  end.

(** The cached live map is reused iff the manifest's newest generation is the one the cache was
    built for; otherwise [load_live_docs] runs again. *)
Definition commit_core (m : manifest) (fresh : N) (w : writer) : manifest * lmap * bool :=
  let L0 := if maxgen m =? wgen w then wlive w else load_live m in
  commit_with L0 m fresh (wq w).

(** * API calls *)

Inductive api :=
| NewWriter (h : N)
| AddDoc (h : N) (c : N) (id ver : N)   (* c = ghost call number *)
| DelDoc (h : N) (c : N) (id : N)
| Commit (h : N)
| Rollback (h : N)
| DropWriter (h : N)
| Compact
| Reopen.

Definition set_writer (h : N) (w : writer) (s : istate) : istate :=
  {| man := man s; wal := wal s; ws := ainsert h w (ws s); nsid := nsid s |}.

Definition step (s : istate) (a : api) : istate :=
  match a with
  | NewWriter h =>
      set_writer h {| wq := wal s; wlive := load_live (man s); wgen := maxgen (man s) |} s
  | AddDoc h c id ver =>
      match alookup h (ws s) with
      | None => s
      | Some w =>
          let q := (c, PAdd id ver) in
          {| man := man s; wal := wal s ++ [q];
             ws := ainsert h {| wq := wq w ++ [q]; wlive := wlive w; wgen := wgen w |} (ws s);
             nsid := nsid s |}
      end
  | DelDoc h c id =>
      match alookup h (ws s) with
      | None => s
      | Some w =>
          let q := (c, PDel id) in
          {| man := man s; wal := wal s ++ [q];
             ws := ainsert h {| wq := wq w ++ [q]; wlive := wlive w; wgen := wgen w |} (ws s);
             nsid := nsid s |}
      end
  | Commit h =>
      match alookup h (ws s) with
      | None => s
      | Some w =>
          match wq w with
          | [] => s                                   (* early return: nothing touched *)
          | _ :: _ =>
              let '(m', L', _) := commit_core (man s) (nsid s) w in
              {| man := m'; wal := [];
                 ws := ainsert h {| wq := []; wlive := L'; wgen := maxgen m' |} (ws s);
                 nsid := N.succ (nsid s) |}
          end
      end
  | Rollback h =>
      match alookup h (ws s) with
      | None => s
      | Some w =>
          {| man := man s; wal := [];
             ws := ainsert h {| wq := []; wlive := wlive w; wgen := wgen w |} (ws s);
             nsid := nsid s |}
      end
  | DropWriter h =>
      {| man := man s; wal := wal s; ws := aremove h (ws s); nsid := nsid s |}
  | Compact =>
      match man s with
      | [] | [_] => s
      | _ =>
          let sg := {| sid := nsid s; sgen := maxgen (man s) + 1;
                       sdocs := contents (man s); sdel := [] |} in
          {| man := [sg]; wal := wal s; ws := ws s; nsid := N.succ (nsid s) |}
      end
  | Reopen =>
      {| man := man s; wal := wal s; ws := []; nsid := nsid s |}
  end.

(** Observations after every call: what a fresh reader sees. *)
Fixpoint run_obs (s : istate) (h : list api) : list (list (N * N)) :=
  match h with
  | [] => []
  | a :: h' => let s' := step s a in contents (man s') :: run_obs s' h'
  end.

Definition run (s : istate) (h : list api) : istate := fold_left step h s.

(** * Specification: user-level semantics over a plain map.

    Every add/delete call is one operation.  A commit through handle [h] applies, in order, the
    operations in [h]'s queue: those that were durably queued when [h] was created, followed by
    [h]'s own calls since its last commit/rollback - except that an operation is never applied
    twice and never applied after it was discarded: operations recovered at creation that some
    other handle has since committed or rolled back through its own queue ("gone") are skipped.
    Rollback empties the handle's queue and the durable queue.  This is deliberately the least
    demanding reading: an operation a handle issued itself is always applied by that handle's
    commit, and operations that merely disappeared from the durable queue (because another
    handle truncated the log) are not treated as discarded. *)

Definition cmap := list (N * N).

Definition apply_op (m : cmap) (p : pop) : cmap :=
  match p with
  | PAdd id ver => ainsert id ver m
  | PDel id => aremove id m
  end.

Record shandle := { hq : list qop; hreplayed : list N }.

Record sstate := {
  scont : cmap;
  slog  : list qop;              (* the durable queue *)
  shs   : list (N * shandle);
  sgone : list N                 (* call numbers committed or discarded so far *)
}.

Definition sinit : sstate := {| scont := []; slog := []; shs := []; sgone := [] |}.

Definition stale_op (hd : shandle) (gone : list N) (q : qop) : bool :=
  memN (fst q) (hreplayed hd) && memN (fst q) gone.

Definition sstep (s : sstate) (a : api) : sstate :=
  match a with
  | NewWriter h =>
      {| scont := scont s; slog := slog s;
         shs := ainsert h {| hq := slog s; hreplayed := map fst (slog s) |} (shs s);
         sgone := sgone s |}
  | AddDoc h c id ver =>
      match alookup h (shs s) with
      | None => s
      | Some hd =>
          {| scont := scont s; slog := slog s ++ [(c, PAdd id ver)];
             shs := ainsert h {| hq := hq hd ++ [(c, PAdd id ver)]; hreplayed := hreplayed hd |} (shs s);
             sgone := sgone s |}
      end
  | DelDoc h c id =>
      match alookup h (shs s) with
      | None => s
      | Some hd =>
          {| scont := scont s; slog := slog s ++ [(c, PDel id)];
             shs := ainsert h {| hq := hq hd ++ [(c, PDel id)]; hreplayed := hreplayed hd |} (shs s);
             sgone := sgone s |}
      end
  | Commit h =>
      match alookup h (shs s) with
      | None => s
      | Some hd =>
          match hq hd with
          | [] => s
          | _ :: _ =>
              let todo := filter (fun q => negb (stale_op hd (sgone s) q)) (hq hd) in
              {| scont := fold_left apply_op (map snd todo) (scont s);
                 slog := [];
                 shs := ainsert h {| hq := []; hreplayed := [] |} (shs s);
                 sgone := sgone s ++ map fst (hq hd) |}
          end
      end
  | Rollback h =>
      match alookup h (shs s) with
      | None => s
      | Some hd =>
          {| scont := scont s; slog := [];
             shs := ainsert h {| hq := []; hreplayed := [] |} (shs s);
             sgone := sgone s ++ map fst (hq hd) |}
      end
  | DropWriter h =>
      {| scont := scont s; slog := slog s; shs := aremove h (shs s); sgone := sgone s |}
  | Compact => s
  | Reopen => {| scont := scont s; slog := slog s; shs := []; sgone := sgone s |}
  end.

Fixpoint srun_obs (s : sstate) (h : list api) : list cmap :=
  match h with
  | [] => []
  | a :: h' => let s' := sstep s a in scont s' :: srun_obs s' h'
  end.

(** A history is "stale" when some commit happens through a handle that still holds a recovered
    operation which another handle has since committed or rolled back (known finding C04/1). *)
Fixpoint has_stale (s : sstate) (h : list api) : bool :=
  match h with
  | [] => false
  | a :: h' =>
      (match a with
       | Commit hh =>
           match alookup hh (shs s) with
           | Some hd => existsb (stale_op hd (sgone s)) (hq hd)
           | None => false
           end
       | _ => false
       end) || has_stale (sstep s a) h'
  end.

(** * Comparison of observations (canonical: sorted by id) *)

Fixpoint ins_sorted (p : N * N) (l : list (N * N)) : list (N * N) :=
  match l with
  | [] => [p]
  | q :: l' => if fst p <=? fst q then p :: l else q :: ins_sorted p l'
  end.
Definition sort_by_id (l : list (N * N)) : list (N * N) := fold_right ins_sorted [] l.

Definition pair_eqb (a b : N * N) : bool := (fst a =? fst b) && (snd a =? snd b).
Fixpoint plist_eqb (a b : list (N * N)) : bool :=
  match a, b with
  | [], [] => true
  | x :: a', y :: b' => pair_eqb x y && plist_eqb a' b'
  | _, _ => false
  end.
Fixpoint obs_eqb (a b : list (list (N * N))) : bool :=
  match a, b with
  | [], [] => true
  | x :: a', y :: b' => plist_eqb x y && obs_eqb a' b'
  | _, _ => false
  end.
