(** C13 — proofs about the accept pipeline model. *)
From Coq Require Import List NArith Bool Lia Permutation.
From SL Require Import Base.Tie C13.Model.
Import ListNotations.
Open Scope N_scope.

(** * Generic list facts *)

Lemma Permutation_filter' {A} (f : A -> bool) (l l' : list A) :
  Permutation l l' -> Permutation (filter f l) (filter f l').
Proof.
  induction 1 as [|x l l' HP IH|x y l|l l' l'' HP1 IH1 HP2 IH2]; cbn.
  - constructor.
  - destruct (f x); [constructor|]; exact IH.
  - destruct (f x), (f y); try apply Permutation_refl; apply perm_swap.
  - eapply Permutation_trans; eassumption.
Qed.

Lemma fold_left_perm {A B} (f : A -> B -> A)
  (Hcomm : forall a x y, f (f a x) y = f (f a y) x) (l l' : list B) :
  Permutation l l' -> forall a, fold_left f l a = fold_left f l' a.
Proof.
  induction 1 as [|x l l' HP IH|x y l|l l' l'' HP1 IH1 HP2 IH2]; intros a; cbn.
  - reflexivity.
  - apply IH.
  - rewrite Hcomm. reflexivity.
  - rewrite IH1. apply IH2.
Qed.

Lemma list_eqb_refl l : list_eqb l l = true.
Proof. induction l as [|x l IH]; cbn; [reflexivity|]. rewrite N.eqb_refl. exact IH. Qed.

Lemma filter_concat {A} (f : A -> bool) (ll : list (list A)) :
  filter f (concat ll) = concat (map (filter f) ll).
Proof.
  induction ll as [|l ll IH]; cbn; [reflexivity|].
  rewrite filter_app, IH. reflexivity.
Qed.

Section Proofs.
  Variable D : Type.
  Variables Qy Fl So Sg SgR Sc : Type.
  Variable live : D -> bool.
  Variable matches : Qy -> D -> bool.
  Variable passes : Fl -> D -> bool.
  Variable key_of : So -> D -> N.
  Variable fast : So -> bool.
  Variable uses_score : So -> bool.
  Variable scan : Qy -> bool.
  Variable hook : Qy -> bool.
  Variable prunable : exec -> N -> D -> bool.
  Variable visit_order : exec -> list D -> list D.
  Variable sg_empty : Sg -> bool.
  Variable suggest_of : Sg -> SgR.
  Variable sg_none : SgR.

  Notation req := (request Qy Fl So Sg).
  Notation stepM := (step D Qy Fl So Sg live matches passes key_of fast uses_score scan hook prunable).
  Notation offeredM := (offered D Qy Fl So Sg fast uses_score scan hook prunable).
  Notation has_collectorM := (has_collector Qy Fl So Sg fast).
  Notation searchM :=
    (search D Qy Fl So Sg SgR live matches passes key_of fast uses_score scan hook prunable visit_order
            sg_empty suggest_of sg_none).
  Notation run_segmentM :=
    (run_segment D Qy Fl So Sg visit_order stepM).

  (** A document reaches the collector iff it is live, matches the query and passes the filter. *)
  Definition elig (r : req) (d : D) : bool :=
    live d && matches (r_query _ _ _ _ r) d && passes (r_filter _ _ _ _ r) d.

  (** With an aggregation request a collector is attached, and then nothing is pruned. *)
  Lemma aggs_has_collector (r : req) : r_aggs _ _ _ _ r = true -> has_collectorM r = true.
  Proof. intros H. unfold has_collector. rewrite H. reflexivity. Qed.

  Lemma aggs_offered (r : req) (d : D) : r_aggs _ _ _ _ r = true -> offeredM r d = true.
  Proof.
    intros H. unfold offered. rewrite (aggs_has_collector r H).
    destruct (scan _); [reflexivity|].
    rewrite andb_false_r.
    destruct (match_only _ _ _ _ _ _ _); [reflexivity|].
    destruct (r_exec _ _ _ _ r); reflexivity.
  Qed.

  Lemma cursor_stage_seen (r : req) st d :
    st_seen D (cursor_stage D Qy Fl So Sg key_of r st d) = st_seen D st.
  Proof.
    unfold cursor_stage. destruct (r_cursor _ _ _ _ r) as [[cur n]|]; cbn.
    - destruct (_ <=? _); [destruct (_ =? _)|]; reflexivity.
    - reflexivity.
  Qed.

  Lemma step_seen (r : req) st d :
    r_aggs _ _ _ _ r = true ->
    st_seen D (stepM r st d) = if elig r d then d :: st_seen D st else st_seen D st.
  Proof.
    intros H. unfold step, elig. rewrite (aggs_offered r d H). cbn [negb].
    destruct (live d); cbn [negb andb]; [|reflexivity].
    destruct (matches _ d); cbn [negb andb]; [|reflexivity].
    destruct (passes _ d); cbn [negb]; [|reflexivity].
    rewrite cursor_stage_seen. unfold see. rewrite H. reflexivity.
  Qed.

  Lemma step_seen_noaggs (r : req) st d :
    r_aggs _ _ _ _ r = false -> st_seen D (stepM r st d) = st_seen D st.
  Proof.
    intros H. unfold step.
    destruct (negb (offeredM r d)); [reflexivity|].
    destruct (negb (live d)); [reflexivity|].
    destruct (negb (matches _ d)); [reflexivity|].
    destruct (negb (passes _ d)); [reflexivity|].
    rewrite cursor_stage_seen. unfold see. rewrite H. reflexivity.
  Qed.

  Lemma fold_step_seen (r : req) (l : list D) :
    r_aggs _ _ _ _ r = true ->
    forall st, st_seen D (fold_left (stepM r) l st) = rev (filter (elig r) l) ++ st_seen D st.
  Proof.
    intros H. induction l as [|d l IH]; intros st; cbn [fold_left filter].
    - reflexivity.
    - rewrite IH, (step_seen r st d H). destruct (elig r d); [|reflexivity].
      cbn [rev]. rewrite <- app_assoc. reflexivity.
  Qed.

  Lemma fold_step_seen_noaggs (r : req) (l : list D) :
    r_aggs _ _ _ _ r = false ->
    forall st, st_seen D (fold_left (stepM r) l st) = st_seen D st.
  Proof.
    intros H. induction l as [|d l IH]; intros st; cbn [fold_left]; [reflexivity|].
    rewrite IH. apply step_seen_noaggs; exact H.
  Qed.

  (** What the collectors of the segments receive, in streaming order. *)
  Definition seen_spec (r : req) (idx : list (list D)) : list (list D) :=
    map (fun seg => if r_aggs _ _ _ _ r then filter (elig r) (visit_order (r_exec _ _ _ _ r) seg) else []) idx.

  Lemma run_segments_seen (r : req) (idx : list (list D)) :
    forall acc, snd (fold_left (run_segmentM r) idx acc) = snd acc ++ seen_spec r idx.
  Proof.
    induction idx as [|seg idx IH]; intros acc; cbn [fold_left seen_spec map].
    - rewrite app_nil_r. reflexivity.
    - rewrite IH. unfold run_segment. cbn [snd fst]. rewrite <- app_assoc. f_equal. cbn [app]. f_equal.
      destruct (r_aggs _ _ _ _ r) eqn:H.
      + rewrite (fold_step_seen r _ H). cbn. rewrite app_nil_r, rev_involutive. reflexivity.
      + rewrite (fold_step_seen_noaggs r _ H). reflexivity.
  Qed.

  (** Shape of every successful response. *)
  Lemma search_done (idx : list (list D)) (r : req) seen total nhits more sugg :
    searchM idx r = Done D SgR seen total nhits more sugg ->
    seen = seen_spec r idx
    /\ sugg = (if sg_empty (r_suggest _ _ _ _ r) then sg_none else suggest_of (r_suggest _ _ _ _ r)).
  Proof.
    unfold search, search_with.
    destruct (_ =? 0); [discriminate|].
    destruct (_ && _); [discriminate|].
    rewrite run_segments_seen. cbn [snd app].
    destruct (negb _); [discriminate|].
    intros H. injection H as <- _ _ _ <-. split; reflexivity.
  Qed.

  Hypothesis visit_perm : forall e l, Permutation (visit_order e l) l.

  Lemma seen_spec_perm (r r' : req) (idx : list (list D)) :
    r_query _ _ _ _ r = r_query _ _ _ _ r' -> r_filter _ _ _ _ r = r_filter _ _ _ _ r' ->
    r_aggs _ _ _ _ r = r_aggs _ _ _ _ r' ->
    Forall2 (@Permutation D) (seen_spec r idx) (seen_spec r' idx).
  Proof.
    intros Hq Hf Ha. unfold seen_spec. rewrite <- Ha.
    induction idx as [|seg idx IH]; cbn [map]; constructor; [|exact IH].
    destruct (r_aggs _ _ _ _ r); [|constructor].
    assert (E : forall l, filter (elig r') l = filter (elig r) l).
    { intros l. apply filter_ext. intros d. unfold elig. rewrite Hq, Hf. reflexivity. }
    rewrite E.
    apply Permutation_filter'.
    eapply Permutation_trans; [apply visit_perm|]. apply Permutation_sym, visit_perm.
  Qed.

  (** ** The collector input is independent of the paging parameters *)
  Theorem collector_input_invariant (idx : list (list D)) (r r' : req) :
    same_query_filter Qy Fl So Sg r r' ->
    forall seen total nhits more sugg seen' total' nhits' more' sugg',
      searchM idx r = Done D SgR seen total nhits more sugg ->
      searchM idx r' = Done D SgR seen' total' nhits' more' sugg' ->
      Forall2 (@Permutation D) seen seen'.
  Proof.
    intros (Hq & Hf & Ha & _ & _) seen total nhits more sugg seen' total' nhits' more' sugg' H H'.
    apply search_done in H as [-> _]. apply search_done in H' as [-> _].
    apply seen_spec_perm; assumption.
  Qed.

  (** Exactly the live matching documents, each once. *)
  Theorem collector_input_exact (idx : list (list D)) (r : req) :
    r_aggs _ _ _ _ r = true ->
    forall seen total nhits more sugg,
      searchM idx r = Done D SgR seen total nhits more sugg ->
      Forall2 (fun s seg => Permutation s (filter (elig r) seg)) seen idx.
  Proof.
    intros Ha seen total nhits more sugg H. apply search_done in H as [-> _].
    unfold seen_spec. rewrite Ha.
    induction idx as [|seg idx IH]; cbn [map]; constructor; [|exact IH].
    apply Permutation_filter', visit_perm.
  Qed.

  (** ** Aggregations *)
  Variables A R : Type.
  Variable agg_new : N -> A.
  Variable agg_collect : A -> D -> Sc -> A.
  Variable agg_merge : list A -> R.
  Variable agg_none : R.
  Variable score_seen : req -> D -> Sc.

  Notation collect_segmentsM := (collect_segments D Qy Fl So Sg Sc A agg_new agg_collect score_seen).
  Notation aggs_ofM := (aggs_of D Qy Fl So Sg SgR Sc A R agg_new agg_collect agg_merge agg_none score_seen).

  (** A collector whose result does not depend on the streaming order (every collector of
      query/aggs/mod.rs accumulates counts, sums, sets or a bounded heap over a total order). *)
  Hypothesis collect_comm : forall a d1 s1 d2 s2,
    agg_collect (agg_collect a d1 s1) d2 s2 = agg_collect (agg_collect a d2 s2) d1 s1.

  Lemma collect_segments_perm (r r' : req) (seen seen' : list (list D)) :
    (forall a d, agg_collect a d (score_seen r d) = agg_collect a d (score_seen r' d)) ->
    Forall2 (@Permutation D) seen seen' ->
    forall ord, collect_segmentsM r ord seen = collect_segmentsM r' ord seen'.
  Proof.
    intros Hs HF. induction HF as [|l l' seen seen' HP HF IH]; intros ord; cbn [collect_segments].
    - reflexivity.
    - rewrite IH. f_equal.
      transitivity (fold_left (fun a d => agg_collect a d (score_seen r d)) l' (agg_new ord)).
      + apply fold_left_perm; [|exact HP]. intros a x y. apply collect_comm.
      + generalize (agg_new ord) as a.
        clear HP. induction l' as [|d l' IHl]; intros a; cbn [fold_left]; [reflexivity|].
        rewrite Hs. apply IHl.
  Qed.

  Theorem aggs_invariant (idx : list (list D)) (r r' : req) :
    same_query_filter Qy Fl So Sg r r' ->
    (forall a d, agg_collect a d (score_seen r d) = agg_collect a d (score_seen r' d)) ->
    aggs_ofM r (searchM idx r) <> None -> aggs_ofM r' (searchM idx r') <> None ->
    aggs_ofM r (searchM idx r) = aggs_ofM r' (searchM idx r').
  Proof.
    intros Hsame Hs.
    destruct (searchM idx r) as [c|seen total nhits more sugg] eqn:E;
      [intros H; exfalso; apply H; reflexivity|].
    destruct (searchM idx r') as [c'|seen' total' nhits' more' sugg'] eqn:E';
      [intros _ H; exfalso; apply H; reflexivity|].
    intros _ _. cbn [aggs_of].
    pose proof (collector_input_invariant idx r r' Hsame _ _ _ _ _ _ _ _ _ _ E E') as HF.
    destruct Hsame as (_ & _ & Ha & _ & _). rewrite <- Ha.
    destruct (r_aggs _ _ _ _ r); [|reflexivity].
    rewrite (collect_segments_perm r r' seen seen' Hs HF). reflexivity.
  Qed.

  (** ** Suggestions *)
  Theorem suggest_invariant (idx : list (list D)) (r r' : req) :
    r_suggest _ _ _ _ r = r_suggest _ _ _ _ r' ->
    suggest_out D SgR (searchM idx r) <> None -> suggest_out D SgR (searchM idx r') <> None ->
    suggest_out D SgR (searchM idx r) = suggest_out D SgR (searchM idx r').
  Proof.
    intros Hs.
    destruct (searchM idx r) as [c|seen total nhits more sugg] eqn:E;
      [intros H; exfalso; apply H; reflexivity|].
    destruct (searchM idx r') as [c'|seen' total' nhits' more' sugg'] eqn:E';
      [intros _ H; exfalso; apply H; reflexivity|].
    intros _ _. cbn [suggest_out].
    apply search_done in E as [_ ->]. apply search_done in E' as [_ ->].
    rewrite Hs. reflexivity.
  Qed.
End Proofs.

(** * The concrete instance meets the executable specification *)

Definition model_obs (idx : list (list cdoc)) (r : creq) : obs :=
  match c_search idx r with
  | Err _ _ c => {| o_err := c; o_seen := []; o_total := 0; o_nhits := 0; o_more := false; o_agg := 0; o_sugg := 0 |}
  | Done _ _ seen total nhits more _ =>
      {| o_err := 0; o_seen := map (map d_id) seen; o_total := total; o_nhits := nhits; o_more := more;
         o_agg := 0; o_sugg := 0 |}
  end.

Lemma concat_map_map {A B} (f : A -> B) (ll : list (list A)) :
  concat (map (map f) ll) = map f (concat ll).
Proof. induction ll as [|l ll IH]; cbn; [reflexivity|]. rewrite map_app, IH. reflexivity. Qed.

Theorem model_meets_spec : forall idx r, spec idx r (model_obs idx r) = true.
Proof.
  intros idx r. unfold spec, model_obs.
  destruct (c_search idx r) as [c|seen total nhits more sugg] eqn:E; cbn [o_err o_agg o_sugg o_seen].
  - assert (Hc : c <> 0).
    { unfold c_search, search, search_with in E.
      destruct (_ =? 0); [injection E as <-; discriminate|].
      destruct (_ && _); [injection E as <-; discriminate|].
      destruct (negb _); [injection E as <-; discriminate|discriminate]. }
    apply N.eqb_neq in Hc. rewrite Hc. reflexivity.
  - cbn [N.eqb negb andb].
    destruct (r_aggs _ _ _ _ r) eqn:Ha; [|reflexivity].
    unfold c_search in E. apply search_done in E as [-> _].
    unfold seen_spec. rewrite Ha, concat_map_map.
    change (map (fun seg : list cdoc => filter ?f seg) idx) with (map (filter f) idx).
    rewrite <- filter_concat. unfold matched_ids.
    erewrite filter_ext; [apply list_eqb_refl|].
    intros d. unfold elig. reflexivity.
Qed.

(** * The order before the repair violates the property (two pages of one walk) *)

Definition c_search_buggy (idx : list (list cdoc)) (r : creq) : outcome cdoc N :=
  search_buggy cdoc cquery unit csort bool N
    (fun d => negb (d_deleted d)) (fun _ d => d_match d) (fun _ d => d_pass d) (fun _ d => d_key d)
    s_fast s_uses_score q_scan q_hook (fun _ _ d => d_prunable d) (fun _ l => l)
    negb (fun _ => 0) 0 idx r.

Definition ex_doc (i k : N) : cdoc :=
  {| d_id := i; d_deleted := false; d_match := true; d_pass := true; d_key := k; d_prunable := true |}.
Definition ex_idx : list (list cdoc) := [[ex_doc 0 1; ex_doc 1 2]; [ex_doc 2 3]].
Definition ex_req (cur : option (N * N)) : creq :=
  {| r_query := {| q_scan := true; q_hook := false |}; r_filter := tt;
     r_sort := {| s_fast := true; s_uses_score := true |};
     r_cursor := cur; r_limit := 1; r_candidate := None; r_return_hits := true; r_exec := Wand;
     r_explain := false; r_profile := false; r_rescore := None; r_aggs := true; r_aggs_score := false;
     r_suggest := false |}.

Definition seen_ids (o : outcome cdoc N) : option (list (list N)) :=
  match o with Err _ _ _ => None | Done _ _ s _ _ _ _ => Some (map (map d_id) s) end.

Lemma buggy_refuted :
  seen_ids (c_search_buggy ex_idx (ex_req None)) = Some [[0; 1]; [2]]
  /\ seen_ids (c_search_buggy ex_idx (ex_req (Some (1, 1)))) = Some [[1]; [2]]
  /\ seen_ids (c_search ex_idx (ex_req None)) = Some [[0; 1]; [2]]
  /\ seen_ids (c_search ex_idx (ex_req (Some (1, 1)))) = Some [[0; 1]; [2]].
Proof. vm_compute. repeat split; reflexivity. Qed.
