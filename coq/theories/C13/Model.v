(** C13 — model of the per-document "accept" pipeline of [IndexReader::search]
    (searchlite-core/src/api/reader.rs: search, search_segment, scan_segment; query/wand.rs:
    brute_force, match_only_loop, wand_loop) as far as the aggregation collector, the cursor test,
    the match counter and the ranking stage are concerned.  Definitions only; proofs in Proofs.v.

    Per segment the executor offers candidate documents to [accept]; [accept] drops deleted,
    non-matching and filtered-out documents, THEN hands the document to the aggregation collector,
    THEN applies the cursor test, THEN counts and ranks it.  (Before the repair `fix: aggregate
    every matched document, not only the ones after the cursor` the collector was called only for
    documents that had passed the cursor test; [step_buggy] keeps that order for the refutation.) *)

From Coq Require Import List NArith Bool.
From SL Require Import Base.Tie.
Import ListNotations.
Open Scope N_scope.

Inductive exec := Bm25 | Wand | Bmw.

Definition is_some {A} (o : option A) : bool := match o with Some _ => true | None => false end.

(** Candidate size clamp of [search]: MAX_CANDIDATE_SIZE. *)
Definition MAXC : N := 10000.

Section Pipeline.
  (** Oracles: everything that is a function of (index contents, query, filter, sort) only. *)
  Variable D : Type.                      (* a document slot of a segment                          *)
  Variables Qy Fl So Sg SgR Sc : Type.     (* query, root filter, sort plan, suggest req/result, score *)
  Variable live : D -> bool.              (* !seg.is_deleted(doc)                                   *)
  Variable matches : Qy -> D -> bool.     (* enumerated by the executor, score hook is Some, query_eval.matches *)
  Variable passes : Fl -> D -> bool.      (* passes_root_filter                                     *)
  Variable key_of : So -> D -> N.         (* rank of sort_plan.build_key(..) in the total order of SortKey *)
  Variable fast : So -> bool.             (* score_fast_path: the sort is `_score desc` only        *)
  Variable uses_score : So -> bool.       (* sort_plan.uses_score()                                 *)
  Variable scan : Qy -> bool.             (* qualified_terms.is_empty(): scan_segment               *)
  Variable hook : Qy -> bool.             (* needs_score_hook: function_score / rank_feature / script_score *)
  (** What WAND/BMW pruning would skip for heap size k: arbitrary (the theorems quantify over it). *)
  Variable prunable : exec -> N -> D -> bool.
  (** The order in which an executor offers the candidates of a segment (doc order for the
      scan / match-only / WAND loops, hash-map order for brute force). *)
  Variable visit_order : exec -> list D -> list D.
  Variable sg_empty : Sg -> bool.
  Variable suggest_of : Sg -> SgR.        (* execute_suggest: reads the index and the suggest request only *)
  Variable sg_none : SgR.

  Record request := {
    r_query : Qy;
    r_filter : Fl;
    r_sort : So;
    r_cursor : option (N * N);   (* decoded cursor: (rank of its key, hits returned so far) *)
    r_limit : N;
    r_candidate : option N;
    r_return_hits : bool;
    r_exec : exec;
    r_explain : bool;
    r_profile : bool;
    r_rescore : option N;        (* rescore window *)
    r_aggs : bool;               (* !req.aggs.is_empty() *)
    r_aggs_score : bool;         (* aggs_use_score(&req.aggs): the tree contains a top_hits *)
    r_suggest : Sg
  }.

  Record state := {
    st_seen : list D;     (* documents handed to the segment's aggregation collector, newest first *)
    st_saw : bool;        (* saw_cursor *)
    st_total : N;         (* total_matches *)
    st_ranked : N         (* documents handed to the ranking stage (heap / collect_hits) *)
  }.

  Definition effective_limit (r : request) : N :=
    N.min (N.max (match r_candidate r with Some c => c | None => r_limit r end) (r_limit r)) MAXC.

  Definition top_k (r : request) : N :=
    if negb (r_return_hits r) || (effective_limit r =? 0) then 0 else effective_limit r + 1.

  (** [search]: the collector handed to search_segment is the aggregation collector when aggs are
      requested, else a NoopCollector when hits are not returned or the sort is not the fast path. *)
  Definition has_collector (r : request) : bool :=
    r_aggs r || negb (r_return_hits r) || (negb (fast (r_sort r)) && (0 <? r_limit r)).

  Definition match_only (r : request) : bool :=
    negb (uses_score (r_sort r) || hook (r_query r) || r_explain r || r_aggs_score r).

  (** segment_rank_limit = 0 ?  (explain ranks every live document of the segment) *)
  Definition rank_limit_zero (r : request) : bool :=
    if negb (r_return_hits r) then true
    else if fast (r_sort r) then top_k r =? 0
    else negb (r_explain r).

  (** Does the executor offer candidate [d] to [accept]?  scan_segment, match_only_loop and
      brute_force offer everything; wand_loop prunes by the heap threshold only when no collector is
      attached (pivot_threshold = -inf otherwise); with k = 0 and no collector nothing runs. *)
  Definition offered (r : request) (d : D) : bool :=
    if scan (r_query r) then true
    else if rank_limit_zero r && negb (has_collector r) then false
    else if match_only r then true
    else match r_exec r with
         | Bm25 => true
         | e => has_collector r || negb (prunable e (top_k r) d)
         end.

  Definition see (r : request) (st : state) (d : D) : state :=
    if r_aggs r then
      {| st_seen := d :: st_seen st; st_saw := st_saw st; st_total := st_total st; st_ranked := st_ranked st |}
    else st.

  Definition rank (st : state) : state :=
    {| st_seen := st_seen st; st_saw := st_saw st; st_total := st_total st + 1; st_ranked := st_ranked st + 1 |}.

  Definition saw (st : state) : state :=
    {| st_seen := st_seen st; st_saw := true; st_total := st_total st; st_ranked := st_ranked st |}.

  Definition cursor_stage (r : request) (st : state) (d : D) : state :=
    let k := key_of (r_sort r) d in
    match r_cursor r with
    | Some (cur, _) => if k <=? cur then (if k =? cur then saw st else st) else rank st
    | None => rank st
    end.

  (** The accept step of the repaired code: collector before the cursor test. *)
  Definition step (r : request) (st : state) (d : D) : state :=
    if negb (offered r d) then st
    else if negb (live d) then st
    else if negb (matches (r_query r) d) then st
    else if negb (passes (r_filter r) d) then st
    else cursor_stage r (see r st d) d.

  (** The order before the repair: the collector only saw what survived the cursor test. *)
  Definition step_buggy (r : request) (st : state) (d : D) : state :=
    if negb (offered r d) then st
    else if negb (live d) then st
    else if negb (matches (r_query r) d) then st
    else if negb (passes (r_filter r) d) then st
    else
      let k := key_of (r_sort r) d in
      match r_cursor r with
      | Some (cur, _) => if k <=? cur then (if k =? cur then saw st else st) else see r (rank st) d
      | None => see r (rank st) d
      end.

  Definition reset_seen (st : state) : state :=
    {| st_seen := []; st_saw := st_saw st; st_total := st_total st; st_ranked := st_ranked st |}.

  Section Run.
    Variable stepf : request -> state -> D -> state.

    Definition run_segment (r : request) (acc : state * list (list D)) (seg : list D)
      : state * list (list D) :=
      let st' := fold_left (stepf r) (visit_order (r_exec r) seg) (reset_seen (fst acc)) in
      (st', snd acc ++ [rev (st_seen st')]).

    Inductive outcome :=
    | Err (code : N)      (* 1 limit = 0 · 2 cursor with return_hits = false · 3 stale cursor *)
    | Done (seen : list (list D)) (total nhits : N) (more : bool) (sugg : SgR).

    Definition init_state (r : request) : state :=
      {| st_seen := []; st_saw := negb (is_some (r_cursor r)) || negb (r_return_hits r);
         st_total := 0; st_ranked := 0 |}.

    Definition search_with (idx : list (list D)) (r : request) : outcome :=
      if r_limit r =? 0 then Err 1
      else if negb (r_return_hits r) && is_some (r_cursor r) then Err 2
      else
        let res := fold_left (run_segment r) idx (init_state r, []) in
        let st := fst res in
        if negb (st_saw st) then Err 3
        else
          let returned := match r_cursor r with Some (_, n) => n | None => 0 end in
          let kept :=
            if negb (r_return_hits r) then 0
            else if r_explain r && negb (fast (r_sort r)) then st_ranked st
            else N.min (st_ranked st) (top_k r) in
          Done (snd res) (st_total st + returned)
               (N.min (r_limit r) kept) (r_limit r <? kept)
               (if sg_empty (r_suggest r) then sg_none else suggest_of (r_suggest r)).
  End Run.

  Definition search := search_with step.
  Definition search_buggy := search_with step_buggy.

  (** The aggregation side: one collector per segment fed with (doc, score) in streaming order,
      the per-segment results merged and finalised.  [score_seen] is the score the executor hands
      over: it depends on the score mode (sort / explain) and on the execution strategy. *)
  Variables A R : Type.
  Variable agg_new : N -> A.                    (* AggregationPipeline::for_segment(seg, ord) *)
  Variable agg_collect : A -> D -> Sc -> A.     (* DocCollector::collect *)
  Variable agg_merge : list A -> R.             (* finish per segment, merge, finalize_response *)
  Variable agg_none : R.                        (* BTreeMap::new() when no aggregation is requested *)
  Variable score_seen : request -> D -> Sc.

  Fixpoint collect_segments (r : request) (ord : N) (seen : list (list D)) : list A :=
    match seen with
    | [] => []
    | l :: rest =>
        fold_left (fun a d => agg_collect a d (score_seen r d)) l (agg_new ord)
        :: collect_segments r (N.succ ord) rest
    end.

  Definition aggs_of (r : request) (o : outcome) : option R :=
    match o with
    | Err _ => None
    | Done seen _ _ _ _ => Some (if r_aggs r then agg_merge (collect_segments r 0 seen) else agg_none)
    end.

  Definition suggest_out (o : outcome) : option SgR :=
    match o with Err _ => None | Done _ _ _ _ s => Some s end.

  Definition same_query_filter (r r' : request) : Prop :=
    r_query r = r_query r' /\ r_filter r = r_filter r' /\ r_aggs r = r_aggs r'
    /\ r_aggs_score r = r_aggs_score r' /\ r_suggest r = r_suggest r'.
End Pipeline.

(** * Concrete instance used by the correspondence check *)

Record cdoc := {
  d_id : N;           (* harness number of the external id *)
  d_deleted : bool;
  d_match : bool;     (* matched by the query in an unpaged reference run *)
  d_pass : bool;      (* passes the root filter in an unpaged reference run *)
  d_key : N;          (* 1-based position under this variation's sort (reference run), 0 if unmatched *)
  d_prunable : bool   (* arbitrary bit: must not matter *)
}.

Record cquery := { q_scan : bool; q_hook : bool }.
Record csort := { s_fast : bool; s_uses_score : bool }.

Definition creq := request cquery unit csort bool.

Definition c_search (idx : list (list cdoc)) (r : creq) : outcome cdoc N :=
  search cdoc cquery unit csort bool N
    (fun d => negb (d_deleted d)) (fun _ d => d_match d) (fun _ d => d_pass d) (fun _ d => d_key d)
    s_fast s_uses_score q_scan q_hook (fun _ _ d => d_prunable d) (fun _ l => l)
    negb (fun _ => 0) 0 idx r.

(** Observation of one real [search] call. *)
Record obs := {
  o_err : N;                 (* 0 ok, else the error class as in [Err] (9 = any other error) *)
  o_seen : list (list N);    (* per segment (reader order): ids streamed to the aggregation collector *)
  o_total : N;               (* total_hits_estimate *)
  o_nhits : N;               (* hits.len() *)
  o_more : bool;             (* next_cursor.is_some() *)
  o_agg : N;                 (* 0 iff the aggregation JSON equals the world's baseline response *)
  o_sugg : N                 (* 0 iff the suggest JSON equals the world's baseline response *)
}.

Fixpoint insert (x : N) (l : list N) : list N :=
  match l with
  | [] => [x]
  | y :: l' => if x <=? y then x :: l else y :: insert x l'
  end.
Definition isort (l : list N) : list N := fold_right insert [] l.

Fixpoint list_eqb (a b : list N) : bool :=
  match a, b with
  | [], [] => true
  | x :: a', y :: b' => (x =? y) && list_eqb a' b'
  | _, _ => false
  end.

Fixpoint lists_eqb (a b : list (list N)) : bool :=
  match a, b with
  | [], [] => true
  | x :: a', y :: b' => list_eqb x y && lists_eqb a' b'
  | _, _ => false
  end.

Definition canon_seen (s : list (list N)) : list (list N) := map isort s.

(** No pruning can happen for this request (whatever [prunable] says): the executor offers every
    candidate, so total_hits_estimate is exact.  Otherwise (no collector, WAND/BMW, scoring) the
    total is an estimate that the model cannot predict and the harness sets [d_prunable] to false. *)
Definition prune_free (r : creq) : bool :=
  offered cdoc cquery unit csort bool s_fast s_uses_score q_scan q_hook (fun _ _ _ => true) r
          {| d_id := 0; d_deleted := false; d_match := true; d_pass := true; d_key := 0; d_prunable := true |}.

(** Correspondence: the real call behaves as the model says. *)
Definition corr (idx : list (list cdoc)) (r : creq) (o : obs) : bool :=
  match c_search idx r with
  | Err _ _ c => o_err o =? c
  | Done _ _ seen total nhits more _ =>
      (o_err o =? 0)
      && lists_eqb (canon_seen (map (map d_id) seen)) (canon_seen (o_seen o))
      && (negb (prune_free r) || (o_total o =? total)) && (o_nhits o =? nhits) && Bool.eqb (o_more o) more
  end.

(** Executable specification, from the property text: on every successful response the
    aggregations and suggestions are those of the baseline response of the same (index, query,
    filter), and what was aggregated is exactly the live documents matching query and filter —
    whatever the cursor, limit, sort, return_hits, execution, explain, profile and rescore. *)
Definition matched_ids (idx : list (list cdoc)) : list N :=
  map d_id (filter (fun d => negb (d_deleted d) && d_match d && d_pass d) (concat idx)).

(** An error response carries no aggregations or suggestions: the statement says nothing about it
    (whether the error is the right one is the correspondence's business). *)
Definition spec (idx : list (list cdoc)) (r : creq) (o : obs) : bool :=
  if negb (o_err o =? 0) then true
  else
    (o_agg o =? 0) && (o_sugg o =? 0)
    && (if r_aggs _ _ _ _ r then list_eqb (isort (concat (o_seen o))) (isort (matched_ids idx)) else true).

Record case := { k_idx : list (list cdoc); k_req : creq; k_obs : obs }.

Definition wf (c : case) : bool :=
  forallb (fun d => if d_match d && d_pass d && negb (d_deleted d) then negb (d_key d =? 0) else true)
          (concat (k_idx c)).

Definition check_case (c : case) : N :=
  if wf c then verdict (corr (k_idx c) (k_req c) (k_obs c)) (spec (k_idx c) (k_req c) (k_obs c)) 0
  else 2.
