(** Wal/Model.v — byte-exact model of the write-ahead log codec
    (searchlite-core/src/index/wal.rs: append_entry, replay, last_pending_ops).
    Definitions only; lemmas are in Wal/Proofs.v, the stable statements in Wal/Theorems.v.

    A record is (tag, payload): tag 1 = AddDoc (payload = serde_json bytes of the document),
    2 = Commit (payload empty), 3 = DeleteDocId (payload = UTF-8 bytes of the id).

      append_entry:  varint(|payload|) ++ [tag] ++ payload ++ le32(crc32(tag :: payload))

    The CRC function and the payload decoders are parameters ([crc], [decodable]); the tie and
    the instantiated theorems use [Crc32.crc32]. *)

From Coq Require Import List NArith Arith PeanoNat Bool.
From SL Require Import Base.Bytes Base.Varint Base.Crc32 Base.Tie.
Import ListNotations.
Open Scope N_scope.

Definition rec : Type := (N * list N)%type.

Definition TAG_ADD : N := 1.
Definition TAG_COMMIT : N := 2.
Definition TAG_DELETE : N := 3.

Section Codec.
  Variable crc : list N -> N.
  (** oracle: [serde_json::from_slice::<Document>] (tag 1) / [str::from_utf8] (tag 3) succeed *)
  Variable decodable : N -> list N -> bool.
  (** which build of [read_u64] (see Base/Varint.v) *)
  Variable m : shmode.

  Definition encode_rec (r : rec) : list N :=
    let (tag, payload) := r in
    write_u64 (nlen payload) ++ [tag] ++ payload ++ le32 (crc (tag :: payload)).

  Definition encode_all (rs : list rec) : list N := flat_map encode_rec rs.

  (** the [match entry_type] at the end of the loop body: what is pushed to [entries] *)
  Definition keep (tag : N) (payload : list N) : list rec :=
    if tag =? 1 then (if decodable 1 payload then [(1, payload)] else [])
    else if tag =? 2 then [(2, [])]                 (* payload of a Commit is ignored *)
    else if tag =? 3 then (if decodable 3 payload then [(3, payload)] else [])
    else [].                                        (* unknown tag: skipped *)

  (** [Wal::replay], one loop iteration per unit of fuel.  [d] is [&data[cursor..]] at the top of
      the loop; the second component of the result is the number of bytes of [d] consumed by
      complete, CRC-valid records (= cursor at the last successful iteration, relative to [d]).
      Every [break] of the Rust loop is a branch returning [Ok ([], 0)]:
        - [read_u64] fails (unterminated varint; too long after the fix);
        - [cursor >= data.len()] after the length;
        - [usize::try_from(len)] (cannot fail on a 64-bit target), the two [checked_add]s and
          [checksum_end > data.len()]: all are "fewer than len + 4 bytes follow the tag",
          because |data| < 2^64 (an overflowing sum is a fortiori larger than data.len());
        - CRC mismatch.
      A panic inside [read_u64] (debug build before the fix) propagates. *)
  Fixpoint replay_fuel (fuel : nat) (d : list N) : res (list rec * nat) :=
    match fuel with
    | O => Ok ([], 0%nat)
    | S f =>
        match d with
        | [] => Ok ([], 0%nat)                                   (* while cursor < data.len() *)
        | _ :: _ =>
            match read_u64 m d with
            | Panic => Panic
            | Err => Ok ([], 0%nat)
            | Ok (len, n) =>
                match skipn n d with
                | [] => Ok ([], 0%nat)                           (* cursor >= data.len() *)
                | tag :: d2 =>
                    if nlen d2 <? len + 4 then Ok ([], 0%nat)    (* checked adds, checksum_end > len *)
                    else
                      let payload := firstn (N.to_nat len) d2 in
                      let rest := skipn (N.to_nat len) d2 in
                      if list_eqb (le32 (crc (tag :: payload))) (firstn 4 rest) then
                        match replay_fuel f (skipn 4 rest) with
                        | Ok (rs, k) =>
                            Ok (keep tag payload ++ rs, (n + 1 + N.to_nat len + 4 + k)%nat)
                        | other => other
                        end
                      else Ok ([], 0%nat)                        (* checksum mismatch *)
                end
            end
        end
    end.

  (** every iteration consumes at least 6 bytes, so |d| units of fuel are never exhausted *)
  Definition replay_gen (d : list N) : res (list rec * nat) := replay_fuel (length d) d.

  (** records a writer may have appended *)
  Definition valid_rec (r : rec) : Prop :=
    let (tag, payload) := r in
    nlen payload < 2 ^ 64 /\
    ((tag = 1 /\ decodable 1 payload = true) \/ (tag = 2 /\ payload = []) \/
     (tag = 3 /\ decodable 3 payload = true)).

  Definition valid_recb (r : rec) : bool :=
    let (tag, payload) := r in
    (nlen payload <? 2 ^ 64) &&
    (((tag =? 1) && decodable 1 payload) || ((tag =? 2) && list_eqb payload []) ||
     ((tag =? 3) && decodable 3 payload)).
End Codec.

(** [Wal::last_pending_ops]: entries after the last Commit *)
Fixpoint pending_aux (acc : list rec) (es : list rec) : list rec :=
  match es with
  | [] => acc
  | (t, p) :: es' => if t =? 2 then pending_aux [] es' else pending_aux (acc ++ [(t, p)]) es'
  end.

Definition pending (es : list rec) : list rec := pending_aux [] es.

Definition is_commit (r : rec) : bool := fst r =? 2.

(** The implementation after [fix: read_u64 rejects over-long varints]: total. *)
Definition replay_with (crc : list N -> N) (decodable : N -> list N -> bool) (d : list N)
  : list rec * nat :=
  match replay_gen crc decodable ShChecked d with
  | Ok r => r
  | _ => ([], 0%nat)          (* unreachable: Wal.Proofs.replay_checked_total *)
  end.

(** ** the reusable codec tie (engine harness/src/bin/c02codec.rs) *)

Definition rec_eqb (a b : rec) : bool := (fst a =? fst b) && list_eqb (snd a) (snd b).

Fixpoint recs_eqb (a b : list rec) : bool :=
  match a, b with
  | [], [] => true
  | x :: a', y :: b' => rec_eqb x y && recs_eqb a' b'
  | _, _ => false
  end.

Definition mem_rec (r : rec) (l : list rec) : bool := existsb (rec_eqb r) l.

Fixpoint lookup_bytes (k : list N) (tbl : list (list N * list N)) : option (list N) :=
  match tbl with
  | [] => None
  | (a, b) :: t => if list_eqb a k then Some b else lookup_bytes k t
  end.

Record codec_case := {
  cc_kind    : N;          (* 0: records appended through the real Wal::append_*;
                              1: arbitrary bytes handed to the real Wal::replay             *)
  cc_recs    : list rec;   (* kind 0: the appended records                                  *)
  cc_bytes   : list N;     (* the log file (kind 0: as the implementation wrote it)         *)
  cc_undec   : list rec;   (* oracle: (tag, payload) the real decoders reject               *)
  cc_canon   : list (list N * list N);
                           (* oracle: AddDoc payload -> serde_json::to_vec(from_slice(payload))
                              when that differs from the payload itself                     *)
  cc_panic   : bool;       (* the implementation panicked                                   *)
  cc_entries : list rec;   (* Wal::replay, (tag, canonical payload)                         *)
  cc_pending : list rec    (* Wal::last_pending_ops                                         *)
}.

Definition case_decodable (c : codec_case) (tag : N) (payload : list N) : bool :=
  negb (mem_rec (tag, payload) (cc_undec c)).

Definition canon_rec (c : codec_case) (r : rec) : rec :=
  if fst r =? 1 then
    match lookup_bytes (snd r) (cc_canon c) with Some b => (1, b) | None => r end
  else r.

(** model prediction for one case, for a given build of read_u64:
    None = panic, Some (entries, pending) *)
Definition codec_model (m : shmode) (c : codec_case) : option (list rec * list rec) :=
  match replay_gen crc32 (case_decodable c) m (cc_bytes c) with
  | Ok (es, _) => let es' := map (canon_rec c) es in Some (es', pending es')
  | _ => None
  end.

Definition codec_corr (m : shmode) (c : codec_case) : bool :=
  match codec_model m c with
  | None => cc_panic c
  | Some (es, ps) =>
      negb (cc_panic c) && recs_eqb es (cc_entries c) && recs_eqb ps (cc_pending c)
      && (if cc_kind c =? 0
          then list_eqb (encode_all crc32 (cc_recs c)) (cc_bytes c) else true)
  end.

(** executable specification (what C02/C17 ask of the codec, read off the observation alone):
    no panic on any bytes; pending = entries after the last commit; what was appended through
    the API is what replay returns (kind 0). *)
Definition codec_spec (c : codec_case) : bool :=
  negb (cc_panic c)
  && recs_eqb (pending (cc_entries c)) (cc_pending c)
  && (if cc_kind c =? 0 then recs_eqb (map (canon_rec c) (cc_recs c)) (cc_entries c) else true).

Definition check_codec_case_mode (m : shmode) (c : codec_case) : N :=
  verdict (codec_corr m c) (codec_spec c) 0.

(** the build under test after the fix *)
Definition check_codec_case (c : codec_case) : N := check_codec_case_mode ShChecked c.
