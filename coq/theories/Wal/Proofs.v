(** Wal/Proofs.v — lemmas about the WAL codec model, generic in the CRC function, the payload
    decoders and the build of [read_u64].  Stable statements are in Wal/Theorems.v. *)

From Coq Require Import List NArith Arith PeanoNat Lia Bool.
From SL Require Import Base.Bytes Base.Varint Wal.Model.
Import ListNotations.
Open Scope N_scope.

Lemma firstn_app_exact {A} (a b : list A) : firstn (length a) (a ++ b) = a.
Proof. rewrite firstn_app, Nat.sub_diag, firstn_all. cbn [firstn]. apply app_nil_r. Qed.

Lemma skipn_app_exact {A} (a b : list A) : skipn (length a) (a ++ b) = b.
Proof. rewrite skipn_app, Nat.sub_diag, skipn_all. reflexivity. Qed.

Lemma nlen_le32 v : nlen (le32 v) = 4.
Proof. unfold nlen. rewrite le32_length. reflexivity. Qed.

Lemma firstn4_le32 v x : firstn 4 (le32 v ++ x) = le32 v.
Proof. reflexivity. Qed.

Lemma skipn4_le32 v x : skipn 4 (le32 v ++ x) = x.
Proof. reflexivity. Qed.

Lemma to_nat_nlen {A} (l : list A) : N.to_nat (nlen l) = length l.
Proof. unfold nlen. apply Nat2N.id. Qed.

Section Proofs.
  Variable crc : list N -> N.
  Variable decodable : N -> list N -> bool.
  Variable m : shmode.

  Notation encode_rec := (encode_rec crc).
  Notation encode_all := (encode_all crc).
  Notation keep := (keep decodable).
  Notation replay_fuel := (replay_fuel crc decodable m).
  Notation replay_gen := (replay_gen crc decodable m).
  Notation valid_rec := (valid_rec decodable).

  Definition small_rec (r : rec) : Prop := nlen (snd r) < 2 ^ 64.

  Lemma valid_small r : valid_rec r -> small_rec r.
  Proof. destruct r as [t p]. unfold valid_rec, small_rec. cbn [snd]. tauto. Qed.

  Lemma keep_valid t p : valid_rec (t, p) -> keep t p = [(t, p)].
  Proof.
    unfold valid_rec, keep. intros [_ [[-> H]|[[-> ->]|[-> H]]]]; cbn; try rewrite H; reflexivity.
  Qed.

  Lemma encode_rec_length t p :
    length (encode_rec (t, p)) = (length (write_u64 (nlen p)) + 1 + length p + 4)%nat.
  Proof.
    unfold encode_rec. rewrite !app_length, le32_length. cbn [length]. lia.
  Qed.

  Lemma encode_rec_nonempty r : encode_rec r <> [].
  Proof.
    destruct r as [t p]. intros E. apply (f_equal (@length N)) in E.
    rewrite encode_rec_length in E. cbn [length] in E. lia.
  Qed.

  Lemma encode_all_app a b : encode_all (a ++ b) = encode_all a ++ encode_all b.
  Proof. unfold encode_all. apply flat_map_app. Qed.

  Lemma encode_all_cons r rs : encode_all (r :: rs) = encode_rec r ++ encode_all rs.
  Proof. reflexivity. Qed.

  (** *** fuel *)
  Lemma replay_fuel_enough : forall f f' d,
    (length d <= f)%nat -> (length d <= f')%nat -> replay_fuel f d = replay_fuel f' d.
  Proof.
    induction f as [|f IH]; intros f' d Hf Hf'.
    - destruct d; [|cbn [length] in Hf; lia]. destruct f'; reflexivity.
    - destruct f' as [|f'].
      + destruct d; [reflexivity|cbn [length] in Hf'; lia].
      + cbn [Model.replay_fuel]. destruct d as [|x d]; [reflexivity|].
        destruct (read_u64 m (x :: d)) as [[len n]| |] eqn:R; try reflexivity.
        pose proof (read_u64_ok_bounds _ _ _ _ R) as [Hn1 Hn2].
        destruct (skipn n (x :: d)) as [|tag d2] eqn:S; [reflexivity|].
        destruct (nlen d2 <? len + 4); [reflexivity|].
        destruct (list_eqb _ _); [|reflexivity].
        apply (f_equal (@length N)) in S. rewrite skipn_length in S. cbn [length] in *.
        rewrite (IH f' (skipn 4 (skipn (N.to_nat len) d2))); [reflexivity| |];
          rewrite !skipn_length; lia.
  Qed.

  (** *** one well-formed record at the front *)
  Lemma replay_fuel_rec f t p x :
    nlen p < 2 ^ 64 ->
    replay_fuel (S f) (encode_rec (t, p) ++ x) =
    match replay_fuel f x with
    | Ok (rs, k) => Ok (keep t p ++ rs, (length (encode_rec (t, p)) + k)%nat)
    | other => other
    end.
  Proof.
    intros HL. rewrite encode_rec_length.
    assert (E : encode_rec (t, p) ++ x
                = write_u64 (nlen p) ++ (t :: p ++ le32 (crc (t :: p)) ++ x)).
    { unfold Model.encode_rec. rewrite <- !app_assoc. reflexivity. }
    rewrite E.
    destruct (write_u64 (nlen p) ++ t :: p ++ le32 (crc (t :: p)) ++ x) as [|y d'] eqn:D.
    { exfalso. pose proof (write_u64_length (nlen p)). apply (f_equal (@length N)) in D.
      rewrite app_length in D. cbn [length] in D. lia. }
    cbn [Model.replay_fuel]. rewrite <- D. rewrite read_write_u64 by exact HL.
    rewrite skipn_app_exact.
    destruct (N.ltb_spec (nlen (p ++ le32 (crc (t :: p)) ++ x)) (nlen p + 4)) as [H|H].
    { rewrite !nlen_app, nlen_le32 in H. lia. }
    rewrite to_nat_nlen. rewrite firstn_app_exact. rewrite skipn_app_exact.
    rewrite firstn4_le32, skipn4_le32, list_eqb_refl.
    destruct (replay_fuel f x) as [[rs k]| |]; try reflexivity.
  Qed.

  Lemma replay_gen_nil : replay_gen [] = Ok ([], 0%nat).
  Proof. reflexivity. Qed.

  Lemma replay_gen_rec t p x :
    nlen p < 2 ^ 64 ->
    replay_gen (encode_rec (t, p) ++ x) =
    match replay_gen x with
    | Ok (rs, k) => Ok (keep t p ++ rs, (length (encode_rec (t, p)) + k)%nat)
    | other => other
    end.
  Proof.
    intros HL. unfold Model.replay_gen.
    pose proof (encode_rec_length t p) as EL.
    destruct (length (encode_rec (t, p) ++ x)) as [|f] eqn:F.
    { rewrite app_length in F. lia. }
    rewrite replay_fuel_rec by exact HL.
    rewrite (replay_fuel_enough f (length x) x); [reflexivity| |lia].
    rewrite app_length in F. lia.
  Qed.

  (** *** a clean prefix followed by anything: the records of the prefix are always recovered *)
  Lemma replay_gen_app rs x :
    Forall small_rec rs ->
    replay_gen (encode_all rs ++ x) =
    match replay_gen x with
    | Ok (rs', k) =>
        Ok (flat_map (fun r => keep (fst r) (snd r)) rs ++ rs', (length (encode_all rs) + k)%nat)
    | other => other
    end.
  Proof.
    induction rs as [|[t p] rs IH]; intros H.
    - cbn [Model.encode_all flat_map app length]. destruct (replay_gen x) as [[rs' k]| |]; reflexivity.
    - inversion H as [|? ? Hr Hrs]; subst. unfold small_rec in Hr. cbn [snd] in Hr.
      rewrite encode_all_cons, <- app_assoc, replay_gen_rec by exact Hr.
      rewrite IH by exact Hrs.
      destruct (replay_gen x) as [[rs' k]| |]; try reflexivity.
      cbn [flat_map fst snd]. rewrite <- app_assoc, app_length. f_equal. f_equal. lia.
  Qed.

  Lemma flat_map_keep_valid rs :
    Forall valid_rec rs -> flat_map (fun r => keep (fst r) (snd r)) rs = rs.
  Proof.
    induction 1 as [|[t p] rs Hr _ IH]; [reflexivity|].
    cbn [flat_map fst snd]. rewrite keep_valid by exact Hr. rewrite IH. reflexivity.
  Qed.

  Lemma Forall_valid_small rs : Forall valid_rec rs -> Forall small_rec rs.
  Proof. intros H. eapply Forall_impl; [|exact H]. apply valid_small. Qed.

  Theorem replay_gen_valid_app rs x :
    Forall valid_rec rs ->
    replay_gen (encode_all rs ++ x) =
    match replay_gen x with
    | Ok (rs', k) => Ok (rs ++ rs', (length (encode_all rs) + k)%nat)
    | other => other
    end.
  Proof.
    intros H. rewrite replay_gen_app by (apply Forall_valid_small; exact H).
    rewrite flat_map_keep_valid by exact H. reflexivity.
  Qed.

  Theorem replay_gen_encode_all rs :
    Forall valid_rec rs -> replay_gen (encode_all rs) = Ok (rs, length (encode_all rs)).
  Proof.
    intros H. rewrite <- (app_nil_r (encode_all rs)) at 1.
    rewrite replay_gen_valid_app by exact H. rewrite replay_gen_nil, app_nil_r, Nat.add_0_r.
    reflexivity.
  Qed.

  (** *** torn tail: a strict prefix of a record is never a record (no CRC assumption) *)
  Lemma replay_gen_cons_unfold y d :
    replay_gen (y :: d) =
    match read_u64 m (y :: d) with
    | Panic => Panic
    | Err => Ok ([], 0%nat)
    | Ok (len, n) =>
        match skipn n (y :: d) with
        | [] => Ok ([], 0%nat)
        | tag :: d2 =>
            if nlen d2 <? len + 4 then Ok ([], 0%nat)
            else
              let payload := firstn (N.to_nat len) d2 in
              let rest := skipn (N.to_nat len) d2 in
              if list_eqb (le32 (crc (tag :: payload))) (firstn 4 rest) then
                match replay_fuel (length d) (skipn 4 rest) with
                | Ok (rs, k) => Ok (keep tag payload ++ rs, (n + 1 + N.to_nat len + 4 + k)%nat)
                | other => other
                end
              else Ok ([], 0%nat)
        end
    end.
  Proof. reflexivity. Qed.

  Theorem replay_gen_torn r t :
    small_rec r -> strict_prefix t (encode_rec r) -> replay_gen t = Ok ([], 0%nat).
  Proof.
    destruct r as [tg p]. unfold small_rec. cbn [snd]. intros HL Ht.
    unfold Model.encode_rec in Ht.
    apply strict_prefix_app_inv in Ht. destruct Ht as [Ht|[t' [-> Ht']]].
    - (* cut inside the length varint *)
      destruct t as [|y t]; [reflexivity|].
      rewrite replay_gen_cons_unfold.
      rewrite (read_u64_strict_prefix m (nlen p) (y :: t) HL Ht). reflexivity.
    - (* cut after the length *)
      pose proof (write_u64_length (nlen p)) as WL.
      destruct (write_u64 (nlen p) ++ t') as [|y d] eqn:D.
      { apply (f_equal (@length N)) in D. rewrite app_length in D. cbn [length] in D. lia. }
      rewrite replay_gen_cons_unfold, <- D, read_write_u64 by exact HL.
      rewrite skipn_app_exact.
      destruct t' as [|tag' d2]; [reflexivity|].
      apply strict_prefix_length in Ht'.
      cbn [app length] in Ht'. rewrite app_length, le32_length in Ht'.
      destruct (N.ltb_spec (nlen d2) (nlen p + 4)) as [_|H]; [reflexivity|].
      unfold nlen in H. lia.
  Qed.

  Theorem replay_gen_torn_tail rs r t :
    Forall valid_rec rs -> small_rec r -> strict_prefix t (encode_rec r) ->
    replay_gen (encode_all rs ++ t) = Ok (rs, length (encode_all rs)).
  Proof.
    intros Hrs Hr Ht. rewrite replay_gen_valid_app by exact Hrs.
    rewrite (replay_gen_torn r t Hr Ht), app_nil_r, Nat.add_0_r. reflexivity.
  Qed.

  (** *** zero-filled tail *)
  Lemma read_u64_zero r : read_u64 m (0 :: r) = Ok (0, 1%nat).
  Proof. destruct m; reflexivity. Qed.

  Theorem replay_gen_zeros k :
    le32 (crc [0]) <> [0; 0; 0; 0] -> replay_gen (repeat 0 k) = Ok ([], 0%nat).
  Proof.
    intros Hc. destruct k as [|k]; [reflexivity|].
    cbn [repeat]. rewrite replay_gen_cons_unfold, read_u64_zero. cbn [skipn].
    destruct k as [|k]; [reflexivity|]. cbn [repeat].
    destruct (N.ltb_spec (nlen (repeat 0 k)) (0 + 4)) as [_|H]; [reflexivity|].
    cbn [N.to_nat firstn skipn].
    unfold nlen in H. rewrite repeat_length in H.
    do 4 (destruct k as [|k]; [cbn in H; lia|]). cbn [repeat firstn].
    rewrite list_eqb_neq by exact Hc. reflexivity.
  Qed.

  Theorem replay_gen_zero_fill rs k :
    Forall valid_rec rs -> le32 (crc [0]) <> [0; 0; 0; 0] ->
    replay_gen (encode_all rs ++ repeat 0 k) = Ok (rs, length (encode_all rs)).
  Proof.
    intros Hrs Hc. rewrite replay_gen_valid_app by exact Hrs.
    rewrite replay_gen_zeros by exact Hc. rewrite app_nil_r, Nat.add_0_r. reflexivity.
  Qed.

  (** *** a record whose framing is intact but whose body does not match its checksum *)
  Theorem replay_gen_bad_crc L tag' p' c' x :
    L < 2 ^ 64 -> nlen p' = L -> length c' = 4%nat -> le32 (crc (tag' :: p')) <> c' ->
    replay_gen (write_u64 L ++ tag' :: p' ++ c' ++ x) = Ok ([], 0%nat).
  Proof.
    intros HL Hp Hc Hne.
    pose proof (write_u64_length L) as WL.
    destruct (write_u64 L ++ tag' :: p' ++ c' ++ x) as [|y d] eqn:D.
    { apply (f_equal (@length N)) in D. rewrite app_length in D. cbn [length] in D. lia. }
    rewrite replay_gen_cons_unfold, <- D, read_write_u64 by exact HL.
    rewrite skipn_app_exact.
    destruct (N.ltb_spec (nlen (p' ++ c' ++ x)) (L + 4)) as [_|H]; [reflexivity|].
    subst L. rewrite to_nat_nlen, firstn_app_exact, skipn_app_exact. cbn zeta.
    rewrite <- Hc at 1. rewrite firstn_app_exact.
    rewrite list_eqb_neq by exact Hne. reflexivity.
  Qed.

  (** *** the repaired reader makes replay total *)
  Lemma replay_fuel_no_err f d : replay_fuel f d <> Err.
  Proof.
    revert d. induction f as [|f IH]; intros d; cbn [Model.replay_fuel]; [discriminate|].
    destruct d as [|x d]; [discriminate|].
    destruct (read_u64 m (x :: d)) as [[len n]| |]; try discriminate.
    destruct (skipn n (x :: d)) as [|tag d2]; [discriminate|].
    destruct (nlen d2 <? len + 4); [discriminate|].
    destruct (list_eqb _ _); [|discriminate].
    specialize (IH (skipn 4 (skipn (N.to_nat len) d2))).
    destruct (replay_fuel f _) as [[rs k]| |]; congruence.
  Qed.
End Proofs.

Lemma replay_fuel_checked_no_panic crc dec f d :
  Model.replay_fuel crc dec ShChecked f d <> Panic.
Proof.
  revert d. induction f as [|f IH]; intros d; cbn [Model.replay_fuel]; [discriminate|].
  destruct d as [|x d]; [discriminate|].
  destruct (read_u64 ShChecked (x :: d)) as [[len n]| |] eqn:R; try discriminate.
  - destruct (skipn n (x :: d)) as [|tag d2]; [discriminate|].
    destruct (nlen d2 <? len + 4); [discriminate|].
    destruct (list_eqb _ _); [|discriminate].
    specialize (IH (skipn 4 (skipn (N.to_nat len) d2))).
    destruct (Model.replay_fuel crc dec ShChecked f _) as [[rs k]| |]; congruence.
  - exfalso. eapply read_u64_checked_no_panic. exact R.
Qed.

Theorem replay_checked_total crc dec d :
  Model.replay_gen crc dec ShChecked d = Ok (replay_with crc dec d).
Proof.
  unfold replay_with. destruct (Model.replay_gen crc dec ShChecked d) as [r| |] eqn:E.
  - reflexivity.
  - exfalso. eapply replay_fuel_no_err. exact E.
  - exfalso. eapply replay_fuel_checked_no_panic. exact E.
Qed.

(** before the fix, in a build with overflow checks, replay panics on 11 continuation bytes *)
Example replay_debug_panics crc dec :
  Model.replay_gen crc dec ShDebug (repeat 128 11) = Panic.
Proof. reflexivity. Qed.

(** *** pending *)
Lemma pending_aux_no_commit acc es :
  forallb (fun r => negb (is_commit r)) es = true -> pending_aux acc es = acc ++ es.
Proof.
  revert acc. induction es as [|[t p] es IH]; intros acc H; cbn [pending_aux].
  - rewrite app_nil_r. reflexivity.
  - cbn [forallb] in H. apply andb_true_iff in H. destruct H as [H1 H2].
    unfold is_commit in H1. cbn [fst] in H1. apply negb_true_iff in H1. rewrite H1.
    rewrite IH by exact H2. rewrite <- app_assoc. reflexivity.
Qed.

Lemma pending_aux_app acc a b :
  pending_aux acc (a ++ b) = pending_aux (pending_aux acc a) b.
Proof.
  revert acc. induction a as [|[t p] a IH]; intros acc; cbn [app pending_aux]; [reflexivity|].
  destruct (t =? 2); apply IH.
Qed.

Theorem pending_no_commit es :
  forallb (fun r => negb (is_commit r)) es = true -> pending es = es.
Proof. intros H. unfold pending. rewrite pending_aux_no_commit by exact H. reflexivity. Qed.

Theorem pending_after_commit a p b :
  forallb (fun r => negb (is_commit r)) b = true -> pending (a ++ (2, p) :: b) = b.
Proof.
  intros H. unfold pending. rewrite pending_aux_app. cbn [pending_aux].
  replace (2 =? 2) with true by reflexivity. apply pending_aux_no_commit. exact H.
Qed.

Theorem pending_has_no_commit es : forallb (fun r => negb (is_commit r)) (pending es) = true.
Proof.
  unfold pending.
  assert (G : forall acc, forallb (fun r => negb (is_commit r)) acc = true ->
              forallb (fun r => negb (is_commit r)) (pending_aux acc es) = true).
  { induction es as [|[t p] es IH]; intros acc Hacc; cbn [pending_aux]; [exact Hacc|].
    destruct (t =? 2) eqn:T.
    - apply IH. reflexivity.
    - apply IH. rewrite forallb_app, Hacc. cbn [forallb]. unfold is_commit. cbn [fst].
      rewrite T. reflexivity. }
  apply G. reflexivity.
Qed.
