(** Wal/Theorems.v — the stable statements about the WAL codec (cited by Props/C02.v, Props/C17.v).

    [replay] is the model of [Wal::replay] after "fix: read_u64 rejects over-long varints"
    (total); the generic versions hold for every build of [read_u64] ([replay_gen ... m]).
    [crc] and [decodable] are parameters; the [_crc32] variants are instantiated with the
    bit-level CRC-32 of Base/Crc32.v and carry no CRC hypothesis. *)

From Coq Require Import List NArith Arith PeanoNat Lia Bool.
From SL Require Import Base.Bytes Base.Varint Base.Crc32 Wal.Model Wal.Proofs.
Import ListNotations.
Open Scope N_scope.

Section WalTheorems.
  Variable crc : list N -> N.
  Variable decodable : N -> list N -> bool.

  Notation encode_rec := (encode_rec crc).
  Notation encode_all := (encode_all crc).
  Notation replay := (replay_with crc decodable).
  Notation valid_rec := (valid_rec decodable).

  Lemma replay_of_gen d r : replay_gen crc decodable ShChecked d = Ok r -> replay d = r.
  Proof. intros H. unfold replay_with. rewrite H. reflexivity. Qed.

  (** what was appended is what replay returns, and the whole log is valid *)
  Lemma wal_replay_encode_all rs :
    Forall valid_rec rs -> replay (encode_all rs) = (rs, length (encode_all rs)).
  Proof. intros H. apply replay_of_gen. apply replay_gen_encode_all. exact H. Qed.

  (** a clean prefix followed by arbitrary bytes: the prefix's records are always recovered,
      and what follows is parsed as if the log started there *)
  Lemma wal_replay_clean_prefix rs x :
    Forall valid_rec rs ->
    replay (encode_all rs ++ x)
    = (rs ++ fst (replay x), (length (encode_all rs) + snd (replay x))%nat).
  Proof.
    intros H. apply replay_of_gen. rewrite replay_gen_valid_app by exact H.
    rewrite (replay_checked_total crc decodable x). destruct (replay x) as [rs' k]. reflexivity.
  Qed.

  (** a torn tail (any strict prefix of a record) never parses as a record: pure length/varint
      argument, no CRC assumption *)
  Lemma wal_replay_torn_tail rs r t :
    Forall valid_rec rs -> nlen (snd r) < 2 ^ 64 -> strict_prefix t (encode_rec r) ->
    replay (encode_all rs ++ t) = (rs, length (encode_all rs)).
  Proof. intros H Hr Ht. apply replay_of_gen. eapply replay_gen_torn_tail; eauto. Qed.

  (** zero-filled tail (a file extended by the file system but never written) *)
  Lemma wal_replay_zero_fill rs k :
    Forall valid_rec rs -> le32 (crc [0]) <> [0; 0; 0; 0] ->
    replay (encode_all rs ++ repeat 0 k) = (rs, length (encode_all rs)).
  Proof. intros H Hc. apply replay_of_gen. apply replay_gen_zero_fill; assumption. Qed.

  (** appends after a clean prefix are visible *)
  Lemma wal_replay_append rs rs' :
    Forall valid_rec rs -> Forall valid_rec rs' ->
    replay (encode_all rs ++ encode_all rs')
    = (rs ++ rs', (length (encode_all rs) + length (encode_all rs'))%nat).
  Proof.
    intros H H'. rewrite wal_replay_clean_prefix by exact H.
    rewrite wal_replay_encode_all by exact H'. reflexivity.
  Qed.

  (** ... but appends behind a torn tail are NOT: whatever follows the tear is invisible
      (this is why a writer must cut the log back to the valid length before appending) *)
  Lemma wal_replay_append_after_tear_lost rs r t rs' :
    Forall valid_rec rs -> nlen (snd r) < 2 ^ 64 -> strict_prefix t (encode_rec r) ->
    replay_gen crc decodable ShChecked (t ++ encode_all rs') = Ok ([], 0%nat) ->
    replay (encode_all rs ++ t ++ encode_all rs') = (rs, length (encode_all rs)).
  Proof.
    intros H Hr Ht Hx. rewrite wal_replay_clean_prefix by exact H.
    rewrite (replay_of_gen _ _ Hx). cbn [fst snd]. rewrite app_nil_r, Nat.add_0_r. reflexivity.
  Qed.

  (** the valid length returned with the records is where the clean prefix ends: cutting the log
      there and appending makes the appended records visible *)
  Lemma wal_replay_truncate_then_append rs r t rs' :
    Forall valid_rec rs -> Forall valid_rec rs' ->
    nlen (snd r) < 2 ^ 64 -> strict_prefix t (encode_rec r) ->
    let d := encode_all rs ++ t in
    replay (firstn (snd (replay d)) d ++ encode_all rs')
    = (rs ++ rs', (length (encode_all rs) + length (encode_all rs'))%nat).
  Proof.
    intros H H' Hr Ht d. unfold d. rewrite (wal_replay_torn_tail rs r t H Hr Ht). cbn [snd].
    rewrite firstn_app_exact. apply wal_replay_append; assumption.
  Qed.

  (** a record whose framing is intact but whose body does not match its checksum stops replay *)
  Lemma wal_replay_bad_crc rs L tag' p' c' x :
    Forall valid_rec rs ->
    L < 2 ^ 64 -> nlen p' = L -> length c' = 4%nat -> le32 (crc (tag' :: p')) <> c' ->
    replay (encode_all rs ++ write_u64 L ++ tag' :: p' ++ c' ++ x)
    = (rs, length (encode_all rs)).
  Proof.
    intros H HL Hp Hc Hne. rewrite wal_replay_clean_prefix by exact H.
    rewrite (replay_of_gen _ _ (replay_gen_bad_crc crc decodable ShChecked L tag' p' c' x HL Hp Hc Hne)).
    cbn [fst snd]. rewrite app_nil_r, Nat.add_0_r. reflexivity.
  Qed.

  (** the same statements hold for every build of read_u64: valid logs with torn or zero-filled
      tails never reach the shift overflow *)
  Lemma wal_replay_any_build m rs r t :
    Forall valid_rec rs -> nlen (snd r) < 2 ^ 64 -> strict_prefix t (encode_rec r) ->
    replay_gen crc decodable m (encode_all rs ++ t) = Ok (rs, length (encode_all rs))
    /\ replay_gen crc decodable m (encode_all rs) = Ok (rs, length (encode_all rs)).
  Proof.
    intros H Hr Ht. split.
    - eapply replay_gen_torn_tail; eauto.
    - apply replay_gen_encode_all. exact H.
  Qed.

  (** replay is total after the fix; before it the checked build panicked on garbage *)
  Lemma wal_replay_total d : replay_gen crc decodable ShChecked d = Ok (replay d).
  Proof. apply replay_checked_total. Qed.

  Lemma wal_replay_unfixed_debug_panics :
    replay_gen crc decodable ShDebug (repeat 128 11) = Panic.
  Proof. reflexivity. Qed.
End WalTheorems.

(** pending operations = entries after the last commit marker *)
Lemma wal_pending_spec :
  (forall es, forallb (fun r => negb (is_commit r)) es = true -> pending es = es)
  /\ (forall a p b, forallb (fun r => negb (is_commit r)) b = true -> pending (a ++ (2, p) :: b) = b)
  /\ (forall es, forallb (fun r => negb (is_commit r)) (pending es) = true).
Proof.
  split; [exact pending_no_commit|]. split; [exact pending_after_commit|exact pending_has_no_commit].
Qed.

(** CRC-32 instances *)
Lemma crc32_zero_byte : le32 (crc32 [0]) <> [0; 0; 0; 0].
Proof. vm_compute. discriminate. Qed.

Lemma wal_replay_zero_fill_crc32 decodable rs k :
  Forall (valid_rec decodable) rs ->
  replay_with crc32 decodable (encode_all crc32 rs ++ repeat 0 k)
  = (rs, length (encode_all crc32 rs)).
Proof. intros H. apply wal_replay_zero_fill; [exact H|exact crc32_zero_byte]. Qed.

(** non-vacuity: a concrete log with an add, a commit, a delete, then a torn add *)
Example wal_example :
  let dec := fun (_ : N) (_ : list N) => true in
  let rs := [(1, [123; 125]); (2, []); (3, [97; 98])] in
  Forall (valid_rec dec) rs
  /\ encode_all crc32 rs
     = [2; 1; 123; 125; 153; 30; 252; 28;  0; 2; 161; 142; 12; 60;  2; 3; 97; 98; 217; 61; 93; 34]
  /\ replay_with crc32 dec (encode_all crc32 rs ++ [2; 1; 123]) = (rs, 22%nat)
  /\ pending rs = [(3, [97; 98])].
Proof.
  cbv zeta. split.
  - constructor; [|constructor; [|constructor; [|constructor]]]; (split; [reflexivity|]).
    + left; split; reflexivity.
    + right; left; split; reflexivity.
    + right; right; split; reflexivity.
  - vm_compute. repeat split.
Qed.
