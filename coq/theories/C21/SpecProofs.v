(** C21 — the model's output passes the executable specification (left-to-right tag scan) when
    the tags are clean, and the scan is sound for the Prop-level reading. *)
From Coq Require Import List NArith Bool Lia ZifyBool Arith.
From SL Require Import Base.Tie C21.Model C21.Proofs.
Import ListNotations.
Open Scope N_scope.

Arguments N.add : simpl never.
Arguments N.sub : simpl never.
Arguments N.mul : simpl never.
Arguments N.eqb : simpl never.
Arguments N.ltb : simpl never.
Arguments N.leb : simpl never.

Definition prepend (x : list N) (r : option (list N * N)) : option (list N * N) :=
  match r with Some (s, k) => Some (x ++ s, k) | None => None end.

Lemma ocons_prepend : forall b x r, ocons b (prepend x r) = prepend (b :: x) r.
Proof. intros b x [[s k]|]; reflexivity. Qed.

Lemma prepend_nil : forall r, prepend [] r = r.
Proof. intros [[s k]|]; reflexivity. Qed.

Lemma prepend_prepend : forall x y r, prepend x (prepend y r) = prepend (x ++ y) r.
Proof. intros x y [[s k]|]; cbn [prepend]; [rewrite app_assoc|]; reflexivity. Qed.

Lemma is_prefix_app : forall p r, is_prefix p (p ++ r) = true.
Proof.
  induction p as [|a p IH]; intros r; cbn [is_prefix app]; auto.
  rewrite N.eqb_refl. cbn [andb]. apply IH.
Qed.

Lemma is_prefix_hd_neq : forall a p b l, a <> b -> is_prefix (a :: p) (b :: l) = false.
Proof. intros. cbn [is_prefix]. replace (a =? b) with false by lia. reflexivity. Qed.

Lemma is_prefix_firstn : forall n (l : list N), is_prefix (firstn n l) l = true.
Proof.
  induction n as [|n IH]; intros [|a l]; cbn [firstn is_prefix]; auto.
  rewrite N.eqb_refl. cbn [andb]. apply IH.
Qed.

Lemma In_firstn : forall n (l : list N) x, In x (firstn n l) -> In x l.
Proof.
  induction n as [|n IH]; intros [|a l] x H; cbn [firstn] in H; try contradiction.
  destruct H as [->|H]; [left; reflexivity|right; auto].
Qed.

Lemma In_skipn : forall n (l : list N) x, In x (skipn n l) -> In x l.
Proof.
  induction n as [|n IH]; intros [|a l] x H; cbn [skipn] in H; try assumption.
  right. auto.
Qed.

Lemma In_slice : forall l a b x, In x (slice l a b) -> In x l.
Proof. intros l a b x H. unfold slice in H. eapply In_skipn, In_firstn, H. Qed.

Lemma is_substring_slice : forall t a b, a <= b -> b <= nlen t -> is_substring (slice t a b) t = true.
Proof.
  intros t a b Hab Hb. unfold is_substring. apply existsb_exists.
  exists (N.to_nat a). split.
  - apply in_seq. unfold nlen in Hb. lia.
  - unfold slice. apply is_prefix_firstn.
Qed.

Section Scan.
  Variables (p0 q0 : N) (ptl qtl : list N).
  Let pr := p0 :: ptl.
  Let po := q0 :: qtl.

  Lemma strip_skip : forall x rest inm ne k,
    strip_tags pr po (x ++ rest) inm ne (length x) k = strip_tags pr po rest inm ne 0 k.
  Proof.
    induction x as [|b x IH]; intros rest inm ne k; cbn [app length]; auto.
    cbn [strip_tags]. apply IH.
  Qed.

  Lemma strip_pre : forall rest k,
    strip_tags pr po (pr ++ rest) false false 0 k = strip_tags pr po rest true false 0 k.
  Proof.
    intros rest k. unfold pr at 2. cbn [app]. cbn [strip_tags negb].
    change (p0 :: ptl ++ rest) with (pr ++ rest). rewrite is_prefix_app.
    replace (length pr - 1)%nat with (length ptl) by (unfold pr; cbn [length]; lia).
    apply strip_skip.
  Qed.

  Lemma strip_post : forall rest k,
    strip_tags pr po (po ++ rest) true true 0 k = strip_tags pr po rest false false 0 (k + 1).
  Proof.
    intros rest k. unfold po at 2. cbn [app]. cbn [strip_tags negb andb].
    change (q0 :: qtl ++ rest) with (po ++ rest). rewrite is_prefix_app.
    replace (length po - 1)%nat with (length qtl) by (unfold po; cbn [length]; lia).
    apply strip_skip.
  Qed.

  Lemma strip_plain : forall x rest k,
    (forall b, In b x -> b <> p0) ->
    strip_tags pr po (x ++ rest) false false 0 k = prepend x (strip_tags pr po rest false false 0 k).
  Proof.
    induction x as [|b x IH]; intros rest k Hx; cbn [app].
    - rewrite prepend_nil. reflexivity.
    - cbn [strip_tags negb]. unfold pr at 1.
      rewrite is_prefix_hd_neq by (intro Heq; apply (Hx b); [left; reflexivity|auto]).
      rewrite IH by (intros c Hc; apply Hx; right; exact Hc).
      apply ocons_prepend.
  Qed.

  Lemma strip_match_step : forall b f ne k, b <> q0 ->
    strip_tags pr po (b :: f) true ne 0 k = ocons b (strip_tags pr po f true true 0 k).
  Proof.
    intros b f ne k Hb. cbn [strip_tags negb]. unfold po at 1.
    rewrite is_prefix_hd_neq by auto. rewrite andb_false_r. reflexivity.
  Qed.

  Lemma strip_match : forall x b rest ne k,
    (forall c, In c (b :: x) -> c <> q0) ->
    strip_tags pr po ((b :: x) ++ rest) true ne 0 k
    = prepend (b :: x) (strip_tags pr po rest true true 0 k).
  Proof.
    induction x as [|c x IH]; intros b rest ne k Hx.
    - cbn [app]. rewrite strip_match_step by (apply Hx; left; reflexivity).
      destruct (strip_tags pr po rest true true 0 k) as [[s n]|]; reflexivity.
    - change ((b :: c :: x) ++ rest) with (b :: ((c :: x) ++ rest)).
      rewrite strip_match_step by (apply Hx; left; reflexivity).
      rewrite IH by (intros d Hd; apply Hx; right; exact Hd).
      apply ocons_prepend.
  Qed.

  (** Scanning the rendered fragment recovers the fragment and the number of inserted tag pairs,
      when no byte of the fragment equals the first byte of a tag. *)
  Lemma strip_render : forall frag fm last k,
    (forall b, In b frag -> b <> p0) -> (forall b, In b frag -> b <> q0) ->
    inner_wf last (nlen frag) fm = true ->
    strip_tags pr po (render_from frag last fm pr po) false false 0 k
    = Some (skipn (N.to_nat last) frag, k + N.of_nat (length fm)).
  Proof.
    intros frag fm. induction fm as [|[s e] fm IH]; intros last k Hp Hq Hwf.
    - cbn [render_from length].
      rewrite <- (app_nil_r (skipn (N.to_nat last) frag)) at 1.
      rewrite strip_plain by (intros b Hb; apply Hp; eapply In_skipn, Hb).
      cbn [strip_tags orb negb Nat.eqb prepend]. rewrite app_nil_r. f_equal. f_equal. lia.
    - cbn [inner_wf] in Hwf.
      apply andb_prop in Hwf as [Hwf Hrest]. apply andb_prop in Hwf as [Hwf Hen].
      apply andb_prop in Hwf as [Hls Hse].
      cbn [render_from length].
      rewrite strip_plain by (intros b Hb; apply Hp; eapply In_slice, Hb).
      rewrite strip_pre.
      pose proof (slice_length frag s e ltac:(lia) ltac:(lia)) as Hl.
      destruct (slice frag s e) as [|b x] eqn:Hsl.
      { unfold nlen in Hl. cbn [length] in Hl. lia. }
      rewrite strip_match by (intros c Hc; apply Hq; eapply In_slice; rewrite Hsl; exact Hc).
      rewrite strip_post.
      rewrite IH by assumption.
      cbn [prepend]. rewrite <- Hsl.
      rewrite (skipn_split frag last s) by lia. rewrite (skipn_split frag s e) by lia.
      f_equal. f_equal. lia.
  Qed.
End Scan.

(** * The model meets the executable specification *)

Lemma not_in_text : forall p t, existsb (N.eqb p) t = false -> forall b, In b t -> b <> p.
Proof.
  intros p t H b Hb Heq. subst b.
  assert (existsb (N.eqb p) t = true) by (apply existsb_exists; exists p; split; [assumption|lia]).
  congruence.
Qed.

Lemma fragment_frag_ok : forall i m fm,
  tags_clean i = true ->
  match_wf (text i) m = true -> 2 * (snd m - fst m) <= size i ->
  let (st, en) := window (text i) (size i) m in
  inner_wf 0 (en - st) fm = true -> a1_entry m (st, en, fm) = true ->
  frag_ok i (render (get_or_empty (text i) st en) fm (pre i) (post i)) = true.
Proof.
  intros i [s e] fm Hclean Hwf Hsz.
  pose proof (fragment_wellformed i (s, e) fm Hwf Hsz) as Hfw.
  cbn [fst snd] in Hsz.
  pose proof (window_spec (text i) (size i) s e Hwf Hsz) as Hw.
  destruct (window (text i) (size i) (s, e)) as [st en].
  destruct Hw as (H1 & H2 & H3 & H4 & H5 & H6).
  intros Hin Ha1. specialize (Hfw Hin Ha1). destruct Hfw as [Hne _].
  unfold match_wf in Hwf. cbn [fst snd] in Hwf.
  assert (Hse : s < e) by lia.
  rewrite get_or_empty_window in * by (try assumption; lia).
  set (frag := slice (text i) st en) in *.
  assert (Hfl : nlen frag = en - st) by (apply slice_length; lia).
  unfold a1_entry in Ha1. cbn [fst snd] in Ha1.
  replace (st <=? s) with true in Ha1 by lia. replace (e <=? en) with true in Ha1 by lia.
  cbn [andb] in Ha1.
  unfold tags_clean in Hclean. unfold frag_ok.
  destruct (pre i) as [|p0 ptl]; [discriminate|]. destruct (post i) as [|q0 qtl]; [discriminate|].
  apply andb_prop in Hclean as [Hc1 Hc2].
  assert (Hp : forall b, In b frag -> b <> p0).
  { intros b Hb. apply (not_in_text p0 (text i)); [destruct (existsb (N.eqb p0) (text i)); auto; discriminate|].
    eapply In_slice, Hb. }
  assert (Hq : forall b, In b frag -> b <> q0).
  { intros b Hb. apply (not_in_text q0 (text i)); [destruct (existsb (N.eqb q0) (text i)); auto; discriminate|].
    eapply In_slice, Hb. }
  unfold render in *.
  rewrite (strip_render p0 q0 ptl qtl frag fm 0 0 Hp Hq ltac:(rewrite Hfl; exact Hin)).
  cbn [N.to_nat skipn].
  assert (Hlen : length (render_from frag 0 fm (p0 :: ptl) (q0 :: qtl)) <> 0%nat).
  { intro Hz. apply Hne. apply length_zero_iff_nil. exact Hz. }
  assert (Hsub : is_substring frag (text i) = true) by (apply is_substring_slice; lia).
  rewrite Hsub.
  destruct fm as [|x fm]; [discriminate|]. cbn [length].
  replace (1 <=? 0 + N.of_nat (S (length fm))) with true by lia.
  replace (nlen frag <=? size i) with true by lia.
  destruct (length (render_from frag 0 (x :: fm) (p0 :: ptl) (q0 :: qtl))) eqn:Hll; [congruence|].
  reflexivity.
Qed.

Lemma model_meets_spec : forall i out,
  wf i = true -> tags_clean i = true -> highlight i = Some out -> spec i out = true.
Proof.
  intros i out Hwf Hclean Hh. unfold spec.
  pose proof (highlight_count i out Hh) as Hc.
  replace (N.of_nat (length out) <=? nfrag i) with true by lia. cbn [andb].
  destruct (size_hyp i) eqn:Hs; [|reflexivity].
  unfold wf in Hwf. apply andb_prop in Hwf as [Hwf Ha]. apply andb_prop in Hwf as [Hm Hi].
  apply forallb_forall. apply Forall_forall.
  eapply (frags_Forall i (fun f => frag_ok i f = true)); eauto.
  intros m fm. apply fragment_frag_ok. assumption.
Qed.

(** * The scan is sound: whatever it accepts is tagged in the Prop-level sense, for ANY text and
      tags (no cleanliness needed) *)

Lemma is_prefix_true : forall p l, is_prefix p l = true -> exists r, l = p ++ r.
Proof.
  induction p as [|a p IH]; intros l H.
  - exists l. reflexivity.
  - destruct l as [|b l]; cbn [is_prefix] in H; [discriminate|].
    apply andb_prop in H as [Hab Hp]. destruct (IH l Hp) as (r & ->).
    exists r. cbn [app]. f_equal. lia.
Qed.

Lemma ocons_some : forall b r s k, ocons b r = Some (s, k) -> exists s1, r = Some (s1, k) /\ s = b :: s1.
Proof.
  intros b [[s1 k1]|] s k H; cbn [ocons] in H; [|discriminate].
  injection H as <- <-. eexists; split; reflexivity.
Qed.

Section ScanSound.
  Variables (p0 q0 : N) (ptl qtl : list N).
  Let pr := p0 :: ptl.
  Let po := q0 :: qtl.

  Lemma scan_sound_n : forall n f, (length f <= n)%nat ->
    (forall k s k', strip_tags pr po f false false 0 k = Some (s, k') ->
       exists j, k' = k + N.of_nat j /\ tagged pr po f s j)
    /\ (forall ne k s k', strip_tags pr po f true ne 0 k = Some (s, k') ->
         exists m f2 s2 j, f = m ++ po ++ f2 /\ s = m ++ s2 /\ (ne = true \/ m <> [])
                           /\ k' = k + 1 + N.of_nat j /\ tagged pr po f2 s2 j).
  Proof.
    induction n as [|n IH]; intros f Hn.
    - destruct f; [|cbn in Hn; lia]. split.
      + intros k s k' H. cbn in H. injection H as <- <-. exists 0%nat. split; [lia|constructor].
      + intros ne k s k' H. cbn in H. discriminate.
    - destruct f as [|b f']; [split|split].
      + intros k s k' H. cbn in H. injection H as <- <-. exists 0%nat. split; [lia|constructor].
      + intros ne k s k' H. cbn in H. discriminate.
      + (* plain *)
        intros k s k' H. cbn [strip_tags negb] in H.
        destruct (is_prefix pr (b :: f')) eqn:Hp.
        * destruct (is_prefix_true _ _ Hp) as (r & Hr). unfold pr in Hr. cbn [app] in Hr.
          injection Hr as Hb Hf'. subst b f'.
          replace (length pr - 1)%nat with (length ptl) in H by (unfold pr; cbn [length]; lia).
          rewrite (strip_skip p0 q0 ptl qtl) in H.
          assert (Hlen : (length r <= n)%nat).
          { cbn [length] in Hn. rewrite app_length in Hn. lia. }
          destruct (IH r Hlen) as [_ IHm].
          destruct (IHm false k s k' H) as (m & f2 & s2 & j & -> & -> & Hne & -> & Ht).
          exists (S j). split; [lia|].
          change (p0 :: ptl ++ m ++ po ++ f2) with (pr ++ m ++ po ++ f2).
          apply tg_match; [destruct Hne; [discriminate|assumption]|assumption].
        * apply ocons_some in H as (s1 & H1 & ->).
          destruct (IH f' ltac:(cbn [length] in Hn; lia)) as [IHp _].
          destruct (IHp k s1 k' H1) as (j & -> & Ht).
          exists j. split; [reflexivity|]. apply tg_plain. assumption.
      + (* inside a match *)
        intros ne k s k' H. cbn [strip_tags negb] in H.
        destruct (ne && is_prefix po (b :: f')) eqn:Hq.
        * apply andb_prop in Hq as [Hne Hp]. subst ne.
          destruct (is_prefix_true _ _ Hp) as (r & Hr). unfold po in Hr. cbn [app] in Hr.
          injection Hr as Hb Hf'. subst b f'.
          replace (length po - 1)%nat with (length qtl) in H by (unfold po; cbn [length]; lia).
          rewrite (strip_skip p0 q0 ptl qtl) in H.
          assert (Hlen : (length r <= n)%nat).
          { cbn [length] in Hn. rewrite app_length in Hn. lia. }
          destruct (IH r Hlen) as [IHp _].
          destruct (IHp (k + 1) s k' H) as (j & -> & Ht).
          exists [], r, s, j. repeat split; auto.
        * apply ocons_some in H as (s1 & H1 & ->).
          destruct (IH f' ltac:(cbn [length] in Hn; lia)) as [_ IHm].
          destruct (IHm true k s1 k' H1) as (m & f2 & s2 & j & -> & -> & _ & -> & Ht).
          exists (b :: m), f2, s2, j. repeat split; auto. right. discriminate.
  Qed.
End ScanSound.

Lemma is_substring_sound : forall s t, is_substring s t = true -> substring s t.
Proof.
  intros s t H. unfold is_substring in H. apply existsb_exists in H as (a & _ & Hp).
  destruct (is_prefix_true _ _ Hp) as (r & Hr).
  exists (firstn a t), r. rewrite <- Hr. symmetry. apply firstn_skipn.
Qed.

(** [frag_ok] (the per-fragment clause of the executable specification) implies the Prop-level
    [wellformed_fragment] of C21_wellformed. *)
Lemma frag_ok_sound : forall i f, frag_ok i f = true -> wellformed_fragment i f.
Proof.
  intros i f H. unfold frag_ok in H.
  destruct (pre i) as [|p0 ptl] eqn:Hpre; [discriminate|].
  destruct (post i) as [|q0 qtl] eqn:Hpost; [discriminate|].
  destruct (strip_tags (p0 :: ptl) (q0 :: qtl) f false false 0 0) as [[s k]|] eqn:Hs; [|discriminate].
  apply andb_prop in H as [H Hsz]. apply andb_prop in H as [H Hsub]. apply andb_prop in H as [Hne Hk].
  destruct (scan_sound_n p0 q0 ptl qtl (length f) f (le_n _)) as [Hp _].
  destruct (Hp 0 s k Hs) as (j & Hj & Ht).
  split.
  - intros ->. cbn in Hne. discriminate.
  - exists s, j. rewrite Hpre, Hpost. repeat split; try assumption; try lia.
    apply is_substring_sound. assumption.
Qed.
