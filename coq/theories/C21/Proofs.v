(** C21 — proofs about the highlight model. *)
From Coq Require Import List NArith Bool Lia ZifyBool Arith.
From SL Require Import Base.Tie C21.Model.
Import ListNotations.
Open Scope N_scope.

Arguments N.add : simpl never.
Arguments N.sub : simpl never.
Arguments N.mul : simpl never.
Arguments N.div : simpl never.
Arguments N.eqb : simpl never.
Arguments N.ltb : simpl never.
Arguments N.leb : simpl never.
Arguments N.min : simpl never.

(** * Prop-level reading of the statement *)

(** [tagged pr po f s k]: the fragment [f] is the text [s] with [k] non-empty pieces wrapped in
    [pr] .. [po].  Existential over the tag positions, so it does not matter whether the tag
    strings also occur in the text. *)
Inductive tagged (pr po : list N) : list N -> list N -> nat -> Prop :=
| tg_nil : tagged pr po [] [] 0
| tg_plain : forall b f s k, tagged pr po f s k -> tagged pr po (b :: f) (b :: s) k
| tg_match : forall m f s k, m <> [] -> tagged pr po f s k ->
    tagged pr po (pr ++ m ++ po ++ f) (m ++ s) (S k).

Definition substring (s t : list N) : Prop := exists a b, t = a ++ s ++ b.

Definition wellformed_fragment (i : hl_in) (f : list N) : Prop :=
  f <> []
  /\ exists s k, tagged (pre i) (post i) f s k
       /\ (1 <= k)%nat
       /\ substring s (text i)
       /\ nlen s <= size i.

Lemma tagged_app_plain : forall pr po p f s k,
  tagged pr po f s k -> tagged pr po (p ++ f) (p ++ s) k.
Proof.
  induction p as [|b p IH]; intros f s k H; cbn [app]; auto.
  apply tg_plain. auto.
Qed.

Lemma tagged_plain_all : forall pr po p, tagged pr po p p 0.
Proof.
  intros pr po p. rewrite <- (app_nil_r p) at 1. rewrite <- (app_nil_r p) at 2.
  apply tagged_app_plain. constructor.
Qed.

(** * Lists and slices *)

Lemma nlen_app : forall a b : list N, nlen (a ++ b) = nlen a + nlen b.
Proof. intros. unfold nlen. rewrite app_length. lia. Qed.

Lemma slice_length : forall l a b, a <= b -> b <= nlen l -> nlen (slice l a b) = b - a.
Proof.
  intros l a b Hab Hb. unfold slice, nlen in *.
  rewrite firstn_length, skipn_length. lia.
Qed.

Lemma skipn_add : forall (l : list N) m n, skipn n (skipn m l) = skipn (n + m) l.
Proof.
  intros l m. revert l. induction m as [|m IH]; intros l n.
  - rewrite Nat.add_0_r. reflexivity.
  - rewrite Nat.add_succ_r. destruct l as [|x l]; cbn [skipn].
    + destruct n; reflexivity.
    + apply IH.
Qed.

Lemma skipn_split : forall (l : list N) a b, a <= b ->
  skipn (N.to_nat a) l = slice l a b ++ skipn (N.to_nat b) l.
Proof.
  intros l a b Hab. unfold slice.
  replace (N.to_nat b) with (N.to_nat (b - a) + N.to_nat a)%nat by lia.
  rewrite <- skipn_add. symmetry. apply firstn_skipn.
Qed.

Lemma slice_substring : forall l a b, a <= b -> substring (slice l a b) l.
Proof.
  intros l a b Hab. exists (firstn (N.to_nat a) l), (skipn (N.to_nat b) l).
  rewrite <- skipn_split by assumption. symmetry. apply firstn_skipn.
Qed.

Lemma slice_full : forall l, slice l 0 (nlen l) = l.
Proof.
  intros l. unfold slice, nlen. cbn [N.to_nat skipn].
  rewrite N.sub_0_r, Nat2N.id. apply firstn_all.
Qed.

(** * Char-boundary snapping *)

Lemma snap_up_spec : forall fuel t i b,
  i <= b -> boundary t b = true -> (N.to_nat (b - i) < fuel)%nat ->
  let r := snap_up fuel t i in i <= r /\ r <= b /\ boundary t r = true.
Proof.
  induction fuel as [|fuel IH]; intros t i b Hib Hb Hf; [lia|].
  cbn [snap_up]. destruct (boundary t i) eqn:Hbi.
  - cbv zeta. repeat split; first [assumption | lia].
  - assert (i <> b) by (intros ->; congruence).
    specialize (IH t (i + 1) b ltac:(lia) Hb ltac:(lia)). cbv zeta in *. lia.
Qed.

Lemma snap_down_spec : forall fuel t i b,
  b <= i -> boundary t b = true -> (N.to_nat (i - b) < fuel)%nat ->
  let r := snap_down fuel t i in b <= r /\ r <= i /\ boundary t r = true.
Proof.
  induction fuel as [|fuel IH]; intros t i b Hib Hb Hf; [lia|].
  cbn [snap_down]. destruct (boundary t i) eqn:Hbi.
  - cbv zeta. repeat split; first [assumption | lia].
  - assert (i <> b) by (intros ->; congruence).
    specialize (IH t (i - 1) b ltac:(lia) Hb ltac:(lia)). cbv zeta in *. lia.
Qed.

(** The core of the repair: the snapped window contains the match, lies on char boundaries inside
    the text and spans at most [sz] bytes. *)
Lemma window_spec : forall t sz s e,
  match_wf t (s, e) = true -> 2 * (e - s) <= sz ->
  let (st, en) := window t sz (s, e) in
  st <= s /\ e <= en /\ en <= nlen t /\ en - st <= sz
  /\ boundary t st = true /\ boundary t en = true.
Proof.
  intros t sz s e Hwf Hsz. unfold match_wf in Hwf. cbn [fst snd] in Hwf.
  apply andb_prop in Hwf as [Hwf Hbe]. apply andb_prop in Hwf as [Hwf Hbs].
  apply andb_prop in Hwf as [Hse Hel].
  unfold window. cbn [fst snd].
  assert (Hlen : nlen t = N.of_nat (length t)) by reflexivity.
  pose proof (N.div_mod' sz 2) as Hdm. pose proof (N.mod_lt sz 2 ltac:(lia)) as Hml.
  set (q := sz / 2) in *. clearbody q. set (r := sz mod 2) in *. clearbody r.
  pose proof (snap_up_spec (S (length t)) t (s - q) s ltac:(lia) Hbs ltac:(lia)) as Hup.
  cbv zeta in Hup. set (st := snap_up (S (length t)) t (s - q)) in *.
  destruct Hup as (Hup1 & Hup2 & Hup3). clearbody st.
  assert (He0 : e <= N.min (nlen t) (st + sz)) by lia.
  pose proof (snap_down_spec (S (length t)) t (N.min (nlen t) (st + sz)) e He0 Hbe ltac:(lia)) as Hdn.
  cbv zeta in Hdn. set (en := snap_down (S (length t)) t (N.min (nlen t) (st + sz))) in *.
  destruct Hdn as (Hdn1 & Hdn2 & Hdn3). clearbody en.
  repeat split; try assumption; lia.
Qed.

Lemma get_or_empty_window : forall t st en,
  st <= en -> en <= nlen t -> boundary t st = true -> boundary t en = true ->
  get_or_empty t st en = slice t st en.
Proof.
  intros t st en H1 H2 H3 H4. unfold get_or_empty. rewrite H3, H4.
  replace (st <=? en) with true by lia. replace (en <=? nlen t) with true by lia. reflexivity.
Qed.

(** * Tag insertion *)

Lemma render_from_tagged : forall pr po frag fm last,
  inner_wf last (nlen frag) fm = true ->
  tagged pr po (render_from frag last fm pr po) (skipn (N.to_nat last) frag) (length fm).
Proof.
  intros pr po frag fm. induction fm as [|[s e] fm IH]; intros last Hwf.
  - cbn [render_from length]. apply tagged_plain_all.
  - cbn [inner_wf] in Hwf.
    apply andb_prop in Hwf as [Hwf Hrest]. apply andb_prop in Hwf as [Hwf Hen].
    apply andb_prop in Hwf as [Hls Hse].
    cbn [render_from length].
    rewrite (skipn_split frag last s) by lia.
    apply tagged_app_plain.
    rewrite (skipn_split frag s e) by lia.
    apply tg_match.
    + intro Hnil. pose proof (slice_length frag s e ltac:(lia) ltac:(lia)) as Hl.
      rewrite Hnil in Hl. unfold nlen in Hl. cbn [length] in Hl. lia.
    + apply IH. assumption.
Qed.

Lemma render_tagged : forall pr po frag fm,
  inner_wf 0 (nlen frag) fm = true ->
  tagged pr po (render frag fm pr po) frag (length fm).
Proof.
  intros. unfold render. pose proof (render_from_tagged pr po frag fm 0 H) as Ht.
  cbn [N.to_nat skipn] in Ht. exact Ht.
Qed.

Lemma tagged_nonempty : forall pr po f s k, tagged pr po f s k -> s <> [] -> f <> [].
Proof.
  intros pr po f s k H. induction H; intros Hs.
  - congruence.
  - discriminate.
  - destruct m as [|b m]; [congruence|]. intro Heq.
    apply app_eq_nil in Heq as [_ Heq]. cbn [app] in Heq. discriminate.
Qed.

(** * One fragment *)

Lemma fragment_wellformed : forall i m fm,
  match_wf (text i) m = true -> 2 * (snd m - fst m) <= size i ->
  let (st, en) := window (text i) (size i) m in
  inner_wf 0 (en - st) fm = true -> a1_entry m (st, en, fm) = true ->
  wellformed_fragment i (render (get_or_empty (text i) st en) fm (pre i) (post i)).
Proof.
  intros i [s e] fm Hwf Hsz. cbn [fst snd] in Hsz.
  pose proof (window_spec (text i) (size i) s e Hwf Hsz) as Hw.
  destruct (window (text i) (size i) (s, e)) as [st en].
  destruct Hw as (H1 & H2 & H3 & H4 & H5 & H6).
  intros Hin Ha1.
  unfold match_wf in Hwf. cbn [fst snd] in Hwf.
  assert (Hse : s < e) by lia.
  rewrite get_or_empty_window by (try assumption; lia).
  set (frag := slice (text i) st en).
  assert (Hfl : nlen frag = en - st) by (apply slice_length; lia).
  unfold a1_entry in Ha1. cbn [fst snd] in Ha1.
  replace (st <=? s) with true in Ha1 by lia. replace (e <=? en) with true in Ha1 by lia.
  cbn [andb] in Ha1.
  assert (Hk : (1 <= length fm)%nat) by (destruct fm; cbn in *; [discriminate|lia]).
  assert (Hne : frag <> []).
  { intro Hnil. rewrite Hnil in Hfl. unfold nlen in Hfl. cbn [length] in Hfl. lia. }
  pose proof (render_tagged (pre i) (post i) frag fm ltac:(rewrite Hfl; exact Hin)) as Ht.
  split.
  - eapply tagged_nonempty; eauto.
  - exists frag, (length fm). repeat split; try assumption.
    + apply slice_substring. lia.
    + lia.
Qed.

(** * All fragments *)

Lemma frags_Forall : forall (i : hl_in) (P : list N -> Prop),
  (forall m fm, match_wf (text i) m = true -> 2 * (snd m - fst m) <= size i ->
     let (st, en) := window (text i) (size i) m in
     inner_wf 0 (en - st) fm = true -> a1_entry m (st, en, fm) = true ->
     P (render (get_or_empty (text i) st en) fm (pre i) (post i))) ->
  forall matches inner out,
  forallb (match_wf (text i)) matches = true ->
  forallb (fun m => 2 * (snd m - fst m) <=? size i) matches = true ->
  forallb inner_entry_wf inner = true ->
  a1_holds matches inner = true ->
  frags_with window (text i) (size i) (pre i) (post i) matches inner = Some out ->
  Forall P out.
Proof.
  intros i P HP matches. induction matches as [|m matches IH]; intros inner out Hm Hs Hi Ha Hf.
  - cbn [frags_with] in Hf. injection Hf as <-. constructor.
  - cbn [frags_with] in Hf. destruct inner as [|[[ws we] fm] inner]; [discriminate|].
    cbn [forallb] in Hm, Hs, Hi. cbn [a1_holds] in Ha.
    apply andb_prop in Hm as [Hm1 Hm2]. apply andb_prop in Hs as [Hs1 Hs2].
    apply andb_prop in Hi as [Hi1 Hi2]. apply andb_prop in Ha as [Ha1 Ha2].
    pose proof (HP m fm Hm1 ltac:(lia)) as Hfw.
    destruct (window (text i) (size i) m) as [st en].
    destruct ((ws =? st) && (we =? en)) eqn:Hal; [|discriminate].
    assert (ws = st /\ we = en) as [-> ->] by lia.
    destruct (frags_with window (text i) (size i) (pre i) (post i) matches inner) as [rest|] eqn:Hr;
      [|discriminate].
    injection Hf as <-. constructor.
    + apply Hfw; assumption.
    + eapply IH; eauto.
Qed.

Lemma frags_wellformed : forall i matches inner out,
  forallb (match_wf (text i)) matches = true ->
  forallb (fun m => 2 * (snd m - fst m) <=? size i) matches = true ->
  forallb inner_entry_wf inner = true ->
  a1_holds matches inner = true ->
  frags_with window (text i) (size i) (pre i) (post i) matches inner = Some out ->
  Forall (wellformed_fragment i) out.
Proof.
  intros i. apply frags_Forall. intros m fm. apply fragment_wellformed.
Qed.

Lemma frags_length : forall win t sz pr po matches inner out,
  frags_with win t sz pr po matches inner = Some out -> length out = length matches.
Proof.
  intros win t sz pr po matches. induction matches as [|m matches IH]; intros inner out Hf.
  - cbn [frags_with] in Hf. injection Hf as <-. reflexivity.
  - cbn [frags_with] in Hf. destruct inner as [|[[ws we] fm] inner]; [discriminate|].
    destruct (win t sz m) as [st en].
    destruct ((ws =? st) && (we =? en)); [|discriminate].
    destruct (frags_with win t sz pr po matches inner) as [rest|] eqn:Hr; [|discriminate].
    injection Hf as <-. cbn [length]. f_equal. eauto.
Qed.

Lemma highlight_count : forall i out,
  highlight i = Some out -> N.of_nat (length out) <= nfrag i.
Proof.
  intros i out H. unfold highlight in H. apply frags_length in H. rewrite H.
  unfold used_matches. rewrite firstn_length. lia.
Qed.

Lemma wellformed : forall i out,
  wf i = true -> size_hyp i = true -> highlight i = Some out ->
  Forall (wellformed_fragment i) out /\ N.of_nat (length out) <= nfrag i.
Proof.
  intros i out Hwf Hs Hh. split; [|apply highlight_count; assumption].
  unfold wf in Hwf. apply andb_prop in Hwf as [Hwf Ha]. apply andb_prop in Hwf as [Hm Hi].
  eapply frags_wellformed; eauto.
Qed.
