(** C21 — model of [highlight_fragments] / [make_snippet]
    (searchlite-core/src/index/highlight.rs, after the char-boundary fix) at the UTF-8 byte level.
    Definitions only; proofs are in Proofs.v.

    Texts, tags and fragments are byte lists ([list N], every element < 256).  The regex engine is
    an oracle: a case carries
      - [ms]  : the successive matches [(start, end)] that [re.find_at(text, offset)] returned in
                the loop of [highlight_fragments] (byte offsets into the text), and
      - [fms] : for every produced fragment the window [(wstart, wend)] the engine expects and the
                matches [re.replace_all] finds *inside that fragment* (byte offsets into the
                fragment).
    Everything else (window arithmetic, char-boundary snapping, slicing, tag insertion, the
    [number_of_fragments] cut) is computed by the model.

    Unit of "fragment size": the code measures the window in BYTES of the UTF-8 text.  The model
    and the specification use bytes too; since a character is at least one byte, a fragment of at
    most [size] bytes also has at most [size] characters, so the byte reading is the stronger one. *)

From Coq Require Import List NArith Bool.
From SL Require Import Base.Tie.
Import ListNotations.
Open Scope N_scope.

Record hl_in := {
  text  : list N;                        (* stored field text, UTF-8 bytes                      *)
  size  : N;                             (* fragment_size                                       *)
  nfrag : N;                             (* number_of_fragments                                 *)
  pre   : list N;                        (* pre_tag bytes                                       *)
  post  : list N;                        (* post_tag bytes                                      *)
  ms    : list (N * N);                  (* oracle: successive find_at matches in the text      *)
  fms   : list (N * N * list (N * N))    (* oracle: per fragment (wstart, wend, matches inside) *)
}.

Definition nlen (l : list N) : N := N.of_nat (length l).

(** -- UTF-8 char boundaries: [str::is_char_boundary] ------------------------------------------ *)
Definition is_cont (b : N) : bool := (128 <=? b) && (b <? 192).

Definition boundary (t : list N) (i : N) : bool :=
  (i =? 0) || (i =? nlen t) || ((i <? nlen t) && negb (is_cont (nth (N.to_nat i) t 0))).

(** [while !text.is_char_boundary(start) { start += 1 }]  — fuel is [S |text|]; running out of
    fuel cannot happen when a boundary exists at or above [i] (the match start is one). *)
Fixpoint snap_up (fuel : nat) (t : list N) (i : N) : N :=
  match fuel with
  | O => i
  | S f => if boundary t i then i else snap_up f t (i + 1)
  end.

(** [while !text.is_char_boundary(end) { end -= 1 }] *)
Fixpoint snap_down (fuel : nat) (t : list N) (i : N) : N :=
  match fuel with
  | O => i
  | S f => if boundary t i then i else snap_down f t (i - 1)
  end.

Definition slice (l : list N) (a b : N) : list N :=
  firstn (N.to_nat (b - a)) (skipn (N.to_nat a) l).

(** [text.get(start..end).unwrap_or("")] *)
Definition get_or_empty (t : list N) (a b : N) : list N :=
  if (a <=? b) && (b <=? nlen t) && boundary t a && boundary t b then slice t a b else [].

(** The window around a match [(s, e)]:
      let mut start = m.start().saturating_sub(size / 2);   while !boundary(start) { start += 1 }
      let mut end = min(text.len(), start.saturating_add(size)); while !boundary(end) { end -= 1 }
    ([N.sub] saturates at 0; [saturating_add] only matters above 2^64 where [min] with the text
    length gives the same result.) *)
Definition window (t : list N) (sz : N) (m : N * N) : N * N :=
  let st := snap_up (S (length t)) t (fst m - sz / 2) in
  let en := snap_down (S (length t)) t (N.min (nlen t) (st + sz)) in
  (st, en).

(** The window of the code before the fix (raw byte offsets), kept for the refutation theorem. *)
Definition window_unsnapped (t : list N) (sz : N) (m : N * N) : N * N :=
  let st := fst m - sz / 2 in (st, N.min (nlen t) (st + sz)).

(** [re.replace_all(&fragment, |caps| pre + caps[0] + post)] given the matches inside the fragment:
    copy the text between matches, wrap every match. *)
Fixpoint render_from (frag : list N) (last : N) (fm : list (N * N)) (pr po : list N) : list N :=
  match fm with
  | [] => skipn (N.to_nat last) frag
  | (s, e) :: fm' =>
      slice frag last s ++ pr ++ slice frag s e ++ po ++ render_from frag e fm' pr po
  end.

Definition render (frag : list N) (fm : list (N * N)) (pr po : list N) : list N :=
  render_from frag 0 fm pr po.

(** One fragment per match, in order.  [None] = the oracle's windows do not line up with the
    model's (the engine and the model disagree about the window: correspondence broken). *)
Fixpoint frags_with (win : list N -> N -> N * N -> N * N)
         (t : list N) (sz : N) (pr po : list N)
         (matches : list (N * N)) (inner : list (N * N * list (N * N))) : option (list (list N)) :=
  match matches with
  | [] => Some []
  | m :: matches' =>
      match inner with
      | [] => None
      | (ws, we, fm) :: inner' =>
          let (st, en) := win t sz m in
          if (ws =? st) && (we =? en) then
            match frags_with win t sz pr po matches' inner' with
            | Some rest => Some (render (get_or_empty t st en) fm pr po :: rest)
            | None => None
            end
          else None
      end
  end.

(** [for _ in 0..number_of_fragments { if let Some(m) = re.find_at(text, offset) {..} else break }] *)
Definition used_matches (i : hl_in) : list (N * N) := firstn (N.to_nat (nfrag i)) (ms i).

Definition highlight (i : hl_in) : option (list (list N)) :=
  frags_with window (text i) (size i) (pre i) (post i) (used_matches i) (fms i).

Definition highlight_unsnapped (i : hl_in) : option (list (list N)) :=
  frags_with window_unsnapped (text i) (size i) (pre i) (post i) (used_matches i) (fms i).

(** -- Executable specification, read off the statement -------------------------------------------
    "Every fragment is non-empty, contains at least one tagged match, becomes a substring of the
     text once the tags are removed, and is no longer than the requested fragment size; at most
     number_of_fragments fragments; whenever the fragment size is at least twice the length of the
     matched text."

    Tag removal is a left-to-right scan: in plain text an occurrence of [pre] opens a match, inside
    a match (after at least one byte) an occurrence of [post] closes it; the tag bytes are dropped.
    The scan is a function of the fragment only.  When the tag strings can also occur in the text
    the scan may mis-parse a perfectly good fragment, so a failing scan is reported as a
    violation only when [tags_clean] holds (see [check_case]); the Prop-level theorem
    (Proofs.v, [tagged]) is existential over the tag positions and needs no such condition. *)

Fixpoint is_prefix (p l : list N) : bool :=
  match p, l with
  | [], _ => true
  | a :: p', b :: l' => (a =? b) && is_prefix p' l'
  | _ :: _, [] => false
  end.

Definition ocons (b : N) (r : option (list N * N)) : option (list N * N) :=
  match r with Some (s, k) => Some (b :: s, k) | None => None end.

(** [inm]: inside a tagged match; [ne]: the current match already has a byte; [skip]: tag bytes
    still to drop; [k]: closed matches so far.  Result: (stripped text, number of tagged matches). *)
Fixpoint strip_tags (pr po : list N) (f : list N) (inm ne : bool) (skip : nat) (k : N)
  : option (list N * N) :=
  match f with
  | [] => if inm || negb (Nat.eqb skip 0) then None else Some ([], k)
  | b :: f' =>
      match skip with
      | S sk => strip_tags pr po f' inm ne sk k
      | O =>
          if negb inm then
            if is_prefix pr f then strip_tags pr po f' true false (length pr - 1) k
            else ocons b (strip_tags pr po f' false false 0 k)
          else
            if ne && is_prefix po f then strip_tags pr po f' false false (length po - 1) (k + 1)
            else ocons b (strip_tags pr po f' true true 0 k)
      end
  end.

Definition is_substring (s t : list N) : bool :=
  existsb (fun a => is_prefix s (skipn a t)) (seq 0 (S (length t))).

Definition frag_ok (i : hl_in) (f : list N) : bool :=
  match pre i, post i with
  | _ :: _, _ :: _ =>
      match strip_tags (pre i) (post i) f false false 0 0 with
      | Some (s, k) =>
          negb (Nat.eqb (length f) 0)          (* non-empty                              *)
          && (1 <=? k)                         (* at least one tagged match              *)
          && is_substring s (text i)           (* substring of the text without the tags *)
          && (nlen s <=? size i)               (* no longer than fragment_size (bytes)   *)
      | None => false
      end
  | _, _ => false
  end.

(** the statement's premise, on the matches the fragments are built around *)
Definition size_hyp (i : hl_in) : bool :=
  forallb (fun m => 2 * (snd m - fst m) <=? size i) (used_matches i).

Definition spec (i : hl_in) (o : list (list N)) : bool :=
  (N.of_nat (length o) <=? nfrag i) && (if size_hyp i then forallb (frag_ok i) o else true).

(** -- Side conditions ------------------------------------------------------------------------- *)

(** what the regex crate guarantees about matches in a [&str]: non-empty (every pattern contains a
    literal), inside the text, on char boundaries *)
Definition match_wf (t : list N) (m : N * N) : bool :=
  (fst m <? snd m) && (snd m <=? nlen t) && boundary t (fst m) && boundary t (snd m).

(** matches inside a fragment of [n] bytes: non-empty, ordered, non-overlapping, inside *)
Fixpoint inner_wf (last n : N) (fm : list (N * N)) : bool :=
  match fm with
  | [] => true
  | (s, e) :: fm' => (last <=? s) && (s <? e) && (e <=? n) && inner_wf e n fm'
  end.

(** Oracle assumption A1 ("re-finding"): when the window contains the match it was built around,
    the regex finds at least one match inside the fragment.  This holds whenever every highlight
    term starts and ends with a regex word character ([\w]); it FAILS for terms with a non-word
    first/last character sitting exactly at a fragment edge, because [\b] does not hold at the
    start/end of the fragment there — known-finding class 1. *)
Definition a1_entry (m : N * N) (e : N * N * list (N * N)) : bool :=
  let '(ws, we, fm) := e in
  if (ws <=? fst m) && (snd m <=? we) then negb (Nat.eqb (length fm) 0) else true.

Fixpoint a1_holds (matches : list (N * N)) (inner : list (N * N * list (N * N))) : bool :=
  match matches, inner with
  | m :: matches', e :: inner' => a1_entry m e && a1_holds matches' inner'
  | _, _ => true
  end.

Definition inner_entry_wf (e : N * N * list (N * N)) : bool :=
  let '(ws, we, fm) := e in inner_wf 0 (we - ws) fm.

Definition wf (i : hl_in) : bool :=
  forallb (match_wf (text i)) (used_matches i)
  && forallb inner_entry_wf (fms i)
  && a1_holds (used_matches i) (fms i).

(** the left-to-right tag scan is unambiguous: both tags non-empty and their first bytes do not
    occur in the text *)
Definition tags_clean (i : hl_in) : bool :=
  match pre i, post i with
  | p :: _, q :: _ => negb (existsb (N.eqb p) (text i)) && negb (existsb (N.eqb q) (text i))
  | _, _ => false
  end.

(** -- The tie ------------------------------------------------------------------------------------ *)
Definition list_eqb (a b : list N) : bool :=
  (Nat.eqb (length a) (length b)) && forallb (fun p => N.eqb (fst p) (snd p)) (combine a b).

Fixpoint lists_eqb (a b : list (list N)) : bool :=
  match a, b with
  | [], [] => true
  | x :: a', y :: b' => list_eqb x y && lists_eqb a' b'
  | _, _ => false
  end.

Definition corr (i : hl_in) (o : list (list N)) : bool :=
  match highlight i with Some out => lists_eqb out o | None => false end.

(** known class 1: the oracle data itself shows A1 failing (regex did not re-find the match inside
    a window that contains it) *)
Definition known_class (i : hl_in) : N :=
  if a1_holds (used_matches i) (fms i) then 0 else 1.

(** Verdict.  [spec] true: 0 / 1 by correspondence.  [spec] false:
      - tags clean: the scan is exact, the observation violates the statement: 2 (or 101);
      - tags not clean: the scan may have mis-parsed.  If the observation equals the model's output
        and the theorem's premises hold, C21_wellformed shows the observation is well-formed: 0.
        If A1 fails on the oracle data and the observation equals the model: the fragment has no
        tagged match at all: 101.  Otherwise only the correspondence is known to be broken: 1. *)
Definition check_case (c : hl_in * list (list N)) : N :=
  let (i, o) := c in
  let co := corr i o in
  if spec i o then (if co then 0 else 1)
  else if tags_clean i then (if N.eqb (known_class i) 0 then 2 else 100 + known_class i)
  else if co then (if wf i then 0 else if N.eqb (known_class i) 0 then 1 else 100 + known_class i)
  else 1.
