(** C08 — proofs: the filter evaluator over the flattened columns equals the tree semantics. *)
From Coq Require Import List NArith ZArith Bool PeanoNat Lia.
From SL Require Import C08.Model.
Import ListNotations.

(* ------------------------------------------------------------------ list helpers *)
Lemma existsb_ext_in {A} (f g : A -> bool) l :
  (forall x, In x l -> f x = g x) -> existsb f l = existsb g l.
Proof.
  induction l as [|a l IH]; intros H; simpl; [reflexivity|].
  rewrite (H a (or_introl eq_refl)). f_equal. apply IH. intros x Hx. apply H. right. exact Hx.
Qed.

Lemma forallb_ext_in {A} (f g : A -> bool) l :
  (forall x, In x l -> f x = g x) -> forallb f l = forallb g l.
Proof.
  induction l as [|a l IH]; intros H; simpl; [reflexivity|].
  rewrite (H a (or_introl eq_refl)). f_equal. apply IH. intros x Hx. apply H. right. exact Hx.
Qed.

Lemma existsb_map {A B} (h : A -> B) (g : B -> bool) l :
  existsb g (map h l) = existsb (fun x => g (h x)) l.
Proof. induction l as [|a l IH]; simpl; [reflexivity|]. rewrite IH. reflexivity. Qed.

Lemma existsb_seq_nth {A} (l : list A) (body : nat -> bool) (g : A -> bool) s :
  (forall j x, nth_error l j = Some x -> body (s + j)%nat = g x) ->
  existsb body (seq s (length l)) = existsb g l.
Proof.
  revert s. induction l as [|a l IH]; intros s H; simpl; [reflexivity|].
  pose proof (H 0%nat a eq_refl) as H0. rewrite Nat.add_0_r in H0. rewrite H0. f_equal.
  apply IH. intros j x Hj. replace (S s + j)%nat with (s + S j)%nat by lia. apply H. exact Hj.
Qed.

Lemma kind_eqb_refl k : kind_eqb k k = true.
Proof. destruct k; reflexivity. Qed.

Lemma kind_eqb_eq a b : kind_eqb a b = true -> a = b.
Proof. destruct a, b; simpl; intros H; try reflexivity; discriminate. Qed.

(* ------------------------------------------------------------------ the object table *)
Lemma table_from_app rows rest p :
  table_from rows (rest ++ [p]) = child_rows_from 0 (table_from rows rest) p.
Proof. revert rows. induction rest as [|r rest IH]; intros rows; simpl; [reflexivity|]. apply IH. Qed.

Lemma table_snoc d c rest p :
  table d ((c :: rest) ++ [p]) = child_rows_from 0 (table d (c :: rest)) p.
Proof. simpl. apply table_from_app. Qed.

Definition pcheck (idx : nat) (Q : obj -> bool) (x : row) : bool :=
  match r_parent x with
  | Some q => if Nat.eqb q idx then Q (r_obj x) else false
  | None => false
  end.

Lemma existsb_tagged (Q : obj -> bool) idx i (l : list obj) :
  existsb (pcheck idx Q) (map (mkrow (Some i)) l) = if Nat.eqb i idx then existsb Q l else false.
Proof.
  induction l as [|a l IH]; simpl.
  - destruct (Nat.eqb i idx); reflexivity.
  - rewrite IH. unfold pcheck. simpl. destruct (Nat.eqb i idx); reflexivity.
Qed.

(** The children of parent object [idx] are exactly the rows tagged with [idx]. *)
Lemma existsb_child_rows (Q : obj -> bool) (idx : nat) rows r i :
  existsb (pcheck idx Q) (child_rows_from i rows r)
  = if Nat.leb i idx
    then match nth_error rows (idx - i) with
         | Some x => existsb Q (slots (jlookup r (r_obj x)))
         | None => false
         end
    else false.
Proof.
  revert i. induction rows as [|a rows IH]; intros i; simpl.
  - destruct (Nat.leb i idx); [destruct (idx - i)%nat|]; reflexivity.
  - rewrite existsb_app, existsb_tagged, IH.
    destruct (Nat.eqb i idx) eqn:E.
    + apply Nat.eqb_eq in E. subst i.
      rewrite Nat.leb_refl, Nat.sub_diag.
      replace (Nat.leb (S idx) idx) with false by (symmetry; apply Nat.leb_gt; lia).
      cbn [nth_error]. apply orb_false_r.
    + apply Nat.eqb_neq in E. cbn [orb].
      destruct (Nat.leb i idx) eqn:L.
      * apply Nat.leb_le in L.
        replace (Nat.leb (S i) idx) with true by (symmetry; apply Nat.leb_le; lia).
        replace (idx - i)%nat with (S (idx - S i)) by lia. reflexivity.
      * apply Nat.leb_gt in L.
        replace (Nat.leb (S i) idx) with false by (symmetry; apply Nat.leb_gt; lia). reflexivity.
Qed.

Lemma obj_loop_rows sch d full parent (body : nat -> bool) (g : row -> bool) :
  (forall j x, nth_error (table d full) j = Some x -> body j = g x) ->
  obj_loop (flatten sch d) full parent body
  = existsb (fun x => match parent with
                      | Some p => match r_parent x with
                                  | Some q => if Nat.eqb q p then g x else false
                                  | None => false
                                  end
                      | None => g x
                      end) (table d full).
Proof.
  intros H. unfold obj_loop. simpl.
  destruct (Nat.eqb (length (table d full)) 0) eqn:E.
  - apply Nat.eqb_eq in E. destruct (table d full); [reflexivity|discriminate].
  - apply existsb_seq_nth. intros j x Hj. simpl.
    destruct parent as [p|].
    + rewrite (map_nth_error r_parent _ _ Hj). destruct (r_parent x) as [q|]; [|reflexivity].
      destruct (Nat.eqb q p); [apply H; exact Hj|reflexivity].
    + apply H. exact Hj.
Qed.

(** [bound d base oi o]: the evaluator's position (column prefix [base], object index [oi])
    denotes object [o] of document [d]. *)
Definition bound (d : obj) (base : list N) (oi : option nat) (o : obj) : Prop :=
  match oi with
  | None => base = [] /\ o = d
  | Some j => exists par, nth_error (table d base) j = Some (mkrow par o)
  end.

Lemma objects_in_slots o p : objects_in o p = slots (jlookup p o).
Proof. reflexivity. Qed.

Lemma nested_step sch d base oi o p (body : nat -> bool) (Q : obj -> bool) :
  bound d base oi o ->
  (forall j o', bound d (base ++ [p]) (Some j) o' -> body j = Q o') ->
  obj_loop (flatten sch d) (base ++ [p]) oi body = existsb Q (objects_in o p).
Proof.
  intros Hb Hbody.
  rewrite (obj_loop_rows sch d (base ++ [p]) oi body (fun x => Q (r_obj x))).
  2:{ intros j x Hj. apply Hbody. simpl. exists (r_parent x). destruct x; exact Hj. }
  rewrite objects_in_slots.
  destruct oi as [j0|]; simpl in Hb.
  - destruct Hb as [par Hn].
    destruct base as [|c rest]; [destruct j0; discriminate Hn|].
    rewrite table_snoc.
    change (fun x : row => match r_parent x with
                           | Some q => if Nat.eqb q j0 then Q (r_obj x) else false
                           | None => false end) with (pcheck j0 Q).
    rewrite existsb_child_rows. cbn [Nat.leb]. rewrite Nat.sub_0_r, Hn. reflexivity.
  - destruct Hb as [-> ->]. simpl. unfold top_rows. rewrite existsb_map. reflexivity.
Qed.

Lemma leaf_column {A} sch d base oi o fld k (coll : option jval -> list A) (pred : A -> bool) :
  bound d base oi o ->
  kind_at sch base fld = Some k ->
  leaf (column sch d k coll base fld) oi pred = existsb pred (coll (jlookup fld o)).
Proof.
  intros Hb Hk. unfold column. rewrite Hk, kind_eqb_refl.
  destruct oi as [j|]; simpl in Hb.
  - destruct Hb as [par Hn].
    destruct base as [|c rest]; [destruct j; discriminate Hn|].
    unfold leaf.
    rewrite (map_nth_error (fun r => coll (jlookup fld (r_obj r))) _ _ Hn). reflexivity.
  - destruct Hb as [-> ->]. simpl. apply orb_false_r.
Qed.

(* ------------------------------------------------------------------ typing *)
Lemma props_at_app ps base p ps1 ps2 :
  props_at ps base = Some ps1 -> find_obj ps1 p = Some ps2 -> props_at ps (base ++ [p]) = Some ps2.
Proof.
  revert ps. induction base as [|c rest IH]; intros ps H1 H2; simpl in *.
  - injection H1 as <-. rewrite H2. reflexivity.
  - destruct (find_obj ps c) as [fs'|]; [|discriminate]. apply IH; assumption.
Qed.

Lemma kind_is_at sch base ps fld k :
  props_at sch base = Some ps -> kind_is ps fld k = true -> kind_at sch base fld = Some k.
Proof.
  intros Hp Hk. unfold kind_at. rewrite Hp. unfold kind_is in Hk.
  destruct (find_kind ps fld) as [k'|]; [|discriminate].
  apply kind_eqb_eq in Hk. subst. reflexivity.
Qed.

Lemma wt_inners ps ps' p l :
  forallb (wt ps) l = true -> find_obj ps p = Some ps' -> forallb (wt ps') (inners p l) = true.
Proof.
  intros Hl Hf. induction l as [|a l IH]; simpl in *; [reflexivity|].
  apply andb_true_iff in Hl as [Ha Hl]. specialize (IH Hl).
  destruct a; simpl; try exact IH.
  destruct (N.eqb p0 p) eqn:E; simpl; [|exact IH].
  apply N.eqb_eq in E. subst p0. simpl in Ha. rewrite Hf in Ha. rewrite Ha, IH. reflexivity.
Qed.

Lemma split_forallb (A : filter -> bool) (G : N -> bool) l :
  forallb (fun c => if is_nested c then true else A c) l && forallb G (gpaths l)
  = forallb (fun c => match c with FNested p _ => G p | _ => A c end) l.
Proof.
  apply eq_true_iff_eq. rewrite andb_true_iff, !forallb_forall. split.
  - intros [H1 H2] c Hc.
    destruct c; try (specialize (H1 _ Hc); simpl in H1; exact H1).
    apply H2. unfold gpaths. apply nodup_In. apply in_flat_map.
    eexists; split; [exact Hc|]. simpl. left. reflexivity.
  - intros H. split.
    + intros c Hc. specialize (H c Hc). destruct c; simpl; auto.
    + intros p Hp. unfold gpaths in Hp. apply nodup_In in Hp. apply in_flat_map in Hp as [c [Hc Hin]].
      destruct c; simpl in Hin; try contradiction.
      destruct Hin as [<-|[]]. apply (H _ Hc).
Qed.

(* ------------------------------------------------------------------ main equivalence *)
Lemma ci_eq_sym a b : ci_eq a b = ci_eq b a.
Proof. unfold ci_eq. apply N.eqb_sym. Qed.

Lemma strings_of_collect o fld : strings_of o fld = collect_strings (jlookup fld o).
Proof. reflexivity. Qed.
Lemma ints_of_collect o fld : ints_of o fld = collect_i64s (jlookup fld o).
Proof. reflexivity. Qed.
Lemma floats_of_collect o fld : floats_of o fld = collect_f64s (jlookup fld o).
Proof. reflexivity. Qed.

Lemma in_range_le lo hi x : in_range lo hi x = (Z.leb lo x && Z.leb x hi)%bool.
Proof. unfold in_range. rewrite Z.geb_leb. reflexivity. Qed.

Lemma main sch d : forall n,
  (forall f base oi o ps,
      bound d base oi o -> props_at sch base = Some ps -> wt ps f = true ->
      fm (flatten sch d) n f base oi = fs n f o)
  /\ (forall l base oi o ps,
      bound d base oi o -> props_at sch base = Some ps -> forallb (wt ps) l = true ->
      pfa (flatten sch d) n l base oi = fs_all n l o).
Proof.
  induction n as [|n [IHf IHl]]; [split; intros; reflexivity|].
  split.
  - intros f base oi o ps Hb Hp Hw. destruct f; simpl in Hw; simpl fm; simpl fs.
    + rewrite (leaf_column sch d base oi o fld KKw collect_strings _ Hb (kind_is_at _ _ _ _ _ Hp Hw)).
      rewrite strings_of_collect. apply existsb_ext_in. intros s _. apply ci_eq_sym.
    + rewrite (leaf_column sch d base oi o fld KKw collect_strings _ Hb (kind_is_at _ _ _ _ _ Hp Hw)).
      rewrite strings_of_collect. reflexivity.
    + rewrite (leaf_column sch d base oi o fld KI64 collect_i64s _ Hb (kind_is_at _ _ _ _ _ Hp Hw)).
      rewrite ints_of_collect. apply existsb_ext_in. intros x _. apply in_range_le.
    + rewrite (leaf_column sch d base oi o fld KF64 collect_f64s _ Hb (kind_is_at _ _ _ _ _ Hp Hw)).
      rewrite floats_of_collect. apply existsb_ext_in. intros x _. apply in_range_le.
    + destruct (find_obj ps p) as [ps'|] eqn:Ho; [|discriminate].
      apply (nested_step sch d base oi o p _ (fun o' => fs n f o') Hb).
      intros j o' Hb'. apply (IHf f (base ++ [p]) (Some j) o' ps' Hb'); [|exact Hw].
      eapply props_at_app; eassumption.
    + apply (IHl l base oi o ps Hb Hp Hw).
    + apply existsb_ext_in. intros c Hc. apply (IHf c base oi o ps Hb Hp).
      rewrite forallb_forall in Hw. apply Hw. exact Hc.
    + f_equal. apply (IHf f base oi o ps Hb Hp Hw).
  - intros l base oi o ps Hb Hp Hw. simpl pfa. simpl fs_all.
    rewrite split_forallb. apply forallb_ext_in. intros c Hc.
    assert (Hwc : wt ps c = true) by (rewrite forallb_forall in Hw; apply Hw; exact Hc).
    destruct c; try (apply (IHf _ base oi o ps Hb Hp Hwc)).
    simpl in Hwc. destruct (find_obj ps p) as [ps'|] eqn:Ho; [|discriminate].
    apply (nested_step sch d base oi o p _ (fun o' => fs_all n (inners p l) o') Hb).
    intros j o' Hb'. apply (IHl (inners p l) (base ++ [p]) (Some j) o' ps' Hb').
    + eapply props_at_app; eassumption.
    + eapply wt_inners; eassumption.
Qed.

Theorem filter_exact : forall sch d f,
  well_typed sch f = true -> passes (flatten sch d) f = fsem f d.
Proof.
  intros sch d f Hw. unfold passes, fsem.
  apply (proj1 (main sch d (need f)) f [] None d sch); [split; reflexivity|reflexivity|exact Hw].
Qed.

(* ------------------------------------------------------------------ fuel is immaterial for S *)
Lemma fsize_pos f : (1 <= fsize f)%nat.
Proof. destruct f; simpl; lia. Qed.

Lemma in_lsize c l : In c l -> (fsize c <= lsize l)%nat.
Proof.
  unfold lsize. induction l as [|a l IH]; intros H; simpl in *; [contradiction|].
  destruct H as [->|H]; [lia|]. specialize (IH H). lia.
Qed.

Lemma inners_lsize_le p l : (lsize (inners p l) <= lsize l)%nat.
Proof.
  unfold lsize. induction l as [|a l IH]; simpl; [lia|].
  destruct a; simpl; try lia.
  destruct (N.eqb p0 p); simpl; lia.
Qed.

Lemma inners_lsize_lt p g l : In (FNested p g) l -> (lsize (inners p l) + 1 <= lsize l)%nat.
Proof.
  induction l as [|a l IH]; intros H; [contradiction|].
  destruct H as [->|H].
  - pose proof (inners_lsize_le p l) as L. unfold lsize in *. simpl. rewrite N.eqb_refl. simpl. lia.
  - specialize (IH H). unfold lsize in *. simpl.
    destruct a; simpl; try lia.
    destruct (N.eqb p0 p); simpl; lia.
Qed.

Lemma fs_stable : forall n m,
  (forall f o, (need f <= n)%nat -> (need f <= m)%nat -> fs n f o = fs m f o)
  /\ (forall l o, (needl l <= n)%nat -> (needl l <= m)%nat -> fs_all n l o = fs_all m l o).
Proof.
  induction n as [|n IH]; intros m.
  - split.
    + intros f o H. pose proof (fsize_pos f). unfold need in H. lia.
    + intros l o H. unfold needl in H. lia.
  - destruct m as [|m].
    + split.
      * intros f o _ H. pose proof (fsize_pos f). unfold need in H. lia.
      * intros l o _ H. unfold needl in H. lia.
    + destruct (IH m) as [IHf IHl]. split.
      * intros f o Hn Hm. unfold need in Hn, Hm.
        destruct f; simpl fs; try reflexivity; simpl fsize in Hn, Hm.
        -- apply existsb_ext_in. intros o' _. apply IHf; unfold need; lia.
        -- apply IHl; unfold needl, lsize; lia.
        -- apply existsb_ext_in. intros c Hc. pose proof (in_lsize c l Hc) as L. unfold lsize in L.
           apply IHf; unfold need; lia.
        -- f_equal. apply IHf; unfold need; lia.
      * intros l o Hn Hm. unfold needl in Hn, Hm. simpl fs_all.
        apply forallb_ext_in. intros c Hc. pose proof (in_lsize c l Hc) as L.
        destruct c; try (apply IHf; unfold need; lia).
        apply existsb_ext_in. intros o' _.
        pose proof (inners_lsize_lt p c l Hc) as L2.
        apply IHl; unfold needl; lia.
Qed.

Lemma fs_enough f o n : (need f <= n)%nat -> fs n f o = fsem f o.
Proof. intros H. unfold fsem. apply (proj1 (fs_stable n (need f))); [exact H|lia]. Qed.

Lemma fs_all_enough l o n : (needl l <= n)%nat -> fs_all n l o = fs_all (needl l) l o.
Proof. intros H. apply (proj2 (fs_stable n (needl l))); [exact H|lia]. Qed.

(** The specification, unfolded: these equations are the documented semantics. *)
Lemma sem_kw_eq fld v o : fsem (FKwEq fld v) o = existsb (fun s => ci_eq v s) (strings_of o fld).
Proof. reflexivity. Qed.

Lemma sem_kw_in fld vs o :
  fsem (FKwIn fld vs) o = existsb (fun s => existsb (fun v => ci_eq v s) vs) (strings_of o fld).
Proof. reflexivity. Qed.

Lemma sem_i64 fld lo hi o :
  fsem (FI64 fld lo hi) o = existsb (fun x => Z.leb lo x && Z.leb x hi)%bool (ints_of o fld).
Proof. reflexivity. Qed.

Lemma sem_f64 fld lo hi o :
  fsem (FF64 fld lo hi) o = existsb (fun x => Z.leb lo x && Z.leb x hi)%bool (floats_of o fld).
Proof. reflexivity. Qed.

Lemma need_S f : exists k, need f = S (S k) /\ k = (2 * fsize f - 2)%nat.
Proof. pose proof (fsize_pos f). unfold need. exists (2 * fsize f - 2)%nat. split; lia. Qed.

Lemma fs_S_not n g o : fs (S n) (FNot g) o = negb (fs n g o).
Proof. reflexivity. Qed.
Lemma fs_S_nested n p g o : fs (S n) (FNested p g) o = existsb (fun o' => fs n g o') (objects_in o p).
Proof. reflexivity. Qed.
Lemma fs_S_or n l o : fs (S n) (FOr l) o = existsb (fun c => fs n c o) l.
Proof. reflexivity. Qed.
Lemma fs_S_and n l o : fs (S n) (FAnd l) o = fs_all n l o.
Proof. reflexivity. Qed.
Lemma fs_all_S n l o :
  fs_all (S n) l o
  = forallb (fun c => match c with
                      | FNested p _ => existsb (fun o' => fs_all n (inners p l) o') (objects_in o p)
                      | _ => fs n c o
                      end) l.
Proof. reflexivity. Qed.

Lemma sem_not g o : fsem (FNot g) o = negb (fsem g o).
Proof.
  unfold fsem at 1. unfold need. cbn [fsize].
  replace (2 * S (fsize g))%nat with (S (S (2 * fsize g))) by lia. rewrite fs_S_not.
  f_equal. apply fs_enough. unfold need. lia.
Qed.

Lemma sem_nested p g o : fsem (FNested p g) o = existsb (fun o' => fsem g o') (objects_in o p).
Proof.
  unfold fsem at 1. unfold need. cbn [fsize].
  replace (2 * S (fsize g))%nat with (S (S (2 * fsize g))) by lia. rewrite fs_S_nested.
  apply existsb_ext_in. intros o' _. apply fs_enough. unfold need. lia.
Qed.

Lemma sem_or l o : fsem (FOr l) o = existsb (fun c => fsem c o) l.
Proof.
  unfold fsem at 1. unfold need. cbn [fsize]. fold (lsize l).
  replace (2 * S (lsize l))%nat with (S (S (2 * lsize l))) by lia. rewrite fs_S_or.
  apply existsb_ext_in. intros c Hc. apply fs_enough. pose proof (in_lsize c l Hc). unfold need. lia.
Qed.

Lemma sem_and l o :
  fsem (FAnd l) o
  = forallb (fun c => match c with
                      | FNested p _ => existsb (fun o' => fsem (FAnd (inners p l)) o') (objects_in o p)
                      | _ => fsem c o
                      end) l.
Proof.
  unfold fsem at 1. unfold need. cbn [fsize]. fold (lsize l).
  replace (2 * S (lsize l))%nat with (S (S (2 * lsize l))) by lia. rewrite fs_S_and, fs_all_S.
  apply forallb_ext_in. intros c Hc. pose proof (in_lsize c l Hc) as L.
  destruct c; try (apply fs_enough; unfold need; lia).
  apply existsb_ext_in. intros o' _.
  pose proof (inners_lsize_lt p c l Hc) as L2.
  unfold fsem, need. cbn [fsize]. fold (lsize (inners p l)).
  replace (2 * S (lsize (inners p l)))%nat with (S (needl (inners p l))) by (unfold needl; lia).
  rewrite fs_S_and. apply (proj2 (fs_stable _ _)); unfold needl; lia.
Qed.

(** What the tie evaluates: on well-typed filters the model's hit list is the specification's. *)
Lemma model_meets_spec i :
  well_typed (c_sch i) (c_filter i) = true -> model_hits i = spec_hits i.
Proof.
  intros Hw. unfold model_hits, spec_hits. f_equal.
  induction (c_docs i) as [|a l IH]; simpl; [reflexivity|].
  rewrite (filter_exact _ (snd a) _ Hw). destruct (fsem (c_filter i) (snd a)); rewrite IH; reflexivity.
Qed.
