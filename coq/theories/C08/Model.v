(** C08 — Filters follow the documented filter semantics.  Definitions only.

    [M]  [flatten] : what index-time collection (segment.rs collect_document / collect_nested /
         collect_nested_object / record_nested_*, FastFieldsWriter::set, and the reader's
         doc_range/object_range view) leaves in the fast-field columns of ONE document, and
         [passes] : a transcription of query/filters.rs (filter_matches, passes_filters_at,
         nested_group_passes, nested_filter_passes) over the reader accessors
         (matches_keyword*, matches_*_range, nested_*_values, nested_object_count, nested_parents).
    [S]  [fsem] : the documented semantics evaluated directly on the JSON document tree.

    Strings never enter Coq: a string is the pair (id of the exact string, id of its
    [str::to_lowercase]); both are interned by the engine.  [case_insensitive_equals a b] is
    [a.eq_ignore_ascii_case(b)] when both are ASCII and [a.to_lowercase() == b.to_lowercase()]
    otherwise; on ASCII strings the two coincide, so the model compares the lowercase ids.
    f64 values and bounds are order-preserving integer ranks computed by the engine (only
    [>=] and [<=] are ever applied to them); a JSON number carries [as_i64()] and the rank of
    [as_f64()].  Field names are interned to [N]; a dotted column name is the list of names. *)
From Coq Require Import List NArith ZArith Bool PeanoNat.
From SL Require Import Base.Tie.
Import ListNotations.
Open Scope N_scope.

(* ------------------------------------------------------------------ data *)
Definition str := (N * N)%type.
Definition ci_eq (a b : str) : bool := N.eqb (snd a) (snd b).

Inductive jval :=
| JNull
| JBool (b : bool)
| JStr (s : str)
| JNum (i : option Z) (f : Z)
| JArr (l : list jval)
| JObj (m : list (N * jval)).

Definition obj := list (N * jval).

Fixpoint jlookup (k : N) (m : obj) : option jval :=
  match m with
  | [] => None
  | (k', v) :: m' => if N.eqb k k' then Some v else jlookup k m'
  end.

Inductive kind := KKw | KI64 | KF64.

Definition kind_eqb (a b : kind) : bool :=
  match a, b with KKw, KKw | KI64, KI64 | KF64, KF64 => true | _, _ => false end.

(** Schema: keyword / i64 / f64 properties (all [fast]) and nested objects, recursively.  The
    top level is a property list too (keyword_fields, numeric_fields, nested_fields). *)
Inductive prop :=
| PLeaf (name : N) (k : kind) (nullable : bool)
| PObj (name : N) (nullable : bool) (fields : list prop).

Definition schema := list prop.

Definition pname (p : prop) : N := match p with PLeaf n _ _ => n | PObj n _ _ => n end.
Definition pnullable (p : prop) : bool := match p with PLeaf _ _ b => b | PObj _ b _ => b end.

Fixpoint find_prop (ps : list prop) (n : N) : option prop :=
  match ps with
  | [] => None
  | p :: ps' => if N.eqb (pname p) n then Some p else find_prop ps' n
  end.

Definition find_kind (ps : list prop) (n : N) : option kind :=
  match find_prop ps n with Some (PLeaf _ k _) => Some k | _ => None end.

Definition find_obj (ps : list prop) (n : N) : option (list prop) :=
  match find_prop ps n with Some (PObj _ _ fs) => Some fs | _ => None end.

Fixpoint props_at (ps : list prop) (path : list N) : option (list prop) :=
  match path with
  | [] => Some ps
  | c :: rest => match find_obj ps c with Some fs => props_at fs rest | None => None end
  end.

Definition kind_at (sch : schema) (path : list N) (fld : N) : option kind :=
  match props_at sch path with Some ps => find_kind ps fld | None => None end.

Inductive filter :=
| FKwEq (fld : N) (v : str)
| FKwIn (fld : N) (vs : list str)
| FI64 (fld : N) (lo hi : Z)
| FF64 (fld : N) (lo hi : Z)
| FNested (p : N) (g : filter)
| FAnd (l : list filter)
| FOr (l : list filter)
| FNot (g : filter).

Fixpoint fsize (f : filter) : nat :=
  match f with
  | FNested _ g => S (fsize g)
  | FAnd l => S (list_sum (map fsize l))
  | FOr l => S (list_sum (map fsize l))
  | FNot g => S (fsize g)
  | _ => 1%nat
  end.

Definition lsize (l : list filter) : nat := list_sum (map fsize l).

(** Fuel that is always enough for one filter / for a conjunction list (Proofs.v shows that
    any larger amount gives the same result). *)
Definition need (f : filter) : nat := 2 * fsize f.
Definition needl (l : list filter) : nat := 2 * lsize l + 1.

(** Sibling [Nested] clauses: the inner filters of those with path [p], and the distinct paths. *)
Definition inners (p : N) (l : list filter) : list filter :=
  flat_map (fun c => match c with FNested q g => if N.eqb q p then [g] else [] | _ => [] end) l.

Definition npath (c : filter) : list N := match c with FNested p _ => [p] | _ => [] end.
Definition is_nested (c : filter) : bool := match c with FNested _ _ => true | _ => false end.
Definition gpaths (l : list filter) : list N := nodup N.eq_dec (flat_map npath l).

(* ------------------------------------------------------------------ M: index-time collection *)
(** segment.rs collect_strings / collect_i64s / collect_f64s (an absent key gives no values) *)
Definition collect_strings (v : option jval) : list str :=
  match v with
  | Some (JStr s) => [s]
  | Some (JArr l) => flat_map (fun x => match x with JStr s => [s] | _ => [] end) l
  | _ => []
  end.

Definition collect_i64s (v : option jval) : list Z :=
  match v with
  | Some (JNum (Some i) _) => [i]
  | Some (JArr l) => flat_map (fun x => match x with JNum (Some i) _ => [i] | _ => [] end) l
  | _ => []
  end.

Definition collect_f64s (v : option jval) : list Z :=
  match v with
  | Some (JNum _ f) => [f]
  | Some (JArr l) => flat_map (fun x => match x with JNum _ f => [f] | _ => [] end) l
  | _ => []
  end.

(** One row per nested object of a path, in the order collect_nested numbers them: the objects
    of a path are numbered across all parent objects of the document; [r_parent] is the index of
    the parent object in the parent path's numbering ([None] = usize::MAX, for top-level paths).
    A nested value is one object or an array whose null entries are skipped. *)
Record row := mkrow { r_parent : option nat; r_obj : obj }.

Definition as_objs (l : list jval) : list obj :=
  flat_map (fun x => match x with JObj m => [m] | _ => [] end) l.

Definition slots (v : option jval) : list obj :=
  match v with
  | Some (JObj m) => [m]
  | Some (JArr l) => as_objs l
  | _ => []
  end.

Definition top_rows (d : obj) (c : N) : list row := map (mkrow None) (slots (jlookup c d)).

Fixpoint child_rows_from (i : nat) (rows : list row) (r : N) : list row :=
  match rows with
  | [] => []
  | x :: rest => map (mkrow (Some i)) (slots (jlookup r (r_obj x))) ++ child_rows_from (S i) rest r
  end.

Fixpoint table_from (rows : list row) (rest : list N) : list row :=
  match rest with
  | [] => rows
  | r :: rest' => table_from (child_rows_from 0 rows r) rest'
  end.

Definition table (d : obj) (path : list N) : list row :=
  match path with
  | [] => []
  | c :: rest => table_from (top_rows d c) rest
  end.

(** The reader-side view of one document's columns.  [col_kw path fld] is the column
    "path.fld" as a list of per-object value lists (nested_str_values; for a top-level field
    the single entry is the Str/StrList cell); an absent or differently typed column is []. *)
Record columns := mkcols {
  col_kw : list N -> N -> list (list str);
  col_i64 : list N -> N -> list (list Z);
  col_f64 : list N -> N -> list (list Z);
  col_count : list N -> nat;                 (* _nested_count:path *)
  col_parents : list N -> list (option nat)  (* _nested_parent:path *)
}.

Definition column {A} (sch : schema) (d : obj) (want : kind) (coll : option jval -> list A)
    (path : list N) (fld : N) : list (list A) :=
  match kind_at sch path fld with
  | Some k =>
      if kind_eqb k want then
        match path with
        | [] => [coll (jlookup fld d)]
        | _ => map (fun r => coll (jlookup fld (r_obj r))) (table d path)
        end
      else []
  | None => []
  end.

Definition flatten (sch : schema) (d : obj) : columns :=
  {| col_kw := column sch d KKw collect_strings;
     col_i64 := column sch d KI64 collect_i64s;
     col_f64 := column sch d KF64 collect_f64s;
     col_count := fun path => length (table d path);
     col_parents := fun path => map r_parent (table d path) |}.

(* ------------------------------------------------------------------ M: query/filters.rs *)
(** A leaf clause: with an object index the values of that object ([.get(idx)]), without one
    the whole column ([matches_keyword] &c: any value of any entry). *)
Definition leaf {A} (col : list (list A)) (oi : option nat) (pred : A -> bool) : bool :=
  match oi with
  | Some idx => match nth_error col idx with Some vals => existsb pred vals | None => false end
  | None => existsb (existsb pred) col
  end.

(** [for idx in 0..object_count] with the parent check of nested_group_passes /
    nested_filter_passes. *)
Definition obj_loop (cols : columns) (full : list N) (parent : option nat) (body : nat -> bool) : bool :=
  let count := col_count cols full in
  if Nat.eqb count 0 then false
  else
    let parents := col_parents cols full in
    existsb (fun idx =>
      match parent with
      | Some p =>
          match nth_error parents idx with
          | Some (Some q) => if Nat.eqb q p then body idx else false
          | _ => false
          end
      | None => body idx
      end) (seq 0 count).

Definition in_range (lo hi v : Z) : bool := Z.geb v lo && Z.leb v hi.

Fixpoint fm (cols : columns) (n : nat) (f : filter) (base : list N) (oi : option nat) {struct n} : bool :=
  match n with
  | O => false
  | S n' =>
      match f with
      | FKwEq fld v => leaf (col_kw cols base fld) oi (fun s => ci_eq s v)
      | FKwIn fld vs => leaf (col_kw cols base fld) oi (fun s => existsb (fun t => ci_eq t s) vs)
      | FI64 fld lo hi => leaf (col_i64 cols base fld) oi (in_range lo hi)
      | FF64 fld lo hi => leaf (col_f64 cols base fld) oi (in_range lo hi)
      | FNested p g =>
          obj_loop cols (base ++ [p]) oi (fun idx => fm cols n' g (base ++ [p]) (Some idx))
      | FAnd l => pfa cols n' l base oi
      | FOr l => existsb (fun c => fm cols n' c base oi) l
      | FNot g => negb (fm cols n' g base oi)
      end
  end
with pfa (cols : columns) (n : nat) (l : list filter) (base : list N) (oi : option nat) {struct n} : bool :=
  match n with
  | O => false
  | S n' =>
      forallb (fun c => if is_nested c then true else fm cols n' c base oi) l
      && forallb (fun p =>
           obj_loop cols (base ++ [p]) oi
             (fun idx => pfa cols n' (inners p l) (base ++ [p]) (Some idx))) (gpaths l)
  end.

(** passes_filter(reader, doc, filter) *)
Definition passes (cols : columns) (f : filter) : bool := fm cols (need f) f [] None.

(* ------------------------------------------------------------------ S: documented semantics *)
(** Values of a field inside one object: the value itself or every element of the array. *)
Definition strings_of (o : obj) (fld : N) : list str :=
  match jlookup fld o with
  | Some (JStr s) => [s]
  | Some (JArr l) => flat_map (fun x => match x with JStr s => [s] | _ => [] end) l
  | _ => []
  end.

Definition ints_of (o : obj) (fld : N) : list Z :=
  match jlookup fld o with
  | Some (JNum (Some i) _) => [i]
  | Some (JArr l) => flat_map (fun x => match x with JNum (Some i) _ => [i] | _ => [] end) l
  | _ => []
  end.

Definition floats_of (o : obj) (fld : N) : list Z :=
  match jlookup fld o with
  | Some (JNum _ f) => [f]
  | Some (JArr l) => flat_map (fun x => match x with JNum _ f => [f] | _ => [] end) l
  | _ => []
  end.

(** The objects found under key [p] of object [o]: the object itself, or the objects of the array. *)
Definition objects_in (o : obj) (p : N) : list obj :=
  match jlookup p o with
  | Some (JObj m) => [m]
  | Some (JArr l) => flat_map (fun x => match x with JObj m => [m] | _ => [] end) l
  | _ => []
  end.

(** [fs n f o]: filter [f] holds for object [o] (the document itself at the root); fields are
    resolved inside [o].  [fs_all n l o]: the conjunction [l] holds for [o]; every [Nested p _]
    member asks for ONE object under [o.p] that satisfies all the members with path [p] jointly. *)
Fixpoint fs (n : nat) (f : filter) (o : obj) {struct n} : bool :=
  match n with
  | O => false
  | S n' =>
      match f with
      | FKwEq fld v => existsb (fun s => ci_eq v s) (strings_of o fld)
      | FKwIn fld vs => existsb (fun s => existsb (fun v => ci_eq v s) vs) (strings_of o fld)
      | FI64 fld lo hi => existsb (fun x => Z.leb lo x && Z.leb x hi) (ints_of o fld)
      | FF64 fld lo hi => existsb (fun x => Z.leb lo x && Z.leb x hi) (floats_of o fld)
      | FNested p g => existsb (fun o' => fs n' g o') (objects_in o p)
      | FAnd l => fs_all n' l o
      | FOr l => existsb (fun c => fs n' c o) l
      | FNot g => negb (fs n' g o)
      end
  end
with fs_all (n : nat) (l : list filter) (o : obj) {struct n} : bool :=
  match n with
  | O => false
  | S n' =>
      forallb (fun c =>
        match c with
        | FNested p _ => existsb (fun o' => fs_all n' (inners p l) o') (objects_in o p)
        | _ => fs n' c o
        end) l
  end.

Definition fsem (f : filter) (d : obj) : bool := fs (need f) f d.

(** The filter only names fields of the matching type and nested paths of the schema. *)
Definition kind_is (ps : list prop) (fld : N) (k : kind) : bool :=
  match find_kind ps fld with Some k' => kind_eqb k' k | None => false end.

Fixpoint wt (ps : list prop) (f : filter) : bool :=
  match f with
  | FKwEq fld _ => kind_is ps fld KKw
  | FKwIn fld _ => kind_is ps fld KKw
  | FI64 fld _ _ => kind_is ps fld KI64
  | FF64 fld _ _ => kind_is ps fld KF64
  | FNested p g => match find_obj ps p with Some ps' => wt ps' g | None => false end
  | FAnd l => forallb (wt ps) l
  | FOr l => forallb (wt ps) l
  | FNot g => wt ps g
  end.

Definition well_typed (sch : schema) (f : filter) : bool := wt sch f.

(* ------------------------------------------------------------------ documents the index accepts *)
Definition is_str (v : jval) := match v with JStr _ => true | _ => false end.
Definition is_i64 (v : jval) := match v with JNum (Some _) _ => true | _ => false end.
Definition is_num (v : jval) := match v with JNum _ _ => true | _ => false end.

(** manifest.rs validate_field_value (top-level fields) *)
Definition top_leaf_ok (k : kind) (nullable : bool) (v : jval) : bool :=
  match v with
  | JNull => nullable
  | JArr l => forallb (match k with KKw => is_str | KI64 => is_i64 | KF64 => is_num end) l
  | _ => match k with KKw => is_str v | KI64 => is_i64 v | KF64 => is_num v end
  end.

(** NestedProperty::validate_value for leaves: string-or-array / number-or-array *)
Definition nested_leaf_ok (k : kind) (nullable : bool) (v : jval) : bool :=
  match v with
  | JNull => nullable
  | JArr _ => true
  | JStr _ => kind_eqb k KKw
  | JNum _ _ => negb (kind_eqb k KKw)
  | _ => false
  end.

Definition has_key (k : N) (m : obj) : bool := match jlookup k m with Some _ => true | None => false end.

(** NestedField::validate together with what collect_nested insists on at commit (array
    entries are objects, or null when the nested field is nullable). *)
Fixpoint valid_nested (v : jval) (fields : list prop) (nullable : bool) {struct v} : bool :=
  let vobj := fun (m : list (N * jval)) =>
    forallb (fun kv => match kv with (k, x) =>
      match find_prop fields k with
      | Some (PLeaf _ kd nl) => nested_leaf_ok kd nl x
      | Some (PObj _ nl fs') => valid_nested x fs' nl
      | None => false
      end end) m
    && forallb (fun p => pnullable p || has_key (pname p) m) fields in
  match v with
  | JNull => nullable
  | JObj m => vobj m
  | JArr l =>
      forallb (fun x => match x with
                        | JNull => nullable
                        | JObj m =>
                            forallb (fun kv => match kv with (k, y) =>
                              match find_prop fields k with
                              | Some (PLeaf _ kd nl) => nested_leaf_ok kd nl y
                              | Some (PObj _ nl fs') => valid_nested y fs' nl
                              | None => false
                              end end) m
                            && forallb (fun p => pnullable p || has_key (pname p) m) fields
                        | _ => false
                        end) l
  | _ => false
  end.

(** Schema::validate_document + collect_document (unknown top-level fields cannot be committed).
    The id field is not part of the modelled document. *)
Definition valid (sch : schema) (d : obj) : bool :=
  forallb (fun kv => match kv with (k, x) =>
    match find_prop sch k with
    | Some (PLeaf _ kd nl) => top_leaf_ok kd nl x
    | Some (PObj _ nl fs') => valid_nested x fs' nl
    | None => false
    end end) d.

(* ------------------------------------------------------------------ the tie *)
Record case_in := mkcase { c_sch : schema; c_docs : list (N * obj); c_filter : filter }.

Fixpoint list_eqb (a b : list N) : bool :=
  match a, b with
  | [], [] => true
  | x :: a', y :: b' => N.eqb x y && list_eqb a' b'
  | _, _ => false
  end.

Definition model_hits (i : case_in) : list N :=
  map fst (List.filter (fun d => passes (flatten (c_sch i) (snd d)) (c_filter i)) (c_docs i)).

Definition spec_hits (i : case_in) : list N :=
  map fst (List.filter (fun d => fsem (c_filter i) (snd d)) (c_docs i)).

(** Observation: the ids of [search(match_all, filter)], ascending; documents are given in
    ascending id order.  A filter that is not well typed is outside the documented semantics:
    only the correspondence with the model is checked for it. *)
Definition check_case (c : case_in * list N) : N :=
  let (i, obs) := c in
  if forallb (fun d => valid (c_sch i) (snd d)) (c_docs i) then
    verdict (list_eqb obs (model_hits i))
            (if well_typed (c_sch i) (c_filter i) then list_eqb obs (spec_hits i) else true) 0
  else 1.
