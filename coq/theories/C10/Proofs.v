(** C10/Proofs.v — the sort key order is a strict total order on the keys of one plan; ranking is
    the sorted top-k whatever per-segment / heap truncation the code applies; missing values are
    last in both directions; the multi-value rule. *)

From Coq Require Import List NArith ZArith QArith Lia Bool Permutation Arith.
From SL Require Import Base.OrdSort C10.Model.
Import ListNotations.
Open Scope N_scope.

(* ================================================================== comparisons *)

Lemma CompOpp_dir : forall o c, CompOpp (dir o c) = dir o (CompOpp c).
Proof. intros [] []; reflexivity. Qed.

Lemma dir_eq : forall o c, dir o c = Eq -> c = Eq.
Proof. intros [] []; cbn; congruence. Qed.

Lemma dir_Eq : forall o, dir o Eq = Eq.
Proof. intros []; reflexivity. Qed.

(** bytes *)
Lemma bytes_cmp_refl : forall a, bytes_cmp a a = Eq.
Proof. induction a as [|x a IH]; cbn; [reflexivity|]. now rewrite N.compare_refl. Qed.

Lemma bytes_cmp_eq : forall a b, bytes_cmp a b = Eq -> a = b.
Proof.
  induction a as [|x a IH]; intros [|y b]; cbn; try congruence.
  destruct (N.compare_spec x y) as [E|E|E]; try congruence. intros H. subst. f_equal. now apply IH.
Qed.

Lemma bytes_cmp_anti : forall a b, bytes_cmp b a = CompOpp (bytes_cmp a b).
Proof.
  induction a as [|x a IH]; intros [|y b]; cbn; try reflexivity.
  rewrite (N.compare_antisym x y). destruct (x ?= y); cbn; try reflexivity. apply IH.
Qed.

Lemma bytes_cmp_trans : forall a b c, bytes_cmp a b = Lt -> bytes_cmp b c = Lt -> bytes_cmp a c = Lt.
Proof.
  induction a as [|x a IH]; intros [|y b] [|z c]; cbn; try congruence.
  destruct (N.compare_spec x y) as [E1|E1|E1], (N.compare_spec y z) as [E2|E2|E2];
    try congruence; intros H1 H2; subst.
  - rewrite N.compare_refl. eapply IH; eauto.
  - apply N.compare_lt_iff in E2. now rewrite E2.
  - apply N.compare_lt_iff in E1. now rewrite E1.
  - assert (E : x < z) by lia. apply N.compare_lt_iff in E. now rewrite E.
Qed.

Lemma f32_key_inj : forall a b, f32_key a = f32_key b -> a = b.
Proof.
  unfold f32_key. intros a b. destruct (N.ltb_spec a (2 ^ 31)), (N.ltb_spec b (2 ^ 31)); lia.
Qed.

Lemma f64_key_inj : forall a b, f64_key a = f64_key b -> a = b.
Proof.
  unfold f64_key. intros a b. destruct (N.ltb_spec a (2 ^ 63)), (N.ltb_spec b (2 ^ 63)); lia.
Qed.

(** a comparison that is a strict total order (on the whole type) *)
Record good {A : Type} (c : A -> A -> comparison) : Prop := {
  g_refl : forall a, c a a = Eq;
  g_eq : forall a b, c a b = Eq -> a = b;
  g_anti : forall a b, c b a = CompOpp (c a b);
  g_trans : forall a b d, c a b = Lt -> c b d = Lt -> c a d = Lt
}.

Lemma good_Z : good Z.compare.
Proof.
  split; intros.
  - apply Z.compare_refl.
  - now apply Z.compare_eq.
  - apply Z.compare_antisym.
  - rewrite Z.compare_lt_iff in *. lia.
Qed.

Lemma good_bytes : good bytes_cmp.
Proof.
  split; [apply bytes_cmp_refl|apply bytes_cmp_eq|apply bytes_cmp_anti|apply bytes_cmp_trans].
Qed.

Lemma good_via : forall {A} (g : A -> Z), (forall a b, g a = g b -> a = b) ->
  good (fun a b => Z.compare (g a) (g b)).
Proof.
  intros A g inj. split; intros.
  - apply Z.compare_refl.
  - apply inj. now apply Z.compare_eq.
  - apply Z.compare_antisym.
  - rewrite Z.compare_lt_iff in *. lia.
Qed.

Lemma good_dir : forall {A} (c : A -> A -> comparison) o, good c -> good (fun a b => dir o (c a b)).
Proof.
  intros A c o [R E An T]. split; intros.
  - rewrite R. apply dir_Eq.
  - apply E. eapply dir_eq; eauto.
  - rewrite An. symmetry. apply CompOpp_dir.
  - destruct o; cbn in *.
    + eauto.
    + assert (Hba : c b a = Lt) by (rewrite An; destruct (c a b); cbn in *; congruence).
      assert (Hdb : c d b = Lt) by (rewrite An; destruct (c b d); cbn in *; congruence).
      specialize (T d b a Hdb Hba). rewrite (An d a), T. reflexivity.
Qed.

(* ================================================================== keys of one plan *)

(** the value constructor a plan field can produce *)
Definition val_of_kind (k : fkind) (v : sval) : Prop :=
  match k, v with
  | FScore, VScore _ => True
  | FKeyword, VStr _ | FKeyword, VMissing => True
  | FI64, VI64 _ | FI64, VMissing => True
  | FF64, VF64 _ | FF64, VMissing => True
  | _, _ => False
  end.

Definition part_ok (f : pfield) (x : part) : Prop :=
  p_order x = pf_order f /\ val_of_kind (pf_kind f) (p_val x).

Definition key_ok (p : plan) (k : key) : Prop := Forall2 part_ok p (k_parts k).

Lemma field_value_kind : forall f rv s, val_of_kind (pf_kind f) (field_value f rv s).
Proof.
  intros f rv s. unfold field_value. destruct (pf_kind f); cbn; [exact I| | |];
  destruct rv; cbn; try exact I; match goal with |- context [select ?o ?c ?vs] =>
    destruct (select o c vs) end; exact I.
Qed.

Lemma build_key_ok : forall p vals s seg doc, key_ok p (build_key p vals s seg doc).
Proof.
  intros p vals s seg doc. unfold key_ok, build_key. cbn. clear seg doc. revert vals.
  induction p as [|f p IH]; intros vals; cbn; constructor.
  - split; [reflexivity|apply field_value_kind].
  - apply IH.
Qed.

(** part_cmp on two parts of the same plan field *)
Lemma part_cmp_refl : forall f x, part_ok f x -> part_cmp x x = Eq.
Proof.
  intros f [o v] [_ Hk]. unfold part_cmp. cbn in *. destruct v; try reflexivity;
  rewrite ?Z.compare_refl, ?bytes_cmp_refl; apply dir_Eq.
Qed.

Lemma part_cmp_eq : forall f x y, part_ok f x -> part_ok f y -> part_cmp x y = Eq -> x = y.
Proof.
  intros f [ox vx] [oy vy] [Hox Hkx] [Hoy Hky]. cbn in *. subst ox oy. unfold part_cmp. cbn.
  destruct (pf_kind f), vx, vy; cbn in *; try contradiction; try congruence; intros H;
  apply dir_eq in H.
  - apply Z.compare_eq, f32_key_inj in H. now subst.
  - apply bytes_cmp_eq in H. now subst.
  - apply Z.compare_eq in H. now subst.
  - apply Z.compare_eq, f64_key_inj in H. now subst.
Qed.

Lemma part_cmp_anti : forall f x y, part_ok f x -> part_ok f y ->
  part_cmp y x = CompOpp (part_cmp x y).
Proof.
  intros f [ox vx] [oy vy] [Hox Hkx] [Hoy Hky]. cbn in *. subst ox oy. unfold part_cmp. cbn.
  destruct (pf_kind f), vx, vy; cbn in *; try contradiction; try reflexivity;
  rewrite CompOpp_dir; f_equal; try apply Z.compare_antisym; apply bytes_cmp_anti.
Qed.

Lemma part_cmp_trans : forall f x y z, part_ok f x -> part_ok f y -> part_ok f z ->
  part_cmp x y = Lt -> part_cmp y z = Lt -> part_cmp x z = Lt.
Proof.
  intros f [ox vx] [oy vy] [oz vz] [Hox Hkx] [Hoy Hky] [Hoz Hkz]. cbn in *. subst ox oy oz.
  unfold part_cmp. cbn.
  pose proof (g_trans _ (good_dir _ (pf_order f) good_Z)) as TZ.
  pose proof (g_trans _ (good_dir _ (pf_order f) good_bytes)) as TB.
  pose proof (g_trans _ (good_dir _ (pf_order f) (good_via f32_key f32_key_inj))) as T32.
  pose proof (g_trans _ (good_dir _ (pf_order f) (good_via f64_key f64_key_inj))) as T64.
  cbn in TZ, TB, T32, T64.
  destruct (pf_kind f), vx, vy, vz; cbn in *; try contradiction; try congruence; eauto.
Qed.

(** lexicographic lift *)
Lemma parts_cmp_refl : forall p xs, Forall2 part_ok p xs -> parts_cmp xs xs = Eq.
Proof.
  induction 1 as [|f x p xs Hx _ IH]; cbn; [reflexivity|].
  now rewrite (part_cmp_refl f x Hx).
Qed.

Lemma parts_cmp_eq : forall p xs ys, Forall2 part_ok p xs -> Forall2 part_ok p ys ->
  parts_cmp xs ys = Eq -> xs = ys.
Proof.
  intros p xs ys Hx. revert ys. induction Hx as [|f x p xs Hx _ IH]; intros ys Hy; inversion Hy; subst.
  - reflexivity.
  - cbn. destruct (part_cmp x y) eqn:E; try congruence. intros H.
    apply (part_cmp_eq f) in E; try assumption. subst. f_equal. now apply IH.
Qed.

Lemma parts_cmp_anti : forall p xs ys, Forall2 part_ok p xs -> Forall2 part_ok p ys ->
  parts_cmp ys xs = CompOpp (parts_cmp xs ys).
Proof.
  intros p xs ys Hx. revert ys. induction Hx as [|f x p xs Hx _ IH]; intros ys Hy; inversion Hy; subst.
  - reflexivity.
  - cbn. rewrite (part_cmp_anti f x y) by assumption.
    destruct (part_cmp x y); cbn; try reflexivity. now apply IH.
Qed.

Lemma parts_cmp_trans_lt : forall p xs ys zs,
  Forall2 part_ok p xs -> Forall2 part_ok p ys -> Forall2 part_ok p zs ->
  parts_cmp xs ys = Lt -> parts_cmp ys zs = Lt -> parts_cmp xs zs = Lt.
Proof.
  intros p xs ys zs Hx. revert ys zs.
  induction Hx as [|f x p xs Hx Hxs IH]; intros ys zs Hy Hz; inversion Hy; subst; inversion Hz; subst.
  - cbn. congruence.
  - cbn. destruct (part_cmp x y) eqn:Exy; try congruence;
    destruct (part_cmp y y0) eqn:Eyz; try congruence; intros G1 G2.
    + apply (part_cmp_eq f) in Exy; try assumption. apply (part_cmp_eq f) in Eyz; try assumption.
      subst. rewrite (part_cmp_refl f y0) by assumption.
      now apply (IH l' l'0).
    + apply (part_cmp_eq f) in Exy; try assumption. subst. now rewrite Eyz.
    + apply (part_cmp_eq f) in Eyz; try assumption. subst. now rewrite Exy.
    + now rewrite (part_cmp_trans f x y y0).
Qed.

Lemma parts_cmp_trans : forall p xs ys zs,
  Forall2 part_ok p xs -> Forall2 part_ok p ys -> Forall2 part_ok p zs ->
  (parts_cmp xs ys = Lt -> parts_cmp ys zs = Lt -> parts_cmp xs zs = Lt) /\
  (parts_cmp xs ys = Eq -> parts_cmp ys zs = Lt -> parts_cmp xs zs = Lt) /\
  (parts_cmp xs ys = Lt -> parts_cmp ys zs = Eq -> parts_cmp xs zs = Lt).
Proof.
  intros p xs ys zs Hx Hy Hz.
  assert (E1 : parts_cmp xs ys = Eq -> xs = ys) by (now apply (parts_cmp_eq p)).
  assert (E2 : parts_cmp ys zs = Eq -> ys = zs) by (now apply (parts_cmp_eq p)).
  split; [now apply (parts_cmp_trans_lt p)|].
  split; intros G1 G2; [rewrite (E1 G1)|rewrite <- (E2 G2)]; assumption.
Qed.

(** SortKey::cmp on the keys of one plan *)
Lemma key_cmp_refl : forall p k, key_ok p k -> key_cmp k k = Eq.
Proof.
  intros p k H. unfold key_cmp. rewrite (parts_cmp_refl p) by exact H.
  now rewrite !N.compare_refl.
Qed.

Lemma key_cmp_eq : forall p a b, key_ok p a -> key_ok p b -> key_cmp a b = Eq -> a = b.
Proof.
  intros p [pa sa da] [pb sb db] Ha Hb. unfold key_cmp, key_ok in *. cbn in *.
  destruct (parts_cmp pa pb) eqn:E; try congruence.
  destruct (N.compare_spec sa sb); try congruence.
  destruct (N.compare_spec da db); try congruence. intros _.
  apply (parts_cmp_eq p) in E; try assumption. now subst.
Qed.

Lemma key_cmp_anti : forall p a b, key_ok p a -> key_ok p b -> key_cmp b a = CompOpp (key_cmp a b).
Proof.
  intros p a b Ha Hb. unfold key_cmp. rewrite (parts_cmp_anti p (k_parts a) (k_parts b)) by assumption.
  destruct (parts_cmp (k_parts a) (k_parts b)); cbn; try reflexivity.
  rewrite (N.compare_antisym (k_seg a) (k_seg b)).
  destruct (k_seg a ?= k_seg b); cbn; try reflexivity.
  apply N.compare_antisym.
Qed.

Lemma segdoc_trans : forall s1 d1 s2 d2 s3 d3,
  match s1 ?= s2 with Eq => d1 ?= d2 | c => c end = Lt ->
  match s2 ?= s3 with Eq => d2 ?= d3 | c => c end = Lt ->
  match s1 ?= s3 with Eq => d1 ?= d3 | c => c end = Lt.
Proof.
  intros s1 d1 s2 d2 s3 d3.
  destruct (N.compare_spec s1 s2), (N.compare_spec s2 s3), (N.compare_spec s1 s3);
    try congruence; try lia; rewrite ?N.compare_lt_iff; lia.
Qed.

Lemma key_cmp_trans : forall p a b c, key_ok p a -> key_ok p b -> key_ok p c ->
  key_cmp a b = Lt -> key_cmp b c = Lt -> key_cmp a c = Lt.
Proof.
  intros p a b c Ha Hb Hc. unfold key_cmp.
  destruct (parts_cmp_trans p (k_parts a) (k_parts b) (k_parts c) Ha Hb Hc) as [T1 [T2 T3]].
  destruct (parts_cmp (k_parts a) (k_parts b)) eqn:E1; try congruence;
  destruct (parts_cmp (k_parts b) (k_parts c)) eqn:E2; try congruence; intros H1 H2.
  - apply (parts_cmp_eq p) in E1; try assumption. apply (parts_cmp_eq p) in E2; try assumption.
    rewrite E1, E2. rewrite (parts_cmp_refl p) by assumption.
    eapply segdoc_trans; eauto.
  - now rewrite T2.
  - now rewrite T3.
  - now rewrite T1.
Qed.

(* ================================================================== ranking *)

Section Ranking.
  Variable p : plan.
  Variable cs : list cand.
  (** distinct matching documents have distinct (segment, document) positions *)
  Hypothesis distinct : NoDup (map (fun c => (c_seg c, c_doc c)) cs).

  Definition dom (c : cand) : Prop := In c cs.

  Lemma cand_key_ok : forall c, key_ok p (cand_key p c).
  Proof. intros c. apply build_key_ok. Qed.

  Lemma in_segdoc_eq : forall a b, In a cs -> In b cs ->
    c_seg a = c_seg b -> c_doc a = c_doc b -> a = b.
  Proof.
    clear p. induction cs as [|x l IH]; intros a b Ha Hb Hs Hd; [contradiction|].
    cbn in distinct. inversion distinct as [|? ? Hnin Hnd]; subst.
    destruct Ha as [<-|Ha], Hb as [<-|Hb].
    - reflexivity.
    - exfalso. apply Hnin. apply in_map_iff. exists b. split; [now rewrite Hs, Hd|assumption].
    - exfalso. apply Hnin. apply in_map_iff. exists a. split; [now rewrite Hs, Hd|assumption].
    - now apply IH.
  Qed.

  Lemma cand_cmp_eq : forall a b, dom a -> dom b -> cand_cmp p a b = Eq -> a = b.
  Proof.
    intros a b Ha Hb H. unfold cand_cmp in H.
    apply (key_cmp_eq p) in H; try apply cand_key_ok.
    unfold cand_key, build_key in H. injection H as _ Hs Hd. now apply in_segdoc_eq.
  Qed.

  Lemma cand_cmp_refl : forall a, dom a -> cand_cmp p a a = Eq.
  Proof. intros. apply (key_cmp_refl p), cand_key_ok. Qed.

  Lemma cand_cmp_anti : forall a b, dom a -> dom b -> cand_cmp p b a = CompOpp (cand_cmp p a b).
  Proof. intros. apply (key_cmp_anti p); apply cand_key_ok. Qed.

  Lemma cand_cmp_trans : forall a b c, dom a -> dom b -> dom c ->
    cand_cmp p a b = Lt -> cand_cmp p b c = Lt -> cand_cmp p a c = Lt.
  Proof. intros a b c _ _ _. apply (key_cmp_trans p); apply cand_key_ok. Qed.

  Lemma all_dom : Forall dom cs.
  Proof. apply Forall_forall. intros x H. exact H. Qed.

  Lemma NoDup_cs : NoDup cs.
  Proof. eapply NoDup_map_inv. exact distinct. Qed.

  Lemma rank_ssorted : forall k, ssorted (cand_cmp p) (rank p k cs).
  Proof.
    intros k. unfold rank. apply ssorted_firstn.
    apply (sort_ssorted _ _ dom cand_cmp_eq cand_cmp_anti cand_cmp_trans);
      [apply all_dom|apply NoDup_cs].
  Qed.

  Lemma rank_split : forall k,
    Permutation cs (rank p k cs ++ skipn k (sort (cand_cmp p) cs)).
  Proof. intros k. unfold rank. rewrite firstn_skipn. apply sort_permutation. Qed.

  Lemma ssorted_app_lt : forall (a b : list cand), ssorted (cand_cmp p) (a ++ b) ->
    forall x y, In x a -> In y b -> cand_cmp p x y = Lt.
  Proof.
    induction a as [|h a IH]; intros b H x y Hx Hy; [contradiction|].
    cbn in H. destruct H as [Hh Ht]. destruct Hx as [<-|Hx].
    - rewrite Forall_forall in Hh. apply Hh. apply in_or_app. now right.
    - now apply (IH b).
  Qed.

  Lemma rank_rest_after : forall k h r,
    In h (rank p k cs) -> In r (skipn k (sort (cand_cmp p) cs)) -> cand_cmp p h r = Lt.
  Proof.
    intros k h r Hh Hr. unfold rank in Hh.
    apply (ssorted_app_lt (firstn k (sort (cand_cmp p) cs)) (skipn k (sort (cand_cmp p) cs)));
      try assumption.
    rewrite firstn_skipn.
    apply (sort_ssorted _ _ dom cand_cmp_eq cand_cmp_anti cand_cmp_trans);
      [apply all_dom|apply NoDup_cs].
  Qed.

  Lemma rank_length : forall k, length (rank p k cs) = Nat.min k (length cs).
  Proof.
    intros k. unfold rank. rewrite firstn_length.
    now rewrite <- (Permutation_length (sort_permutation _ (cand_cmp p) cs)).
  Qed.

  Lemma sub_dom : forall l, (forall x, In x l -> In x cs) -> Forall dom l.
  Proof. intros l H. apply Forall_forall. exact H. Qed.

  (** per-segment truncation to [m >= k] (the score fast path) does not change the answer *)
  Lemma rank_segments_eq : forall k m segs, concat segs = cs -> (k <= m)%nat ->
    rank_segments p k m segs = rank p k cs.
  Proof.
    intros k m segs Hc Hkm. unfold rank_segments, rank.
    assert (Hsegs : Forall (Forall dom) segs).
    { apply Forall_forall. intros l Hl. apply sub_dom. intros x Hx. rewrite <- Hc.
      apply in_concat. eauto. }
    change (firstn k (sort (cand_cmp p) ?l)) with (topk (cand_cmp p) k l).
    assert (Hsub : Forall dom (concat (map (topk (cand_cmp p) m) segs))).
    { apply Forall_concat. apply Forall_forall. intros l Hl. apply in_map_iff in Hl.
      destruct Hl as [l0 [<- Hl0]]. apply topk_D. rewrite Forall_forall in Hsegs. now apply Hsegs. }
    rewrite <- (topk_topk _ _ dom cand_cmp_eq cand_cmp_anti cand_cmp_trans k m _ Hsub Hkm).
    rewrite (topk_concat _ _ dom cand_cmp_eq cand_cmp_anti cand_cmp_trans m segs Hsegs).
    rewrite Hc. apply (topk_topk _ _ dom cand_cmp_eq cand_cmp_anti cand_cmp_trans); [apply all_dom|exact Hkm].
  Qed.

  (** one heap of capacity [m >= k] fed with every candidate (the sort path) neither *)
  Lemma rank_heap_eq : forall k m, (k <= m)%nat -> rank_heap p k m cs = rank p k cs.
  Proof.
    intros k m Hkm. unfold rank_heap, rank.
    rewrite (push_fold_topk _ _ dom cand_cmp_eq cand_cmp_anti cand_cmp_trans m cs all_dom).
    change (firstn k (sort (cand_cmp p) ?l)) with (topk (cand_cmp p) k l).
    apply (topk_topk _ _ dom cand_cmp_eq cand_cmp_anti cand_cmp_trans); [apply all_dom|exact Hkm].
  Qed.

  (** a strictly increasing list that splits the candidates like the answer does IS the answer *)
  Lemma rank_unique : forall k hs rest,
    Permutation cs (hs ++ rest) -> ssorted (cand_cmp p) hs ->
    (forall h r, In h hs -> In r rest -> cand_cmp p h r = Lt) ->
    length hs = Nat.min k (length cs) -> hs = rank p k cs.
  Proof.
    intros k hs rest HP Hs Hlt Hlen.
    set (srest := sort (cand_cmp p) rest).
    assert (Dall : Forall dom (hs ++ rest)).
    { apply sub_dom. intros x Hx. eapply Permutation_in; [apply Permutation_sym; exact HP|exact Hx]. }
    apply Forall_app in Dall. destruct Dall as [Dh Dr].
    assert (NDall : NoDup (hs ++ rest)) by (eapply Permutation_NoDup; [exact HP|apply NoDup_cs]).
    assert (NDr : NoDup rest).
    { clear -NDall. induction hs as [|h hs IH]; cbn in NDall; [exact NDall|].
      inversion NDall; subst. now apply IH. }
    assert (Hss : ssorted (cand_cmp p) (hs ++ srest)).
    { clear Hlen HP NDall. induction hs as [|h hs IH]; cbn.
      - apply (sort_ssorted _ _ dom cand_cmp_eq cand_cmp_anti cand_cmp_trans); assumption.
      - cbn in Hs. destruct Hs as [Hh Hs]. inversion Dh; subst. split.
        + apply Forall_app. split; [exact Hh|]. apply Forall_forall. intros r Hr.
          apply Hlt; [now left|]. eapply Permutation_in; [apply Permutation_sym, sort_permutation|exact Hr].
        + apply IH; try assumption. intros h0 r Hh0 Hr. apply Hlt; [now right|exact Hr]. }
    assert (Heq : hs ++ srest = sort (cand_cmp p) cs).
    { apply (ssorted_perm_sort _ _ dom cand_cmp_eq cand_cmp_anti cand_cmp_trans); [apply all_dom| |exact Hss].
      eapply perm_trans; [exact HP|]. apply Permutation_app_head. apply sort_permutation. }
    unfold rank. rewrite <- Heq.
    assert (Hk : length hs = k \/ srest = []).
    { destruct (Nat.le_gt_cases k (length cs)) as [Hle|Hgt].
      - left. rewrite Hlen. now apply Nat.min_l.
      - right. rewrite Nat.min_r in Hlen by lia.
        assert (Hl : length (hs ++ rest) = length cs) by (symmetry; now apply Permutation_length).
        rewrite app_length in Hl. assert (length rest = 0)%nat by lia.
        destruct rest; [reflexivity|discriminate]. }
    destruct Hk as [Hk|Hk].
    - rewrite <- Hk. rewrite firstn_app, Nat.sub_diag, firstn_all. cbn. now rewrite app_nil_r.
    - rewrite Hk, app_nil_r. rewrite firstn_all2; [reflexivity|]. rewrite Hlen. apply Nat.le_min_l.
  Qed.

End Ranking.

(* ================================================================== M meets S (order) *)

(** the property's order, read field by field, is the code's key comparison *)
Lemma before_spec_parts : forall p va vb sa sb s1 d1 s2 d2,
  before_spec p (map p_val (build_parts p va sa)) (map p_val (build_parts p vb sb)) s1 d1 s2 d2 =
  match parts_cmp (build_parts p va sa) (build_parts p vb sb) with
  | Lt => true
  | Gt => false
  | Eq => (s1 <? s2) || ((s1 =? s2) && (d1 <? d2))
  end.
Proof.
  induction p as [|f p IH]; intros; cbn; [reflexivity|].
  unfold part_cmp at 1. cbn [p_val p_order].
  assert (E : sval_cmp_spec (pf_order f) (field_value f (hd RNone va) sa) (field_value f (hd RNone vb) sb)
            = match field_value f (hd RNone va) sa, field_value f (hd RNone vb) sb with
              | VMissing, VMissing => Eq
              | VMissing, _ => Gt
              | _, VMissing => Lt
              | VScore x, VScore y => dir (pf_order f) (Z.compare (f32_key x) (f32_key y))
              | VI64 x, VI64 y => dir (pf_order f) (Z.compare x y)
              | VF64 x, VF64 y => dir (pf_order f) (Z.compare (f64_key x) (f64_key y))
              | VStr x, VStr y => dir (pf_order f) (bytes_cmp x y)
              | _, _ => Eq
              end) by reflexivity.
  rewrite E.
  destruct (field_value f (hd RNone va) sa), (field_value f (hd RNone vb) sb); cbn;
    try apply IH; try reflexivity;
    match goal with |- context [dir ?o ?c] => destruct (dir o c); try apply IH; reflexivity end.
Qed.

Lemma segdoc_ltb : forall s1 d1 s2 d2,
  (s1 <? s2) || ((s1 =? s2) && (d1 <? d2)) =
  match (match s1 ?= s2 with Eq => d1 ?= d2 | c => c end) with Lt => true | _ => false end.
Proof.
  intros. destruct (N.compare_spec s1 s2) as [E|E|E].
  - subst. rewrite N.ltb_irrefl, N.eqb_refl. cbn. unfold N.ltb. now destruct (d1 ?= d2).
  - apply N.ltb_lt in E as E'. rewrite E'. reflexivity.
  - assert (s1 <? s2 = false) as -> by (apply N.ltb_ge; lia).
    assert (s1 =? s2 = false) as -> by (apply N.eqb_neq; lia). reflexivity.
Qed.

Lemma cand_before_cmp : forall p a b,
  cand_before p a b = match cand_cmp p a b with Lt => true | _ => false end.
Proof.
  intros p a b. unfold cand_before, cand_vals, cand_cmp, cand_key, build_key, key_cmp. cbn.
  rewrite before_spec_parts.
  destruct (parts_cmp _ _); try reflexivity. apply segdoc_ltb.
Qed.

Lemma ssorted_chain : forall p l, ssorted (cand_cmp p) l -> chain (cand_before p) l = true.
Proof.
  induction l as [|x [|y t] IH]; cbn; try reflexivity. intros [Hx Ht].
  inversion Hx as [|? ? Hxy _]; subst. rewrite cand_before_cmp. unfold OrdSort.lt in Hxy. rewrite Hxy.
  apply IH. exact Ht.
Qed.

Lemma mem_cand_in : forall c l, In c l -> mem_cand c l = true.
Proof.
  intros c l H. unfold mem_cand. apply existsb_exists. exists c. split; [exact H|].
  unfold cand_eqb. now rewrite !N.eqb_refl.
Qed.

(** M meets S: the ranking satisfies the executable order specification *)
Lemma rank_meets_spec : forall p k cs,
  NoDup (map (fun c => (c_seg c, c_doc c)) cs) -> order_spec p k cs (rank p k cs) = true.
Proof.
  intros p k cs Hd. unfold order_spec.
  rewrite (ssorted_chain p _ (rank_ssorted p cs Hd k)). cbn [andb].
  assert (Hsub : forall h, In h (rank p k cs) -> In h cs).
  { intros h Hh. eapply Permutation_in; [apply Permutation_sym, (rank_split p cs k)|].
    apply in_or_app. now left. }
  assert (H1 : forallb (fun h => mem_cand h cs) (rank p k cs) = true).
  { apply forallb_forall. intros h Hh. apply mem_cand_in. now apply Hsub. }
  rewrite H1. cbn [andb]. rewrite (rank_length p cs k), Nat.eqb_refl. cbn [andb].
  destruct (rev (rank p k cs)) as [|last r] eqn:Er; [reflexivity|].
  assert (Hlast : In last (rank p k cs)).
  { apply in_rev. rewrite Er. now left. }
  apply forallb_forall. intros c Hc.
  pose proof (Permutation_in c (rank_split p cs k) Hc) as Hc'.
  apply in_app_or in Hc'. destruct Hc' as [Hc'|Hc'].
  - rewrite (mem_cand_in c _ Hc'). reflexivity.
  - pose proof (rank_rest_after p cs Hd k last c Hlast Hc') as Hlt.
    rewrite cand_before_cmp.
    rewrite (cand_cmp_anti p cs last c (Hsub _ Hlast) Hc), Hlt. cbn. apply orb_true_r.
Qed.

(* ================================================================== missing values last *)

Lemma part_missing_last : forall o1 o2 v,
  v <> VMissing ->
  part_cmp {| p_order := o1; p_val := v |} {| p_order := o2; p_val := VMissing |} = Lt /\
  part_cmp {| p_order := o2; p_val := VMissing |} {| p_order := o1; p_val := v |} = Gt.
Proof. intros o1 o2 v H. unfold part_cmp. cbn. destruct v; try congruence; split; reflexivity. Qed.

(** on a one-field plan, whatever its direction, a document with a value precedes a document
    without one, wherever the two documents are stored *)
Lemma missing_last_one_field : forall f a b,
  field_value f (hd RNone (c_vals a)) (c_score a) <> VMissing ->
  field_value f (hd RNone (c_vals b)) (c_score b) = VMissing ->
  cand_cmp [f] a b = Lt /\ cand_cmp [f] b a = Gt.
Proof.
  intros f a b Ha Hb. unfold cand_cmp, key_cmp, cand_key, build_key. cbn [k_parts build_parts parts_cmp].
  unfold part_cmp. cbn [p_val p_order]. rewrite Hb.
  destruct (field_value f (hd RNone (c_vals a)) (c_score a)); try congruence; split; reflexivity.
Qed.

(** at any position of a longer plan: equal earlier fields, then a value against a missing one *)
Lemma missing_last_prefix : forall (xs ys : list part) x y ra rb sa da sb db,
  parts_cmp xs ys = Eq -> length xs = length ys ->
  p_val x <> VMissing -> p_val y = VMissing ->
  key_cmp {| k_parts := xs ++ x :: ra; k_seg := sa; k_doc := da |}
          {| k_parts := ys ++ y :: rb; k_seg := sb; k_doc := db |} = Lt.
Proof.
  induction xs as [|a xs IH]; intros ys x y ra rb sa da sb db He Hl Hx Hy.
  - destruct ys; [|cbn in Hl; lia]. unfold key_cmp. cbn.
    unfold part_cmp. rewrite Hy. destruct (p_val x); try congruence; reflexivity.
  - destruct ys as [|b ys]; [cbn in Hl; lia|].
    unfold key_cmp in *. cbn in *. destruct (part_cmp a b); try congruence.
    apply (IH ys x y ra rb sa da sb db); try assumption; lia.
Qed.

(* ================================================================== the multi-value rule *)

Section Select.
  Variable A : Type.
  Variable c : A -> A -> comparison.
  Variable P : A -> Prop.
  Definition sle (x y : A) : Prop := c x y <> Gt.
  Hypothesis sle_refl : forall x, P x -> sle x x.
  Hypothesis gt_sle : forall x y, P x -> P y -> c x y = Gt -> sle y x.
  Hypothesis sle_trans : forall x y z, P x -> P y -> P z -> sle x y -> sle y z -> sle x z.

  Lemma fold_min_spec : forall t acc, P acc -> Forall P t ->
    let r := fold_left (fun x y => match c x y with Gt => y | _ => x end) t acc in
    P r /\ (r = acc \/ In r t) /\ sle r acc /\ Forall (sle r) t.
  Proof.
    induction t as [|a t IH]; intros acc Pa Pt; cbn.
    - repeat split; auto.
    - inversion Pt as [|? ? Paa Ptt]; subst.
      destruct (c acc a) eqn:E.
      + destruct (IH acc Pa Ptt) as [Pr [Hin [Hle Hall]]]. repeat split; auto.
        * destruct Hin; auto.
        * constructor; [|exact Hall]. eapply (sle_trans _ acc a); eauto. unfold sle. congruence.
      + destruct (IH acc Pa Ptt) as [Pr [Hin [Hle Hall]]]. repeat split; auto.
        * destruct Hin; auto.
        * constructor; [|exact Hall]. eapply (sle_trans _ acc a); eauto. unfold sle. congruence.
      + destruct (IH a Paa Ptt) as [Pr [Hin [Hle Hall]]]. repeat split; auto.
        * destruct Hin; auto.
        * eapply (sle_trans _ a acc); eauto.
  Qed.

  Lemma fold_max_spec : forall t acc, P acc -> Forall P t ->
    let r := fold_left (fun x y => match c x y with Gt => x | _ => y end) t acc in
    P r /\ (r = acc \/ In r t) /\ sle acc r /\ Forall (fun w => sle w r) t.
  Proof.
    induction t as [|a t IH]; intros acc Pa Pt; cbn.
    - repeat split; auto.
    - inversion Pt as [|? ? Paa Ptt]; subst.
      destruct (c acc a) eqn:E.
      + destruct (IH a Paa Ptt) as [Pr [Hin [Hle Hall]]]. repeat split; auto.
        * destruct Hin; auto.
        * eapply (sle_trans _ a _); eauto. unfold sle. congruence.
      + destruct (IH a Paa Ptt) as [Pr [Hin [Hle Hall]]]. repeat split; auto.
        * destruct Hin; auto.
        * eapply (sle_trans _ a _); eauto. unfold sle. congruence.
      + destruct (IH acc Pa Ptt) as [Pr [Hin [Hle Hall]]]. repeat split; auto.
        * destruct Hin; auto.
        * constructor; [|exact Hall]. eapply (sle_trans _ acc _); eauto.
  Qed.

  Variable eqb : A -> A -> bool.
  Hypothesis eqb_refl : forall x, eqb x x = true.

  Lemma select_spec : forall o vs v, Forall P vs -> select o c vs = Some v ->
    sel_ok_with (fun x y => match c x y with Gt => false | _ => true end) eqb o vs v = true.
  Proof.
    intros o vs v HP Hs. destruct vs as [|x t]; [destruct o; discriminate|].
    inversion HP as [|? ? Px Pt]; subst. unfold sel_ok_with.
    assert (Hle : forall a b, sle a b -> match c a b with Gt => false | _ => true end = true).
    { unfold sle. intros a b H. destruct (c a b); congruence. }
    destruct o; cbn in Hs; injection Hs as <-.
    - destruct (fold_min_spec t x Px Pt) as [Pr [Hin [Hle1 Hall]]].
      apply andb_true_iff. split.
      + apply existsb_exists. eexists. split; [|apply eqb_refl]. destruct Hin as [->|Hin]; [now left|now right].
      + apply forallb_forall. intros w [<-|Hw]; apply Hle; [exact Hle1|].
        rewrite Forall_forall in Hall. now apply Hall.
    - destruct (fold_max_spec t x Px Pt) as [Pr [Hin [Hle1 Hall]]].
      apply andb_true_iff. split.
      + apply existsb_exists. eexists. split; [|apply eqb_refl]. destruct Hin as [->|Hin]; [now left|now right].
      + apply forallb_forall. intros w [<-|Hw]; apply Hle; [exact Hle1|].
        rewrite Forall_forall in Hall. now apply Hall.
  Qed.
End Select.

Lemma select_none : forall {A} o (c : A -> A -> comparison) vs, select o c vs = None -> vs = [].
Proof. intros A [] c [|x t]; cbn; congruence. Qed.

(** the stored values a plan field can meet: of the field's type, f64 values not NaN *)
Definition rv_ok (f : pfield) (rv : rvals) : Prop :=
  match pf_kind f, rv with
  | FScore, _ => True
  | FKeyword, RStr _ => True
  | FI64, RI64 _ => True
  | FF64, RF64 vs => Forall (fun b => f64_is_nan b = false) vs
  | _, _ => False
  end.

Lemma bytes_eqb_refl : forall a, bytes_eqb a a = true.
Proof. intros. unfold bytes_eqb. now rewrite bytes_cmp_refl. Qed.

Lemma multi_value_rule : forall f rv s, rv_ok f rv -> value_spec f rv s (field_value f rv s) = true.
Proof.
  intros f rv s H. unfold value_spec, field_value, rv_ok in *.
  destruct (pf_kind f) eqn:K; destruct rv as [|vs|vs|vs]; try contradiction; cbn; try apply N.eqb_refl.
  - (* keyword *)
    destruct (select (pf_order f) bytes_cmp vs) as [v|] eqn:E.
    + destruct vs as [|x t]; [destruct (pf_order f); discriminate|].
      apply (select_spec _ bytes_cmp (fun _ => True)) with (eqb := bytes_eqb) in E; auto.
      * intros x0 _. unfold sle. now rewrite bytes_cmp_refl.
      * intros x0 y _ _ G. unfold sle. rewrite bytes_cmp_anti, G. cbn. congruence.
      * intros x0 y z _ _ _ H1 H2. unfold sle in *.
        destruct (bytes_cmp x0 y) eqn:E1; try congruence; destruct (bytes_cmp y z) eqn:E2; try congruence.
        -- apply bytes_cmp_eq in E1. subst. congruence.
        -- apply bytes_cmp_eq in E1. subst. congruence.
        -- apply bytes_cmp_eq in E2. subst. congruence.
        -- rewrite (bytes_cmp_trans _ _ _ E1 E2). congruence.
      * apply bytes_eqb_refl.
      * apply Forall_forall. auto.
    + apply select_none in E. now subst.
  - (* i64 *)
    destruct (select (pf_order f) Z.compare vs) as [v|] eqn:E.
    + destruct vs as [|x t]; [destruct (pf_order f); discriminate|].
      apply (select_spec _ Z.compare (fun _ => True)) with (eqb := Z.eqb) in E; auto.
      * intros x0 _. unfold sle. now rewrite Z.compare_refl.
      * intros x0 y _ _ G. unfold sle. rewrite Z.compare_antisym, G. cbn. congruence.
      * intros x0 y z _ _ _. unfold sle. intros H1 H2.
        change (x0 <= y)%Z in H1. change (y <= z)%Z in H2. change (x0 <= z)%Z. lia.
      * apply Z.eqb_refl.
      * apply Forall_forall. auto.
    + apply select_none in E. now subst.
  - (* f64 *)
    destruct (select (pf_order f) f64_partial_cmp vs) as [v|] eqn:E.
    + destruct vs as [|x t]; [destruct (pf_order f); discriminate|].
      apply (select_spec _ f64_partial_cmp (fun b => f64_is_nan b = false)) with (eqb := N.eqb) in E; auto.
      * intros x0 Hx. unfold sle, f64_partial_cmp. rewrite Hx. cbn. now rewrite Z.compare_refl.
      * intros x0 y Hx Hy. unfold sle, f64_partial_cmp. rewrite Hx, Hy. cbn.
        intros G. rewrite Z.compare_antisym, G. cbn. congruence.
      * intros x0 y z Hx Hy Hz. unfold sle, f64_partial_cmp. rewrite Hx, Hy, Hz. cbn.
        intros H1 H2. change (f64_num_key x0 <= f64_num_key y)%Z in H1.
        change (f64_num_key y <= f64_num_key z)%Z in H2. change (f64_num_key x0 <= f64_num_key z)%Z. lia.
      * apply N.eqb_refl.
    + apply select_none in E. now subst.
Qed.

(* ================================================================== the BM25 term formula *)

Open Scope Q_scope.

Lemma qadd_eq : forall a b, qadd a b == a + b. Proof. intros. apply Qred_correct. Qed.
Lemma qsub_eq : forall a b, qsub a b == a - b. Proof. intros. apply Qred_correct. Qed.
Lemma qmul_eq : forall a b, qmul a b == a * b. Proof. intros. apply Qred_correct. Qed.
Lemma qdiv_eq : forall a b, qdiv a b == a / b. Proof. intros. apply Qred_correct. Qed.

Lemma qlt_true : forall a b, a < b -> qlt a b = true.
Proof.
  intros a b H. unfold qlt. destruct (Qle_bool b a) eqn:E; [|reflexivity].
  apply Qle_bool_iff in E. exfalso. apply (Qlt_not_le _ _ H E).
Qed.

Lemma qmax_ge : forall a b, b <= a -> qmax a b == a.
Proof.
  intros a b H. unfold qmax. destruct (Qle_bool a b) eqn:E; [|reflexivity].
  apply Qle_bool_iff in E. now apply Qle_antisym.
Qed.

(** the model's term score is the textbook BM25 expression times the term weight, for a document
    with a stored field length in a segment with a positive average length (the clamp of the
    denominator at 1e-6 is inactive as soon as tf >= 1e-6) *)
Lemma score_tf_formula : forall idf tf dl avgdl k1 b w,
  0 < avgdl -> 0 < dl ->
  (1 # 1000000) <= tf + k1 * (1 - b + b * (dl / avgdl)) ->
  score_tf idf tf dl avgdl k1 b w ==
  idf * (tf * (k1 + 1)) / (tf + k1 * (1 - b + b * (dl / avgdl))) * w.
Proof.
  intros idf tf dl avgdl k1 b w Ha Hd Hden. unfold score_tf, bm25.
  rewrite (qlt_true 0 dl Hd), (qlt_true 0 avgdl Ha).
  rewrite qmul_eq, qdiv_eq.
  assert (E : qadd tf (qmul k1 (qadd (qsub 1 b) (qmul b (qdiv dl avgdl)))) ==
              tf + k1 * (1 - b + b * (dl / avgdl))).
  { rewrite qadd_eq, qmul_eq, qadd_eq, qsub_eq, qmul_eq, qdiv_eq. reflexivity. }
  rewrite qmax_ge by (rewrite E; exact Hden).
  rewrite E, qmul_eq, qmul_eq, qadd_eq. reflexivity.
Qed.

Close Scope Q_scope.

Open Scope Q_scope.
(** a single-term leaf scores the weighted term formula with weight = enclosing boosts x node
    boost x field boost *)
Lemma leaf_score_formula : forall e d inh k fb bo t s,
  find_t k (sd_terms d) = Some t -> find_k k (sg_keys (e_seg e)) = Some s ->
  node_score e d inh (QLeaf [(k, fb)] bo) ==
  score_tf (ks_idf s) (qofN (ts_tf t)) (term_doc_len (ts_dl t) (ks_avgdl s)) (ks_avgdl s)
           (e_k1 e) (e_b e) 1 * (inh * bo * fb).
Proof.
  intros e d inh k fb bo t s Ht Hs. cbn [node_score map fst snd]. unfold term_score. rewrite Ht, Hs.
  unfold qsum. cbn [fold_left]. rewrite qadd_eq. unfold score_tf. rewrite !qmul_eq. ring.
Qed.
Close Scope Q_scope.
