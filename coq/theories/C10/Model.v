(** C10/Model.v — hit order and scores: the sort key of query/sort.rs, the ranking of
    api/reader.rs and the BM25 / score-tree arithmetic of query/{bm25,wand,planner,score_functions}.rs
    and api/reader.rs (evaluate_compiled_score).  Definitions only.

    Two layers, as in the code:
      * the KEY layer is exact: a sort value is what [SortValue] is (f32 / f64 as raw bits, compared
        by the integer trick of [total_cmp]; i64; keyword bytes; Missing), [part_cmp] / [key_cmp]
        transcribe [SortKeyPart::cmp] / [SortKey::cmp], [field_value] transcribes
        [ResolvedSortField::value] with [min_by] / [max_by] as the iterator adaptors behave
        (first minimum, last maximum, incomparable = Equal);
      * the SCORE layer is over exact rationals [Q]: [bm25] / [score_tf] with [idf] an oracle value
        per (term key, segment), the term weights, and the score tree.  The implementation's f32
        score is compared with it at relative tolerance 1e-4 (+1e-6 absolute). *)

From Coq Require Import List NArith ZArith QArith Qabs Lia Bool.
From SL Require Import Base.Tie Base.OrdSort.
Import ListNotations.
Open Scope N_scope.

(* ================================================================== KEY LAYER *)

Inductive order := Asc | Desc.

Inductive sval :=
| VScore (bits : N)          (* SortValue::Score(f32), raw bits *)
| VI64 (z : Z)
| VF64 (bits : N)            (* SortValue::F64(f64), raw bits *)
| VStr (s : list N)          (* utf-8 bytes *)
| VMissing.

Record part := { p_order : order; p_val : sval }.
Record key := { k_parts : list part; k_seg : N; k_doc : N }.

(** f32::total_cmp / f64::total_cmp: [left ^= (((left >> 31) as u32) >> 1) as i32], then the
    signed integer comparison.  For a non-negative pattern the key is the pattern, for a pattern
    with the sign bit the low bits are flipped: [-(low) - 1]. *)
Definition f32_key (b : N) : Z :=
  if b <? 2 ^ 31 then Z.of_N b else (- Z.of_N (b - 2 ^ 31) - 1)%Z.
Definition f64_key (b : N) : Z :=
  if b <? 2 ^ 63 then Z.of_N b else (- Z.of_N (b - 2 ^ 63) - 1)%Z.

(** compare_ord / compare_f32 / compare_f64: the direction is applied to Less / Greater *)
Definition dir (o : order) (c : comparison) : comparison :=
  match o with Asc => c | Desc => CompOpp c end.

(** [str::cmp]: lexicographic on bytes *)
Fixpoint bytes_cmp (a b : list N) : comparison :=
  match a, b with
  | [], [] => Eq
  | [], _ :: _ => Lt
  | _ :: _, [] => Gt
  | x :: a', y :: b' => match N.compare x y with Eq => bytes_cmp a' b' | c => c end
  end.

(** SortKeyPart::cmp — the order used is [self.order] *)
Definition part_cmp (a b : part) : comparison :=
  match p_val a, p_val b with
  | VMissing, VMissing => Eq
  | VMissing, _ => Gt
  | _, VMissing => Lt
  | VScore x, VScore y => dir (p_order a) (Z.compare (f32_key x) (f32_key y))
  | VI64 x, VI64 y => dir (p_order a) (Z.compare x y)
  | VF64 x, VF64 y => dir (p_order a) (Z.compare (f64_key x) (f64_key y))
  | VStr x, VStr y => dir (p_order a) (bytes_cmp x y)
  | _, _ => Eq
  end.

(** the loop over [self.parts.iter().zip(other.parts.iter())] *)
Fixpoint parts_cmp (a b : list part) : comparison :=
  match a, b with
  | x :: a', y :: b' => match part_cmp x y with Eq => parts_cmp a' b' | c => c end
  | _, _ => Eq
  end.

(** SortKey::cmp *)
Definition key_cmp (a b : key) : comparison :=
  match parts_cmp (k_parts a) (k_parts b) with
  | Eq => match N.compare (k_seg a) (k_seg b) with
          | Eq => N.compare (k_doc a) (k_doc b)
          | c => c
          end
  | c => c
  end.

(* ------------------------------------------------------------------ the plan and build_key *)

Inductive fkind := FScore | FKeyword | FI64 | FF64.
Record pfield := { pf_kind : fkind; pf_order : order }.
Definition plan := list pfield.

(** what the fast fields hold for one document and one plan field, in stored order *)
Inductive rvals :=
| RNone                        (* the _score pseudo field *)
| RStr (vs : list (list N))
| RI64 (vs : list Z)
| RF64 (vs : list N).

(** Iterator::reduce *)
Definition reduce {A : Type} (f : A -> A -> A) (l : list A) : option A :=
  match l with [] => None | x :: t => Some (fold_left f t x) end.
(** Iterator::min_by: [match compare(&x, &y) { Greater => y, _ => x }] (the first minimum) *)
Definition min_by {A : Type} (c : A -> A -> comparison) : list A -> option A :=
  reduce (fun x y => match c x y with Gt => y | _ => x end).
(** Iterator::max_by: [match compare(&x, &y) { Greater => x, _ => y }] (the last maximum) *)
Definition max_by {A : Type} (c : A -> A -> comparison) : list A -> option A :=
  reduce (fun x y => match c x y with Gt => x | _ => y end).

(** f64 partial_cmp (with [unwrap_or(Equal)]): NaN is incomparable, -0.0 = +0.0 *)
Definition f64_is_nan (b : N) : bool := (2047 * 2 ^ 52) <? (b mod 2 ^ 63).
Definition f64_num_key (b : N) : Z := if b =? 2 ^ 63 then 0%Z else f64_key b.
Definition f64_partial_cmp (a b : N) : comparison :=
  if f64_is_nan a || f64_is_nan b then Eq else Z.compare (f64_num_key a) (f64_num_key b).

Definition select {A : Type} (o : order) (c : A -> A -> comparison) (vs : list A) : option A :=
  match o with Asc => min_by c vs | Desc => max_by c vs end.

(** ResolvedSortField::value; the selector is [ValueSelector::from(order)] *)
Definition field_value (f : pfield) (rv : rvals) (score : N) : sval :=
  match pf_kind f with
  | FScore => VScore score
  | FKeyword => match rv with
                | RStr vs => match select (pf_order f) bytes_cmp vs with
                             | Some v => VStr v | None => VMissing end
                | _ => VMissing
                end
  | FI64 => match rv with
            | RI64 vs => match select (pf_order f) Z.compare vs with
                         | Some v => VI64 v | None => VMissing end
            | _ => VMissing
            end
  | FF64 => match rv with
            | RF64 vs => match select (pf_order f) f64_partial_cmp vs with
                         | Some v => VF64 v | None => VMissing end
            | _ => VMissing
            end
  end.

Fixpoint build_parts (p : plan) (vals : list rvals) (score : N) : list part :=
  match p with
  | [] => []
  | f :: p' =>
      {| p_order := pf_order f; p_val := field_value f (hd RNone vals) score |}
      :: build_parts p' (tl vals) score
  end.

(** SortPlan::build_key *)
Definition build_key (p : plan) (vals : list rvals) (score seg doc : N) : key :=
  {| k_parts := build_parts p vals score; k_seg := seg; k_doc := doc |}.

(** SortPlan::from_request: no sort = [_score desc] *)
Definition resolve_plan (p : plan) : plan :=
  match p with [] => [{| pf_kind := FScore; pf_order := Desc |}] | _ => p end.

(* ------------------------------------------------------------------ ranking *)

(** one candidate = a matching live document with the values of the plan's fields and the f32
    score the executor handed to [build_key] *)
Record cand := { c_id : N; c_seg : N; c_doc : N; c_vals : list rvals; c_score : N }.

Definition cand_key (p : plan) (c : cand) : key :=
  build_key p (c_vals c) (c_score c) (c_seg c) (c_doc c).

Definition cand_cmp (p : plan) (a b : cand) : comparison := key_cmp (cand_key p a) (cand_key p b).

(** what [search] returns: all candidates ordered by their key, cut to the limit
    ([hits.sort_by(key)], [truncate(limit)]) *)
Definition rank (p : plan) (k : nat) (cs : list cand) : list cand :=
  firstn k (sort (cand_cmp p) cs).

(** the shape the code has: every segment contributes only its own best [m >= k] candidates
    (score fast path: per-segment top_k; sort path: one heap of capacity top_k fed segment by
    segment), the union is sorted and cut *)
Definition rank_segments (p : plan) (k m : nat) (segs : list (list cand)) : list cand :=
  firstn k (sort (cand_cmp p) (concat (map (topk (cand_cmp p) m) segs))).

Definition rank_heap (p : plan) (k m : nat) (cs : list cand) : list cand :=
  firstn k (sort (cand_cmp p) (fold_left (push (cand_cmp p) m) cs [])).

(* ------------------------------------------------------------------ S for the key layer *)

(** numeric reading of a selected value: the property's "minimum for ascending, maximum for
    descending" is about the values as numbers / strings *)
Definition num_le_f64 (a b : N) : bool :=
  match f64_partial_cmp a b with Gt => false | _ => true end.

Definition sel_ok_with {A : Type} (le : A -> A -> bool) (eqb : A -> A -> bool)
  (o : order) (vs : list A) (v : A) : bool :=
  existsb (eqb v) vs &&
  forallb (fun w => match o with Asc => le v w | Desc => le w v end) vs.

Definition bytes_eqb (a b : list N) : bool := match bytes_cmp a b with Eq => true | _ => false end.
Definition bytes_leb (a b : list N) : bool := match bytes_cmp a b with Gt => false | _ => true end.

(** S: the value placed in the key is Missing iff the document has no value, otherwise it is one
    of the document's values, minimal (ascending) or maximal (descending) *)
Definition value_spec (f : pfield) (rv : rvals) (score : N) (v : sval) : bool :=
  match pf_kind f, rv, v with
  | FScore, _, VScore s => s =? score
  | FKeyword, RStr [], VMissing => true
  | FKeyword, RStr vs, VStr x => sel_ok_with bytes_leb bytes_eqb (pf_order f) vs x
  | FI64, RI64 [], VMissing => true
  | FI64, RI64 vs, VI64 x => sel_ok_with Z.leb Z.eqb (pf_order f) vs x
  | FF64, RF64 [], VMissing => true
  | FF64, RF64 vs, VF64 x => sel_ok_with num_le_f64 N.eqb (pf_order f) vs x
  | _, _, _ => false
  end.

(** S: the property's order, written directly: compare the plan's fields from the left — a
    missing value is after any value whatever the direction, two values compare in the field's
    direction — and break ties by segment, then document *)
Definition sval_cmp_spec (o : order) (a b : sval) : comparison :=
  match a, b with
  | VMissing, VMissing => Eq
  | VMissing, _ => Gt
  | _, VMissing => Lt
  | VScore x, VScore y => dir o (Z.compare (f32_key x) (f32_key y))
  | VI64 x, VI64 y => dir o (Z.compare x y)
  | VF64 x, VF64 y => dir o (Z.compare (f64_key x) (f64_key y))
  | VStr x, VStr y => dir o (bytes_cmp x y)
  | _, _ => Eq
  end.

Fixpoint before_spec (p : plan) (a b : list sval) (sa da sb db : N) : bool :=
  match p, a, b with
  | f :: p', x :: a', y :: b' =>
      match sval_cmp_spec (pf_order f) x y with
      | Lt => true
      | Gt => false
      | Eq => before_spec p' a' b' sa da sb db
      end
  | _, _, _ => (sa <? sb) || ((sa =? sb) && (da <? db))
  end.

Definition cand_vals (p : plan) (c : cand) : list sval := map p_val (k_parts (cand_key p c)).

Definition cand_before (p : plan) (a b : cand) : bool :=
  before_spec p (cand_vals p a) (cand_vals p b) (c_seg a) (c_doc a) (c_seg b) (c_doc b).

Fixpoint chain {A : Type} (r : A -> A -> bool) (l : list A) : bool :=
  match l with
  | x :: ((y :: _) as t) => r x y && chain r t
  | _ => true
  end.

Definition cand_eqb (a b : cand) : bool := (c_seg a =? c_seg b) && (c_doc a =? c_doc b).
Definition mem_cand (a : cand) (l : list cand) : bool := existsb (cand_eqb a) l.

(** S for a ranked answer [hs] over the candidate set [cs] with limit [k]:
    consecutive hits are in the property's order, the hits are candidates, as many as the limit
    allows, and no candidate left out comes before the last hit *)
Definition order_spec (p : plan) (k : nat) (cs hs : list cand) : bool :=
  chain (cand_before p) hs &&
  forallb (fun h => mem_cand h cs) hs &&
  Nat.eqb (length hs) (Nat.min k (length cs)) &&
  match rev hs with
  | [] => true
  | last :: _ => forallb (fun c => mem_cand c hs || negb (cand_before p c last)) cs
  end.

(* ================================================================== SCORE LAYER *)

Open Scope Q_scope.

Definition qadd (a b : Q) : Q := Qred (a + b).
Definition qsub (a b : Q) : Q := Qred (a - b).
Definition qmul (a b : Q) : Q := Qred (a * b).
Definition qdiv (a b : Q) : Q := Qred (a / b).
Definition qmax (a b : Q) : Q := if Qle_bool a b then b else a.
Definition qmin (a b : Q) : Q := if Qle_bool a b then a else b.
Definition qlt (a b : Q) : bool := negb (Qle_bool b a).
Definition qsum (l : list Q) : Q := fold_left qadd l 0.
Definition qofN (n : N) : Q := inject_Z (Z.of_N n).

(** bm25.rs with the logarithm supplied: [idf = ln((docs - df + 0.5)/(df + 0.5)).max(0) + 1] *)
Definition bm25 (idf tf doc_len avgdl k1 b : Q) : Q :=
  let norm_dl := if qlt 0 avgdl then qdiv doc_len avgdl else 1 in
  let denom := qadd tf (qmul k1 (qadd (qsub 1 b) (qmul b norm_dl))) in
  qdiv (qmul idf (qmul tf (qadd k1 1))) (qmax denom (1 # 1000000)).

(** ScoredTerm::doc_len: a stored length of 0 (or none) is replaced by [avgdl.max(1.0)] *)
Definition term_doc_len (dl : N) (avgdl : Q) : Q :=
  if (0 <? dl)%N then qofN dl else qmax avgdl 1.

(** wand.rs score_tf *)
Definition score_tf (idf tf doc_len avgdl k1 b weight : Q) : Q :=
  let norm_len := if qlt 0 doc_len then doc_len else qmax avgdl tf in
  qmul (bm25 idf tf norm_len avgdl k1 b) weight.

(** the idf oracle can be checked without a logarithm where it matters most:
    [x <= 1 -> idf = 1], and for [x > 1]: [1 - 1/x <= ln x <= x - 1] *)
Definition idf_plausible (docs df : N) (idf : Q) : bool :=
  let x := qdiv (qadd (qsub (qofN docs) (qofN df)) (1 # 2)) (qadd (qofN df) (1 # 2)) in
  if Qle_bool x 1 then Qeq_bool idf 1
  else Qle_bool (qadd 1 (qsub 1 (qdiv 1 x))) idf && Qle_bool idf (qadd 1 (qsub x 1)).

(** statistics of one term key in one segment *)
Record kstat := { ks_key : N; ks_df : N; ks_avgdl : Q; ks_idf : Q }.
Record segstat := { sg_docs : N; sg_keys : list kstat }.
(** one posting of a document: key, term frequency, stored field length *)
Record tstat := { ts_key : N; ts_tf : N; ts_dl : N }.

(** what the score of a document depends on *)
Record sdoc := {
  sd_terms : list tstat;
  sd_flags : list bool;          (* filter oracles: does the document pass filter i *)
  sd_nums : list (option Q);     (* first numeric value of field i (f64_value.or(i64_value)) *)
  sd_oracle : list (option Q)    (* values of transcendental function modifiers, by id *)
}.

Record senv := { e_k1 : Q; e_b : Q; e_seg : segstat }.

Fixpoint find_k (k : N) (l : list kstat) : option kstat :=
  match l with [] => None | x :: t => if (ks_key x =? k)%N then Some x else find_k k t end.
Fixpoint find_t (k : N) (l : list tstat) : option tstat :=
  match l with [] => None | x :: t => if (ts_key x =? k)%N then Some x else find_t k t end.

(** contribution of one term key with weight [w] to a document: 0 when the document is not in
    the key's postings *)
Definition term_score (e : senv) (d : sdoc) (k : N) (w : Q) : Q :=
  match find_t k (sd_terms d), find_k k (sg_keys (e_seg e)) with
  | Some t, Some s =>
      score_tf (ks_idf s) (qofN (ts_tf t)) (term_doc_len (ts_dl t) (ks_avgdl s)) (ks_avgdl s)
        (e_k1 e) (e_b e) w
  | _, _ => 0
  end.

(* ------------------------------------------------------------------ the query tree *)

Inductive fmod := MNone | MReciprocal | MOracle (id : nat).
Inductive func :=
| FWeight (w : Q) (flt : option nat)
| FFieldValue (fld : nat) (factor : Q) (m : fmod) (missing : Q) (flt : option nat).
Inductive smode := SMSum | SMMultiply | SMMax | SMMin | SMAvg.
Inductive bmode := BMMultiply | BMSum | BMReplace | BMMax | BMMin.

(** the scoring-relevant shape of a query (planner.rs build_node):
      QAll       match_all / phrase / filter-only nodes: no score node
      QLeaf      one scoring leaf fed by term keys with their field boosts (term; one term of a
                 query string over the default fields; a most_fields group; one field of best_fields)
      QBool      bool: must and should children are summed
      QDisMax    dis_max / best_fields
      QConst     constant_score over filter [flt]
      QFunc      function_score *)
Inductive qnode :=
| QAll
| QLeaf (ws : list (N * Q)) (boost : Q)
| QBool (must should : list qnode) (boost : Q)
| QDisMax (qs : list qnode) (tie boost : Q)
| QConst (flt : nat) (boost : Q)
| QFunc (q : qnode) (fs : list func) (sm : smode) (bm : bmode) (maxb : option Q) (boost : Q).

Definition flag (d : sdoc) (i : nat) : bool := nth i (sd_flags d) false.
Definition flag_opt (d : sdoc) (o : option nat) : bool :=
  match o with None => true | Some i => flag d i end.

(** does the node produce a score node (ScoreNode other than Empty) *)
Fixpoint has_score (q : qnode) : bool :=
  match q with
  | QAll => false
  | QLeaf _ _ => true
  | QBool must should _ => existsb has_score must || existsb has_score should
  | QDisMax qs _ _ => existsb has_score qs
  | QConst _ _ => true
  | QFunc _ _ _ _ _ _ => true
  end.

(** Constant / FunctionScore / RankFeature / ScriptScore anywhere: the score hook is used *)
Fixpoint has_custom (q : qnode) : bool :=
  match q with
  | QAll | QLeaf _ _ => false
  | QBool must should _ => existsb has_custom must || existsb has_custom should
  | QDisMax qs _ _ => existsb has_custom qs
  | QConst _ _ => true
  | QFunc _ _ _ _ _ _ => true
  end.

(** the boolean matcher of the node, for the node kinds the generator puts under optional
    clauses (QueryEvaluator::matches_subquery) *)
Fixpoint qmatches (d : sdoc) (q : qnode) : bool :=
  match q with
  | QAll => true
  | QLeaf ws _ => existsb (fun kw => match find_t (fst kw) (sd_terms d) with
                                     | Some _ => true | None => false end) ws
  | QBool must should _ =>
      forallb (qmatches d) must &&
      (match must, should with
       | [], _ :: _ => existsb (qmatches d) should
       | _, _ => true
       end)
  | QDisMax qs _ _ => existsb (qmatches d) qs
  | QConst f _ => flag d f
  | QFunc q _ _ _ _ _ => qmatches d q
  end.

Definition f32_epsilon : Q := 1 # 8388608.

Definition apply_modifier (d : sdoc) (m : fmod) (v : Q) : option Q :=
  match m with
  | MNone => Some v
  | MReciprocal => if Qeq_bool v 0 then Some 0 else Some (qdiv 1 v)
  | MOracle i => nth i (sd_oracle d) None
  end.

(** CompiledFunction::evaluate *)
Definition func_value (d : sdoc) (f : func) : option Q :=
  match f with
  | FWeight w flt => if flag_opt d flt then Some w else None
  | FFieldValue fld factor m missing flt =>
      if flag_opt d flt then
        let raw := match nth fld (sd_nums d) None with Some v => v | None => missing end in
        apply_modifier d m (qmul raw factor)
      else None
  end.

Fixpoint somes {A : Type} (l : list (option A)) : list A :=
  match l with [] => [] | Some x :: t => x :: somes t | None :: t => somes t end.

Definition qreduce (f : Q -> Q -> Q) (l : list Q) : option Q := reduce f l.

(** combine_function_scores *)
Definition combine_functions (vs : list Q) (sm : smode) : option Q :=
  match vs with
  | [] => None
  | _ =>
      match sm with
      | SMSum => Some (qsum vs)
      | SMMultiply => Some (fold_left qmul vs 1)
      | SMMax => qreduce qmax vs
      | SMMin => qreduce qmin vs
      | SMAvg => Some (qdiv (qsum vs) (inject_Z (Z.of_nat (length vs))))
      end
  end.

(** apply_boost_mode *)
Definition apply_boost_mode (base f : Q) (bm : bmode) : Q :=
  match bm with
  | BMMultiply => qmul base f
  | BMSum => qadd base f
  | BMReplace => f
  | BMMax => qmax base f
  | BMMin => qmin base f
  end.

(** the FunctionScore arm of evaluate_compiled_score, after the base score is known *)
Definition function_score (d : sdoc) (base : Q) (fs : list func) (sm : smode) (bm : bmode)
  (maxb : option Q) (boost : Q) : Q :=
  let vals := somes (map (func_value d) fs) in
  let eff := match vals with
             | [] => base
             | _ => if Qle_bool (Qabs base) f32_epsilon then 1 else base
             end in
  let combined := match combine_functions vals sm with
                  | Some f => apply_boost_mode eff f bm
                  | None => eff
                  end in
  let capped := match maxb with Some m => qmin combined m | None => combined end in
  qmul capped boost.

(** DisMax over the scores of the children that have a score node *)
Definition dismax (tie : Q) (l : list Q) : Q :=
  match l with
  | [] => 0
  | x :: t => let mx := fold_left qmax t x in
              qadd mx (qmul tie (qsub (qsum l) mx))
  end.

(** S: the score of a document under a node, [inh] being the product of the boosts of the
    enclosing nodes.  Written compositionally from the documented meaning of the nodes:
    a leaf is the weighted BM25 sum of its terms, bool sums, dis_max takes the best child plus
    tie_breaker times the others, constant_score is its boost for documents passing its filter,
    function_score combines the inner score with its functions and multiplies by its boost;
    a node without any scoring part (match_all) scores 1.  The product of the enclosing boosts
    reaches a function_score once, through its own final multiplication; its inner query is
    planned unboosted (planner.rs, after the repair recorded in notes/C10.md: before it the
    enclosing boost was applied both to the inner query and to the result). *)
Fixpoint node_score (e : senv) (d : sdoc) (inh : Q) (q : qnode) {struct q} : Q :=
  match q with
  | QAll => 1
  | QLeaf ws b =>
      qsum (map (fun kw => term_score e d (fst kw) (qmul (qmul inh b) (snd kw))) ws)
  | QBool must should b =>
      let inh' := qmul inh b in
      let g := fun c => if has_score c then Some (node_score e d inh' c) else None in
      match somes (map g must) ++ somes (map g should) with
      | [] => 1
      | cs => qsum cs
      end
  | QDisMax qs tie b =>
      let inh' := qmul inh b in
      let g := fun c => if has_score c then Some (node_score e d inh' c) else None in
      match somes (map g qs) with
      | [] => 1
      | [x] => x
      | cs => dismax tie cs
      end
  | QConst f b => if flag d f then qmul inh b else 0
  | QFunc q fs sm bm maxb b =>
      if qmatches d q then
        function_score d (node_score e d 1 q) fs sm bm maxb (qmul inh b)
      else 0
  end.

(* ------------------------------------------------------------------ f32 scores vs. Q *)

(** exact value of a finite f32 bit pattern *)
Definition f32_to_Q (bits : N) : option Q :=
  let neg := (2 ^ 31 <=? bits)%N in
  let r := (bits mod 2 ^ 31)%N in
  let ex := (r / 2 ^ 23)%N in
  let m := (r mod 2 ^ 23)%N in
  if (ex =? 255)%N then None
  else
    let mag :=
      if (ex =? 0)%N then Qmake (Z.of_N m) (Z.to_pos (2 ^ 149))
      else if (ex <? 150)%N then
        Qmake (Z.of_N (2 ^ 23 + m)) (Z.to_pos (2 ^ Z.of_N (150 - ex)))
      else inject_Z (Z.of_N ((2 ^ 23 + m) * 2 ^ (ex - 150))) in
    Some (Qred (if neg then Qopp mag else mag)).

(** |obs - model| <= 1e-4 * |model| + 1e-6 *)
Definition close (obs model : Q) : bool :=
  Qle_bool (Qabs (obs - model)) (Qabs model * (1 # 10000) + (1 # 1000000)).

Definition close_bits (bits : N) (model : Q) : bool :=
  match f32_to_Q bits with Some o => close o model | None => false end.

(* ================================================================== THE TIE *)

Close Scope Q_scope.

(** one document of the match set *)
Record mdoc := {
  m_id : N; m_seg : N; m_doc : N;
  m_vals : list rvals;       (* aligned with the resolved plan *)
  m_sdoc : sdoc
}.

Record case := {
  cs_plan : plan;                  (* as requested (may be empty) *)
  cs_limit : nat;
  cs_k1 : Q; cs_b : Q;
  cs_segs : list segstat;          (* by segment ordinal *)
  cs_query : qnode;
  cs_force_score : bool;           (* explain, or an aggregation that needs scores *)
  cs_docs : list mdoc;             (* the matching live documents *)
  cs_hits : list (N * N)           (* observed: (external id, score bits) in response order *)
}.

Definition plan_uses_score (p : plan) : bool :=
  existsb (fun f => match pf_kind f with FScore => true | _ => false end) p.

(** reader.rs search_segment: ScoreMode::MatchOnly *)
Definition match_only (c : case) : bool :=
  negb (plan_uses_score (resolve_plan (cs_plan c))) && negb (has_custom (cs_query c))
  && negb (cs_force_score c).

Definition env_of (c : case) (seg : N) : senv :=
  {| e_k1 := cs_k1 c; e_b := cs_b c;
     e_seg := nth (N.to_nat seg) (cs_segs c) {| sg_docs := 0; sg_keys := [] |} |}.

(** the property's score of a matching document *)
Definition spec_score (c : case) (d : mdoc) : Q :=
  node_score (env_of c (m_seg d)) (m_sdoc d) 1%Q (cs_query c).

(** M: the score the code reports: match-only executions report 0.0 *)
Definition model_score (c : case) (d : mdoc) : Q :=
  if match_only c then 0%Q else spec_score c d.

Fixpoint find_doc (id : N) (l : list mdoc) : option mdoc :=
  match l with [] => None | x :: t => if m_id x =? id then Some x else find_doc id t end.

Definition to_cand (d : mdoc) (bits : N) : cand :=
  {| c_id := m_id d; c_seg := m_seg d; c_doc := m_doc d; c_vals := m_vals d; c_score := bits |}.

(** the observed hits as candidates (None when a hit is not a known matching document) *)
Fixpoint hit_cands (docs : list mdoc) (hs : list (N * N)) : option (list cand) :=
  match hs with
  | [] => Some []
  | (id, bits) :: t =>
      match find_doc id docs, hit_cands docs t with
      | Some d, Some r => Some (to_cand d bits :: r)
      | _, _ => None
      end
  end.

(** tolerant "comes before" for a document that was not returned (its f32 score is not
    observed): decided from the exact model scores; undecided (false) when a score field is
    reached and the two scores are within tolerance *)
Fixpoint before_tol (p : plan) (a b : list sval) (qa qb : Q) (sa da sb db : N) : bool :=
  match p, a, b with
  | f :: p', x :: a', y :: b' =>
      match pf_kind f with
      | FScore =>
          if close qa qb || close qb qa then false
          else match pf_order f with
               | Asc => qlt qa qb
               | Desc => qlt qb qa
               end
      | _ =>
          match sval_cmp_spec (pf_order f) x y with
          | Lt => true
          | Gt => false
          | Eq => before_tol p' a' b' qa qb sa da sb db
          end
      end
  | _, _, _ => (sa <? sb) || ((sa =? sb) && (da <? db))
  end.

Definition unreturned_ok (c : case) (p : plan) (hs : list cand) : bool :=
  match rev hs with
  | [] => true
  | last :: _ =>
      match find_doc (c_id last) (cs_docs c) with
      | None => false
      | Some dl =>
          let ql := model_score c dl in
          forallb (fun d =>
            existsb (fun h => c_id h =? m_id d) hs ||
            negb (before_tol p (cand_vals p (to_cand d 0)) (cand_vals p last)
                    (model_score c d) ql (m_seg d) (m_doc d) (c_seg last) (c_doc last)))
            (cs_docs c)
      end
  end.

Definition nodup_ids (hs : list (N * N)) : bool :=
  let ids := map fst hs in
  forallb (fun i => Nat.eqb (length (filter (N.eqb i) ids)) 1) ids.

Definition idf_ok (c : case) : bool :=
  forallb (fun s => forallb (fun k => idf_plausible (sg_docs s) (ks_df k) (ks_idf k)) (sg_keys s))
    (cs_segs c).

(** scores of the hits against a score function *)
Definition scores_ok (c : case) (sc : case -> mdoc -> Q) : bool :=
  forallb (fun h => match find_doc (fst h) (cs_docs c) with
                    | Some d => close_bits (snd h) (sc c d)
                    | None => false
                    end) (cs_hits c).

(** the order part: hits sorted by the property's order under their own f32 scores, distinct,
    among the matching documents, as many as the limit allows, nothing left out that comes
    (beyond tolerance) before the last hit *)
Definition order_ok (c : case) : bool :=
  let p := resolve_plan (cs_plan c) in
  match hit_cands (cs_docs c) (cs_hits c) with
  | None => false
  | Some hs =>
      nodup_ids (cs_hits c) &&
      chain (cand_before p) hs &&
      Nat.eqb (length hs) (Nat.min (cs_limit c) (length (cs_docs c))) &&
      unreturned_ok c p hs
  end.

(** M on a plan without _score is a function of the inputs: the exact list of ids *)
Definition model_ids (c : case) : list N :=
  let p := resolve_plan (cs_plan c) in
  map c_id (rank p (cs_limit c) (map (fun d => to_cand d 0) (cs_docs c))).

Definition corr_ok (c : case) : bool :=
  scores_ok c model_score &&
  (plan_uses_score (resolve_plan (cs_plan c)) ||
   (if list_eq_dec N.eq_dec (map fst (cs_hits c)) (model_ids c) then true else false)).

(** known class 1: a match-only execution (sort plan without _score, no custom scoring, no
    explain, no score-needing aggregation) reports hit.score = 0.0 instead of the BM25 score *)
Definition known_class (c : case) : N :=
  if match_only c && order_ok c && scores_ok c model_score then 1%N else 0%N.

Definition check_case (c : case) : N :=
  if negb (idf_ok c) then 3%N     (* the harness' idf oracle is implausible: the check is broken *)
  else verdict (corr_ok c) (order_ok c && scores_ok c spec_score) (known_class c).
