(** C20/Model.v — explain / profile and the result of a search.  Definitions only.

    The part of [IndexReader::search] / [search_segment] / [scan_segment] that looks at the two
    flags, over the candidates and keys of C10/Model.v:

      * score mode: [use_score_hook = needs_score_hook || explain]; the executor runs in
        [ScoreMode::Score] when the sort plan uses _score, or the hook is on, or an aggregation
        needs scores — otherwise match-only, and every candidate carries score 0.0;
      * gathering: on the score fast path every segment contributes its top_k; on the sort path
        without explain one heap of capacity top_k is fed with every candidate; on the sort path
        with explain every segment ranks with [rank_limit = live_docs], i.e. contributes all its
        candidates, the union is sorted and (since the repair recorded in notes/C20.md) cut to
        top_k;
      * everything after [hits.sort_by(key)] — rescoring, collapsing, the next cursor, the cut to
        the limit, materialising — is one function [post] of the sorted candidates that does not
        look at the flags, except that with explain the explanations are completed
        ([finish_explanations]); totals and aggregations are functions of the accepted candidates
        in segment order (the collector is fed before any ranking);
      * profile only switches statistics counters and timers on. *)

From Coq Require Import List NArith ZArith QArith Bool.
From SL Require Import Base.Tie Base.OrdSort C10.Model.
Import ListNotations.
Open Scope N_scope.

Record flags := { f_explain : bool; f_profile : bool }.

Record req := {
  r_plan : plan;            (* resolved *)
  r_limit : nat;
  r_topk : nat;             (* max(candidate_size, limit) + 1 *)
  r_custom : bool;          (* has_custom_scoring(score tree) *)
  r_aggs_score : bool       (* aggs_use_score(aggs) *)
}.

(** SortPlan::is_score_only && primary order Desc *)
Definition fast_path (p : plan) : bool :=
  match p with
  | [f] => match pf_kind f, pf_order f with FScore, Desc => true | _, _ => false end
  | _ => false
  end.

(** search_segment: score_mode = Score iff ... *)
Definition scoring_on (r : req) (fl : flags) : bool :=
  plan_uses_score (r_plan r) || (r_custom r || f_explain fl) || r_aggs_score r.

(** the score a candidate carries into build_key / the hit: its real score in Score mode,
    0.0 in match-only mode *)
Definition seen (r : req) (fl : flags) (c : cand) : cand :=
  if scoring_on r fl then c
  else {| c_id := c_id c; c_seg := c_seg c; c_doc := c_doc c; c_vals := c_vals c; c_score := 0 |}.

Definition seen_segs (r : req) (fl : flags) (segs : list (list cand)) : list (list cand) :=
  map (map (seen r fl)) segs.

(** the hits vector before [hits.sort_by] *)
Definition gathered (r : req) (fl : flags) (segs : list (list cand)) : list cand :=
  let p := r_plan r in
  let s := seen_segs r fl segs in
  if fast_path p then concat (map (topk (cand_cmp p) (r_topk r)) s)
  else if f_explain fl then concat s
  else fold_left (push (cand_cmp p) (r_topk r)) (concat s) [].

(** after [hits.sort_by(key)] and, on the explain sort path, [hits.truncate(top_k)] *)
Definition ranked (r : req) (fl : flags) (segs : list (list cand)) : list cand :=
  let p := r_plan r in
  let h := sort (cand_cmp p) (gathered r fl segs) in
  if negb (fast_path p) && f_explain fl then firstn (r_topk r) h else h.

(** the same without the repair: the explain sort path handed every match to rescore / collapse *)
Definition ranked_unrepaired (r : req) (fl : flags) (segs : list (list cand)) : list cand :=
  sort (cand_cmp (r_plan r)) (gathered r fl segs).

(** what a response consists of, as far as the property is concerned *)
Record response (H G : Type) := {
  rs_hits : H;          (* hits, order, scores, next cursor, groups: [post] of the ranked list *)
  rs_total : nat;       (* total_hits_estimate minus the cursor's returned count *)
  rs_aggs : G           (* aggregations: a function of the accepted candidates in feed order *)
}.
Arguments rs_hits {H G}. Arguments rs_total {H G}. Arguments rs_aggs {H G}.

Definition search {H G : Type} (post : list cand -> H) (aggs : list cand -> G)
  (r : req) (fl : flags) (segs : list (list cand)) : response H G :=
  {| rs_hits := post (ranked r fl segs);
     rs_total := length (concat segs);
     rs_aggs := aggs (concat (seen_segs r fl segs)) |}.

(* ------------------------------------------------------------------ explanations *)

Record expl := { e_base : N; e_nfuncs : nat; e_rescore : option (N * N); e_final : N }.
Record hit := { h_id : N; h_score : N; h_expl : option expl }.

(** the loop at the end of [search] under [req.explain] *)
Definition finish_explanations (hs : list hit) : list hit :=
  map (fun h =>
         {| h_id := h_id h; h_score := h_score h;
            h_expl := match h_expl h with
                      | Some e => Some {| e_base := e_base e; e_nfuncs := e_nfuncs e;
                                          e_rescore := e_rescore e; e_final := h_score h |}
                      | None => Some {| e_base := h_score h; e_nfuncs := 0; e_rescore := None;
                                        e_final := h_score h |}
                      end |}) hs.

Definition explanations_final (hs : list hit) : bool :=
  forallb (fun h => match h_expl h with Some e => e_final e =? h_score h | None => false end) hs.

(* ------------------------------------------------------------------ the tie *)

(** one observed response: hits (external id, score bits), total, interned next cursor, interned
    aggregations JSON, total_groups, for each hit the explanation's final_score bits, and the
    interned inner-hit ids *)
Record obs := {
  o_hits : list (N * N);
  o_total : N;
  o_cursor : option N;
  o_aggs : N;
  o_groups : option N;
  o_finals : list (option N);
  o_inner : N                           (* interned ids of the collapse inner hits (ranked by score by default) *)
}.

Record case := {
  c_req : req;
  c_plain : bool;                       (* no rescore / collapse / cursor: M predicts the ids *)
  c_segs : list (list cand);            (* matching candidates per segment, real scores *)
  c_obs : list (flags * obs)            (* (off,off) first *)
}.

Definition ids_eqb (a b : list N) : bool := if list_eq_dec N.eq_dec a b then true else false.
Definition hits_eqb (a b : list (N * N)) : bool :=
  ids_eqb (map fst a) (map fst b) && ids_eqb (map snd a) (map snd b).
Definition optN_eqb (a b : option N) : bool :=
  match a, b with Some x, Some y => x =? y | None, None => true | _, _ => false end.

(** S, part 1: two responses agree on everything but the scores *)
Definition same_but_scores (a b : obs) : bool :=
  ids_eqb (map fst (o_hits a)) (map fst (o_hits b)) &&
  (o_total a =? o_total b) && optN_eqb (o_cursor a) (o_cursor b) &&
  (o_aggs a =? o_aggs b) && optN_eqb (o_groups a) (o_groups b).

(** S, part 2: and on the scores, and on what is selected by score below the hits (inner hits) *)
Definition same_scores (a b : obs) : bool :=
  ids_eqb (map snd (o_hits a)) (map snd (o_hits b)) && (o_inner a =? o_inner b).

(** S, part 3: with explain every hit has an explanation whose final score is the hit's score *)
Definition finals_ok (fl : flags) (o : obs) : bool :=
  if f_explain fl then
    Nat.eqb (length (o_finals o)) (length (o_hits o)) &&
    forallb (fun hf => match snd hf with Some f => f =? snd (fst hf) | None => false end)
            (combine (o_hits o) (o_finals o))
  else true.

Definition spec_but_scores (c : case) : bool :=
  match c_obs c with
  | [] => false
  | (_, o0) :: rest => forallb (fun fo => same_but_scores o0 (snd fo)) rest
  end && forallb (fun fo => finals_ok (fst fo) (snd fo)) (c_obs c).

Definition spec_scores (c : case) : bool :=
  match c_obs c with
  | [] => false
  | (_, o0) :: rest => forallb (fun fo => same_scores o0 (snd fo)) rest
  end.

(** M: the ids and score bits the model predicts for a plain request *)
Definition model_hits (c : case) (fl : flags) : list (N * N) :=
  map (fun x => (c_id x, c_score x)) (firstn (r_limit (c_req c)) (ranked (c_req c) fl (c_segs c))).

Definition corr_ok (c : case) : bool :=
  negb (c_plain c) ||
  forallb (fun fo => hits_eqb (o_hits (snd fo)) (model_hits c (fst fo))) (c_obs c).

(** known class 1: the request is match-only without explain (no _score in the sort plan, no
    custom scoring, no score-needing aggregation): explain turns scoring on and hit.score
    changes from 0.0 to the real score *)
Definition class1 (r : req) : bool :=
  negb (plan_uses_score (r_plan r)) && negb (r_custom r) && negb (r_aggs_score r).

Definition check_case (c : case) : N :=
  verdict (corr_ok c) (spec_but_scores c && spec_scores c)
          (if class1 (c_req c) && spec_but_scores c then 1 else 0).

(** known class 2 (tie layer only): the request asked for a pruning execution strategy (wand / bmw).
    Without explain the executor may prune, so [total_hits_estimate] is a lower bound; explain
    attaches the score hook, which (since the repair of C09's second defect) disables pruning and
    makes the total exact. Hits, order, scores, cursors and aggregations are unaffected. *)
Definition strip_total (o : obs) : obs :=
  {| o_hits := o_hits o; o_total := 0; o_cursor := o_cursor o; o_aggs := o_aggs o;
     o_groups := o_groups o; o_finals := o_finals o; o_inner := o_inner o |}.

Definition strip_totals (c : case) : case :=
  {| c_req := c_req c; c_plain := c_plain c; c_segs := c_segs c;
     c_obs := map (fun fo => (fst fo, strip_total (snd fo))) (c_obs c) |}.

Definition check_case2 (pc : bool * case) : N :=
  let (prunes, c) := pc in
  let v := check_case c in
  if (v =? 2) && prunes then
    let w := check_case (strip_totals c) in
    if w =? 2 then 2 else if w <? 100 then 102 else w
  else v.
