(** C20/Proofs.v — the three gathering shapes of [search] (per-segment top_k, one bounded heap,
    rank-everything-then-cut) yield one sorted candidate list; the flags reach it only through
    the score mode. *)

From Coq Require Import List NArith ZArith Lia Bool Permutation Arith.
From SL Require Import Base.OrdSort C10.Model C10.Proofs C20.Model.
Import ListNotations.
Open Scope N_scope.

Definition pos (c : cand) : N * N := (c_seg c, c_doc c).

Lemma seen_pos : forall r fl c, pos (seen r fl c) = pos c.
Proof. intros. unfold seen. destruct (scoring_on r fl); reflexivity. Qed.

Lemma concat_seen : forall r fl segs,
  concat (seen_segs r fl segs) = map (seen r fl) (concat segs).
Proof. intros. unfold seen_segs. now rewrite concat_map. Qed.

Lemma seen_NoDup : forall r fl segs,
  NoDup (map pos (concat segs)) -> NoDup (map pos (concat (seen_segs r fl segs))).
Proof.
  intros r fl segs H. rewrite concat_seen, map_map.
  erewrite map_ext; [exact H|]. intros. apply seen_pos.
Qed.

Section Sorted.
  Variable p : plan.
  Variable cs : list cand.
  Hypothesis distinct : NoDup (map pos cs).

  Let EQ := cand_cmp_eq p cs distinct.
  Let AN := cand_cmp_anti p cs.
  Let TR := cand_cmp_trans p cs.

  Lemma topk_sorted_id : forall m, sort (cand_cmp p) (topk (cand_cmp p) m cs) = topk (cand_cmp p) m cs.
  Proof.
    intros m. apply sort_id. unfold topk. apply sorted_firstn.
    apply (sort_sorted _ _ (dom cs) EQ AN TR). apply all_dom.
  Qed.

  (** the bounded heap, sorted, is the first [m] of the sorted candidates *)
  Lemma heap_sorted : forall m,
    sort (cand_cmp p) (fold_left (push (cand_cmp p) m) cs []) = firstn m (sort (cand_cmp p) cs).
  Proof.
    intros m. rewrite (push_fold_topk _ _ (dom cs) EQ AN TR m cs (all_dom cs)).
    apply topk_sorted_id.
  Qed.
End Sorted.

(** on the sort path both shapes give the first top_k of the sorted candidates; on the fast path
    the flags are not consulted *)
Lemma ranked_shape : forall r fl segs,
  NoDup (map pos (concat segs)) ->
  ranked r fl segs =
    let s := seen_segs r fl segs in
    if fast_path (r_plan r)
    then sort (cand_cmp (r_plan r)) (concat (map (topk (cand_cmp (r_plan r)) (r_topk r)) s))
    else firstn (r_topk r) (sort (cand_cmp (r_plan r)) (concat s)).
Proof.
  intros r fl segs Hd. unfold ranked, gathered. cbn zeta.
  destruct (fast_path (r_plan r)); cbn [negb andb]; [reflexivity|].
  destruct (f_explain fl); [reflexivity|].
  apply heap_sorted. apply seen_NoDup. exact Hd.
Qed.

Lemma seen_same : forall r fl1 fl2, scoring_on r fl1 = scoring_on r fl2 ->
  forall segs, seen_segs r fl1 segs = seen_segs r fl2 segs.
Proof.
  intros r fl1 fl2 H segs. unfold seen_segs. apply map_ext. intros l. apply map_ext. intros c.
  unfold seen. now rewrite H.
Qed.

Lemma ranked_same : forall r fl1 fl2 segs,
  NoDup (map pos (concat segs)) -> scoring_on r fl1 = scoring_on r fl2 ->
  ranked r fl1 segs = ranked r fl2 segs.
Proof.
  intros r fl1 fl2 segs Hd Hs. rewrite !ranked_shape by exact Hd. cbn zeta.
  now rewrite (seen_same r fl1 fl2 Hs).
Qed.

Lemma search_same : forall (H G : Type) (post : list cand -> H) (aggs : list cand -> G) r fl1 fl2 segs,
  NoDup (map pos (concat segs)) -> scoring_on r fl1 = scoring_on r fl2 ->
  search post aggs r fl1 segs = search post aggs r fl2 segs.
Proof.
  intros H G post aggs r fl1 fl2 segs Hd Hs. unfold search.
  rewrite (ranked_same r fl1 fl2 segs Hd Hs). now rewrite (seen_same r fl1 fl2 Hs).
Qed.

Lemma scoring_outside_class1 : forall r fl, class1 r = false -> scoring_on r fl = true.
Proof.
  intros r fl H. unfold class1, scoring_on in *.
  destruct (plan_uses_score (r_plan r)), (r_custom r), (r_aggs_score r), (f_explain fl); cbn in *; congruence.
Qed.

(* ------------------------------------------------------------------ inside class 1: only scores *)

Definition strip (c : cand) : N * N * N * list rvals := (c_id c, c_seg c, c_doc c, c_vals c).

Lemma build_parts_noscore : forall p vals s1 s2,
  plan_uses_score p = false -> build_parts p vals s1 = build_parts p vals s2.
Proof.
  induction p as [|f p IH]; intros vals s1 s2 H; cbn; [reflexivity|].
  cbn in H. apply orb_false_iff in H. destruct H as [Hf Hp].
  rewrite (IH (tl vals) s1 s2 Hp). f_equal. f_equal.
  unfold field_value. destruct (pf_kind f); [discriminate| | |]; reflexivity.
Qed.

Lemma cand_cmp_seen : forall r fl a b, plan_uses_score (r_plan r) = false ->
  cand_cmp (r_plan r) (seen r fl a) (seen r fl b) = cand_cmp (r_plan r) a b.
Proof.
  intros r fl a b H. unfold seen. destruct (scoring_on r fl); [reflexivity|].
  unfold cand_cmp, cand_key, build_key. cbn.
  now rewrite (build_parts_noscore _ (c_vals a) 0 (c_score a) H),
              (build_parts_noscore _ (c_vals b) 0 (c_score b) H).
Qed.

Lemma insert_map : forall (c : cand -> cand -> comparison) (f : cand -> cand),
  (forall a b, c (f a) (f b) = c a b) ->
  forall x s, insert c (f x) (map f s) = map f (insert c x s).
Proof.
  intros c f Hf x s. induction s as [|y s IH]; cbn; [reflexivity|].
  unfold leb. rewrite Hf. destruct (c x y); cbn; try reflexivity. now rewrite IH.
Qed.

Lemma sort_map : forall (c : cand -> cand -> comparison) (f : cand -> cand),
  (forall a b, c (f a) (f b) = c a b) ->
  forall l, sort c (map f l) = map f (sort c l).
Proof.
  intros c f Hf l. induction l as [|x l IH]; cbn; [reflexivity|].
  fold (sort c (map f l)). fold (sort c l). rewrite IH. now apply insert_map.
Qed.

Lemma strip_seen : forall r fl c, strip (seen r fl c) = strip c.
Proof. intros. unfold seen. destruct (scoring_on r fl); reflexivity. Qed.

(** the sorted candidate list of any flag setting is the unflagged real-score one, up to the
    scores, when the plan does not sort by score *)
Lemma ranked_strip : forall r fl segs,
  NoDup (map pos (concat segs)) -> plan_uses_score (r_plan r) = false ->
  map strip (ranked r fl segs) =
  map strip (firstn (r_topk r) (sort (cand_cmp (r_plan r)) (concat segs))).
Proof.
  intros r fl segs Hd Hp. rewrite ranked_shape by exact Hd. cbn zeta.
  assert (Hf : fast_path (r_plan r) = false).
  { unfold fast_path. destruct (r_plan r) as [|f [|g t]]; try reflexivity.
    cbn in Hp. destruct (pf_kind f); try reflexivity. discriminate. }
  rewrite Hf, concat_seen.
  rewrite (sort_map (cand_cmp (r_plan r)) (seen r fl)) by (intros; now apply cand_cmp_seen).
  rewrite firstn_map, map_map. apply map_ext. intros. apply strip_seen.
Qed.

(* ------------------------------------------------------------------ explanations *)

Lemma finish_final : forall hs, explanations_final (finish_explanations hs) = true.
Proof.
  intros hs. unfold explanations_final, finish_explanations. apply forallb_forall.
  intros h Hh. apply in_map_iff in Hh. destruct Hh as [h0 [<- _]]. cbn.
  destruct (h_expl h0); cbn; apply N.eqb_refl.
Qed.

Lemma finish_keeps : forall hs,
  map (fun h => (h_id h, h_score h)) (finish_explanations hs) = map (fun h => (h_id h, h_score h)) hs.
Proof. intros. unfold finish_explanations. rewrite map_map. apply map_ext. reflexivity. Qed.
