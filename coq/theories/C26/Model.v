(** C26 — model of [searchlite_search]'s argument guards and output-buffer write
    (searchlite-ffi/src/lib.rs).  Definitions only; proofs are in Proofs.v. *)

From Coq Require Import List NArith Bool.
From SL Require Import Base.Tie.
Import ListNotations.
Open Scope N_scope.

(** One call, as the harness sets it up.  The harness allocates [cap + slack] bytes, fills them
    with [canary], and passes the first [cap] of them as the caller's buffer. *)
Record ffi_in := {
  json        : list N;   (* the full JSON response (obtained through a large-buffer call)  *)
  cap         : N;        (* buf_cap                                                       *)
  slack       : N;        (* bytes allocated after the caller's buffer                     *)
  canary      : N;        (* fill byte, non-zero                                           *)
  null_handle : bool;
  null_query  : bool;
  null_out    : bool;
  core_err    : bool      (* reader open / aggregation JSON / search returned an error     *)
}.

Record ffi_obs := { ret : N; buf : list N }.

Definition nrepeat (x : N) (n : N) : list N := repeat x (N.to_nat n).
Definition nlen (l : list N) : N := N.of_nat (length l).

(** Transcription of the tail of [searchlite_search]:
      if handle.is_null() || query.is_null() { return 0 }
      ... reader / aggs / search errors => return 0
      if out_json_buf.is_null() || buf_cap == 0 { return 0 }
      let len = bytes.len().min(buf_cap.saturating_sub(1));
      copy_nonoverlapping(bytes, out, len); *out.add(len) = 0; len            *)
Definition ffi_search (i : ffi_in) : ffi_obs :=
  let total := cap i + slack i in
  if null_handle i || null_query i || core_err i then
    {| ret := 0; buf := nrepeat (canary i) total |}
  else if null_out i || (cap i =? 0) then
    {| ret := 0; buf := nrepeat (canary i) total |}
  else
    let len := N.min (nlen (json i)) (cap i - 1) in
    {| ret := len;
       buf := firstn (N.to_nat len) (json i) ++ [0] ++ nrepeat (canary i) (total - len - 1) |}.

(** Executable specification: the property statement, read off the observation alone. *)
Definition list_eqb (a b : list N) : bool :=
  (Nat.eqb (length a) (length b)) && forallb (fun p => N.eqb (fst p) (snd p)) (combine a b).

Definition all_eq (x : N) (l : list N) : bool := forallb (N.eqb x) l.

Fixpoint index_of_zero (l : list N) (i : N) : option N :=
  match l with
  | [] => None
  | b :: l' => if b =? 0 then Some i else index_of_zero l' (N.succ i)
  end.

Definition no_write (i : ffi_in) (o : ffi_obs) : bool :=
  (ret o =? 0) && all_eq (canary i) (buf o).

Definition spec (i : ffi_in) (o : ffi_obs) : bool :=
  (* the allocation is reported whole, and nothing past the caller's buffer was touched *)
  (nlen (buf o) =? cap i + slack i)
  && all_eq (canary i) (skipn (N.to_nat (cap i)) (buf o))
  && (if null_handle i || null_query i || null_out i || (cap i =? 0) then no_write i o
      else if core_err i then (ret o =? 0)
      else
        (* ret bytes, then the NUL, all inside the buffer *)
        (ret o <? cap i)
        && match index_of_zero (buf o) 0 with Some z => z =? ret o | None => false end
        && list_eqb (firstn (N.to_nat (ret o)) (buf o)) (firstn (N.to_nat (ret o)) (json i))
        && (ret o <=? nlen (json i))).

Definition obs_eqb (a b : ffi_obs) : bool := (ret a =? ret b) && list_eqb (buf a) (buf b).

(** Well-formed harness input: JSON text has no NUL byte, the canary is not NUL. *)
Definition wf (i : ffi_in) : bool :=
  negb (canary i =? 0) && forallb (fun b => negb (b =? 0)) (json i).

Definition check_case (c : ffi_in * ffi_obs) : N :=
  let (i, o) := c in
  if wf i then verdict (obs_eqb (ffi_search i) o) (spec i o) 0 else 2.
