From Coq Require Import List NArith Bool Lia Arith.
From SL Require Import Base.Tie C26.Model.
Import ListNotations.
Open Scope N_scope.

Lemma all_eq_repeat x n : all_eq x (repeat x n) = true.
Proof. unfold all_eq. induction n as [|n IH]; cbn; [reflexivity|]. now rewrite N.eqb_refl, IH. Qed.

Lemma all_eq_nrepeat x n : all_eq x (nrepeat x n) = true.
Proof. apply all_eq_repeat. Qed.

Lemma nlen_nrepeat x n : nlen (nrepeat x n) = n.
Proof. unfold nlen, nrepeat. rewrite repeat_length. apply N2Nat.id. Qed.

Lemma all_eq_skipn x n l : all_eq x l = true -> all_eq x (skipn n l) = true.
Proof.
  unfold all_eq. revert n; induction l as [|a l IH]; intros [|n] H; cbn in *; try reflexivity; try exact H.
  apply andb_true_iff in H as [_ H]. now apply IH.
Qed.

Lemma list_eqb_refl l : list_eqb l l = true.
Proof.
  unfold list_eqb. rewrite Nat.eqb_refl. cbn.
  induction l as [|a l IH]; cbn; [reflexivity|]. now rewrite N.eqb_refl.
Qed.

Lemma list_eqb_eq a b : list_eqb a b = true -> a = b.
Proof.
  unfold list_eqb. revert b; induction a as [|x a IH]; intros [|y b] H; cbn in *;
    try reflexivity; try discriminate.
  apply andb_true_iff in H as [Hl H]. apply andb_true_iff in H as [Hx H].
  apply N.eqb_eq in Hx. subst y. f_equal. apply IH. now rewrite Hl, H.
Qed.

Lemma index_of_zero_app_nz pre rest i :
  forallb (fun b => negb (b =? 0)) pre = true ->
  index_of_zero (pre ++ 0 :: rest) i = Some (i + nlen pre).
Proof.
  revert i; induction pre as [|a pre IH]; intros i H; cbn in *.
  - f_equal. unfold nlen; cbn. lia.
  - apply andb_true_iff in H as [Ha H]. apply negb_true_iff in Ha. rewrite Ha.
    rewrite IH by exact H. f_equal. unfold nlen; cbn [length]. lia.
Qed.

Lemma forallb_firstn {A} (p : A -> bool) n l : forallb p l = true -> forallb p (firstn n l) = true.
Proof.
  revert n; induction l as [|a l IH]; intros [|n] H; cbn in *; try reflexivity.
  apply andb_true_iff in H as [Ha H]. now rewrite Ha, IH.
Qed.

Lemma firstn_app_exact {A} (l r : list A) : firstn (length l) (l ++ r) = l.
Proof. rewrite firstn_app, Nat.sub_diag, firstn_all. cbn. apply app_nil_r. Qed.

Lemma In_firstn {A} (x : A) n l : In x (firstn n l) -> In x l.
Proof.
  revert n; induction l as [|a l IH]; intros [|n] H; cbn in *; try contradiction.
  destruct H as [H|H]; [now left | right; eauto].
Qed.

Lemma skipn_pre {A} (pre : list A) x rest n :
  (length pre < n)%nat -> skipn n (pre ++ x :: rest) = skipn (n - length pre - 1) rest.
Proof.
  intros H. rewrite skipn_app. rewrite skipn_all2 by lia. cbn [app].
  destruct (n - length pre)%nat as [|m] eqn:E; [lia|]. cbn [skipn].
  f_equal. lia.
Qed.

(** The main lemma: the model meets the executable specification on every well-formed input. *)
Lemma model_meets_spec i : wf i = true -> spec i (ffi_search i) = true.
Proof.
  intros Hwf. unfold wf in Hwf. apply andb_true_iff in Hwf as [Hc Hj].
  unfold spec, ffi_search.
  destruct (null_handle i) eqn:Hh; cbn [orb].
  { cbn [ret buf]. rewrite nlen_nrepeat, N.eqb_refl. cbn [andb].
    rewrite all_eq_skipn by apply all_eq_nrepeat. unfold no_write; cbn [ret buf].
    now rewrite all_eq_nrepeat. }
  destruct (null_query i) eqn:Hq; cbn [orb].
  { cbn [ret buf]. rewrite nlen_nrepeat, N.eqb_refl. cbn [andb].
    rewrite all_eq_skipn by apply all_eq_nrepeat. unfold no_write; cbn [ret buf].
    now rewrite all_eq_nrepeat. }
  destruct (core_err i) eqn:He; cbn [orb].
  { cbn [ret buf]. rewrite nlen_nrepeat, N.eqb_refl. cbn [andb].
    rewrite all_eq_skipn by apply all_eq_nrepeat. unfold no_write; cbn [ret buf].
    rewrite all_eq_nrepeat.
    destruct (null_out i || (cap i =? 0)); reflexivity. }
  destruct (null_out i) eqn:Ho; cbn [orb].
  { cbn [ret buf]. rewrite nlen_nrepeat, N.eqb_refl. cbn [andb].
    rewrite all_eq_skipn by apply all_eq_nrepeat. unfold no_write; cbn [ret buf].
    now rewrite all_eq_nrepeat. }
  destruct (cap i =? 0) eqn:Hz.
  { cbn [ret buf]. rewrite nlen_nrepeat, N.eqb_refl. cbn [andb].
    rewrite all_eq_skipn by apply all_eq_nrepeat. unfold no_write; cbn [ret buf].
    now rewrite all_eq_nrepeat. }
  apply N.eqb_neq in Hz.
  cbn [ret buf].
  set (len := N.min (nlen (json i)) (cap i - 1)).
  assert (Hlen1 : len <= nlen (json i)) by (unfold len; lia).
  assert (Hlen2 : len < cap i) by (unfold len; lia).
  assert (Hfl : length (firstn (N.to_nat len) (json i)) = N.to_nat len).
  { rewrite firstn_length. unfold nlen in Hlen1. lia. }
  (* length *)
  assert (E1 : nlen (firstn (N.to_nat len) (json i) ++ [0] ++
                      nrepeat (canary i) (cap i + slack i - len - 1)) = cap i + slack i).
  { unfold nlen. rewrite !app_length, Hfl. cbn [length]. unfold nrepeat. rewrite repeat_length. lia. }
  rewrite E1, N.eqb_refl. cbn [andb].
  (* tail untouched *)
  assert (E2 : all_eq (canary i)
     (skipn (N.to_nat (cap i)) (firstn (N.to_nat len) (json i) ++ [0] ++
                      nrepeat (canary i) (cap i + slack i - len - 1))) = true).
  { cbn [app]. rewrite skipn_pre by (rewrite Hfl; lia).
    apply all_eq_skipn, all_eq_nrepeat. }
  rewrite E2. cbn [andb].
  apply N.ltb_lt in Hlen2. rewrite Hlen2. cbn [andb].
  cbn [app]. rewrite index_of_zero_app_nz by (apply forallb_firstn; exact Hj).
  unfold nlen at 1. rewrite Hfl, N2Nat.id. cbn. rewrite N.eqb_refl. cbn [andb].
  replace (firstn (N.to_nat len) (firstn (N.to_nat len) (json i) ++ 0 :: _))
    with (firstn (N.to_nat len) (json i)).
  2:{ rewrite <- Hfl at 2. now rewrite firstn_app_exact. }
  rewrite list_eqb_refl. cbn [andb]. now apply N.leb_le.
Qed.

(** Prop-level reading of the property, for the non-error, non-null case. *)
Lemma within_buffer i :
  wf i = true ->
  null_handle i = false -> null_query i = false -> null_out i = false -> core_err i = false ->
  cap i <> 0 ->
  let o := ffi_search i in
  ret o < cap i                                                   (* at most cap bytes incl. NUL *)
  /\ nth (N.to_nat (ret o)) (buf o) 1 = 0                         (* NUL terminated            *)
  /\ firstn (N.to_nat (ret o)) (buf o) = firstn (N.to_nat (ret o)) (json i)  (* prefix of the JSON *)
  /\ (forall k, (k < N.to_nat (ret o))%nat -> nth k (buf o) 0 <> 0) (* ret = bytes before the NUL *)
  /\ skipn (N.to_nat (cap i)) (buf o) = nrepeat (canary i) (slack i). (* nothing written outside *)
Proof.
  intros Hwf Hh Hq Ho He Hz. unfold wf in Hwf. apply andb_true_iff in Hwf as [Hc Hj].
  unfold ffi_search. rewrite Hh, Hq, Ho, He. cbn [orb].
  apply N.eqb_neq in Hz. rewrite Hz. apply N.eqb_neq in Hz. cbn [ret buf].
  set (len := N.min (nlen (json i)) (cap i - 1)).
  assert (Hlen1 : len <= nlen (json i)) by (unfold len; lia).
  assert (Hlen2 : len < cap i) by (unfold len; lia).
  assert (Hfl : length (firstn (N.to_nat len) (json i)) = N.to_nat len).
  { rewrite firstn_length. unfold nlen in Hlen1. lia. }
  split; [exact Hlen2|]. split.
  { rewrite app_nth2 by (rewrite Hfl; lia). rewrite Hfl, Nat.sub_diag. reflexivity. }
  split.
  { rewrite <- Hfl at 1. now rewrite firstn_app_exact. }
  split.
  { intros k Hk. rewrite app_nth1 by (rewrite Hfl; exact Hk).
    rewrite forallb_forall in Hj.
    assert (Hin : In (nth k (firstn (N.to_nat len) (json i)) 0) (json i)).
    { eapply In_firstn. apply nth_In. rewrite Hfl. exact Hk. }
    specialize (Hj _ Hin). apply negb_true_iff, N.eqb_neq in Hj. exact Hj. }
  cbn [app]. rewrite skipn_pre by (rewrite Hfl; lia). rewrite Hfl.
  unfold nrepeat.
  replace (N.to_nat (cap i + slack i - len - 1))
    with ((N.to_nat (cap i) - N.to_nat len - 1) + N.to_nat (slack i))%nat by lia.
  rewrite repeat_app, skipn_app, repeat_length.
  rewrite skipn_all2 by (rewrite repeat_length; lia). cbn [app].
  replace (N.to_nat (cap i) - N.to_nat len - 1 - (N.to_nat (cap i) - N.to_nat len - 1))%nat with 0%nat by lia.
  reflexivity.
Qed.

Lemma null_args_no_write i :
  (null_handle i = true \/ null_query i = true \/ null_out i = true \/ cap i = 0) ->
  ffi_search i = {| ret := 0; buf := nrepeat (canary i) (cap i + slack i) |}.
Proof.
  intros H. unfold ffi_search.
  destruct (null_handle i); cbn [orb]; [reflexivity|].
  destruct (null_query i); cbn [orb]; [reflexivity|].
  destruct (core_err i); cbn [orb]; [reflexivity|].
  destruct (null_out i); cbn [orb]; [reflexivity|].
  destruct H as [H|[H|[H|H]]]; try discriminate.
  rewrite H. reflexivity.
Qed.
