(** C07 — Query matching follows the documented query semantics.
    Definitions only; proofs are in Proofs.v.

    Vocabulary.  Strings never enter Coq: the harness interns every (field, token) pair to a
    term key [tkey : N] (the code's "field:term" string), every external document id and every
    (keyword field, value) pair to an [N].  A document is given by what the REAL index analyzers
    produced for each value of each text field (token key + value-relative position), plus its
    keyword terms and fast keyword values.

    [M]  = plan (query/planner.rs build_query_plan, reduced to the matcher and the scored keys)
           + per-segment postings (index/segment.rs write path, position offsets per value)
           + evaluator over postings (api/reader.rs QueryEvaluator::matches_node,
             build_phrase_runtimes, merge_postings_lists, query/phrase.rs matches_phrase)
           + candidate generation (api/reader.rs search_segment / scan_segment: which ordinals
             reach [accept]) after the `fix:` commit (residual scan).
    [S]  = [sem]: the documented boolean semantics evaluated directly over the analyzed field
           contents of one document (no postings, no ordinals, no segments). *)

From Coq Require Import List NArith Bool Arith.
From SL Require Import Base.Tie.
Import ListNotations.
Open Scope N_scope.

Definition tkey := N.
Definition tok := (tkey * N)%type.          (* term key, position *)

(** ** Documents and the analyzed token stream *)

Record doc := {
  d_id   : N;                               (* external id (interned)                         *)
  d_live : bool;                            (* not tombstoned in its segment                  *)
  d_text : list (list (list tok));          (* text field -> value -> (key, value-relative position) *)
  d_kw   : list tkey;                       (* keyword terms, lower-cased, de-duplicated       *)
  d_fast : list N                           (* fast keyword values (field,value), lower-cased  *)
}.

(** index/segment.rs: [position_offset + tok.position]; after each value
    [position_offset += max_pos + 1], or [+= 1] when the value produced no token. *)
Definition max_pos (v : list tok) : option N :=
  match v with
  | [] => None
  | t :: v' => Some (fold_left (fun m t' => N.max m (snd t')) v' (snd t))
  end.

Fixpoint flatten_values (off : N) (vals : list (list tok)) : list tok :=
  match vals with
  | [] => []
  | v :: vals' =>
      map (fun t => (fst t, off + snd t)) v
      ++ flatten_values (match max_pos v with Some m => off + m + 1 | None => off + 1 end) vals'
  end.

Definition doc_tokens (d : doc) : list tok :=
  flat_map (flatten_values 0) (d_text d) ++ map (fun k => (k, 0)) (d_kw d).

Definition memN (x : N) (l : list N) : bool := existsb (N.eqb x) l.
Definition isnil {A} (l : list A) : bool := match l with [] => true | _ => false end.
Definition countb {A} (f : A -> bool) (l : list A) : N := N.of_nat (length (filter f l)).

(** ** Filters (shared by M and S: filter evaluation is not the subject of C07) *)
Inductive filt :=
| FKw (vals : list N)                       (* KeywordEq / KeywordIn: some value of the doc is listed *)
| FAnd (fs : list filt)
| FOr (fs : list filt)
| FNot (f : filt).

Fixpoint filt_eval (fast : list N) (f : filt) : bool :=
  match f with
  | FKw vals => existsb (fun v => memN v fast) vals
  | FAnd fs => forallb (filt_eval fast) fs
  | FOr fs => existsb (filt_eval fast) fs
  | FNot f' => negb (filt_eval fast f')
  end.

(** ** Queries.
    Leaves carry what the oracles (search analyzer, dictionary expansion predicates) returned:
    - [QTerm exact fuzzy]: term / prefix / wildcard / regex.  [exact] = keys of the analyzed
      value (or, for prefix/wildcard/regex, the dictionary keys satisfying the pattern);
      [fuzzy] = [exact] plus the dictionary keys within the request's fuzzy options (equal to
      [exact] when the request has no fuzzy options or the node is an expansion node).
    - a phrase is a list of variants (one per searched field), a variant a list of positions,
      a position a list of alternative keys.
    - [QString]: query_string and multi_match after [parse_query]: optional terms (each with
      its exact/fuzzy key sets over all its fields), required phrases, negated terms, and the
      resolved minimum number of terms. *)
Definition variant := list (list tkey).

Inductive query :=
| QAll                                                   (* match_all, rank_feature *)
| QTerm (exact fuzzy : list tkey)
| QPhrase (vs : list variant) (slop : N)
| QString (ts : list (list tkey * list tkey)) (ps : list (list variant))
          (ns : list (list tkey)) (msm : option N)
| QDisMax (qs : list query)
| QBool (must should mustnot : list query) (fl : list filt) (msm : option N)
| QConst (f : filt)                                      (* constant_score *)
| QWrap (q : query).                                     (* function_score, script_score *)

(** minimum_should_match of multi_match (planner.rs resolve_minimum_should_match): [None] when
    the text has no term; operator and => all terms, or => 1; an explicit count is capped at
    the number of terms; a percentage is rounded up. *)
Inductive msm_spec := MsmDefault | MsmCount (n : N) | MsmPct (p : N).
Definition resolve_msm (spec : msm_spec) (nterms : N) (op_and : bool) : option N :=
  if nterms =? 0 then None
  else match spec with
       | MsmDefault => Some (if op_and then nterms else 1)
       | MsmCount n => Some (N.min n nterms)
       | MsmPct p => Some (N.min ((p * nterms + 99) / 100) nterms)
       end.

(** * S — the documented semantics over one document's analyzed contents *)

Definition has_key (k : tkey) (toks : list tok) : bool := existsb (fun t => fst t =? k) toks.
Definition has_any (ks : list tkey) (toks : list tok) : bool := existsb (fun k => has_key k toks) ks.
Definition positions_of (alts : list tkey) (toks : list tok) : list N :=
  map snd (filter (fun t => memN (fst t) alts) toks).

(** the remaining phrase positions can be placed after [prev] using at most [remaining] slop *)
Fixpoint s_chain (rest : variant) (prev remaining : N) (toks : list tok) : bool :=
  match rest with
  | [] => true
  | a :: rest' =>
      existsb (fun pos => (prev <? pos) && (pos - prev - 1 <=? remaining)
                          && s_chain rest' pos (remaining - (pos - prev - 1)) toks)
              (positions_of a toks)
  end.

Definition phrase_sem (slop : N) (toks : list tok) (v : variant) : bool :=
  match v with
  | [] => true
  | a :: rest => existsb (fun start => s_chain rest start slop toks) (positions_of a toks)
  end.

Definition bool_min_should {A B C} (must : list A) (should : list B) (fl : list C) (msm : option N) : N :=
  match msm with
  | Some n => n
  | None => if isnil should then 0 else if isnil must && isnil fl then 1 else 0
  end.

(** [fz]: fuzzy options apply to positive clauses only (never below must_not, never to -terms) *)
Fixpoint sem (fz : bool) (q : query) (toks : list tok) (fast : list N) : bool :=
  match q with
  | QAll => true
  | QTerm ex fzk => has_any (if fz then fzk else ex) toks
  | QPhrase vs slop => existsb (phrase_sem slop toks) vs
  | QString ts ps ns msm =>
      negb (isnil ts && isnil ps && isnil ns)
      && negb (existsb (fun ks => has_any ks toks) ns)
      && forallb (fun vs => existsb (phrase_sem 0 toks) vs) ps
      && (isnil ts
          || (match msm with Some n => n | None => 1 end
              <=? countb (fun p => has_any (if fz then snd p else fst p) toks) ts))
  | QDisMax qs => existsb (fun q' => sem fz q' toks fast) qs
  | QBool must should mustnot fl msm =>
      forallb (fun q' => sem fz q' toks fast) must
      && negb (existsb (fun q' => sem false q' toks fast) mustnot)
      && forallb (filt_eval fast) fl
      && (bool_min_should must should fl msm <=? countb (fun q' => sem fz q' toks fast) should)
  | QConst f => filt_eval fast f
  | QWrap q' => sem fz q' toks fast
  end.

(** * M — plan, postings, evaluator, candidate generation *)

Inductive matcher :=
| MAll
| MTerm (keys : list tkey) (scored : bool)
| MPhrase (vs : list variant) (slop : N)
| MQS (ts : list (list tkey)) (scored : bool) (ps : list (list variant)) (ns : list (list tkey))
      (msm : option N)
| MDisMax (ms : list matcher)
| MBool (must should mustnot : list matcher) (fl : list filt) (msm : option N).

(** build_query_plan: [score] is true at the root and false below must_not; a scored exact
    term group is fuzzy-expanded (expand_term_for_group), an unscored one is not. *)
Fixpoint plan (score : bool) (q : query) : matcher :=
  match q with
  | QAll => MAll
  | QTerm ex fzk => MTerm (if score then fzk else ex) score
  | QPhrase vs slop => MPhrase vs slop
  | QString ts ps ns msm => MQS (map (fun p => if score then snd p else fst p) ts) score ps ns msm
  | QDisMax qs => MDisMax (map (plan score) qs)
  | QBool must should mustnot fl msm =>
      MBool (map (plan score) must) (map (plan score) should) (map (plan false) mustnot) fl msm
  | QConst f => MBool [] [] [] [f] None
  | QWrap q' => plan score q'
  end.

(** the qualified (scored) terms of expand_term_groups *)
Fixpoint scored_keys (m : matcher) : list tkey :=
  match m with
  | MAll => []
  | MTerm keys scored => if scored then keys else []
  | MPhrase _ _ => []
  | MQS ts scored _ _ _ => if scored then concat ts else []
  | MDisMax ms => flat_map scored_keys ms
  | MBool must should mustnot _ _ =>
      flat_map scored_keys must ++ flat_map scored_keys should ++ flat_map scored_keys mustnot
  end.

(** Postings of one segment: (ordinal, positions) of the documents containing the key,
    in ordinal order (InvertedIndexBuilder::add_term). *)
Definition key_positions (k : tkey) (toks : list tok) : list N :=
  map snd (filter (fun t => fst t =? k) toks).

Fixpoint index_from (i : nat) (ds : list doc) (k : tkey) : list (nat * list N) :=
  match ds with
  | [] => []
  | d :: ds' =>
      match key_positions k (doc_tokens d) with
      | [] => index_from (S i) ds' k
      | ps => (i, ps) :: index_from (S i) ds' k
      end
  end.
Definition postings (ds : list doc) (k : tkey) : list (nat * list N) := index_from 0 ds k.

Definition in_list (ord : nat) (l : list (nat * list N)) : bool :=
  existsb (fun e => Nat.eqb (fst e) ord) l.

(** term_group_matches: some key's doc list contains the ordinal *)
Definition group_matches (ds : list doc) (keys : list tkey) (ord : nat) : bool :=
  existsb (fun k => in_list ord (postings ds k)) keys.

(** merge_postings_lists: positions of one document over several lists, sorted, de-duplicated *)
Fixpoint insert_u (x : N) (l : list N) : list N :=
  match l with
  | [] => [x]
  | y :: l' => if x <? y then x :: l else if x =? y then l else y :: insert_u x l'
  end.
Definition sort_dedup (l : list N) : list N := fold_right insert_u [] l.

Definition merged_lookup (lists : list (list (nat * list N))) (ord : nat) : option (list N) :=
  if existsb (in_list ord) lists then
    Some (sort_dedup (flat_map (fun l => flat_map (fun e => if Nat.eqb (fst e) ord then snd e else []) l) lists))
  else None.

(** build_phrase_runtimes: per position the postings of the alternatives present in the
    segment's dictionary; the variant is dropped when a position has none. *)
Fixpoint runtime (ds : list doc) (v : variant) : option (list (list (list (nat * list N)))) :=
  match v with
  | [] => Some []
  | alts :: v' =>
      let lists := filter (fun l => negb (isnil l)) (map (postings ds) alts) in
      if isnil lists then None
      else match runtime ds v' with Some r => Some (lists :: r) | None => None end
  end.

Fixpoint all_some {A} (l : list (option A)) : option (list A) :=
  match l with
  | [] => Some []
  | None :: _ => None
  | Some x :: l' => match all_some l' with Some r => Some (x :: r) | None => None end
  end.

(** phrase.rs [search]: positions of each term are sorted; a gap larger than the remaining slop
    ends the loop ([break]) *)
Fixpoint m_loop (k : N -> N -> bool) (prev remaining : N) (l : list N) : bool :=
  match l with
  | [] => false
  | pos :: l' =>
      if pos <=? prev then m_loop k prev remaining l'
      else
        let gap := pos - (prev + 1) in
        if remaining <? gap then false
        else if k pos (remaining - gap) then true else m_loop k prev remaining l'
  end.

Fixpoint m_search (rest : list (list N)) (prev remaining : N) : bool :=
  match rest with
  | [] => true
  | ps :: rest' => m_loop (m_search rest') prev remaining ps
  end.

Definition matches_phrase (per_pos : list (list (list (nat * list N)))) (ord : nat) (slop : N) : bool :=
  if isnil per_pos then true
  else match all_some (map (fun lists => merged_lookup lists ord) per_pos) with
       | None => false
       | Some pp =>
           if existsb isnil pp then false
           else if Nat.eqb (length pp) 1 then true
           else match pp with
                | [] => true
                | p0 :: rest => existsb (fun start => m_search rest start slop) p0
                end
       end.

Definition phrase_matches (ds : list doc) (vs : list variant) (slop : N) (ord : nat) : bool :=
  existsb (fun v => match runtime ds v with
                    | Some r => matches_phrase r ord slop
                    | None => false
                    end) vs.

(** QueryEvaluator::matches_node *)
Fixpoint eval (ds : list doc) (ord : nat) (fast : list N) (m : matcher) : bool :=
  match m with
  | MAll => true
  | MTerm keys _ => group_matches ds keys ord
  | MPhrase vs slop => phrase_matches ds vs slop ord
  | MQS ts _ ps ns msm =>
      if isnil ts && isnil ps && isnil ns then false
      else if existsb (fun ks => group_matches ds ks ord) ns then false
      else if negb (forallb (fun vs => phrase_matches ds vs 0 ord) ps) then false
      else if isnil ts then negb (isnil ps) || negb (isnil ns)
      else (match msm with Some n => n | None => 1 end
            <=? countb (fun ks => group_matches ds ks ord) ts)
  | MDisMax ms => existsb (eval ds ord fast) ms
  | MBool must should mustnot fl msm =>
      if negb (forallb (eval ds ord fast) must) then false
      else if existsb (eval ds ord fast) mustnot then false
      else if negb (forallb (filt_eval fast) fl) then false
      else bool_min_should must should fl msm <=? countb (eval ds ord fast) should
  end.

(** reader.rs requires_scored_term (added by the fix): every accepted document contains a
    scored term.  A group counts as scored when all its keys are qualified terms. *)
Definition group_scored (sk : list tkey) (keys : list tkey) : bool := forallb (fun k => memN k sk) keys.

Fixpoint requires_scored (sk : list tkey) (m : matcher) : bool :=
  match m with
  | MAll => false
  | MPhrase _ _ => false
  | MTerm keys _ => group_scored sk keys
  | MQS ts _ _ _ msm =>
      negb (isnil ts) && (1 <=? match msm with Some n => n | None => 1 end)
      && forallb (group_scored sk) ts
  | MDisMax ms => forallb (requires_scored sk) ms
  | MBool must should _ fl msm =>
      existsb (requires_scored sk) must
      || ((1 <=? bool_min_should must should fl msm) && forallb (requires_scored sk) should)
  end.

(** search_segment: which ordinals reach [accept].  No scored term: scan_segment visits every
    ordinal.  Otherwise the term-driven loops (brute_force / wand_loop / match_only_loop with a
    limit that is never reached) visit the union of the scored terms' postings, and the
    residual scan visits the rest when the matcher does not require a scored term. *)
Definition visited (ds : list doc) (m : matcher) (ord : nat) : bool :=
  let sk := scored_keys m in
  if isnil sk then true
  else existsb (fun k => in_list ord (postings ds k)) sk || negb (requires_scored sk m).

Fixpoint search_from (all : list doc) (m : matcher) (i : nat) (ds : list doc) : list N :=
  match ds with
  | [] => []
  | d :: ds' =>
      (if d_live d && visited all m i && eval all i (d_fast d) m then [d_id d] else [])
      ++ search_from all m (S i) ds'
  end.

Definition search_segment (m : matcher) (ds : list doc) : list N := search_from ds m 0%nat ds.

Definition search (corpus : list (list doc)) (q : query) : list N :=
  flat_map (search_segment (plan true q)) corpus.

(** * Specification of the observation *)
Definition satisfies (q : query) (d : doc) : bool := d_live d && sem true q (doc_tokens d) (d_fast d).

Definition spec_ids (corpus : list (list doc)) (q : query) : list N :=
  flat_map (fun ds => map d_id (filter (satisfies q) ds)) corpus.

Definition list_eqb (a b : list N) : bool :=
  (Nat.eqb (length a) (length b)) && forallb (fun p => N.eqb (fst p) (snd p)) (combine a b).

(** the observation: for each execution mode the sorted list of returned ids *)
Definition spec (corpus : list (list doc)) (q : query) (obs : list (list N)) : bool :=
  forallb (list_eqb (sort_dedup (spec_ids corpus q))) obs.

Definition corr (corpus : list (list doc)) (q : query) (obs : list (list N)) : bool :=
  forallb (list_eqb (sort_dedup (search corpus q))) obs.

(** live external ids are unique in a corpus (an upsert tombstones the older version) *)
Definition live_ids (corpus : list (list doc)) : list N :=
  flat_map (fun ds => map d_id (filter d_live ds)) corpus.
Definition wf (corpus : list (list doc)) : bool :=
  Nat.eqb (length (sort_dedup (live_ids corpus))) (length (live_ids corpus)).

Definition check_case (c : list (list doc) * query * list (list N)) : N :=
  let '(corpus, q, obs) := c in
  if wf corpus then verdict (corr corpus q obs) (spec corpus q obs) 0 else 2.

(** The candidate generation before the `fix:` commit (no residual scan), kept only to state
    what was wrong: see Props/C07.v [C07_unfixed_candidates_refuted]. *)
Definition visited_unfixed (ds : list doc) (m : matcher) (ord : nat) : bool :=
  let sk := scored_keys m in
  if isnil sk then true else existsb (fun k => in_list ord (postings ds k)) sk.

Fixpoint search_from_unfixed (all : list doc) (m : matcher) (i : nat) (ds : list doc) : list N :=
  match ds with
  | [] => []
  | d :: ds' =>
      (if d_live d && visited_unfixed all m i && eval all i (d_fast d) m then [d_id d] else [])
      ++ search_from_unfixed all m (S i) ds'
  end.

Definition search_unfixed (corpus : list (list doc)) (q : query) : list N :=
  flat_map (fun ds => search_from_unfixed ds (plan true q) 0%nat ds) corpus.
