(** C07 — proofs: evaluator over postings = documented semantics; search = exact result set. *)
From Coq Require Import List NArith Bool Arith Lia Sorted.
From SL Require Import C07.Model.
Import ListNotations.
Open Scope N_scope.

(** * Induction principle for the nested query type *)
Section QueryInd.
  Variable P : query -> Prop.
  Hypothesis HAll : P QAll.
  Hypothesis HTerm : forall e f, P (QTerm e f).
  Hypothesis HPhrase : forall vs s, P (QPhrase vs s).
  Hypothesis HString : forall ts ps ns m, P (QString ts ps ns m).
  Hypothesis HDis : forall qs, Forall P qs -> P (QDisMax qs).
  Hypothesis HBool : forall m s mn fl msm, Forall P m -> Forall P s -> Forall P mn -> P (QBool m s mn fl msm).
  Hypothesis HConst : forall f, P (QConst f).
  Hypothesis HWrap : forall q, P q -> P (QWrap q).

  Fixpoint query_ind' (q : query) : P q :=
    let fix go (l : list query) : Forall P l :=
      match l with
      | [] => Forall_nil P
      | x :: l' => Forall_cons x (query_ind' x) (go l')
      end in
    match q with
    | QAll => HAll
    | QTerm e f => HTerm e f
    | QPhrase vs s => HPhrase vs s
    | QString ts ps ns m => HString ts ps ns m
    | QDisMax qs => HDis qs (go qs)
    | QBool m s mn fl msm => HBool m s mn fl msm (go m) (go s) (go mn)
    | QConst f => HConst f
    | QWrap q' => HWrap q' (query_ind' q')
    end.
End QueryInd.

(** * Small list facts *)
Lemma existsb_filter_nil : forall {A} (f : A -> bool) l, existsb f l = negb (isnil (filter f l)).
Proof.
  induction l as [|x l IH]; cbn; [reflexivity|].
  destruct (f x); cbn; [reflexivity|exact IH].
Qed.

Lemma isnil_map : forall {A B} (f : A -> B) l, isnil (map f l) = isnil l.
Proof. destruct l; reflexivity. Qed.

Lemma existsb_ext_in : forall {A} (f g : A -> bool) l,
  (forall x, In x l -> f x = g x) -> existsb f l = existsb g l.
Proof.
  induction l as [|x l IH]; intros H; cbn; [reflexivity|].
  rewrite (H x (or_introl eq_refl)), IH; [reflexivity|].
  intros y Hy; apply H; right; exact Hy.
Qed.

Lemma forallb_ext_in : forall {A} (f g : A -> bool) l,
  (forall x, In x l -> f x = g x) -> forallb f l = forallb g l.
Proof.
  induction l as [|x l IH]; intros H; cbn; [reflexivity|].
  rewrite (H x (or_introl eq_refl)), IH; [reflexivity|].
  intros y Hy; apply H; right; exact Hy.
Qed.

Lemma filter_ext_in' : forall {A} (f g : A -> bool) l,
  (forall x, In x l -> f x = g x) -> filter f l = filter g l.
Proof.
  induction l as [|x l IH]; intros H; cbn; [reflexivity|].
  rewrite (H x (or_introl eq_refl)), IH; [reflexivity|].
  intros y Hy; apply H; right; exact Hy.
Qed.

Lemma existsb_map : forall {A B} (f : B -> bool) (g : A -> B) l, existsb f (map g l) = existsb (fun x => f (g x)) l.
Proof. induction l as [|x l IH]; cbn; [reflexivity|]. rewrite IH; reflexivity. Qed.

Lemma forallb_map : forall {A B} (f : B -> bool) (g : A -> B) l, forallb f (map g l) = forallb (fun x => f (g x)) l.
Proof. induction l as [|x l IH]; cbn; [reflexivity|]. rewrite IH; reflexivity. Qed.

Lemma countb_map : forall {A B} (f : B -> bool) (g : A -> B) l, countb f (map g l) = countb (fun x => f (g x)) l.
Proof.
  intros. unfold countb. f_equal.
  induction l as [|x l IH]; cbn; [reflexivity|]. destruct (f (g x)); cbn; rewrite IH; reflexivity.
Qed.

Lemma countb_ext_in : forall {A} (f g : A -> bool) l,
  (forall x, In x l -> f x = g x) -> countb f l = countb g l.
Proof. intros. unfold countb. rewrite (filter_ext_in' f g l H). reflexivity. Qed.

Lemma existsb_set_eq : forall {A} (f : A -> bool) l1 l2,
  (forall x, In x l1 <-> In x l2) -> existsb f l1 = existsb f l2.
Proof.
  intros A f l1 l2 H.
  destruct (existsb f l1) eqn:E1; destruct (existsb f l2) eqn:E2; try reflexivity.
  - apply existsb_exists in E1. destruct E1 as [x [Hx Hf]].
    assert (existsb f l2 = true) by (apply existsb_exists; exists x; split; [apply H; exact Hx|exact Hf]).
    congruence.
  - apply existsb_exists in E2. destruct E2 as [x [Hx Hf]].
    assert (existsb f l1 = true) by (apply existsb_exists; exists x; split; [apply H; exact Hx|exact Hf]).
    congruence.
Qed.

Lemma countb_pos_exists : forall {A} (f : A -> bool) l, 1 <= countb f l -> exists x, In x l /\ f x = true.
Proof.
  intros A f l H. unfold countb in H.
  destruct (filter f l) as [|x r] eqn:E; [cbn in H; lia|].
  assert (In x (filter f l)) by (rewrite E; left; reflexivity).
  apply filter_In in H0. exists x. exact H0.
Qed.

Lemma memN_In : forall x l, memN x l = true <-> In x l.
Proof.
  intros. unfold memN. rewrite existsb_exists. split.
  - intros [y [Hy He]]. apply N.eqb_eq in He. subst; exact Hy.
  - intros H. exists x. split; [exact H|apply N.eqb_refl].
Qed.

(** * Postings lookup = token membership *)
Lemma has_key_positions : forall k toks, has_key k toks = negb (isnil (key_positions k toks)).
Proof.
  intros. unfold has_key, key_positions. rewrite isnil_map. apply existsb_filter_nil.
Qed.

Lemma in_list_cons : forall o e l, in_list o (e :: l) = Nat.eqb (fst e) o || in_list o l.
Proof. reflexivity. Qed.

Lemma index_from_ge : forall ds i k o, in_list o (index_from i ds k) = true -> (i <= o)%nat.
Proof.
  induction ds as [|d ds IH]; intros i k o H; cbn in H; [discriminate|].
  destruct (key_positions k (doc_tokens d)).
  - apply IH in H. lia.
  - cbn in H. apply orb_true_iff in H. destruct H as [H|H].
    + apply Nat.eqb_eq in H. lia.
    + apply IH in H. lia.
Qed.

Lemma in_list_index_from : forall ds i k j d,
  nth_error ds j = Some d ->
  in_list (i + j) (index_from i ds k) = negb (isnil (key_positions k (doc_tokens d))).
Proof.
  induction ds as [|d0 ds IH]; intros i k j d H; [destruct j; discriminate|].
  destruct j as [|j]; cbn [nth_error] in H.
  - injection H as ->. cbn [index_from]. rewrite Nat.add_0_r.
    destruct (key_positions k (doc_tokens d)) eqn:E.
    + cbn [isnil negb]. destruct (in_list i (index_from (S i) ds k)) eqn:F; [|reflexivity].
      apply index_from_ge in F. lia.
    + rewrite in_list_cons. cbn [fst]. rewrite Nat.eqb_refl. reflexivity.
  - cbn [index_from]. replace (i + S j)%nat with (S i + j)%nat by lia.
    destruct (key_positions k (doc_tokens d0)); [apply IH; exact H|].
    rewrite in_list_cons. cbn [fst].
    replace (Nat.eqb i (S i + j)) with false by (symmetry; apply Nat.eqb_neq; lia).
    cbn [orb]. apply IH; exact H.
Qed.

Lemma entry_positions_index_from : forall ds i k j d,
  nth_error ds j = Some d ->
  flat_map (fun e : nat * list N => if Nat.eqb (fst e) (i + j) then snd e else []) (index_from i ds k)
  = key_positions k (doc_tokens d).
Proof.
  induction ds as [|d0 ds IH]; intros i k j d H; [destruct j; discriminate|].
  assert (Hnone : forall i' o, (o < i')%nat ->
            flat_map (fun e : nat * list N => if Nat.eqb (fst e) o then snd e else []) (index_from i' ds k) = []).
  { clear. induction ds as [|d1 ds IH]; intros i' o Ho; cbn; [reflexivity|].
    destruct (key_positions k (doc_tokens d1)); [apply IH; lia|].
    cbn [flat_map fst snd]. replace (Nat.eqb i' o) with false by (symmetry; apply Nat.eqb_neq; lia).
    cbn [app]. apply IH; lia. }
  destruct j as [|j]; cbn [nth_error] in H.
  - injection H as ->. cbn [index_from]. rewrite Nat.add_0_r.
    destruct (key_positions k (doc_tokens d)) eqn:E.
    + apply Hnone; lia.
    + cbn [flat_map fst snd]. rewrite Nat.eqb_refl. rewrite Hnone by lia. rewrite app_nil_r. reflexivity.
  - cbn [index_from]. replace (i + S j)%nat with (S i + j)%nat by lia.
    destruct (key_positions k (doc_tokens d0)); [apply IH; exact H|].
    cbn [flat_map fst snd].
    replace (Nat.eqb i (S i + j)) with false by (symmetry; apply Nat.eqb_neq; lia).
    cbn [app]. apply IH; exact H.
Qed.

Section Segment.
  Variable ds : list doc.
  Variable ord : nat.
  Variable d : doc.
  Hypothesis Hnth : nth_error ds ord = Some d.
  Let toks := doc_tokens d.

  Lemma in_postings : forall k, in_list ord (postings ds k) = has_key k toks.
  Proof.
    intros. unfold postings. rewrite has_key_positions.
    apply (in_list_index_from ds 0 k ord d Hnth).
  Qed.

  Lemma entry_positions : forall k,
    flat_map (fun e : nat * list N => if Nat.eqb (fst e) ord then snd e else []) (postings ds k)
    = key_positions k toks.
  Proof. intros. apply (entry_positions_index_from ds 0 k ord d Hnth). Qed.

  Lemma group_matches_sem : forall keys, group_matches ds keys ord = has_any keys toks.
  Proof.
    intros. unfold group_matches, has_any. apply existsb_ext_in. intros k _. apply in_postings.
  Qed.

  Lemma postings_nil_no_key : forall k, postings ds k = [] -> has_key k toks = false.
  Proof. intros k H. rewrite <- in_postings, H. reflexivity. Qed.
End Segment.
