(** C07 — main theorems: evaluator = semantics, candidate completeness, exact result set. *)
From Coq Require Import List NArith Bool Arith Lia Sorted.
From SL Require Import C07.Model C07.Proofs C07.Phrase.
Import ListNotations.
Open Scope N_scope.

Lemma bool_min_should_map : forall {A B C A' B'} (f : A -> A') (g : B -> B') (m : list A) (s : list B) (fl : list C) msm,
  bool_min_should (map f m) (map g s) fl msm = bool_min_should m s fl msm.
Proof. intros. unfold bool_min_should. rewrite !isnil_map. reflexivity. Qed.

Lemma Forall_in : forall {A} (P : A -> Prop) l, Forall P l -> forall x, In x l -> P x.
Proof. intros A P l H. apply Forall_forall. exact H. Qed.

Section SegmentEval.
  Variable ds : list doc.
  Variable ord : nat.
  Variable d : doc.
  Hypothesis Hnth : nth_error ds ord = Some d.
  Let toks := doc_tokens d.
  Let fast := d_fast d.

  (** matches_node over the plan = the documented semantics, for either value of the score flag *)
  Lemma eval_plan_sem : forall q score, eval ds ord fast (plan score q) = sem score q toks fast.
  Proof.
    induction q using query_ind'; intros score; cbn [plan eval sem].
    - reflexivity.
    - apply (group_matches_sem ds ord d Hnth).
    - apply (phrase_matches_sem ds ord d Hnth).
    - (* QString *)
      rewrite !isnil_map.
      rewrite (existsb_ext_in (fun ks => group_matches ds ks ord) (fun ks => has_any ks toks) ns)
        by (intros; apply (group_matches_sem ds ord d Hnth)).
      rewrite (forallb_ext_in (fun vs => phrase_matches ds vs 0 ord) (fun vs => existsb (phrase_sem 0 toks) vs) ps)
        by (intros; apply (phrase_matches_sem ds ord d Hnth)).
      rewrite countb_map.
      rewrite (countb_ext_in (fun x => group_matches ds (if score then snd x else fst x) ord)
                 (fun p => has_any (if score then snd p else fst p) toks) ts)
        by (intros; apply (group_matches_sem ds ord d Hnth)).
      destruct (isnil ts) eqn:Ets; destruct (isnil ps) eqn:Eps; destruct (isnil ns) eqn:Ens;
        cbn [andb negb orb];
        destruct (existsb (fun ks => has_any ks toks) ns); cbn [andb negb orb]; try reflexivity;
        destruct (forallb (fun vs => existsb (phrase_sem 0 toks) vs) ps); cbn [andb negb orb]; reflexivity.
    - (* QDisMax *)
      rewrite existsb_map. apply existsb_ext_in. intros q Hq. apply (Forall_in _ _ H q Hq).
    - (* QBool *)
      rewrite !forallb_map, !existsb_map, countb_map, bool_min_should_map.
      rewrite (forallb_ext_in (fun x => eval ds ord fast (plan score x)) (fun q' => sem score q' toks fast) m)
        by (intros q Hq; apply (Forall_in _ _ H q Hq)).
      rewrite (existsb_ext_in (fun x => eval ds ord fast (plan false x)) (fun q' => sem false q' toks fast) mn)
        by (intros q Hq; apply (Forall_in _ _ H1 q Hq)).
      rewrite (countb_ext_in (fun x => eval ds ord fast (plan score x)) (fun q' => sem score q' toks fast) s)
        by (intros q Hq; apply (Forall_in _ _ H0 q Hq)).
      destruct (forallb (fun q' => sem score q' toks fast) m); cbn [negb andb]; [|reflexivity].
      destruct (existsb (fun q' => sem false q' toks fast) mn); cbn [negb andb]; [reflexivity|].
      destruct (forallb (filt_eval fast) fl); cbn [negb andb]; reflexivity.
    - (* QConst *)
      cbn [forallb existsb negb countb filter length isnil andb bool_min_should].
      rewrite andb_true_r. destruct (filt_eval fast f); reflexivity.
    - (* QWrap *)
      apply IHq.
  Qed.

  (** requires_scored_term is sound: an accepted document contains a scored term *)
  Lemma group_scored_hit : forall sk keys,
    group_scored sk keys = true -> group_matches ds keys ord = true ->
    existsb (fun k => in_list ord (postings ds k)) sk = true.
  Proof.
    intros sk keys Hs Hm. unfold group_matches in Hm. apply existsb_exists in Hm.
    destruct Hm as [k [Hk Hin]]. unfold group_scored in Hs. rewrite forallb_forall in Hs.
    specialize (Hs k Hk). apply memN_In in Hs.
    apply existsb_exists. exists k. split; assumption.
  Qed.

  Lemma requires_scored_sound : forall sk q score,
    requires_scored sk (plan score q) = true ->
    eval ds ord fast (plan score q) = true ->
    existsb (fun k => in_list ord (postings ds k)) sk = true.
  Proof.
    intros sk. induction q using query_ind'; intros score Hr He; cbn [plan requires_scored eval] in Hr, He.
    - discriminate.
    - apply (group_scored_hit sk _ Hr He).
    - discriminate.
    - (* QString *)
      rewrite isnil_map in Hr, He.
      apply andb_true_iff in Hr. destruct Hr as [Hr Hall].
      apply andb_true_iff in Hr. destruct Hr as [Hnn Hmsm].
      destruct (isnil ts) eqn:Ets; [discriminate|]. cbn [andb] in He.
      destruct (existsb (fun ks => group_matches ds ks ord) ns); [discriminate|].
      destruct (negb (forallb (fun vs => phrase_matches ds vs 0 ord) ps)); [discriminate|].
      apply N.leb_le in Hmsm. apply N.leb_le in He.
      assert (Hc : 1 <= countb (fun ks => group_matches ds ks ord) (map (fun p => if score then snd p else fst p) ts)) by lia.
      apply countb_pos_exists in Hc. destruct Hc as [ks [Hks Hm]].
      rewrite forallb_forall in Hall. apply (group_scored_hit sk ks (Hall ks Hks) Hm).
    - (* QDisMax *)
      rewrite forallb_map in Hr. rewrite existsb_map in He.
      apply existsb_exists in He. destruct He as [q [Hq He]].
      rewrite forallb_forall in Hr.
      apply (Forall_in _ _ H q Hq score (Hr q Hq) He).
    - (* QBool *)
      rewrite bool_min_should_map in Hr, He.
      rewrite existsb_map, forallb_map in Hr. rewrite !forallb_map, existsb_map, countb_map in He.
      destruct (forallb (fun x => eval ds ord fast (plan score x)) m) eqn:Em; [|discriminate]. cbn [negb] in He.
      destruct (existsb (fun x => eval ds ord fast (plan false x)) mn); [discriminate|].
      destruct (negb (forallb (filt_eval fast) fl)); [discriminate|].
      apply orb_true_iff in Hr. destruct Hr as [Hr|Hr].
      + apply existsb_exists in Hr. destruct Hr as [q [Hq Hr]].
        rewrite forallb_forall in Em.
        apply (Forall_in _ _ H q Hq score Hr (Em q Hq)).
      + apply andb_true_iff in Hr. destruct Hr as [Hmin Hall].
        apply N.leb_le in Hmin. apply N.leb_le in He.
        assert (Hc : 1 <= countb (fun x => eval ds ord fast (plan score x)) s) by lia.
        apply countb_pos_exists in Hc. destruct Hc as [q [Hq Hev]].
        rewrite forallb_forall in Hall.
        apply (Forall_in _ _ H0 q Hq score (Hall q Hq) Hev).
    - (* QConst *)
      cbn in Hr. discriminate.
    - apply (IHq score Hr He).
  Qed.

  (** candidate generation never loses an accepted document *)
  Lemma visited_complete : forall q,
    eval ds ord fast (plan true q) = true -> visited ds (plan true q) ord = true.
  Proof.
    intros q He. unfold visited.
    destruct (isnil (scored_keys (plan true q))); [reflexivity|].
    destruct (requires_scored (scored_keys (plan true q)) (plan true q)) eqn:Er.
    - rewrite (requires_scored_sound _ q true Er He). reflexivity.
    - rewrite orb_true_r. reflexivity.
  Qed.

  Lemma accept_iff : forall q,
    d_live d && visited ds (plan true q) ord && eval ds ord fast (plan true q) = satisfies q d.
  Proof.
    intros q. unfold satisfies. fold toks. fold fast. rewrite <- eval_plan_sem.
    destruct (d_live d); cbn [andb]; [|reflexivity].
    destruct (eval ds ord fast (plan true q)) eqn:He.
    - rewrite (visited_complete q He). reflexivity.
    - apply andb_false_r.
  Qed.
End SegmentEval.

(** * The result list *)
Lemma search_from_exact : forall all q tl i,
  (forall j d, nth_error tl j = Some d -> nth_error all (i + j) = Some d) ->
  search_from all (plan true q) i tl = map d_id (filter (satisfies q) tl).
Proof.
  intros all q. induction tl as [|d tl IH]; intros i H; cbn [search_from filter map]; [reflexivity|].
  assert (Hd : nth_error all i = Some d).
  { specialize (H 0%nat d eq_refl). rewrite Nat.add_0_r in H. exact H. }
  rewrite (accept_iff all i d Hd q).
  rewrite (IH (S i)).
  - destruct (satisfies q d); reflexivity.
  - intros j d' Hj. replace (S i + j)%nat with (i + S j)%nat by lia. apply H. exact Hj.
Qed.

Theorem search_segment_exact : forall q ds,
  search_segment (plan true q) ds = map d_id (filter (satisfies q) ds).
Proof.
  intros. unfold search_segment. apply search_from_exact. intros j d H. exact H.
Qed.

Theorem search_exact : forall corpus q, search corpus q = spec_ids corpus q.
Proof.
  intros. unfold search, spec_ids.
  induction corpus as [|ds corpus IH]; cbn [flat_map]; [reflexivity|].
  rewrite search_segment_exact, IH. reflexivity.
Qed.

Theorem matcher_sound_complete : forall ds ord d q,
  nth_error ds ord = Some d ->
  eval ds ord (d_fast d) (plan true q) = sem true q (doc_tokens d) (d_fast d).
Proof. intros. apply (eval_plan_sem ds ord d H q true). Qed.

Theorem results_exact_prop : forall corpus q id,
  In id (search corpus q) <->
  exists ds d, In ds corpus /\ In d ds /\ d_live d = true
               /\ sem true q (doc_tokens d) (d_fast d) = true /\ d_id d = id.
Proof.
  intros. rewrite search_exact. unfold spec_ids. rewrite in_flat_map. split.
  - intros [ds [Hds Hin]]. apply in_map_iff in Hin. destruct Hin as [d [Hid Hd]].
    apply filter_In in Hd. destruct Hd as [Hd Hs]. unfold satisfies in Hs.
    apply andb_true_iff in Hs. destruct Hs as [Hl Hs].
    exists ds, d. repeat split; assumption.
  - intros [ds [d [Hds [Hd [Hl [Hs Hid]]]]]]. exists ds. split; [exact Hds|].
    apply in_map_iff. exists d. split; [exact Hid|]. apply filter_In. split; [exact Hd|].
    unfold satisfies. rewrite Hl, Hs. reflexivity.
Qed.

Theorem model_meets_spec : forall corpus q,
  spec corpus q [sort_dedup (search corpus q)] = true.
Proof.
  intros. unfold spec. cbn [forallb]. rewrite search_exact, andb_true_r.
  unfold list_eqb. rewrite Nat.eqb_refl. cbn [andb].
  induction (sort_dedup (spec_ids corpus q)) as [|x l IH]; cbn; [reflexivity|].
  rewrite N.eqb_refl. exact IH.
Qed.

(** * Should clauses are optional beside must / filter *)
Theorem should_optional : forall fz must should mustnot fl toks fast,
  (must <> [] \/ fl <> []) ->
  sem fz (QBool must should mustnot fl None) toks fast = sem fz (QBool must [] mustnot fl None) toks fast.
Proof.
  intros fz must should mustnot fl toks fast H. cbn [sem].
  assert (E : isnil must && isnil fl = false).
  { destruct H as [H|H]; [destruct must|destruct fl]; try congruence; cbn; try reflexivity. apply andb_false_r. }
  assert (T : forall l : list query,
            (bool_min_should must l fl None <=? countb (fun q' => sem fz q' toks fast) l) = true).
  { intros l. unfold bool_min_should. rewrite E. destruct (isnil l); apply N.leb_le; lia. }
  rewrite !T. reflexivity.
Qed.

(** * An indexed word finds its document *)
Section IndexedWord.
  Variable word : Type.
  Variable index_keys : word -> list tkey.    (* keys the index analyzer produces for the word *)
  Variable search_keys : word -> list tkey.   (* keys the search analyzer produces for the word *)
  Hypothesis compat : forall w, exists k, In k (index_keys w) /\ In k (search_keys w).

  Theorem indexed_word_finds_doc : forall corpus ds d w fuzzy,
    In ds corpus -> In d ds -> d_live d = true ->
    (forall k, In k (index_keys w) -> has_key k (doc_tokens d) = true) ->
    incl (search_keys w) fuzzy ->
    In (d_id d) (search corpus (QTerm (search_keys w) fuzzy)).
  Proof.
    intros corpus ds d w fuzzy Hds Hd Hl Hidx Hincl.
    apply results_exact_prop. exists ds, d. repeat split; try assumption.
    cbn [sem]. destruct (compat w) as [k [Hk1 Hk2]].
    unfold has_any. apply existsb_exists. exists k. split; [apply Hincl; exact Hk2|apply Hidx; exact Hk1].
  Qed.
End IndexedWord.
