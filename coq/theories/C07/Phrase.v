(** C07 — phrase matching: merged sorted positions + slop search with break = [phrase_sem]. *)
From Coq Require Import List NArith Bool Arith Lia Sorted.
From SL Require Import C07.Model C07.Proofs.
Import ListNotations.
Open Scope N_scope.

(** * sort_dedup *)
Lemma insert_u_In : forall x y l, In y (insert_u x l) <-> y = x \/ In y l.
Proof.
  induction l as [|z l IH]; cbn.
  - intuition.
  - destruct (x <? z) eqn:E1; [cbn; intuition|].
    destruct (x =? z) eqn:E2.
    + apply N.eqb_eq in E2. subst. cbn. intuition.
    + cbn. rewrite IH. intuition.
Qed.

Lemma sort_dedup_In : forall l y, In y (sort_dedup l) <-> In y l.
Proof.
  induction l as [|x l IH]; intros y; cbn; [reflexivity|].
  unfold sort_dedup in *. rewrite insert_u_In, IH. intuition.
Qed.

Lemma insert_u_sorted : forall x l, StronglySorted N.lt l -> StronglySorted N.lt (insert_u x l).
Proof.
  induction l as [|z l IH]; intros H; cbn.
  - constructor; constructor.
  - inversion H as [|? ? Hs Hf]; subst.
    destruct (x <? z) eqn:E1.
    + apply N.ltb_lt in E1. constructor; [exact H|].
      constructor; [exact E1|].
      rewrite Forall_forall in *. intros w Hw. specialize (Hf w Hw). lia.
    + destruct (x =? z) eqn:E2; [exact H|].
      apply N.ltb_ge in E1. apply N.eqb_neq in E2.
      constructor; [apply IH; exact Hs|].
      rewrite Forall_forall in *. intros w Hw. apply insert_u_In in Hw.
      destruct Hw as [->|Hw]; [lia|apply Hf; exact Hw].
Qed.

Lemma sort_dedup_sorted : forall l, StronglySorted N.lt (sort_dedup l).
Proof.
  induction l as [|x l IH]; cbn; [constructor|].
  apply insert_u_sorted. exact IH.
Qed.

(** * The loop with break equals the plain existential on a sorted list *)
Lemma m_loop_existsb : forall (k : N -> N -> bool) prev rem l,
  StronglySorted N.lt l ->
  m_loop k prev rem l
  = existsb (fun pos => (prev <? pos) && (pos - prev - 1 <=? rem) && k pos (rem - (pos - prev - 1))) l.
Proof.
  induction l as [|pos l IH]; intros Hs; cbn [m_loop existsb]; [reflexivity|].
  inversion Hs as [|? ? Hs' Hf]; subst.
  destruct (pos <=? prev) eqn:E1.
  - apply N.leb_le in E1.
    replace (prev <? pos) with false by (symmetry; apply N.ltb_ge; lia).
    cbn [andb orb]. apply IH; exact Hs'.
  - apply N.leb_gt in E1.
    replace (prev <? pos) with true by (symmetry; apply N.ltb_lt; lia).
    replace (pos - (prev + 1)) with (pos - prev - 1) by lia.
    cbn [andb].
    destruct (rem <? pos - prev - 1) eqn:E2.
    + apply N.ltb_lt in E2.
      replace (pos - prev - 1 <=? rem) with false by (symmetry; apply N.leb_gt; lia).
      cbn [andb orb]. symmetry.
      destruct (existsb _ l) eqn:E3; [|reflexivity].
      apply existsb_exists in E3. destruct E3 as [x [Hx Hc]].
      rewrite Forall_forall in Hf. specialize (Hf x Hx).
      apply andb_true_iff in Hc. destruct Hc as [Hc _].
      apply andb_true_iff in Hc. destruct Hc as [_ Hc].
      apply N.leb_le in Hc. lia.
    + apply N.ltb_ge in E2.
      replace (pos - prev - 1 <=? rem) with true by (symmetry; apply N.leb_le; lia).
      cbn [andb]. destruct (k pos (rem - (pos - prev - 1))); cbn [orb]; [reflexivity|].
      apply IH; exact Hs'.
Qed.

Definition pos_ok (toks : list tok) (ps : list N) (a : list tkey) : Prop :=
  StronglySorted N.lt ps /\ (forall x, In x ps <-> In x (positions_of a toks)).

Lemma m_search_chain : forall toks pp rest,
  Forall2 (pos_ok toks) pp rest ->
  forall prev rem, m_search pp prev rem = s_chain rest prev rem toks.
Proof.
  intros toks pp rest H. induction H as [|ps a pp' rest' [Hs He] _ IH]; intros prev rem; cbn [m_search s_chain]; [reflexivity|].
  rewrite m_loop_existsb by exact Hs.
  rewrite (existsb_set_eq _ ps (positions_of a toks) He).
  apply existsb_ext_in. intros pos _. rewrite IH. reflexivity.
Qed.

(** * A variant with a position that has no token in the document never matches *)
Lemma s_chain_dead : forall toks rest alts,
  In alts rest -> positions_of alts toks = [] ->
  forall prev rem, s_chain rest prev rem toks = false.
Proof.
  induction rest as [|a rest IH]; intros alts Hin Hnil prev rem; [destruct Hin|].
  cbn [s_chain]. destruct Hin as [->|Hin].
  - rewrite Hnil. reflexivity.
  - destruct (existsb _ (positions_of a toks)) eqn:E; [|reflexivity].
    apply existsb_exists in E. destruct E as [x [_ Hx]].
    rewrite (IH alts Hin Hnil) in Hx. rewrite andb_false_r in Hx. discriminate.
Qed.

Lemma phrase_sem_dead : forall toks slop v alts,
  In alts v -> positions_of alts toks = [] -> phrase_sem slop toks v = false.
Proof.
  intros toks slop v alts Hin Hnil. destruct v as [|a rest]; [destruct Hin|].
  cbn [phrase_sem]. destruct Hin as [->|Hin].
  - rewrite Hnil. reflexivity.
  - destruct (existsb _ (positions_of a toks)) eqn:E; [|reflexivity].
    apply existsb_exists in E. destruct E as [x [_ Hx]].
    rewrite (s_chain_dead toks rest alts Hin Hnil) in Hx. discriminate.
Qed.

Lemma positions_of_nil_iff : forall alts toks, positions_of alts toks = [] <-> has_any alts toks = false.
Proof.
  intros. unfold positions_of, has_any. split.
  - intros H. destruct (existsb _ alts) eqn:E; [|reflexivity].
    apply existsb_exists in E. destruct E as [k [Hk Hh]].
    unfold has_key in Hh. apply existsb_exists in Hh. destruct Hh as [t [Ht Hf]].
    apply N.eqb_eq in Hf.
    assert (In t (filter (fun t => memN (fst t) alts) toks)).
    { apply filter_In. split; [exact Ht|]. apply memN_In. rewrite Hf. exact Hk. }
    apply (in_map snd) in H0. rewrite H in H0. destruct H0.
  - intros H. match goal with |- map snd ?f = [] => destruct f as [|t r] eqn:E end; [reflexivity|].
    assert (Ht : In t (filter (fun t => memN (fst t) alts) toks)) by (rewrite E; left; reflexivity).
    apply filter_In in Ht. destruct Ht as [Ht Hm]. apply memN_In in Hm.
    assert (existsb (fun k => has_key k toks) alts = true).
    { apply existsb_exists. exists (fst t). split; [exact Hm|].
      unfold has_key. apply existsb_exists. exists t. split; [exact Ht|apply N.eqb_refl]. }
    congruence.
Qed.

Lemma positions_of_In : forall alts toks x,
  In x (positions_of alts toks) <-> exists k, In k alts /\ In x (key_positions k toks).
Proof.
  intros. unfold positions_of, key_positions. rewrite in_map_iff. split.
  - intros [t [Hs Ht]]. apply filter_In in Ht. destruct Ht as [Ht Hm]. apply memN_In in Hm.
    exists (fst t). split; [exact Hm|]. apply in_map_iff. exists t. split; [exact Hs|].
    apply filter_In. split; [exact Ht|apply N.eqb_refl].
  - intros [k [Hk Hx]]. apply in_map_iff in Hx. destruct Hx as [t [Hs Ht]].
    apply filter_In in Ht. destruct Ht as [Ht He]. apply N.eqb_eq in He.
    exists t. split; [exact Hs|]. apply filter_In. split; [exact Ht|]. apply memN_In. rewrite He. exact Hk.
Qed.

Section SegmentPhrase.
  Variable ds : list doc.
  Variable ord : nat.
  Variable d : doc.
  Hypothesis Hnth : nth_error ds ord = Some d.
  Let toks := doc_tokens d.

  Definition lists_of (alts : list tkey) : list (list (nat * list N)) :=
    filter (fun l => negb (isnil l)) (map (postings ds) alts).

  Lemma lists_in : forall alts, existsb (in_list ord) (lists_of alts) = has_any alts toks.
  Proof.
    intros. unfold lists_of, has_any, toks.
    induction alts as [|k alts IH]; cbn [map filter existsb]; [reflexivity|].
    rewrite <- (in_postings ds ord d Hnth k).
    destruct (postings ds k) eqn:E; cbn [isnil negb existsb]; [exact IH|].
    rewrite IH. reflexivity.
  Qed.

  Lemma lists_positions : forall alts x,
    In x (flat_map (fun l => flat_map (fun e : nat * list N => if Nat.eqb (fst e) ord then snd e else []) l) (lists_of alts))
    <-> In x (positions_of alts toks).
  Proof.
    intros. rewrite positions_of_In. unfold lists_of, toks. rewrite in_flat_map. split.
    - intros [l [Hl Hx]]. apply filter_In in Hl. destruct Hl as [Hl _].
      apply in_map_iff in Hl. destruct Hl as [k [<- Hk]].
      exists k. split; [exact Hk|]. rewrite <- (entry_positions ds ord d Hnth k). exact Hx.
    - intros [k [Hk Hx]]. rewrite <- (entry_positions ds ord d Hnth k) in Hx.
      exists (postings ds k). split; [|exact Hx].
      apply filter_In. split; [apply in_map; exact Hk|].
      destruct (postings ds k); [destruct Hx|reflexivity].
  Qed.

  Lemma merged_lookup_spec : forall alts,
    match merged_lookup (lists_of alts) ord with
    | None => has_any alts toks = false
    | Some ps => has_any alts toks = true /\ pos_ok toks ps alts
    end.
  Proof.
    intros. unfold merged_lookup. rewrite lists_in.
    destruct (has_any alts toks) eqn:E; [|reflexivity].
    split; [reflexivity|]. split; [apply sort_dedup_sorted|].
    intros x. rewrite sort_dedup_In. apply lists_positions.
  Qed.

  (** runtime = Some: per position the non-empty posting lists *)
  Lemma runtime_some : forall v r, runtime ds v = Some r -> r = map lists_of v.
  Proof.
    induction v as [|alts v IH]; intros r H; cbn [runtime] in H.
    - injection H as <-. reflexivity.
    - fold (lists_of alts) in H. destruct (isnil (lists_of alts)); [discriminate|].
      destruct (runtime ds v) as [r'|]; [|discriminate].
      injection H as <-. cbn [map]. rewrite (IH r' eq_refl). reflexivity.
  Qed.

  Lemma runtime_none : forall v, runtime ds v = None -> exists alts, In alts v /\ has_any alts toks = false.
  Proof.
    induction v as [|alts v IH]; intros H; cbn [runtime] in H; [discriminate|].
    fold (lists_of alts) in H. destruct (isnil (lists_of alts)) eqn:E.
    - exists alts. split; [left; reflexivity|].
      rewrite <- lists_in. destruct (lists_of alts); [reflexivity|discriminate].
    - destruct (runtime ds v) as [r'|] eqn:E'; [discriminate|].
      destruct (IH eq_refl) as [a [Ha Hf]]. exists a. split; [right; exact Ha|exact Hf].
  Qed.

  Lemma all_some_lookup : forall v,
    match all_some (map (fun lists => merged_lookup lists ord) (map lists_of v)) with
    | None => exists alts, In alts v /\ has_any alts toks = false
    | Some pp => Forall2 (pos_ok toks) pp v /\ Forall (fun alts => has_any alts toks = true) v
    end.
  Proof.
    induction v as [|alts v IH]; cbn [map all_some].
    - split; constructor.
    - pose proof (merged_lookup_spec alts) as Hm.
      destruct (merged_lookup (lists_of alts) ord) as [ps|].
      + destruct Hm as [Ht Hok].
        destruct (all_some _) as [pp|].
        * destruct IH as [IH1 IH2]. split; constructor; assumption.
        * destruct IH as [a [Ha Hf]]. exists a. split; [right; exact Ha|exact Hf].
      + exists alts. split; [left; reflexivity|exact Hm].
  Qed.

  Lemma pos_ok_nonempty : forall ps alts, pos_ok toks ps alts -> has_any alts toks = true -> isnil ps = false.
  Proof.
    intros ps alts [_ He] Ht. destruct ps; [|reflexivity].
    destruct (positions_of alts toks) as [|x r] eqn:E.
    - apply positions_of_nil_iff in E. congruence.
    - destruct (proj2 (He x)). left; reflexivity.
  Qed.

  Lemma variant_matches : forall v slop,
    match runtime ds v with Some r => matches_phrase r ord slop | None => false end
    = phrase_sem slop toks v.
  Proof.
    intros v slop. destruct (runtime ds v) as [r|] eqn:Er.
    - apply runtime_some in Er. subst r. unfold matches_phrase. rewrite isnil_map.
      destruct v as [|a rest]; [reflexivity|]. cbn [isnil].
      pose proof (all_some_lookup (a :: rest)) as Hl.
      destruct (all_some _) as [pp|].
      + destruct Hl as [Hf2 Hall].
        inversion Hf2 as [|p0 a' prest rest' Hok Hrest]; subst.
        inversion Hall as [|? ? Ha Hrest_all]; subst.
        assert (Hne : existsb isnil (p0 :: prest) = false).
        { clear - Hf2 Hall. revert Hall. induction Hf2 as [|p a1 pp' v' Hok1 _ IH]; intros Hall; [reflexivity|].
          inversion Hall; subst. cbn [existsb].
          rewrite (pos_ok_nonempty p a1 Hok1) by assumption. cbn [orb]. apply IH. assumption. }
        rewrite Hne. cbn [phrase_sem].
        destruct Hok as [Hs He].
        destruct (Nat.eqb (length (p0 :: prest)) 1) eqn:El.
        * apply Nat.eqb_eq in El. destruct prest; [|discriminate]. inversion Hrest; subst.
          symmetry. destruct (positions_of a toks) as [|x r] eqn:E.
          { apply positions_of_nil_iff in E. congruence. }
          reflexivity.
        * rewrite (existsb_set_eq _ p0 (positions_of a toks) He).
          apply existsb_ext_in. intros start _. apply m_search_chain. exact Hrest.
      + destruct Hl as [alts [Hin Hf]]. symmetry.
        apply (phrase_sem_dead toks slop (a :: rest) alts Hin). apply positions_of_nil_iff. exact Hf.
    - apply runtime_none in Er. destruct Er as [alts [Hin Hf]]. symmetry.
      apply (phrase_sem_dead toks slop v alts Hin). apply positions_of_nil_iff. exact Hf.
  Qed.

  Lemma phrase_matches_sem : forall vs slop,
    phrase_matches ds vs slop ord = existsb (phrase_sem slop toks) vs.
  Proof.
    intros. unfold phrase_matches. apply existsb_ext_in. intros v _. apply variant_matches.
  Qed.
End SegmentPhrase.
