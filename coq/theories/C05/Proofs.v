(** C05/Proofs.v — the reduction: a disciplined log executes like the serial execution of the
    calls in lock-acquisition order. *)
From Coq Require Import List NArith Bool Lia.
From SL Require Import Base.Tie Core.Model Core.AList C05.Model.
Import ListNotations.
Open Scope N_scope.

(** * Running the body of one call *)

Fixpoint iter (a : api) (k : nat) (s : istate) (x : locals) (st : nat)
  : option (istate * locals * nat) :=
  match k with
  | O => Some (s, x, st)
  | S k' =>
      match micro a st s x with
      | Some (_, s', x', st') => iter a k' s' x' st'
      | None => None
      end
  end.

Lemma iter_snoc : forall a k s x st,
  iter a (S k) s x st =
  match iter a k s x st with
  | Some (s', x', st') =>
      match micro a st' s' x' with
      | Some (_, s'', x'', st'') => Some (s'', x'', st'')
      | None => None
      end
  | None => None
  end.
Proof.
  intros a k. induction k as [|k IH]; intros s x st.
  - cbn. destruct (micro a st s x) as [[[[l s'] x'] st']|]; reflexivity.
  - change (iter a (S (S k)) s x st)
      with (match micro a st s x with
            | Some (_, s', x', st') => iter a (S k) s' x' st'
            | None => None end).
    change (iter a (S k) s x st)
      with (match micro a st s x with
            | Some (_, s', x', st') => iter a k s' x' st'
            | None => None end).
    destruct (micro a st s x) as [[[[l s'] x'] st']|]; [apply IH|reflexivity].
Qed.

Lemma istate_eta : forall s, {| man := man s; wal := wal s; ws := ws s; nsid := nsid s |} = s.
Proof. destruct s; reflexivity. Qed.

Lemma alookup_minit : forall scripts t,
  alookup t (map (fun p : N * list api => (fst p, {| tscript := snd p; tfly := None |})) scripts) =
  option_map (fun sc => {| tscript := sc; tfly := None |}) (alookup t scripts).
Proof.
  induction scripts as [|[u sc] scripts IH]; intros t; cbn; [reflexivity|].
  destruct (t =? u); [reflexivity|apply IH].
Qed.

Local Arguments commit_with : simpl never.
Local Arguments load_live : simpl never.
Local Arguments maxgen : simpl never.
Local Arguments contents : simpl never.
Local Arguments ainsert : simpl never.
Local Arguments alookup : simpl never.
Local Arguments N.succ : simpl never.
Local Arguments N.eqb : simpl never.

Ltac stop Hit Hm := cbn in Hit; inversion Hit; subst; cbn in Hm.

(** When the body of a call has run to its end inside one section, the shared state is the one
    [Core.Model.step] produces and the return value is [call_result]. *)
Lemma body_complete : forall a s k sh x st,
  lockable a = true ->
  iter a k s locals0 0 = Some (sh, x, st) ->
  micro a st sh x = None ->
  sh = step s a /\ lres x = call_result s a.
Proof.
  intros a s k sh x st Hl Hit Hm. destruct a; cbn in Hl; try discriminate.
  - (* NewWriter *)
    destruct k as [|[|k]]; cbn in Hit; inversion Hit; subst; cbn in Hm; try discriminate.
    split; reflexivity.
  - (* AddDoc *)
    destruct k as [|[|k]]; cbn in Hit; inversion Hit; subst; cbn in Hm; try discriminate.
    split; reflexivity.
  - (* DelDoc *)
    destruct k as [|[|k]]; cbn in Hit; inversion Hit; subst; cbn in Hm; try discriminate.
    split; reflexivity.
  - (* Commit *)
    cbn [step call_result].
    destruct (alookup h (ws s)) as [w|] eqn:Ew.
    2:{ destruct k as [|k]; cbn in Hit; [|rewrite Ew in Hit; discriminate].
        inversion Hit; subst. split; reflexivity. }
    destruct (wq w) as [|q0 qs] eqn:Eq.
    { destruct k as [|k]; cbn in Hit; [|rewrite Ew, Eq in Hit; discriminate].
      inversion Hit; subst. split; reflexivity. }
    unfold commit_core.
    destruct (commit_with (if maxgen (man s) =? wgen w then wlive w else load_live (man s))
                          (man s) (nsid s) (q0 :: qs)) as [[m' L'] wrote] eqn:Ec.
    (* stage 0: Synced *)
    destruct k as [|k]; [stop Hit Hm; rewrite Ew, Eq in Hm; discriminate|].
    cbn in Hit. rewrite Ew, Eq in Hit.
    (* stage 1: ManRead *)
    destruct k as [|k]; [stop Hit Hm; rewrite Ew in Hm; discriminate|].
    cbn in Hit. rewrite Ew in Hit.
    (* stage 2: Live *)
    destruct k as [|k]; [stop Hit Hm; rewrite Ew in Hm; cbn in Hm; rewrite Eq, Ec in Hm; discriminate|].
    cbn in Hit. rewrite Ew in Hit. cbn in Hit. rewrite Eq, Ec in Hit.
    (* stage 3: Segment or Stored *)
    destruct k as [|k]; [stop Hit Hm; rewrite Ew in Hm; cbn in Hm; destruct wrote; discriminate|].
    cbn in Hit. rewrite Ew in Hit. cbn in Hit.
    destruct wrote.
    + destruct k as [|k]; [stop Hit Hm; rewrite Ew in Hm; discriminate|].
      cbn in Hit. rewrite Ew in Hit.
      destruct k as [|k]; [stop Hit Hm; rewrite Ew in Hm; discriminate|].
      cbn in Hit. rewrite Ew in Hit.
      destruct k as [|k]; [stop Hit Hm; rewrite Ew in Hm; discriminate|].
      cbn in Hit. rewrite Ew in Hit.
      destruct k as [|k]; [stop Hit Hm; rewrite Ew in Hm; discriminate|].
      cbn in Hit. rewrite Ew in Hit.
      destruct k as [|k].
      * cbn in Hit. inversion Hit; subst. rewrite ?Eq. rewrite Ec. split; reflexivity.
      * cbn in Hit. rewrite alookup_ainsert, N.eqb_refl in Hit. discriminate.
    + destruct k as [|k]; [stop Hit Hm; rewrite Ew in Hm; discriminate|].
      cbn in Hit. rewrite Ew in Hit.
      destruct k as [|k]; [stop Hit Hm; rewrite Ew in Hm; discriminate|].
      cbn in Hit. rewrite Ew in Hit.
      destruct k as [|k]; [stop Hit Hm; rewrite Ew in Hm; discriminate|].
      cbn in Hit. rewrite Ew in Hit.
      destruct k as [|k].
      * cbn in Hit. inversion Hit; subst. rewrite ?Eq. rewrite Ec. split; reflexivity.
      * cbn in Hit. rewrite alookup_ainsert, N.eqb_refl in Hit. discriminate.
  - (* Rollback *)
    destruct k as [|[|k]]; cbn in Hit; inversion Hit; subst; cbn in Hm; try discriminate.
    split; reflexivity.
  - (* Compact *)
    cbn [step call_result].
    destruct k as [|k]; [cbn in Hit; inversion Hit; subst sh x st; cbn in Hm; discriminate|].
    cbn [iter micro] in Hit.
    destruct k as [|k].
    { cbn in Hit. inversion Hit; subst sh x st. cbn in Hm.
      destruct (man s) as [|s1 [|s2 r]]; try discriminate; split; reflexivity. }
    cbn [iter micro lsnap] in Hit.
    destruct (man s) as [|s1 [|s2 r]] eqn:Em; try discriminate.
    destruct k as [|k]; [cbn in Hit; inversion Hit; subst sh x st; cbn in Hm; discriminate|].
    cbn [iter micro] in Hit.
    destruct k as [|k]; [cbn in Hit; inversion Hit; subst sh x st; cbn in Hm; discriminate|].
    cbn [iter micro] in Hit.
    destruct k as [|k]; [cbn in Hit; inversion Hit; subst sh x st; cbn in Hm; discriminate|].
    cbn [iter micro] in Hit.
    destruct k as [|k].
    + cbn in Hit. inversion Hit; subst sh x st. cbn. split; reflexivity.
    + cbn in Hit. discriminate.
Qed.

(** * Serial executions, one call appended *)

Lemma serial_state_snoc : forall s0 pre t a,
  serial_state s0 (pre ++ [(t, a)]) = step (serial_state s0 pre) a.
Proof.
  intros. unfold serial_state, Core.Model.run. rewrite map_app, fold_left_app. reflexivity.
Qed.

Lemma serial_results_snoc : forall pre s0 t a,
  serial_results s0 (pre ++ [(t, a)]) =
  serial_results s0 pre ++ [(t, a, call_result (serial_state s0 pre) a)].
Proof.
  induction pre as [|[u b] pre IH]; intros s0 t a.
  - reflexivity.
  - cbn [app serial_results]. rewrite IH. reflexivity.
Qed.

(** * The invariant of disciplined logs *)

Definition scan1 (holder : option N) (e : ev) : option (option N) :=
  match snd e, holder with
  | Loc, _ => Some holder
  | Acq, None => Some (Some (fst e))
  | Sh _, Some h => if h =? fst e then Some holder else None
  | Rel, Some h => if h =? fst e then Some None else None
  | _, _ => None
  end.

Lemma scan_cons : forall h e rest,
  scan h (e :: rest) = match scan1 h e with Some h' => scan h' rest | None => None end.
Proof.
  intros h [t k] rest. unfold scan1. cbn [scan fst snd].
  destruct k; destruct h as [h|]; try reflexivity; destruct (h =? t); reflexivity.
Qed.

Definition all_idle (m : mstate) : Prop :=
  forall u us, alookup u (mthreads m) = Some us -> tfly us = None.

Definition others_idle (t : N) (m : mstate) : Prop :=
  forall u us, u <> t -> alookup u (mthreads m) = Some us -> tfly us = None.

Definition scripts_ok (m : mstate) : Prop :=
  forall u us, alookup u (mthreads m) = Some us -> forallb lockable (tscript us) = true.

Inductive inv (s0 : istate) : option N -> mstate -> Prop :=
| inv_free : forall m,
    all_idle m ->
    mshared m = serial_state s0 (macq m) ->
    mres m = serial_results s0 (macq m) ->
    inv s0 None m
| inv_held : forall m t ts f pre k,
    alookup t (mthreads m) = Some ts -> tfly ts = Some f ->
    others_idle t m ->
    macq m = pre ++ [(t, fcall f)] ->
    lockable (fcall f) = true ->
    iter (fcall f) k (serial_state s0 pre) locals0 0 = Some (mshared m, floc f, fstage f) ->
    mres m = serial_results s0 pre ->
    inv s0 (Some t) m.

Lemma neqb_neq : forall a b : N, a <> b -> (a =? b) = false.
Proof. intros. apply N.eqb_neq. assumption. Qed.

Lemma step_inv : forall s0 h m e h' m',
  inv s0 h m -> scripts_ok m ->
  scan1 h e = Some h' -> mstep m e = Some m' ->
  inv s0 h' m' /\ scripts_ok m'.
Proof.
  intros s0 h m [t k] h' m' Hinv Hsc Hs Hm.
  unfold scan1 in Hs. cbn [fst snd] in Hs. unfold mstep in Hm.
  destruct (alookup t (mthreads m)) as [ts|] eqn:Et; [|discriminate].
  destruct k.
  - (* Acq *)
    destruct h as [h|]; [discriminate|]. inversion Hs; subst h'. clear Hs.
    destruct (tfly ts) eqn:Ef; [discriminate|].
    destruct (tscript ts) as [|a rest] eqn:Es; [discriminate|].
    inversion Hm; subst m'. clear Hm.
    inversion Hinv as [m0 Hidle Hsh Hres|]; subst m0.
    pose proof (Hsc t ts Et) as Hl. rewrite Es in Hl. cbn in Hl. apply andb_true_iff in Hl as [Hla Hlr].
    split.
    + eapply inv_held with (pre := macq m) (k := O)
                           (f := {| fcall := a; fstage := 0; floc := locals0 |}).
      * cbn. rewrite alookup_ainsert, N.eqb_refl. reflexivity.
      * reflexivity.
      * intros u us Hu Hlk. cbn in Hlk. rewrite alookup_ainsert, (neqb_neq _ _ Hu) in Hlk. eauto.
      * reflexivity.
      * exact Hla.
      * cbn. rewrite Hsh. reflexivity.
      * exact Hres.
    + intros u us Hlk. cbn in Hlk. rewrite alookup_ainsert in Hlk.
      destruct (u =? t); [inversion Hlk; subst us; exact Hlr|eauto].
  - (* Sh *)
    destruct h as [h|]; [|discriminate].
    destruct (h =? t) eqn:Eh; [|discriminate]. apply N.eqb_eq in Eh. subst h.
    inversion Hs; subst h'. clear Hs.
    destruct (tfly ts) as [f|] eqn:Ef; [|discriminate].
    destruct (micro (fcall f) (fstage f) (mshared m) (floc f)) as [[[[l' s'] x'] st']|] eqn:Em; [|discriminate].
    destruct (label_eqb l l'); [|discriminate].
    inversion Hm; subst m'. clear Hm.
    inversion Hinv as [|m0 t0 ts0 f0 pre k0 Hlk Hfly Hoth Hacq Hlock Hit Hres]; subst m0 t0.
    rewrite Et in Hlk. inversion Hlk; subst ts0. rewrite Ef in Hfly. inversion Hfly; subst f0.
    split.
    + eapply inv_held with (pre := pre) (k := S k0)
                           (f := {| fcall := fcall f; fstage := st'; floc := x' |}).
      * cbn. rewrite alookup_ainsert, N.eqb_refl. reflexivity.
      * reflexivity.
      * intros u us Hu Hl2. cbn in Hl2. rewrite alookup_ainsert, (neqb_neq _ _ Hu) in Hl2. eauto.
      * exact Hacq.
      * exact Hlock.
      * cbn [fcall fstage floc mshared set_thread]. rewrite iter_snoc, Hit, Em. reflexivity.
      * exact Hres.
    + intros u us Hl2. cbn in Hl2. rewrite alookup_ainsert in Hl2.
      destruct (u =? t); [inversion Hl2; subst us; cbn; eauto|eauto].
  - (* Rel *)
    destruct h as [h|]; [|discriminate].
    destruct (h =? t) eqn:Eh; [|discriminate]. apply N.eqb_eq in Eh. subst h.
    inversion Hs; subst h'. clear Hs.
    destruct (tfly ts) as [f|] eqn:Ef; [|discriminate].
    destruct (micro (fcall f) (fstage f) (mshared m) (floc f)) as [p|] eqn:Em; [discriminate|].
    inversion Hm; subst m'. clear Hm.
    inversion Hinv as [|m0 t0 ts0 f0 pre k0 Hlk Hfly Hoth Hacq Hlock Hit Hres]; subst m0 t0.
    rewrite Et in Hlk. inversion Hlk; subst ts0. rewrite Ef in Hfly. inversion Hfly; subst f0.
    destruct (body_complete _ _ _ _ _ _ Hlock Hit Em) as [Hsh Hr].
    split.
    + apply inv_free.
      * intros u us Hl2. cbn in Hl2. rewrite alookup_ainsert in Hl2.
        destruct (u =? t) eqn:Eu; [inversion Hl2; reflexivity|].
        apply N.eqb_neq in Eu. eauto.
      * cbn [mshared macq mres set_thread]. rewrite Hacq, serial_state_snoc. exact Hsh.
      * cbn [mshared macq mres set_thread]. rewrite Hacq, serial_results_snoc, Hres, Hr. reflexivity.
    + intros u us Hl2. cbn in Hl2. rewrite alookup_ainsert in Hl2.
      destruct (u =? t); [inversion Hl2; subst us; cbn; eauto|eauto].
  - (* Loc *)
    inversion Hs; subst h'. inversion Hm; subst m'. split; assumption.
Qed.

Lemma run_inv : forall s0 log h m hf m',
  inv s0 h m -> scripts_ok m ->
  scan h log = Some hf -> mrun m log = Some m' ->
  inv s0 hf m'.
Proof.
  induction log as [|e log IH]; intros h m hf m' Hinv Hsc Hs Hm.
  - cbn in Hs, Hm. inversion Hs; inversion Hm; subst. exact Hinv.
  - rewrite scan_cons in Hs. cbn [mrun] in Hm.
    destruct (scan1 h e) as [h1|] eqn:E1; [|discriminate].
    destruct (mstep m e) as [m1|] eqn:E2; [|discriminate].
    destruct (step_inv _ _ _ _ _ _ Hinv Hsc E1 E2) as [Hi1 Hs1].
    eapply IH; eauto.
Qed.

Definition scripts_lockable (scripts : list (N * list api)) : Prop :=
  forall p, In p scripts -> forallb lockable (snd p) = true.

Theorem serializable : forall s0 scripts log m',
  scripts_lockable scripts ->
  disciplined log = true ->
  mrun (minit s0 scripts) log = Some m' ->
  mshared m' = serial_state s0 (macq m') /\
  mres m' = serial_results s0 (macq m').
Proof.
  intros s0 scripts log m' Hl Hd Hr. unfold disciplined in Hd.
  destruct (scan None log) as [[h|]|] eqn:Es; try discriminate.
  assert (Hinv : inv s0 None m').
  { eapply run_inv; eauto.
    - apply inv_free; cbn; auto.
      intros u us Hu. cbn in Hu. rewrite alookup_minit in Hu.
      destruct (alookup u scripts); cbn in Hu; [inversion Hu; reflexivity|discriminate].
    - intros u us Hu. cbn in Hu. rewrite alookup_minit in Hu.
      destruct (alookup u scripts) as [sc|] eqn:E; cbn in Hu; [|discriminate].
      inversion Hu; subst us. cbn. apply (Hl (u, sc)). apply alookup_In. exact E. }
  inversion Hinv; subst. split; assumption.
Qed.

(** * Program order: the acquisition order restricted to a thread is that thread's script *)

Definition proj (t : N) (acq : list (N * api)) : list api :=
  map snd (filter (fun p => fst p =? t) acq).

Lemma proj_snoc_same : forall t acq a, proj t (acq ++ [(t, a)]) = proj t acq ++ [a].
Proof.
  intros. unfold proj. rewrite filter_app, map_app. cbn. rewrite N.eqb_refl. reflexivity.
Qed.

Lemma proj_snoc_other : forall t u acq a, u <> t -> proj u (acq ++ [(t, a)]) = proj u acq.
Proof.
  intros t u acq a H. unfold proj. rewrite filter_app, map_app. cbn.
  assert (E : (t =? u) = false) by (apply N.eqb_neq; congruence). rewrite E. cbn. apply app_nil_r.
Qed.

Definition order_inv (scripts : list (N * list api)) (m : mstate) : Prop :=
  forall t sc, alookup t scripts = Some sc ->
  exists ts, alookup t (mthreads m) = Some ts /\ proj t (macq m) ++ tscript ts = sc.

Lemma mstep_order : forall scripts m e m',
  order_inv scripts m -> mstep m e = Some m' -> order_inv scripts m'.
Proof.
  intros scripts m [t k] m' Ho Hm. unfold mstep in Hm.
  destruct (alookup t (mthreads m)) as [ts|] eqn:Et; [|discriminate].
  destruct k.
  - destruct (tfly ts); [discriminate|].
    destruct (tscript ts) as [|a rest] eqn:Es; [discriminate|].
    inversion Hm; subst m'. clear Hm.
    intros u sc Hu. destruct (Ho u sc Hu) as [us [H1 H2]].
    cbn [macq mthreads set_thread]. rewrite alookup_ainsert. destruct (u =? t) eqn:E.
    + apply N.eqb_eq in E. subst u. rewrite Et in H1. inversion H1; subst us.
      eexists. split; [reflexivity|]. cbn [tscript]. rewrite proj_snoc_same, <- app_assoc. cbn [app].
      rewrite <- Es. exact H2.
    + apply N.eqb_neq in E. exists us. split; [exact H1|]. rewrite proj_snoc_other; auto.
  - destruct (tfly ts) as [f|]; [|discriminate].
    destruct (micro _ _ _ _) as [[[[l' s'] x'] st']|]; [|discriminate].
    destruct (label_eqb l l'); [|discriminate].
    inversion Hm; subst m'. clear Hm.
    intros u sc Hu. destruct (Ho u sc Hu) as [us [H1 H2]].
    cbn [macq mthreads set_thread]. rewrite alookup_ainsert. destruct (u =? t) eqn:E.
    + apply N.eqb_eq in E. subst u. rewrite Et in H1. inversion H1; subst us.
      eexists. split; [reflexivity|]. exact H2.
    + exists us. split; assumption.
  - destruct (tfly ts) as [f|]; [|discriminate].
    destruct (micro _ _ _ _); [discriminate|].
    inversion Hm; subst m'. clear Hm.
    intros u sc Hu. destruct (Ho u sc Hu) as [us [H1 H2]].
    cbn [macq mthreads set_thread]. rewrite alookup_ainsert. destruct (u =? t) eqn:E.
    + apply N.eqb_eq in E. subst u. rewrite Et in H1. inversion H1; subst us.
      eexists. split; [reflexivity|]. exact H2.
    + exists us. split; assumption.
  - inversion Hm; subst m'. exact Ho.
Qed.

Theorem program_order : forall s0 scripts log m',
  mrun (minit s0 scripts) log = Some m' -> order_inv scripts m'.
Proof.
  intros s0 scripts log m' Hr.
  assert (H0 : order_inv scripts (minit s0 scripts)).
  { intros t sc Ht. cbn. rewrite alookup_minit, Ht. cbn. eexists. split; reflexivity. }
  revert Hr H0. generalize (minit s0 scripts). induction log as [|e log IH]; intros m Hr H0.
  - cbn in Hr. inversion Hr; subst. exact H0.
  - cbn in Hr. destruct (mstep m e) as [m1|] eqn:E; [|discriminate].
    eapply IH; eauto. eapply mstep_order; eauto.
Qed.
