(** C05/Model.v — several threads, each driving its own writer handle (or compaction), as a
    machine over event logs.

    Every writer entry point of api/writer.rs (new, add_document, delete_documents, commit,
    rollback) and Index::compact takes [InnerIndex.writer_lock] for its whole body.  A call is
    modelled as a *program* of micro-steps ([micro]), one per instrumented point inside the
    critical section; each micro-step reads/writes the shared index state ([Core.Model.istate]:
    published manifest, durable queue, handle table, name supply) and the call's locals.
    A log is a list of (thread, event): [Acq] (lock acquired, the thread's next call starts),
    [Sh l] (the micro-step labelled [l]), [Rel] (lock released, the call returns), [Loc] (a
    lock-free local event: IndexWriter::drop syncing the log - no effect on the state when
    nothing crashes).  The machine [mrun] executes ANY log, disciplined or not, micro-step by
    micro-step; [disciplined] is the checkable lock discipline on logs.

    Definitions only; proofs in C05/Proofs.v. *)
From Coq Require Import List NArith Bool.
From SL Require Import Base.Tie Core.Model.
Import ListNotations.
Open Scope N_scope.

Inductive label :=
| LLoaded                     (* new: log replayed, manifest read, live documents loaded *)
| LAppended                   (* add / delete: log append, queue push *)
| LSynced | LManRead | LLive | LSegment | LStored | LMarker | LPublished | LTruncated  (* commit *)
| LRbTruncated                (* rollback *)
| LReader | LCSegment | LCStored | LCPublished | LCleaned.   (* compact *)

Definition label_eqb (a b : label) : bool :=
  match a, b with
  | LLoaded, LLoaded | LAppended, LAppended | LSynced, LSynced | LManRead, LManRead
  | LLive, LLive | LSegment, LSegment | LStored, LStored | LMarker, LMarker
  | LPublished, LPublished | LTruncated, LTruncated | LRbTruncated, LRbTruncated
  | LReader, LReader | LCSegment, LCSegment | LCStored, LCStored | LCPublished, LCPublished
  | LCleaned, LCleaned => true
  | _, _ => false
  end.

Inductive mev := Acq | Sh (l : label) | Rel | Loc.
Definition ev := (N * mev)%type.

(** locals of a call in flight *)
Record locals := {
  lsnap  : manifest;   (* manifest snapshot read inside the section *)
  lnew   : manifest;   (* manifest to publish *)
  llive  : lmap;       (* the handle's live map after the commit *)
  lwrote : bool;       (* commit: a new segment is written *)
  lres   : N           (* the call's return value (adds: number of queued adds; else 0) *)
}.

Definition locals0 : locals := {| lsnap := []; lnew := []; llive := []; lwrote := false; lres := 0 |}.

Definition count_adds (q : list qop) : N :=
  N.of_nat (length (filter (fun p => match snd p with PAdd _ _ => true | PDel _ => false end) q)).

(** return value of a call executed atomically in state [s] *)
Definition call_result (s : istate) (a : api) : N :=
  match a with
  | AddDoc h _ _ _ =>
      match alookup h (ws (step s a)) with Some w => count_adds (wq w) | None => 0 end
  | _ => 0
  end.

Definition set_nsid (s : istate) (n : N) : istate :=
  {| man := man s; wal := wal s; ws := ws s; nsid := n |}.
Definition set_wal (s : istate) (l : list qop) : istate :=
  {| man := man s; wal := l; ws := ws s; nsid := nsid s |}.
Definition set_man (s : istate) (m : manifest) : istate :=
  {| man := m; wal := wal s; ws := ws s; nsid := nsid s |}.

(** One micro-step of call [a] at stage [st]: the label of the instrumented point reached, the
    new shared state, the new locals, the next stage.  [None] = the body is finished (the next
    event of the thread must be [Rel]). *)
Definition micro (a : api) (st : nat) (s : istate) (x : locals)
  : option (label * istate * locals * nat) :=
  match a with
  | NewWriter _ =>
      match st with
      | O => Some (LLoaded, step s a, x, 1%nat)
      | _ => None
      end
  | AddDoc _ _ _ _ | DelDoc _ _ _ =>
      match st with
      | O => Some (LAppended, step s a,
                   {| lsnap := lsnap x; lnew := lnew x; llive := llive x; lwrote := lwrote x;
                      lres := call_result s a |}, 1%nat)
      | _ => None
      end
  | Rollback _ =>
      match st with
      | O => Some (LRbTruncated, step s a, x, 1%nat)
      | _ => None
      end
  | Commit h =>
      match alookup h (ws s) with
      | None => None
      | Some w =>
          match st with
          | 0%nat => match wq w with [] => None | _ :: _ => Some (LSynced, s, x, 1%nat) end
          | 1%nat => Some (LManRead, s,
                           {| lsnap := man s; lnew := lnew x; llive := llive x; lwrote := lwrote x;
                              lres := lres x |}, 2%nat)
          | 2%nat =>
              let L0 := if maxgen (lsnap x) =? wgen w then wlive w else load_live (lsnap x) in
              let '(m', L', wrote) := commit_with L0 (lsnap x) (nsid s) (wq w) in
              Some (LLive, set_nsid s (N.succ (nsid s)),
                    {| lsnap := lsnap x; lnew := m'; llive := L'; lwrote := wrote; lres := lres x |},
                    3%nat)
          | 3%nat => if lwrote x then Some (LSegment, s, x, 4%nat) else Some (LStored, s, x, 5%nat)
          | 4%nat => Some (LStored, s, x, 5%nat)
          | 5%nat => Some (LMarker, set_wal s [], x, 6%nat)
          | 6%nat => Some (LPublished, set_man s (lnew x), x, 7%nat)
          | 7%nat => Some (LTruncated,
                           {| man := man s; wal := [];
                              ws := ainsert h {| wq := []; wlive := llive x; wgen := maxgen (lnew x) |} (ws s);
                              nsid := nsid s |}, x, 8%nat)
          | _ => None
          end
      end
  | Compact =>
      match st with
      | 0%nat => Some (LReader, s,
                       {| lsnap := man s; lnew := lnew x; llive := llive x; lwrote := lwrote x;
                          lres := lres x |}, 1%nat)
      | 1%nat =>
          match lsnap x with
          | [] | [_] => None
          | _ =>
              let sg := {| sid := nsid s; sgen := maxgen (lsnap x) + 1;
                           sdocs := contents (lsnap x); sdel := [] |} in
              Some (LCSegment, set_nsid s (N.succ (nsid s)),
                    {| lsnap := lsnap x; lnew := [sg]; llive := llive x; lwrote := true;
                       lres := lres x |}, 2%nat)
          end
      | 2%nat => Some (LCStored, s, x, 3%nat)
      | 3%nat => Some (LCPublished, set_man s (lnew x), x, 4%nat)
      | 4%nat => Some (LCleaned, s, x, 5%nat)
      | _ => None
      end
  | DropWriter _ | Reopen => None
  end.

Definition lockable (a : api) : bool :=
  match a with DropWriter _ | Reopen => false | _ => true end.

(** * The machine *)

Record inflight := { fcall : api; fstage : nat; floc : locals }.
Record tstate := { tscript : list api; tfly : option inflight }.

Record mstate := {
  mshared  : istate;
  mthreads : list (N * tstate);
  macq     : list (N * api);        (* calls in lock-acquisition order, with their thread *)
  mres     : list (N * api * N)     (* returned calls in release order: thread, call, result *)
}.

Definition minit (s0 : istate) (scripts : list (N * list api)) : mstate :=
  {| mshared := s0;
     mthreads := map (fun p => (fst p, {| tscript := snd p; tfly := None |})) scripts;
     macq := []; mres := [] |}.

Definition set_thread (t : N) (ts : tstate) (m : mstate) (s : istate)
                      (acq : list (N * api)) (res : list (N * api * N)) : mstate :=
  {| mshared := s; mthreads := ainsert t ts (mthreads m); macq := acq; mres := res |}.

Definition mstep (m : mstate) (e : ev) : option mstate :=
  let (t, k) := e in
  match alookup t (mthreads m) with
  | None => None
  | Some ts =>
      match k with
      | Loc => Some m
      | Acq =>
          match tfly ts, tscript ts with
          | None, a :: rest =>
              Some (set_thread t {| tscript := rest;
                                    tfly := Some {| fcall := a; fstage := 0; floc := locals0 |} |}
                               m (mshared m) (macq m ++ [(t, a)]) (mres m))
          | _, _ => None
          end
      | Sh l =>
          match tfly ts with
          | Some f =>
              match micro (fcall f) (fstage f) (mshared m) (floc f) with
              | Some (l', s', x', st') =>
                  if label_eqb l l'
                  then Some (set_thread t {| tscript := tscript ts;
                                             tfly := Some {| fcall := fcall f; fstage := st'; floc := x' |} |}
                                        m s' (macq m) (mres m))
                  else None
              | None => None
              end
          | None => None
          end
      | Rel =>
          match tfly ts with
          | Some f =>
              match micro (fcall f) (fstage f) (mshared m) (floc f) with
              | None =>
                  Some (set_thread t {| tscript := tscript ts; tfly := None |}
                                   m (mshared m) (macq m) (mres m ++ [(t, fcall f, lres (floc f))]))
              | Some _ => None
              end
          | None => None
          end
      end
  end.

Fixpoint mrun (m : mstate) (log : list ev) : option mstate :=
  match log with
  | [] => Some m
  | e :: t => match mstep m e with Some m' => mrun m' t | None => None end
  end.

(** * The lock discipline, a predicate on logs alone:
    every [Acq] happens when nobody is inside a section; every [Sh] and [Rel] of thread [t]
    happens while [t] is the one inside (so each shared event lies between an acquire and the
    matching release of its own thread, and sections of different threads never overlap);
    [Loc] events are unconstrained; at the end nobody is inside. *)
Fixpoint scan (holder : option N) (log : list ev) : option (option N) :=
  match log with
  | [] => Some holder
  | (t, k) :: rest =>
      match k, holder with
      | Loc, _ => scan holder rest
      | Acq, None => scan (Some t) rest
      | Sh _, Some h => if h =? t then scan holder rest else None
      | Rel, Some h => if h =? t then scan None rest else None
      | _, _ => None
      end
  end.

Definition disciplined (log : list ev) : bool :=
  match scan None log with Some None => true | _ => false end.

(** * Serial executions *)

Fixpoint serial_results (s : istate) (calls : list (N * api)) : list (N * api * N) :=
  match calls with
  | [] => []
  | (t, a) :: rest => (t, a, call_result s a) :: serial_results (step s a) rest
  end.

Definition serial_state (s : istate) (calls : list (N * api)) : istate :=
  Core.Model.run s (map snd calls).

(** * Tie layer *)

(** all interleavings of two lists / of several tagged scripts *)
Fixpoint merges2 {A} (a b : list A) {struct a} : list (list A) :=
  match a with
  | [] => [b]
  | x :: a' =>
      (fix inner (b : list A) : list (list A) :=
         match b with
         | [] => [x :: a']
         | y :: b' => map (cons x) (merges2 a' (y :: b')) ++ map (cons y) (inner b')
         end) b
  end.

Definition tag (p : N * list api) : list (N * api) := map (fun a => (fst p, a)) (snd p).

Fixpoint all_merges (scripts : list (N * list api)) : list (list (N * api)) :=
  match scripts with
  | [] => [[]]
  | p :: rest => flat_map (merges2 (tag p)) (all_merges rest)
  end.

(** observation of one run: final contents (sorted by id), contents after reopening (None when
    the reopen failed), and the results of each thread's calls in program order *)
Record outcome := {
  ofinal  : list (N * N);
  oreopen : option (list (N * N));
  ores    : list (N * list N)
}.

Fixpoint nl_eqb (a b : list N) : bool :=
  match a, b with
  | [], [] => true
  | x :: a', y :: b' => (x =? y) && nl_eqb a' b'
  | _, _ => false
  end.

Fixpoint res_eqb (a b : list (N * list N)) : bool :=
  match a, b with
  | [], [] => true
  | (t, x) :: a', (u, y) :: b' => (t =? u) && nl_eqb x y && res_eqb a' b'
  | _, _ => false
  end.

Definition thread_results (threads : list N) (r : list (N * api * N)) : list (N * list N) :=
  map (fun t => (t, map snd (filter (fun p => fst (fst p) =? t) r))) threads.

(** the outcome of the serial execution of [calls] from [s0] *)
Definition serial_outcome (s0 : istate) (threads : list N) (calls : list (N * api)) : outcome :=
  let c := sort_by_id (contents (man (serial_state s0 calls))) in
  {| ofinal := c; oreopen := Some c;
     ores := thread_results threads (serial_results s0 calls) |}.

Definition outcome_eqb (a b : outcome) : bool :=
  plist_eqb (ofinal a) (ofinal b)
  && (match oreopen a, oreopen b with
      | Some x, Some y => plist_eqb x y
      | None, None => true
      | _, _ => false
      end)
  && res_eqb (ores a) (ores b).

Definition total_calls (scripts : list (N * list api)) : nat :=
  fold_right (fun p n => (length (snd p) + n)%nat) 0%nat scripts.

(** [S]: the outcome equals that of SOME serial execution of the threads' calls (each thread's
    calls in its program order) and the index reopens with the same contents.  All merges are
    tried for up to 7 calls; beyond that only the recorded acquisition order. *)
Definition spec (s0 : istate) (scripts : list (N * list api)) (acq : list (N * api)) (o : outcome) : bool :=
  let threads := map fst scripts in
  match oreopen o with
  | Some c =>
      if plist_eqb c (ofinal o) then
        (* branches of [if] are evaluated lazily by the VM, unlike the arguments of [orb] *)
        if outcome_eqb (serial_outcome s0 threads acq) o then true
        else if Nat.leb (total_calls scripts) 7
             then existsb (fun calls => outcome_eqb (serial_outcome s0 threads calls) o) (all_merges scripts)
             else false
      else false
  | None => false
  end.

(** acquisition order as recorded in the log *)
Fixpoint acq_threads (log : list ev) : list N :=
  match log with
  | [] => []
  | (t, Acq) :: rest => t :: acq_threads rest
  | _ :: rest => acq_threads rest
  end.

(** pairs the acquiring threads with their scripts' calls, in order *)
Fixpoint acq_calls (order : list N) (scripts : list (N * list api)) : list (N * api) :=
  match order with
  | [] => []
  | t :: rest =>
      match alookup t scripts with
      | Some (a :: more) => (t, a) :: acq_calls rest (ainsert t more scripts)
      | _ => acq_calls rest scripts
      end
  end.

Definition case05 := (list api * list (N * list api) * list ev * outcome)%type.

Definition check_case (c : case05) : N :=
  let '(setup, scripts, log, o) := c in
  let s0 := Core.Model.run init setup in
  let threads := map fst scripts in
  let acq := acq_calls (acq_threads log) scripts in
  let corr :=
    disciplined log
    && match mrun (minit s0 scripts) log with
       | Some m =>
           outcome_eqb {| ofinal := sort_by_id (contents (man (mshared m)));
                          oreopen := Some (sort_by_id (contents (man (mshared m))));
                          ores := thread_results threads (mres m) |} o
           && forallb (fun p => match tscript (snd p), tfly (snd p) with [], None => true | _, _ => false end)
                      (mthreads m)
       | None => false
       end in
  verdict corr (spec s0 scripts acq o) 0.
