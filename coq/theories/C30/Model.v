(** C30 — composite aggregation paging: model of [finalize_composite], [CompositeKey::cmp],
    [composite_key_to_json] / [composite_key_from_value] (searchlite-core/src/query/aggs/mod.rs).
    Definitions only. *)
From Coq Require Import List NArith Bool Arith.
From SL Require Import Base.Tie Base.Paging.
Import ListNotations.
Open Scope N_scope.

(* ------------------------------------------------------------------ keys and their JSON form *)

Inductive kpart := KStr (s : list N) | KF64 (bits : N).       (* CompositeKeyPart *)
Inductive jval := JStr (s : list N) | JNum (bits : N) | JNull. (* the JSON values that occur in keys;
                                                                  JNum carries the f64 the number denotes *)
Inductive skind := STerms | SHist.
Definition source : Type := N * skind.                         (* interned source name, kind *)

(** f64 bit patterns with all exponent bits set are inf / NaN: [Number::from_f64] refuses them *)
Definition finite (bits : N) : bool := negb ((bits / 4503599627370496) mod 2048 =? 2047).

Definition part_to_json (p : kpart) : jval :=
  match p with
  | KStr s => JStr s
  | KF64 b => if finite b then JNum b else JNull
  end.

(** serde_json::Map (a BTreeMap): insert replaces an existing entry *)
Fixpoint obj_insert (k : N) (v : jval) (o : list (N * jval)) : list (N * jval) :=
  match o with
  | [] => [(k, v)]
  | (k', v') :: o' => if k =? k' then (k, v) :: o' else (k', v') :: obj_insert k v o'
  end.

Fixpoint obj_get (k : N) (o : list (N * jval)) : option jval :=
  match o with
  | [] => None
  | (k', v') :: o' => if k =? k' then Some v' else obj_get k o'
  end.

(** composite_key_to_json: parts zipped with sources, inserted left to right *)
Definition key_to_json (parts : list kpart) (sources : list source) : list (N * jval) :=
  fold_left (fun o ps => obj_insert (fst (snd ps)) (part_to_json (fst ps)) o) (combine parts sources) [].

(** composite_key_from_value *)
Fixpoint key_from_value (o : list (N * jval)) (sources : list source) : option (list kpart) :=
  match sources with
  | [] => Some []
  | (name, kind) :: ss =>
      match obj_get name o with
      | None => None
      | Some v =>
          match (match kind, v with
                 | STerms, JStr s => Some (KStr s)      (* val.as_str()? *)
                 | SHist, JNum b => Some (KF64 b)       (* val.as_f64() *)
                 | _, _ => None
                 end) with
          | None => None
          | Some p => option_map (cons p) (key_from_value o ss)
          end
      end
  end.

(** [f64::total_cmp] through an order-preserving map of the bit pattern *)
Definition f64_ord (b : N) : N :=
  if b <? 9223372036854775808 then b + 9223372036854775808 else 18446744073709551615 - b.

Fixpoint str_cmp (a b : list N) : comparison :=      (* String::cmp: bytewise lexicographic *)
  match a, b with
  | [], [] => Eq
  | [], _ => Lt
  | _, [] => Gt
  | x :: a', y :: b' => match x ?= y with Eq => str_cmp a' b' | c => c end
  end.

Definition part_cmp (a b : kpart) : comparison :=
  match a, b with
  | KStr x, KStr y => str_cmp x y
  | KF64 x, KF64 y => f64_ord x ?= f64_ord y
  | KStr _, KF64 _ => Lt
  | KF64 _, KStr _ => Gt
  end.

(** CompositeKey::cmp: zip, first difference, then length *)
Fixpoint key_cmp (a b : list kpart) : comparison :=
  match a, b with
  | [], [] => Eq
  | [], _ => Lt
  | _, [] => Gt
  | x :: a', y :: b' => match part_cmp x y with Eq => key_cmp a' b' | c => c end
  end.

(* ------------------------------------------------------------------ one page *)

Definition last_opt (l : list N) : option N :=
  match l with [] => None | _ => Some (last l 0) end.

(** finalize_composite over bucket keys interned to [N] by their rank under [key_cmp]:
    sort, retain key > after, has_more = len > size, truncate, after_key = last kept key. *)
Definition comp_page (size : nat) (aft : option N) (l : list N) : list N * option N :=
  let r := after aft (sort l) in
  if Nat.ltb size (length r) then let t := firstn size r in (t, last_opt t) else (r, None).

Fixpoint comp_walk (fuel size : nat) (aft : option N) (l : list N) : option (list (list N * option N)) :=
  match fuel with
  | O => None
  | S f =>
      let p := comp_page size aft l in
      match snd p with
      | None => Some [p]
      | Some k => option_map (cons p) (comp_walk f size (Some k) l)
      end
  end.

(* ------------------------------------------------------------------ the tie *)

Record opage := { o_err : bool; o_buckets : list (N * N * N) (* rank, doc_count, sub-agg digest *);
                  o_after : option N (* rank of the after_key; 999999 = not a key of the unpaged list *) }.

Record probe := { pr_key : list kpart; pr_got : list N }.   (* after = pr_key -> ranks returned *)

Record case := {
  sources : list source;
  keys : list (list kpart);          (* unpaged bucket keys, in the order returned *)
  unpaged : list (N * N * N);        (* unpaged buckets: rank, doc_count, sub-agg digest *)
  unpaged_after : bool;              (* the unpaged response carried an after_key *)
  size : N;
  pages : list opage;
  overrun : bool;
  probes : list probe
}.

Fixpoint list_eqb {A B} (eqb : A -> B -> bool) (a : list A) (b : list B) : bool :=
  match a, b with
  | [], [] => true
  | x :: a', y :: b' => eqb x y && list_eqb eqb a' b'
  | _, _ => false
  end.

Definition b3_eqb (a b : N * N * N) : bool :=
  (fst (fst a) =? fst (fst b)) && (snd (fst a) =? snd (fst b)) && (snd a =? snd b).

Fixpoint last_only_without_after (ps : list opage) : bool :=
  match ps with
  | [] => false
  | [p] => match o_after p with None => true | Some _ => false end
  | p :: ps' => match o_after p with None => false | Some _ => last_only_without_after ps' end
  end.

(** Executable specification, from the property text: the pages, concatenated, are the unpaged
    buckets (same order, same counts, hence each exactly once), and after_key is absent exactly on
    the last page. *)
Definition spec (c : case) : bool :=
  negb (overrun c)
  && forallb (fun p => negb (o_err p)) (pages c)
  && list_eqb b3_eqb (concat (map o_buckets (pages c))) (unpaged c)
  && last_only_without_after (pages c).

Fixpoint strictly_increasing (ks : list (list kpart)) : bool :=
  match ks with
  | a :: ((b :: _) as t) => (match key_cmp a b with Lt => true | _ => false end) && strictly_increasing t
  | _ => true
  end.

Fixpoint ranks_after (k : list kpart) (ks : list (list kpart)) (i : N) : list N :=
  match ks with
  | [] => []
  | x :: t => (match key_cmp k x with Lt => [i] | _ => [] end) ++ ranks_after k t (N.succ i)
  end.

Definition bucket_of (c : case) (k : N) : N * N * N := nth (N.to_nat k) (unpaged c) (999999, 0, 0).

Definition page_ok (c : case) (m : list N * option N) (o : opage) : bool :=
  negb (o_err o)
  && list_eqb b3_eqb (map (bucket_of c) (fst m)) (o_buckets o)
  && match snd m, o_after o with
     | None, None => true
     | Some a, Some b => a =? b
     | _, _ => false
     end.

Definition corr (c : case) : bool :=
  let ranks := map N.of_nat (seq 0 (length (keys c))) in
  (* the unpaged response is sorted by the modelled key order and its keys round-trip *)
  strictly_increasing (keys c)
  && negb (unpaged_after c)
  && list_eqb N.eqb (map (fun b => fst (fst b)) (unpaged c)) ranks
  && forallb (fun k => match key_from_value (key_to_json k (sources c)) (sources c) with
                       | Some k' => match key_cmp k k' with Eq => true | _ => false end
                       | None => false
                       end) (keys c)
  (* every page is the model's page (the model walks a permutation of the ranks) *)
  && match comp_walk (S (S (length (keys c)))) (N.to_nat (size c)) None (rev ranks) with
     | Some ms => list_eqb (page_ok c) ms (pages c)
     | None => false
     end
  (* after = an arbitrary key returns exactly the buckets above it *)
  && forallb (fun p => list_eqb N.eqb (ranks_after (pr_key p) (keys c) 0) (pr_got p)) (probes c).

Definition wf (c : case) : bool :=
  (0 <? size c) && Nat.eqb (length (keys c)) (length (unpaged c)).

Definition check_case (c : case) : N :=
  if wf c then verdict (corr c) (spec c) 0 else 2.
