(** C30 — proofs: key JSON round trip; paging through after_key enumerates the sorted bucket keys
    exactly once; after_key is absent exactly on the last page. *)
From Coq Require Import List NArith Bool Arith Lia Permutation.
From SL Require Import Base.Tie Base.Paging C30.Model.
Import ListNotations.
Open Scope N_scope.

(* ------------------------------------------------------------------ key <-> JSON *)

Lemma obj_get_insert_same : forall k v o, obj_get k (obj_insert k v o) = Some v.
Proof.
  intros k v o. induction o as [|[k' v'] o IH]; cbn [obj_insert obj_get].
  - now rewrite N.eqb_refl.
  - destruct (N.eqb_spec k k') as [E|E]; cbn [obj_get].
    + now rewrite N.eqb_refl.
    + destruct (N.eqb_spec k k'); [contradiction|exact IH].
Qed.

Lemma obj_get_insert_other : forall k k' v o, k <> k' -> obj_get k (obj_insert k' v o) = obj_get k o.
Proof.
  intros k k' v o H. induction o as [|[k2 v2] o IH]; cbn [obj_insert obj_get].
  - destruct (N.eqb_spec k k'); [contradiction|reflexivity].
  - destruct (N.eqb_spec k' k2) as [E|E]; cbn [obj_get].
    + subst k2. destruct (N.eqb_spec k k'); [contradiction|reflexivity].
    + destruct (N.eqb_spec k k2); [reflexivity|exact IH].
Qed.

Definition ins (o : list (N * jval)) (ps : kpart * source) : list (N * jval) :=
  obj_insert (fst (snd ps)) (part_to_json (fst ps)) o.

Lemma obj_get_fold_notin : forall name xs o,
  ~ In name (map (fun ps : kpart * source => fst (snd ps)) xs) ->
  obj_get name (fold_left ins xs o) = obj_get name o.
Proof.
  intros name xs. induction xs as [|x xs IH]; intros o H; cbn [fold_left]; [reflexivity|].
  cbn [map In] in H. rewrite IH by tauto. unfold ins. apply obj_get_insert_other.
  intros E. apply H. left. now symmetry.
Qed.

(** a part agrees with its source kind, and a histogram part is a finite float *)
Definition part_ok (p : kpart) (s : source) : Prop :=
  match p, snd s with
  | KStr _, STerms => True
  | KF64 b, SHist => finite b = true
  | _, _ => False
  end.

Lemma key_roundtrip_gen : forall srcs parts o,
  NoDup (map fst srcs) -> Forall2 part_ok parts srcs ->
  key_from_value (fold_left ins (combine parts srcs) o) srcs = Some parts.
Proof.
  intros srcs. induction srcs as [|[name kind] ss IH]; intros parts o Hnd Hok.
  - inversion Hok; subst. reflexivity.
  - inversion Hok as [|p s ps ss' Hp Hrest]; subst. cbn [combine fold_left].
    cbn [map fst] in Hnd. inversion Hnd as [|? ? Hnotin Hnd']; subst.
    cbn [key_from_value].
    rewrite obj_get_fold_notin.
    2:{ intros Hin. apply Hnotin. clear - Hin. revert ps Hin.
        induction ss as [|s ss IH]; intros [|q ps] Hin; cbn in *; try contradiction.
        destruct Hin as [E|Hin]; [now left|right; eapply IH; exact Hin]. }
    rewrite (IH ps (ins o (p, (name, kind))) Hnd' Hrest). unfold ins. cbn [fst snd]. rewrite obj_get_insert_same.
    unfold part_ok in Hp. cbn [snd] in Hp.
    destruct p as [s|b], kind; try contradiction; cbn [part_to_json option_map]; [reflexivity|].
    rewrite Hp. reflexivity.
Qed.

Theorem key_roundtrip : forall srcs parts,
  NoDup (map fst srcs) -> Forall2 part_ok parts srcs ->
  key_from_value (key_to_json parts srcs) srcs = Some parts.
Proof.
  intros srcs parts Hnd Hok. unfold key_to_json.
  exact (key_roundtrip_gen srcs parts [] Hnd Hok).
Qed.

(** inf / NaN histogram keys are printed as null and do not come back *)
Theorem nonfinite_key_lost : forall name b, finite b = false ->
  key_from_value (key_to_json [KF64 b] [(name, SHist)]) [(name, SHist)] = None.
Proof.
  intros name b H. unfold key_to_json. cbn [combine fold_left fst snd obj_insert part_to_json].
  rewrite H. cbn. now rewrite N.eqb_refl.
Qed.

(* ------------------------------------------------------------------ paging *)

Lemma comp_page_remainder : forall size aft l b, after aft (sort l) = b ->
  comp_page size aft l =
    if Nat.ltb size (length b) then (firstn size b, last_opt (firstn size b)) else (b, None).
Proof. intros. unfold comp_page. now rewrite H. Qed.

Definition front_last_ok (size : nat) (ps : list (list N * option N)) : Prop :=
  exists front lastp, ps = front ++ [lastp] /\ snd lastp = None
    /\ Forall (fun p => snd p <> None /\ length (fst p) = size) front.

Lemma comp_walk_from : forall fuel size l a b aft,
  (0 < size)%nat -> sort l = a ++ b -> ssorted (a ++ b) ->
  aft = match a with [] => None | _ => Some (last a 0) end ->
  (length b < fuel)%nat ->
  exists ps, comp_walk fuel size aft l = Some ps
    /\ concat (map fst ps) = b /\ front_last_ok size ps.
Proof.
  induction fuel as [|f IH]; intros size l a b aft Hs Hsort Hss Haft Hfuel; [lia|].
  assert (Hafter : after aft (sort l) = b).
  { rewrite Hsort, Haft. destruct a as [|h a]; [reflexivity|].
    apply after_last_prefix; [discriminate|exact Hss]. }
  cbn [comp_walk]. rewrite (comp_page_remainder size aft l b Hafter).
  destruct (Nat.ltb_spec size (length b)) as [Hlt|Hge].
  - set (h := firstn size b). set (r := skipn size b).
    assert (Hbr : b = h ++ r) by (symmetry; apply firstn_skipn).
    assert (Hlh : length h = size) by (unfold h; rewrite firstn_length_le; lia).
    assert (Hhne : h <> []) by (intro E; rewrite E in Hlh; cbn in Hlh; lia).
    assert (Hlr : (length r = length b - size)%nat) by (unfold r; apply skipn_length).
    assert (Hlo : last_opt h = Some (last h 0)) by (destruct h; [congruence|reflexivity]).
    cbn [snd]. rewrite Hlo.
    destruct (IH size l (a ++ h) r (Some (last h 0))) as (ps & Hw & Hc & front & lastp & Hps & Hl & Hf);
      try assumption.
    + rewrite <- app_assoc, <- Hbr. exact Hsort.
    + rewrite <- app_assoc, <- Hbr. exact Hss.
    + destruct (a ++ h) eqn:E.
      * apply app_eq_nil in E. tauto.
      * rewrite <- E. f_equal.
        apply exists_last in Hhne as (h'' & z & Ez). rewrite Ez.
        rewrite app_assoc, !last_last. reflexivity.
    + lia.
    + rewrite Hw. cbn [option_map]. eexists. split; [reflexivity|]. split.
      * cbn [map concat fst]. now rewrite Hc.
      * exists ((h, Some (last h 0)) :: front), lastp. split; [now rewrite Hps|]. split; [exact Hl|].
        constructor; [|exact Hf]. cbn [fst snd]. split; [discriminate|exact Hlh].
  - cbn [snd]. eexists. split; [reflexivity|]. split.
    + cbn. apply app_nil_r.
    + exists [], (b, None). repeat split. constructor.
Qed.

Theorem paging_complete : forall l size fuel,
  (0 < size)%nat -> NoDup l -> (length l < fuel)%nat ->
  exists ps, comp_walk fuel size None l = Some ps
    /\ concat (map fst ps) = sort l /\ front_last_ok size ps.
Proof.
  intros l size fuel Hs Hnd Hfuel.
  apply (comp_walk_from fuel size l [] (sort l) None); try assumption; try reflexivity.
  - cbn [app]. now apply sort_ssorted.
  - now rewrite <- (Permutation_length (sort_permutation l)).
Qed.

(** the unpaged request: size >= number of buckets gives everything, no after_key *)
Theorem unpaged_is_sorted_keys : forall l size, (length l <= size)%nat ->
  comp_page size None l = (sort l, None).
Proof.
  intros l size H. unfold comp_page. cbn [after].
  rewrite <- (Permutation_length (sort_permutation l)).
  destruct (Nat.ltb_spec size (length l)); [lia|reflexivity].
Qed.

(** size = 0 is degenerate: an empty page without after_key although buckets remain *)
Theorem size_zero_degenerate : forall l aft, comp_page 0 aft l = ([], None) \/ after aft (sort l) = [].
Proof.
  intros l aft. unfold comp_page. destruct (after aft (sort l)) as [|x r]; [now right|left; reflexivity].
Qed.

(* ------------------------------------------------------------------ model meets spec *)

Definition to_opage (c : case) (m : list N * option N) : opage :=
  {| o_err := false; o_buckets := map (bucket_of c) (fst m); o_after := snd m |}.

Definition ranks_of (c : case) : list N := map N.of_nat (seq 0 (length (keys c))).

Definition model_pages (c : case) : option (list opage) :=
  option_map (map (to_opage c)) (comp_walk (S (S (length (keys c)))) (N.to_nat (size c)) None (rev (ranks_of c))).

Definition with_pages (c : case) (ps : list opage) : case :=
  {| sources := sources c; keys := keys c; unpaged := unpaged c; unpaged_after := unpaged_after c;
     size := size c; pages := ps; overrun := false; probes := probes c |}.

Lemma b3_list_refl : forall l, list_eqb b3_eqb l l = true.
Proof.
  induction l as [|[[a b] d] l IH]; cbn [list_eqb]; [reflexivity|].
  unfold b3_eqb at 1. cbn [fst snd]. now rewrite !N.eqb_refl, IH.
Qed.

Lemma map_nth_seq {A} : forall (l : list A) d,
  map (fun k => nth (N.to_nat k) l d) (map N.of_nat (seq 0 (length l))) = l.
Proof.
  intros l d. rewrite map_map.
  rewrite (map_ext _ (fun i => nth i l d)) by (intros; now rewrite Nat2N.id).
  induction l as [|a l IH] using rev_ind; [reflexivity|].
  rewrite app_length. cbn [length]. rewrite Nat.add_1_r, seq_S, map_app. cbn [map Nat.add].
  rewrite app_nth2, Nat.sub_diag by lia. cbn [nth]. f_equal.
  rewrite <- IH at 2. apply map_ext_in. intros i Hi. apply in_seq in Hi.
  apply app_nth1. lia.
Qed.

Lemma ranks_sorted : forall n, sort (rev (map N.of_nat (seq 0 n))) = map N.of_nat (seq 0 n).
Proof.
  intros n. rewrite (sort_perm _ (map N.of_nat (seq 0 n))) by (apply Permutation_sym, Permutation_rev).
  apply sort_id. generalize 0%nat. induction n as [|n IH]; intros s; cbn [seq map wsorted]; [exact I|].
  split; [|apply IH]. rewrite Forall_forall. intros x Hx. apply in_map_iff in Hx as (i & <- & Hi).
  apply in_seq in Hi. lia.
Qed.

Lemma last_only_front : forall c front lastp,
  snd lastp = None -> Forall (fun p => snd p <> None) front ->
  last_only_without_after (map (to_opage c) (front ++ [lastp])) = true.
Proof.
  intros c front lastp Hl. induction front as [|p front IH]; intros Hf.
  - cbn. now rewrite Hl.
  - inversion Hf; subst. cbn [app map]. specialize (IH H2).
    destruct (map (to_opage c) (front ++ [lastp])) as [|y rest] eqn:E.
    + rewrite map_app in E. apply app_eq_nil in E as [_ E]. discriminate.
    + cbn [last_only_without_after to_opage o_after]. destruct (snd p); [exact IH|contradiction].
Qed.

Theorem model_meets_spec : forall c, wf c = true ->
  exists ps, model_pages c = Some ps /\ spec (with_pages c ps) = true.
Proof.
  intros c Hwf. unfold wf in Hwf. apply andb_true_iff in Hwf as [Hsz Hlen].
  apply N.ltb_lt in Hsz. apply Nat.eqb_eq in Hlen.
  set (l := rev (ranks_of c)).
  assert (Hll : length l = length (keys c)).
  { unfold l, ranks_of. now rewrite rev_length, map_length, seq_length. }
  assert (Hnd : NoDup l).
  { unfold l, ranks_of. apply NoDup_rev.
    apply FinFun.Injective_map_NoDup; [intros x y; apply Nat2N.inj|apply seq_NoDup]. }
  destruct (paging_complete l (N.to_nat (size c)) (S (S (length (keys c)))))
    as (ms & Hw & Hc & front & lastp & Hms & Hlast & Hfront); try assumption; try lia.
  unfold model_pages. fold l. rewrite Hw. cbn [option_map]. eexists. split; [reflexivity|].
  unfold spec. cbn [with_pages overrun pages unpaged negb andb].
  repeat (apply andb_true_iff; split).
  - apply forallb_forall. intros p Hp. apply in_map_iff in Hp as (m & <- & _). reflexivity.
  - rewrite map_map.
    rewrite (map_ext _ (fun m => map (bucket_of c) (fst m))) by reflexivity.
    rewrite <- (map_map fst (map (bucket_of c))), <- concat_map, Hc.
    unfold l, ranks_of. rewrite ranks_sorted, Hlen. unfold bucket_of. rewrite map_nth_seq.
    apply b3_list_refl.
  - rewrite Hms. apply last_only_front; [exact Hlast|].
    eapply Forall_impl; [|exact Hfront]. cbn. tauto.
Qed.
