(** C15 — Every accepted document can be committed.  Definitions only.

    [M]  [accept]  : IndexWriter::add_document = Schema::validate_document (manifest.rs:
         validate_field_value, NestedField::validate, NestedProperty::validate_value, vector
         values) + doc_id_from_document;
         [collect_ok] : segment.rs collect_document / collect_nested / collect_nested_object /
         collect_vector_value succeeding at commit;  [commit_ok] : write_segment_stream for one
         queued document (validate_document again, collect_document, DocStoreWriter size limit).
    [S]  [conforms] : "the document conforms to the schema", written from the property text.

    Only the shape of values matters: a string is blank or not, a number is an i64 or not (every
    JSON number is an f64).  Field names are interned; the names of leaf fields, nested fields and
    vector fields of one level are assumed distinct (one name space), as are the keys of a JSON
    object. *)
From Coq Require Import List NArith Bool.
From SL Require Import Base.Tie.
Import ListNotations.
Open Scope N_scope.

Inductive jv :=
| VNull
| VBool
| VStr (blank : bool)
| VNum (is_i64 : bool)
| VArr (l : list jv)
| VObj (m : list (N * jv)).

Definition jobj := list (N * jv).

Fixpoint vlookup (k : N) (m : jobj) : option jv :=
  match m with
  | [] => None
  | (k', v) :: m' => if N.eqb k k' then Some v else vlookup k m'
  end.

(** leaf kinds: text and keyword fields take strings; numeric fields are i64 or f64 *)
Inductive lk := LStr | LI64 | LF64.

Inductive prop :=
| PLeaf (name : N) (k : lk) (nullable : bool)
| PObj (name : N) (nullable : bool) (fields : list prop).

Definition pname (p : prop) : N := match p with PLeaf n _ _ => n | PObj n _ _ => n end.
Definition pnullable (p : prop) : bool := match p with PLeaf _ _ b => b | PObj _ b _ => b end.

Fixpoint find_prop (ps : list prop) (n : N) : option prop :=
  match ps with
  | [] => None
  | p :: ps' => if N.eqb (pname p) n then Some p else find_prop ps' n
  end.

Record schema := mkschema {
  s_id : N;                      (* doc_id_field *)
  s_props : list prop;           (* text/keyword/numeric fields and nested_fields *)
  s_vecs : list (N * N)          (* vector fields: name, dim *)
}.

Fixpoint find_vec (vs : list (N * N)) (n : N) : option N :=
  match vs with
  | [] => None
  | (k, dim) :: vs' => if N.eqb k n then Some dim else find_vec vs' n
  end.

Definition has_key (k : N) (m : jobj) : bool := match vlookup k m with Some _ => true | None => false end.

(* ------------------------------------------------------------------ M: add time *)
(** is_string_or_string_array / is_i64_or_array / is_f64_or_array *)
Definition scalar_ok (k : lk) (v : jv) : bool :=
  match k, v with
  | LStr, VStr _ => true
  | LI64, VNum true => true
  | LF64, VNum _ => true
  | _, _ => false
  end.

Definition typed_value (k : lk) (v : jv) : bool :=
  match v with
  | VArr l => forallb (scalar_ok k) l
  | _ => scalar_ok k v
  end.

(** validate_field_value (top level) and NestedProperty::validate_value (nested leaves) *)
Definition validate_field_value (k : lk) (nullable : bool) (v : jv) : bool :=
  match v with VNull => nullable | _ => typed_value k v end.

Definition validate_value_leaf (k : lk) (nullable : bool) (v : jv) : bool :=
  match v with VNull => nullable | _ => typed_value k v end.

(** NestedField::validate: null only when nullable; an object; or an array of objects (null
    entries only when nullable).  Object: every key is a declared property with a valid value,
    every non-nullable property is present. *)
Fixpoint validate_nested (v : jv) (fields : list prop) (nullable : bool) {struct v} : bool :=
  match v with
  | VNull => nullable
  | VObj m =>
      forallb (fun kv => match kv with (k, x) =>
        match find_prop fields k with
        | Some (PLeaf _ kd nl) => validate_value_leaf kd nl x
        | Some (PObj _ nl fs') => match x with VNull => nl | _ => validate_nested x fs' nl end
        | None => false
        end end) m
      && forallb (fun p => has_key (pname p) m || pnullable p) fields
  | VArr l =>
      forallb (fun e => match e with
        | VNull => nullable
        | VObj m =>
            forallb (fun kv => match kv with (k, x) =>
              match find_prop fields k with
              | Some (PLeaf _ kd nl) => validate_value_leaf kd nl x
              | Some (PObj _ nl fs') => match x with VNull => nl | _ => validate_nested x fs' nl end
              | None => false
              end end) m
            && forallb (fun p => has_key (pname p) m || pnullable p) fields
        | _ => false
        end) l
  | _ => false
  end.

(** vector values: null, or an array of exactly [dim] numbers *)
Definition nlen {A} (l : list A) : N := N.of_nat (length l).

Definition vector_ok (dim : N) (v : jv) : bool :=
  match v with
  | VNull => true
  | VArr l => forallb (scalar_ok LF64) l && N.eqb (nlen l) dim
  | _ => false
  end.

Definition id_ok (sch : schema) (d : jobj) : bool :=
  match vlookup (s_id sch) d with Some (VStr false) => true | _ => false end.

(** Schema::validate_document *)
Definition validate_document (sch : schema) (d : jobj) : bool :=
  id_ok sch d
  && forallb (fun kv => match kv with (k, x) =>
       if N.eqb k (s_id sch) then true
       else match find_vec (s_vecs sch) k with
            | Some dim => vector_ok dim x
            | None =>
                match find_prop (s_props sch) k with
                | Some (PLeaf _ kd nl) => validate_field_value kd nl x
                | Some (PObj _ nl fs) => validate_nested x fs nl
                | None => false
                end
            end end) d.

(** IndexWriter::add_document: validate_document, then doc_id_from_document *)
Definition accept (sch : schema) (d : jobj) : bool := validate_document sch d && id_ok sch d.

(* ------------------------------------------------------------------ M: commit time *)
(** collect_nested / collect_nested_object: leaf values are never refused here *)
Fixpoint collect_nested (v : jv) (fields : list prop) (nullable : bool) {struct v} : bool :=
  match v with
  | VNull => nullable
  | VObj m =>
      forallb (fun kv => match kv with (k, x) =>
        match find_prop fields k with
        | Some (PLeaf _ _ _) => true
        | Some (PObj _ nl fs') => match x with VNull => nl | _ => collect_nested x fs' nl end
        | None => false
        end end) m
      && forallb (fun p => has_key (pname p) m || pnullable p) fields
  | VArr l =>
      forallb (fun e => match e with
        | VNull => nullable
        | VObj m =>
            forallb (fun kv => match kv with (k, x) =>
              match find_prop fields k with
              | Some (PLeaf _ _ _) => true
              | Some (PObj _ nl fs') => match x with VNull => nl | _ => collect_nested x fs' nl end
              | None => false
              end end) m
            && forallb (fun p => has_key (pname p) m || pnullable p) fields
        | _ => false
        end) l
  | _ => false
  end.

(** collect_document (a missing id would panic: "doc ids validated upstream") *)
Definition collect_ok (sch : schema) (d : jobj) : bool :=
  match vlookup (s_id sch) d with Some (VStr _) => true | _ => false end
  && forallb (fun kv => match kv with (k, x) =>
       if N.eqb k (s_id sch) then true
       else match find_vec (s_vecs sch) k with
            | Some dim => vector_ok dim x
            | None =>
                match find_prop (s_props sch) k with
                | Some (PLeaf _ _ _) => true
                | Some (PObj _ nl fs) => match x with VNull => nl | _ => collect_nested x fs nl end
                | None => false
                end
            end end) d.

(** One queued document at commit: write_segment_stream validates again, collects, and hands
    the stored form to the docstore, which refuses more than 32 MiB ([big]). *)
Definition commit_ok (sch : schema) (d : jobj) (big : bool) : bool :=
  validate_document sch d && collect_ok sch d && negb big.

(* ------------------------------------------------------------------ S *)
(** The document conforms to the schema: it has a non-blank string id; every other field is a
    declared field; values have the declared type (a value or an array of values; null only
    where nullable); vectors are null or arrays of [dim] numbers; a nested value is null (if
    nullable), an object, or an array of objects (null entries if nullable); a nested object has
    only declared properties, well-typed, and all required ones. *)
Definition value_conforms (k : lk) (nullable : bool) (v : jv) : bool :=
  match v with
  | VNull => nullable
  | VStr _ => match k with LStr => true | _ => false end
  | VNum i => match k with LStr => false | LI64 => i | LF64 => true end
  | VArr l => forallb (fun e => match e, k with
                               | VStr _, LStr => true
                               | VNum i, LI64 => i
                               | VNum _, LF64 => true
                               | _, _ => false
                               end) l
  | _ => false
  end.

Fixpoint nested_conforms (v : jv) (fields : list prop) (nullable : bool) {struct v} : bool :=
  match v with
  | VNull => nullable
  | VObj m =>
      forallb (fun p => pnullable p || has_key (pname p) m) fields
      && forallb (fun kv => match kv with (k, x) =>
           match find_prop fields k with
           | None => false
           | Some (PLeaf _ kd nl) => value_conforms kd nl x
           | Some (PObj _ nl fs') => nested_conforms x fs' nl
           end end) m
  | VArr l =>
      forallb (fun e => match e with
        | VNull => nullable
        | VObj m =>
            forallb (fun p => pnullable p || has_key (pname p) m) fields
            && forallb (fun kv => match kv with (k, x) =>
                 match find_prop fields k with
                 | None => false
                 | Some (PLeaf _ kd nl) => value_conforms kd nl x
                 | Some (PObj _ nl fs') => nested_conforms x fs' nl
                 end end) m
        | _ => false
        end) l
  | _ => false
  end.

Definition vector_conforms (dim : N) (v : jv) : bool :=
  match v with
  | VNull => true
  | VArr l => N.eqb (nlen l) dim && forallb (fun e => match e with VNum _ => true | _ => false end) l
  | _ => false
  end.

Definition conforms (sch : schema) (d : jobj) : bool :=
  match vlookup (s_id sch) d with Some (VStr false) => true | _ => false end
  && forallb (fun kv =>
       N.eqb (fst kv) (s_id sch)
       || match find_vec (s_vecs sch) (fst kv), find_prop (s_props sch) (fst kv) with
          | Some dim, _ => vector_conforms dim (snd kv)
          | None, Some (PLeaf _ kd nl) => value_conforms kd nl (snd kv)
          | None, Some (PObj _ nl fs) => nested_conforms (snd kv) fs nl
          | None, None => false
          end) d.

(* ------------------------------------------------------------------ the tie *)
(** One case: a schema, a document, whether its stored form exceeds the docstore limit.
    Observation: add_document accepted it; the commit that follows succeeded; a further
    add of a known-good document + commit succeeded ("later commits are not blocked").  When the
    document is rejected the two commits have nothing of it to process and must succeed. *)
Record case_in := mkcase { c_sch : schema; c_doc : jobj; c_big : bool }.
Record case_obs := mkobs { o_add : bool; o_commit : bool; o_later : bool }.

Definition model (i : case_in) : case_obs :=
  let a := accept (c_sch i) (c_doc i) in
  let c := if a then commit_ok (c_sch i) (c_doc i) (c_big i) else true in
  {| o_add := a; o_commit := c; o_later := c |}.

Definition spec (i : case_in) (o : case_obs) : bool :=
  (* an accepted document can be committed and blocks nothing; a rejected one leaves no trace *)
  o_commit o && o_later o
  (* a document that violates the schema is rejected when it is queued *)
  && (conforms (c_sch i) (c_doc i) || negb (o_add o)).

(** known class 1: the stored form of the document exceeds MAX_DOCSTORE_BYTES *)
Definition known_class (i : case_in) : N := if c_big i then 1 else 0.

Definition obs_eqb (a b : case_obs) : bool :=
  Bool.eqb (o_add a) (o_add b) && Bool.eqb (o_commit a) (o_commit b) && Bool.eqb (o_later a) (o_later b).

Definition check_case (c : case_in * case_obs) : N :=
  let (i, o) := c in verdict (obs_eqb o (model i)) (spec i o) (known_class i).
