(** C15 — proofs: what add-time validation accepts, commit-time collection accepts; validation
    is exactly schema conformance. *)
From Coq Require Import List NArith Bool Lia.
From SL Require Import C15.Model.
Import ListNotations.
Open Scope N_scope.

Lemma forallb_ext_in {A} (f g : A -> bool) l :
  (forall x, In x l -> f x = g x) -> forallb f l = forallb g l.
Proof.
  induction l as [|a l IH]; intros H; simpl; [reflexivity|].
  rewrite (H a (or_introl eq_refl)). f_equal. apply IH. intros x Hx. apply H. right. exact Hx.
Qed.

Lemma forallb_impl_in {A} (f g : A -> bool) l :
  (forall x, In x l -> f x = true -> g x = true) -> forallb f l = true -> forallb g l = true.
Proof.
  intros H. rewrite !forallb_forall. intros Hf x Hx. apply H; [exact Hx|]. apply Hf. exact Hx.
Qed.

(** induction over JSON values with the induction hypothesis for array entries and member values *)
Fixpoint jv_ind' (P : jv -> Prop)
  (Hn : P VNull) (Hb : P VBool) (Hs : forall b, P (VStr b)) (Hnum : forall b, P (VNum b))
  (Ha : forall l, Forall P l -> P (VArr l))
  (Ho : forall m, Forall (fun kv => P (snd kv)) m -> P (VObj m)) (v : jv) {struct v} : P v :=
  match v with
  | VNull => Hn
  | VBool => Hb
  | VStr b => Hs b
  | VNum b => Hnum b
  | VArr l =>
      Ha l ((fix go (l : list jv) : Forall P l :=
               match l with
               | [] => Forall_nil P
               | x :: l' => Forall_cons x (jv_ind' P Hn Hb Hs Hnum Ha Ho x) (go l')
               end) l)
  | VObj m =>
      Ho m ((fix go (m : list (N * jv)) : Forall (fun kv => P (snd kv)) m :=
               match m with
               | [] => Forall_nil _
               | kv :: m' =>
                   Forall_cons (P := fun kv => P (snd kv)) kv
                     (match kv as kv0 return P (snd kv0) with
                      | (k, x) => jv_ind' P Hn Hb Hs Hnum Ha Ho x
                      end) (go m')
               end) m)
  end.

(* ------------------------------------------------------------------ validate ==> collect *)
Lemma nested_validate_collect : forall v fields nullable,
  validate_nested v fields nullable = true -> collect_nested v fields nullable = true.
Proof.
  induction v using jv_ind'; intros fields nullable Hv; simpl in *; try exact Hv.
  - (* array *)
    revert Hv. apply forallb_impl_in. intros e He.
    rewrite Forall_forall in H. specialize (H e He).
    destruct e; try (intros X; exact X).
    apply (H fields nullable).
  - (* object *)
    apply andb_true_iff in Hv as [Hm Hreq]. apply andb_true_iff. split; [|exact Hreq].
    revert Hm. apply forallb_impl_in. intros [k x] Hk.
    rewrite Forall_forall in H. specialize (H (k, x) Hk). simpl in H.
    destruct (find_prop fields k) as [[nm kd nl|nm nl fs']|]; try (intros X; exact X).
    + intros _. reflexivity.
    + destruct x; try (intros X; exact X); apply (H fs' nl).
Qed.

Lemma validate_collect sch d : validate_document sch d = true -> collect_ok sch d = true.
Proof.
  unfold validate_document, collect_ok, id_ok. intros H.
  apply andb_true_iff in H as [Hid Hf]. apply andb_true_iff. split.
  - destruct (vlookup (s_id sch) d) as [[| |b| | |]|]; try discriminate. reflexivity.
  - revert Hf. apply forallb_impl_in. intros [k x] _.
    destruct (N.eqb k (s_id sch)); [intros X; exact X|].
    destruct (find_vec (s_vecs sch) k); [intros X; exact X|].
    destruct (find_prop (s_props sch) k) as [[nm kd nl|nm nl fs]|]; try (intros X; exact X).
    + intros _. reflexivity.
    + intros Hv. pose proof (nested_validate_collect x fs nl Hv) as Hc.
      destruct x; simpl in *; try exact Hc; exact Hv.
Qed.

Theorem accept_implies_commit : forall sch d big,
  accept sch d = true -> big = false -> commit_ok sch d big = true.
Proof.
  intros sch d big Ha ->. unfold accept in Ha. apply andb_true_iff in Ha as [Hv _].
  unfold commit_ok. rewrite Hv, (validate_collect _ _ Hv). reflexivity.
Qed.

(** Excluding the size class is necessary: an accepted document whose stored form is too big. *)
Theorem accept_implies_commit_refuted :
  exists sch d big, accept sch d = true /\ commit_ok sch d big = false.
Proof.
  exists (mkschema 0 [PLeaf 1 LStr false] []), [(0, VStr false); (1, VStr false)], true.
  vm_compute. split; reflexivity.
Qed.

(* ------------------------------------------------------------------ validate = conforms *)
Lemma scalar_conf k e :
  scalar_ok k e = match e, k with
                  | VStr _, LStr => true
                  | VNum i, LI64 => i
                  | VNum _, LF64 => true
                  | _, _ => false
                  end.
Proof. destruct k, e; try reflexivity; destruct is_i64; reflexivity. Qed.

Lemma value_validate_conforms k nl v : validate_field_value k nl v = value_conforms k nl v.
Proof.
  destruct v as [| |b|i|l|m]; simpl;
    [ reflexivity
    | destruct k; reflexivity
    | destruct k; reflexivity
    | destruct k, i; reflexivity
    | apply forallb_ext_in; intros e _; apply scalar_conf
    | destruct k; reflexivity ].
Qed.

Lemma leaf_validate_conforms k nl v : validate_value_leaf k nl v = value_conforms k nl v.
Proof. apply value_validate_conforms. Qed.

Lemma vector_validate_conforms dim v : vector_ok dim v = vector_conforms dim v.
Proof.
  destruct v; simpl; try reflexivity. rewrite andb_comm. f_equal.
Qed.

Lemma nested_validate_conforms : forall v fields nullable,
  validate_nested v fields nullable = nested_conforms v fields nullable.
Proof.
  assert (Hreq : forall fields m,
    forallb (fun p => has_key (pname p) m || pnullable p) fields
    = forallb (fun p => pnullable p || has_key (pname p) m) fields).
  { intros. apply forallb_ext_in. intros p _. apply orb_comm. }
  induction v using jv_ind'; intros fields nullable; simpl; try reflexivity.
  - apply forallb_ext_in. intros e He.
    rewrite Forall_forall in H. specialize (H e He).
    destruct e; try reflexivity. apply (H fields nullable).
  - rewrite andb_comm, Hreq. f_equal.
    apply forallb_ext_in. intros [k x] Hk.
    rewrite Forall_forall in H. specialize (H (k, x) Hk). simpl in H.
    destruct (find_prop fields k) as [[nm kd nl|nm nl fs']|]; try reflexivity.
    + apply leaf_validate_conforms.
    + rewrite <- (H fs' nl). destruct x; reflexivity.
Qed.

Theorem accept_is_conforms : forall sch d, accept sch d = conforms sch d.
Proof.
  intros sch d. unfold accept, validate_document, conforms, id_ok.
  destruct (match vlookup (s_id sch) d with Some (VStr false) => true | _ => false end) eqn:E;
    [|reflexivity].
  rewrite andb_true_r. cbn [andb].
  apply forallb_ext_in. intros [k x] _. simpl.
  destruct (N.eqb k (s_id sch)); [reflexivity|]. simpl.
  destruct (find_vec (s_vecs sch) k); [apply vector_validate_conforms|].
  destruct (find_prop (s_props sch) k) as [[nm kd nl|nm nl fs]|]; try reflexivity.
  - apply value_validate_conforms.
  - apply nested_validate_conforms.
Qed.

Theorem rejects_bad : forall sch d, conforms sch d = false -> accept sch d = false.
Proof. intros sch d H. rewrite accept_is_conforms. exact H. Qed.

(* ------------------------------------------------------------------ the model meets the spec *)
Theorem model_meets_spec : forall i, c_big i = false -> spec i (model i) = true.
Proof.
  intros i Hb. unfold spec, model. simpl.
  destruct (accept (c_sch i) (c_doc i)) eqn:Ha.
  - rewrite (accept_implies_commit _ _ _ Ha Hb). rewrite <- accept_is_conforms, Ha. reflexivity.
  - simpl. apply orb_true_r.
Qed.
