(** C24 — proofs about the response function of C24/Model.v.  The request classes form a finite
    product of enumerations; the central lemma is checked on every element of it. *)
From Coq Require Import List NArith Bool Lia.
From SL Require Import Base.Tie C24.Table C24.Model.
Import ListNotations.
Open Scope N_scope.

Definition check_q (q : request) : bool :=
  if wf q && (known_class q =? 0) then
    match respond q with Answer st sh => answer_ok q st sh | NoAnswer => false end
  else true.

Lemma check_all : forall q, check_q q = true.
Proof.
  intros [t m s b i c].
  destruct t as [r| |]; [destruct r| |]; destruct m; destruct s; destruct b; destruct i; destruct c;
    vm_compute; reflexivity.
Qed.

Lemma total_ok : forall q, wf q = true -> known_class q = 0 ->
  exists st sh, respond q = Answer st sh /\ answer_ok q st sh = true.
Proof.
  intros q Hwf Hk. pose proof (check_all q) as H. unfold check_q in H.
  rewrite Hwf, Hk in H. cbn in H.
  destruct (respond q) as [st sh|]; [|discriminate]. eauto.
Qed.

(** [answer_ok], unpacked. *)
Lemma answer_ok_parts : forall q st sh, answer_ok q st sh = true ->
  (is_2xx st = true -> failure q = false /\ shape_is_doc sh q = true)
  /\ (is_2xx st = false -> shape_is_error sh q = true)
  /\ (invalid_input q = true -> is_4xx st = true)
  /\ (index_missing q = true -> st = 404)
  /\ (reinit q = true -> st = 409)
  /\ (oversized q = true -> st = 413).
Proof.
  intros q st sh H. unfold answer_ok in H.
  apply andb_true_iff in H as [H H6]. apply andb_true_iff in H as [H H5].
  apply andb_true_iff in H as [H H4]. apply andb_true_iff in H as [H H3].
  apply andb_true_iff in H as [_ H2].
  split; [|split; [|split; [|split; [|split]]]].
  - intros E. rewrite E in H2. apply andb_true_iff in H2 as [Ha Hb].
    apply negb_true_iff in Ha. now split.
  - intros E. now rewrite E in H2.
  - intros E. now rewrite E in H3.
  - intros E. rewrite E in H4. now apply N.eqb_eq in H4.
  - intros E. rewrite E in H5. now apply N.eqb_eq in H5.
  - intros E. rewrite E in H6. now apply N.eqb_eq in H6.
Qed.

Lemma total_wellformed : forall q, wf q = true -> known_class q = 0 ->
  exists st sh, respond q = Answer st sh
  /\ (is_2xx st = true -> failure q = false /\ shape_is_doc sh q = true)
  /\ (is_2xx st = false -> shape_is_error sh q = true)
  /\ (invalid_input q = true -> is_4xx st = true)
  /\ (index_missing q = true -> st = 404)
  /\ (reinit q = true -> st = 409)
  /\ (oversized q = true -> st = 413).
Proof.
  intros q Hwf Hk. destruct (total_ok q Hwf Hk) as (st & sh & E & H).
  exists st, sh. split; [assumption|]. now apply answer_ok_parts.
Qed.

(** An error body always carries a kind of the table, with the status the table gives it. *)
Definition status_matches_kind (a : response) : bool :=
  match a with
  | Answer st (SErr k) => (st =? status_of k) && negb (kind_code k =? 0)
  | _ => true
  end.

Lemma error_status_from_table : forall q, status_matches_kind (respond q) = true.
Proof.
  intros [t m s b i c].
  destruct t as [r| |]; [destruct r| |]; destruct m; destruct s; destruct b; destruct i; destruct c;
    vm_compute; reflexivity.
Qed.

(** A panic of the core, when the request reaches it, is answered with a 500 [*_join] error. *)
Definition reaches_core (q : request) : bool :=
  negb (failure {| q_target := q_target q; q_meth := q_meth q; q_size := q_size q;
                   q_body := q_body q; q_idx := q_idx q; q_core := CoreOk |})
  && match q_target q with Known (R_healthz | R_inspect | R_stats) => false | Known R_add => negb (match q_body q with BNoDocs => true | _ => false end) | _ => true end.

Definition panic_contained_b (q : request) : bool :=
  match q_core q with
  | CorePanic =>
      if wf q && reaches_core q then
        match respond q with
        | Answer st (SErr _) => st =? 500
        | Answer st SBare => (st =? 500) && match q_meth q with MHead => true | _ => false end
        | _ => false
        end
      else true
  | _ => true
  end.

Lemma core_panic_contained_b : forall q, panic_contained_b q = true.
Proof.
  intros [t m s b i c].
  destruct t as [r| |]; [destruct r| |]; destruct m; destruct s; destruct b; destruct i; destruct c;
    vm_compute; reflexivity.
Qed.

Lemma core_panic_contained : forall q,
  wf q = true -> q_core q = CorePanic -> reaches_core q = true -> q_meth q <> MHead ->
  exists k, respond q = Answer 500 (SErr k).
Proof.
  intros q Hwf Hc Hr Hm. pose proof (core_panic_contained_b q) as H.
  unfold panic_contained_b in H. rewrite Hc, Hwf, Hr in H. cbn in H.
  destruct (respond q) as [st sh|]; [|discriminate].
  destruct sh as [r|k| |]; try discriminate.
  - apply N.eqb_eq in H. subst. eauto.
  - apply andb_true_iff in H as [_ H]. destruct (q_meth q); try discriminate. now elim Hm.
Qed.

Lemma model_meets_spec : forall q, wf q = true -> known_class q = 0 ->
  spec q {| o_resp := respond q; o_alive := true |} = true.
Proof.
  intros q Hwf Hk. destruct (total_ok q Hwf Hk) as (st & sh & E & H).
  unfold spec. cbn. now rewrite E.
Qed.

(** Known finding 1 is real in the model: a streamed oversized /bulk body is answered 400. *)
Definition streamed_bulk : request :=
  {| q_target := Known R_bulk; q_meth := MPost; q_size := SzStreamed; q_body := BOk;
     q_idx := true; q_core := CoreOk |}.

Lemma streamed_oversize_refuted :
  wf streamed_bulk = true /\ oversized streamed_bulk = true
  /\ respond streamed_bulk = Answer 400 (SErr K_invalid_request)
  /\ spec streamed_bulk {| o_resp := respond streamed_bulk; o_alive := true |} = false.
Proof. vm_compute. repeat split; reflexivity. Qed.
