(** C24 — response function of the HTTP service (searchlite-http/src/lib.rs: router, map_413,
    handle_middleware_error, HttpError::into_response, parse_json and the eleven handlers).
    Definitions only.  The error table, the route table, the fallbacks and "which handler uses
    spawn_blocking" come from C24/Table.v, which checks/c24.py regenerates from lib.rs on every
    run — if the code changes a status, drops a fallback or moves core work back onto the async
    worker, the definitions below change with it and the theorems are re-checked. *)

From Coq Require Import List NArith Bool.
From SL Require Import Base.Tie C24.Table.
Import ListNotations.
Open Scope N_scope.

(** ** Request classes *)

Inductive meth := MGet | MPost | MHead | MPut | MDelete | MPatch | MOptions.

(** [Garbage]: bytes that are not an HTTP/1.1 request head (answered by hyper itself). *)
Inductive target := Known (r : route) | UnknownPath | Garbage.

(** Outcome of the blocking core call of the handler, if the request gets that far
    (IndexBuilder::create, add_document loop, delete_documents, commit, refresh, compact,
    IndexReader::search).  The engine classifies it by running the same call through the
    library. *)
Inductive core := CoreOk | CoreErr | CorePanic.

(** Class of the body with respect to the handler's own parsing and checks. *)
Inductive bclass :=
  | BNone          (* handler takes no body                                                   *)
  | BOk            (* parses and passes the handler's checks                                  *)
  | BUnparsable    (* Json extractor rejects it (syntax, shape, content type); /add: bad line *)
  | BEmptyList     (* "docs" / "ids" empty                                                    *)
  | BBadElem       (* a document that is not an object / an id refused by validate_ids        *)
  | BNoDocs        (* /add: no document at all (empty body, blank lines)                      *)
  | BBadUtf8       (* /add: a line that is not valid UTF-8 is reached (read_line fails) before
                      any line the handler refuses                                            *)
  | BZeroLimit.    (* /search: limit = 0                                                      *)

Inductive size :=
  | SzOk
  | SzDeclared     (* Content-Length above --max-body-bytes                                   *)
  | SzStreamed     (* chunked body, no Content-Length, crosses the limit while being read     *)
  | SzSlow.        (* body never completes: the request timeout fires                         *)

Record request := {
  q_target : target;
  q_meth   : meth;
  q_size   : size;
  q_body   : bclass;
  q_idx    : bool;     (* the index manifest exists on disk *)
  q_core   : core
}.

(** ** Responses *)

Inductive shape :=
  | SDoc (r : route)   (* the documented JSON of route r                        *)
  | SErr (k : kind)    (* {"error":{"type":k,"reason":<string>}}                  *)
  | SBare              (* empty body                                            *)
  | SOtherBody.        (* anything else                                         *)

Inductive response := Answer (status : N) (sh : shape) | NoAnswer.

Record obs := { o_resp : response; o_alive : bool (* /healthz answered 200 right after *) }.

(** ** M *)

Definition err (k : kind) : response := Answer (status_of k) (SErr k).

Definition meth_matches (r : route) (m : meth) : bool :=
  match route_method r, m with
  | HGet, MGet | HGet, MHead (* axum serves HEAD through the GET handler *)
  | HPost, MPost | HPut, MPut | HDelete, MDelete | HPatch, MPatch => true
  | _, _ => false
  end.

(** Does the handler read the request body? *)
Definition reads_body (r : route) : bool :=
  match r with R_init | R_add | R_bulk | R_delete | R_search => true | _ => false end.

Definition needs_index (r : route) : bool :=
  match r with R_healthz | R_init => false | _ => true end.

(** [spawn_blocking(..).await.map_err(join)?.map_err(fail)?]; a panic of inline core code
    unwinds the connection task: no response. *)
Definition after_core (r : route) (c : core) (fail join : kind) : response :=
  match c with
  | CoreOk => Answer 200 (SDoc r)
  | CoreErr => err fail
  | CorePanic => if handler_blocking r then err join else NoAnswer
  end.

Definition handler (r : route) (q : request) : response :=
  match r with
  | R_healthz => Answer 200 (SDoc r)
  | R_init =>
      match q_size q, q_body q with
      | SzSlow, _ => err K_timeout                   (* the extractor waits for the body *)
      | SzStreamed, _ => err K_invalid_request       (* BytesRejection goes through parse_json *)
      | _, BUnparsable => err K_invalid_request
      | _, _ => if q_idx q then err K_index_exists
                else after_core r (q_core q) K_init_failed K_init_join
      end
  | R_add =>
      if negb (q_idx q) then err K_index_missing
      else match q_size q, q_body q with
           | SzSlow, _ => err K_timeout
           | SzStreamed, _ => err K_read_body
           | _, BBadUtf8 => err K_read_body
           | _, BUnparsable => err K_invalid_document
           | _, BBadElem => err K_invalid_document
           | _, BNoDocs => Answer 200 (SDoc r)
           | _, _ => after_core r (q_core q) K_add_failed K_add_join
           end
  | R_bulk =>
      match q_size q, q_body q with
      | SzSlow, _ => err K_timeout
      | SzStreamed, _ => err K_invalid_request
      | _, BUnparsable => err K_invalid_request
      | _, BEmptyList => err K_missing_documents
      | _, BBadElem => err K_invalid_document
      | _, _ => if negb (q_idx q) then err K_index_missing
                else after_core r (q_core q) K_add_failed K_add_join
      end
  | R_delete =>
      match q_size q, q_body q with
      | SzSlow, _ => err K_timeout
      | SzStreamed, _ => err K_invalid_request
      | _, BUnparsable => err K_invalid_request
      | _, BEmptyList => err K_missing_ids
      | _, BBadElem => err K_invalid_id
      | _, _ => if negb (q_idx q) then err K_index_missing
                else after_core r (q_core q) K_delete_failed K_delete_join
      end
  | R_commit =>
      if negb (q_idx q) then err K_index_missing
      else after_core r (q_core q) K_commit_failed K_commit_join
  | R_refresh =>
      if negb (q_idx q) then err K_index_missing
      else after_core r (q_core q) K_refresh_failed K_refresh_join
  | R_compact =>
      if negb (q_idx q) then err K_index_missing
      else after_core r (q_core q) K_compact_failed K_compact_join
  | R_search =>
      match q_size q, q_body q with
      | SzSlow, _ => err K_timeout
      | SzStreamed, _ => err K_invalid_request
      | _, BUnparsable => err K_invalid_request
      | _, BZeroLimit => err K_invalid_limit
      | _, _ => if negb (q_idx q) then err K_index_missing
                else after_core r (q_core q) K_search_failed K_search_join
      end
  | R_inspect =>
      if negb (q_idx q) then err K_index_missing
      else after_core r (q_core q) K_inspect_failed K_inspect_join
  | R_stats =>
      if negb (q_idx q) then err K_index_missing
      else after_core r (q_core q) K_stats_failed K_stats_join
  end.

Definition fallback (k : option kind) (bare_status : N) : response :=
  match k with Some k => err k | None => Answer bare_status SBare end.

(** A HEAD response never carries a body (hyper drops it). *)
Definition strip_for_head (m : meth) (a : response) : response :=
  match m, a with
  | MHead, Answer st _ => Answer st SBare
  | _, _ => a
  end.

(** The layers wrap every route's method router and the fallback alike, so the order is:
    declared size (RequestBodyLimitLayer, rewritten by map_413) -> path -> method -> handler
    (the request timeout fires where the handler waits for a body that never completes). *)
Definition respond (q : request) : response :=
  strip_for_head (q_meth q)
    match q_size q, q_target q with
    | _, Garbage => Answer 400 SBare
    | SzDeclared, _ => err K_body_too_large
    | _, _ =>
        match q_target q with
        | UnknownPath => fallback unknown_route_kind 404
        | Garbage => Answer 400 SBare
        | Known r =>
            if negb (meth_matches r (q_meth q)) then fallback wrong_method_kind 405
            else handler r q
        end
    end.

(** ** Well-formed request classes (what the engine generates) *)

Definition body_applicable (t : target) (b : bclass) : bool :=
  match t, b with
  | Known R_init, (BOk | BUnparsable) => true
  | Known R_add, (BOk | BUnparsable | BBadElem | BNoDocs | BBadUtf8) => true
  | Known R_bulk, (BOk | BUnparsable | BEmptyList | BBadElem) => true
  | Known R_delete, (BOk | BUnparsable | BEmptyList | BBadElem) => true
  | Known R_search, (BOk | BUnparsable | BZeroLimit) => true
  | Known (R_healthz | R_commit | R_refresh | R_compact | R_inspect | R_stats), BNone => true
  | UnknownPath, BNone => true
  | Garbage, BNone => true
  | _, _ => false
  end.

Definition is_ok_core (c : core) : bool := match c with CoreOk => true | _ => false end.
Definition is_bok (b : bclass) : bool := match b with BOk => true | _ => false end.

(** The core outcome is only meaningful where a core call is made with the request's data. *)
Definition core_applicable (q : request) : bool :=
  match q_core q with
  | CoreOk => true
  | _ =>
      match q_target q with
      | Known (R_healthz | R_inspect | R_stats) => false
      | Known (R_commit | R_refresh | R_compact) => true
      | Known _ => is_bok (q_body q)
      | UnknownPath | Garbage => false
      end
  end.

Definition size_applicable (q : request) : bool :=
  match q_size q with
  | SzOk => true
  | SzDeclared => match q_target q with Garbage => false | _ => true end
  | SzStreamed | SzSlow =>
      (* generated only for a body-reading route, right method, otherwise valid body *)
      match q_target q with
      | Known r => reads_body r && meth_matches r (q_meth q) && is_bok (q_body q)
      | UnknownPath | Garbage => false
      end
  end.

Definition wf (q : request) : bool :=
  body_applicable (q_target q) (q_body q) && core_applicable q && size_applicable q.

(** ** S: the statement

    "Every HTTP request receives a response: successful calls return their documented JSON, and
     every failure returns a non-2xx status with a body of the form {"error":{"type","reason"}}
     - 4xx for invalid input, 404 when the index is missing, 409 for re-initialisation, 413 for
     oversized bodies - and no request, however malformed, ends the connection without a
     response or takes the server down." *)

Definition is_2xx (st : N) : bool := (200 <=? st) && (st <? 300).
Definition is_4xx (st : N) : bool := (400 <=? st) && (st <? 500).

Definition routed (q : request) : option route :=
  match q_target q with
  | Known r => if meth_matches r (q_meth q) then Some r else None
  | UnknownPath | Garbage => None
  end.

(** The request itself is at fault: no such route, wrong method, or a body the handler refuses. *)
Definition invalid_input (q : request) : bool :=
  match routed q with
  | None => true
  | Some _ =>
      match q_body q with
      | BUnparsable | BEmptyList | BBadElem | BZeroLimit | BBadUtf8 => true
      | _ => false
      end
  end.

Definition oversized (q : request) : bool :=
  match q_size q with SzDeclared | SzStreamed => true | _ => false end.

Definition index_missing (q : request) : bool :=
  match routed q with
  | Some r => needs_index r && negb (q_idx q) && negb (invalid_input q) && negb (oversized q)
              && match q_size q with SzSlow => false | _ => true end
  | None => false
  end.

Definition reinit (q : request) : bool :=
  match routed q with
  | Some R_init => q_idx q && negb (invalid_input q) && negb (oversized q)
                   && match q_size q with SzSlow => false | _ => true end
  | _ => false
  end.

(** Anything that is not a successful call. *)
Definition failure (q : request) : bool :=
  invalid_input q || oversized q || index_missing q || reinit q
  || negb (is_ok_core (q_core q))
  || match q_size q, routed q with SzSlow, Some r => reads_body r | _, _ => false end.

Definition route_code (r : route) : N :=
  match r with
  | R_healthz => 0 | R_init => 1 | R_add => 2 | R_bulk => 3 | R_delete => 4 | R_commit => 5
  | R_refresh => 6 | R_compact => 7 | R_search => 8 | R_inspect => 9 | R_stats => 10
  end.

(** the documented JSON of the route that was called (nothing for HEAD) *)
Definition shape_is_doc (sh : shape) (q : request) : bool :=
  match sh, routed q, q_meth q with
  | SBare, Some _, MHead => true
  | SDoc r, Some r', _ => route_code r =? route_code r'
  | _, _, _ => false
  end.

(** the error body; HEAD answers have no body, and bytes that are not HTTP are answered by the
    protocol layer (hyper), outside the application's reach (partial, see notes) *)
Definition shape_is_error (sh : shape) (q : request) : bool :=
  match sh, q_meth q, q_target q with
  | SErr _, _, _ => true
  | SBare, MHead, _ => true
  | SBare, _, Garbage => true
  | _, _, _ => false
  end.

Definition answer_ok (q : request) (st : N) (sh : shape) : bool :=
  (100 <=? st) && (st <? 600)
  && (if is_2xx st then negb (failure q) && shape_is_doc sh q else shape_is_error sh q)
  && (if invalid_input q then is_4xx st else true)
  && (if index_missing q then st =? 404 else true)
  && (if reinit q then st =? 409 else true)
  && (if oversized q then st =? 413 else true).

Definition spec (q : request) (o : obs) : bool :=
  o_alive o &&
  match o_resp o with
  | NoAnswer => false
  | Answer st sh => answer_ok q st sh
  end.

(** Known finding, class 1: a chunked body that crosses the limit while being read is turned into
    a 400 (parse_json maps every JsonRejection, /add maps every read error), not a 413. *)
Definition known_class (q : request) : N :=
  match q_size q with SzStreamed => 1 | _ => 0 end.

(** ** The tie *)

Definition kind_eqb (a b : kind) : bool := kind_code a =? kind_code b.

Definition shape_eqb (a b : shape) : bool :=
  match a, b with
  | SDoc r, SDoc r' => route_code r =? route_code r'
  | SErr k, SErr k' => kind_eqb k k'
  | SBare, SBare | SOtherBody, SOtherBody => true
  | _, _ => false
  end.

Definition response_eqb (a b : response) : bool :=
  match a, b with
  | Answer s x, Answer t y => (s =? t) && shape_eqb x y
  | NoAnswer, NoAnswer => true
  | _, _ => false
  end.

Definition check_case (c : request * obs) : N :=
  let (q, o) := c in
  if wf q then verdict (response_eqb (respond q) (o_resp o) && o_alive o) (spec q o) (known_class q)
  else 2.
