(** C19 — proofs about [rescore_hits] (repaired code) and the refutation for the code as found. *)
From Coq Require Import List NArith Bool Arith Lia Permutation.
From SL Require Import Base.Tie C19.Model.
Import ListNotations.
Open Scope N_scope.

(* ------------------------------------------------------------------ the stable sort *)

Fixpoint ksorted (l : list hit) : Prop :=
  match l with
  | [] => True
  | x :: t => Forall (fun y => h_key x <= h_key y) t /\ ksorted t
  end.

Lemma hinsert_perm : forall x s, Permutation (x :: s) (hinsert x s).
Proof.
  intros x s. induction s as [|a s IH]; cbn [hinsert]; [apply Permutation_refl|].
  destruct (h_key x <=? h_key a); [apply Permutation_refl|].
  eapply perm_trans; [apply perm_swap|]. now apply perm_skip.
Qed.

Lemma hsort_perm : forall l, Permutation l (hsort l).
Proof.
  induction l as [|a l IH]; cbn; [constructor|].
  eapply perm_trans; [|apply hinsert_perm]. now apply perm_skip.
Qed.

Lemma hsort_length : forall l, length (hsort l) = length l.
Proof. intros. symmetry. apply Permutation_length, hsort_perm. Qed.

Lemma hinsert_ksorted : forall x s, ksorted s -> ksorted (hinsert x s).
Proof.
  intros x s. induction s as [|a s IH]; cbn [hinsert ksorted]; intros H.
  - split; [constructor|exact I].
  - destruct H as [Ha Hs]. destruct (N.leb_spec (h_key x) (h_key a)) as [Hxa|Hxa]; cbn [ksorted].
    + split; [|split; assumption]. constructor; [exact Hxa|].
      eapply Forall_impl; [|exact Ha]. cbn. intros; lia.
    + split; [|apply IH; exact Hs].
      eapply Permutation_Forall; [apply hinsert_perm|]. constructor; [lia|exact Ha].
Qed.

Lemma hsort_ksorted : forall l, ksorted (hsort l).
Proof. induction l; cbn; [exact I|]. now apply hinsert_ksorted. Qed.

Lemma ksorted_app : forall a b, ksorted (a ++ b) ->
  ksorted a /\ ksorted b /\ forall x y, In x a -> In y b -> h_key x <= h_key y.
Proof.
  induction a as [|h a IH]; cbn; intros b H.
  - repeat split; [exact H|]. intros x y [].
  - destruct H as [Hh H]. destruct (IH b H) as (Ha & Hb & Hab).
    rewrite Forall_app in Hh. destruct Hh as [Hha Hhb].
    repeat split; try assumption.
    intros x y [E|Hx] Hy; [subst; rewrite Forall_forall in Hhb; now apply Hhb|now apply Hab].
Qed.

Lemma ksorted_nondecreasing : forall l, ksorted l -> keys_nondecreasing l = true.
Proof.
  induction l as [|a [|b t] IH]; intros H; try reflexivity.
  destruct H as [Ha Ht]. cbn [keys_nondecreasing]. apply andb_true_iff. split; [|now apply IH].
  inversion Ha; subst. now apply N.leb_le.
Qed.

(** stability: hits with equal keys keep their relative order *)
Lemma hinsert_stable_head : forall x s, Forall (fun y => h_key x <= h_key y) s -> hinsert x s = x :: s.
Proof.
  intros x [|a s] H; cbn [hinsert]; [reflexivity|]. inversion H; subst.
  destruct (N.leb_spec (h_key x) (h_key a)); [reflexivity|lia].
Qed.

Lemma hsort_id : forall l, ksorted l -> hsort l = l.
Proof.
  induction l as [|a l IH]; cbn; [reflexivity|]. intros [Ha Hl].
  fold (hsort l). rewrite IH by exact Hl. now apply hinsert_stable_head.
Qed.

(* ------------------------------------------------------------------ rescore_hits, repaired *)

Lemma firstn_min_len {A} : forall w (l : list A), firstn (Nat.min w (length l)) l = firstn w l.
Proof.
  intros w l. destruct (Nat.le_gt_cases w (length l)) as [H|H].
  - now rewrite Nat.min_l.
  - rewrite Nat.min_r by lia. rewrite firstn_all. symmetry. apply firstn_all2. lia.
Qed.

Lemma skipn_min_len {A} : forall w (l : list A), skipn (Nat.min w (length l)) l = skipn w l.
Proof.
  intros w l. destruct (Nat.le_gt_cases w (length l)) as [H|H].
  - now rewrite Nat.min_l.
  - rewrite Nat.min_r by lia. rewrite skipn_all. symmetry. apply skipn_all2. lia.
Qed.

(** The repaired function: the surviving window hits, re-sorted by their new keys, followed by
    the hits after the window exactly as they were. *)
Theorem rescore_fixed : forall w hits os,
  rescore_hits true w hits os = hsort (apply_all (firstn w hits) os) ++ skipn w hits.
Proof.
  intros w hits os. unfold rescore_hits.
  destruct (Nat.eqb_spec (Nat.min w (length hits)) 0) as [E|E].
  - assert (Hf : firstn w hits = []).
    { rewrite <- firstn_min_len, E. reflexivity. }
    assert (Hs : skipn w hits = hits).
    { rewrite <- skipn_min_len, E. reflexivity. }
    rewrite Hf, Hs. reflexivity.
  - rewrite firstn_min_len, skipn_min_len.
    set (K := apply_all (firstn w hits) os).
    rewrite firstn_app, Nat.sub_diag, firstn_all. cbn [firstn]. rewrite app_nil_r.
    rewrite skipn_app, Nat.sub_diag, skipn_all. reflexivity.
Qed.

(** what [apply_all] does, hit by hit *)
Lemma apply_all_cons : forall h hs o os,
  apply_all (h :: hs) (o :: os) = apply_out h o ++ apply_all hs os.
Proof. reflexivity. Qed.

Lemma apply_all_in : forall hs os g, In g (apply_all hs os) ->
  exists i h, nth_error hs i = Some h /\ In g (apply_out h (nth i os Keep)).
Proof.
  induction hs as [|h hs IH]; intros os g Hg; [destruct Hg|].
  destruct os as [|o os].
  - cbn [apply_all] in Hg. destruct Hg as [E|Hg].
    + exists 0%nat, h. split; [reflexivity|]. subst. now left.
    + destruct (IH [] g Hg) as (i & h' & Hn & Hi). exists (S i), h'. split; [exact Hn|].
      destruct i; exact Hi.
  - rewrite apply_all_cons in Hg. apply in_app_or in Hg as [Hg|Hg].
    + exists 0%nat, h. split; [reflexivity|exact Hg].
    + destruct (IH os g Hg) as (i & h' & Hn & Hi). exists (S i), h'. split; [exact Hn|exact Hi].
Qed.

(** a window hit is absent from the result exactly when its outcome is Drop; otherwise it is there
    with the untouched or the combined score *)
Lemma apply_out_spec : forall h o g, In g (apply_out h o) <->
  match o with
  | Keep => g = h
  | Drop => False
  | New k s => g = {| h_id := h_id h; h_key := k; h_score := s |}
  end.
Proof.
  intros h [| |k s] g; cbn; intuition congruence.
Qed.

(* ------------------------------------------------------------------ the code as found *)

Definition wit_hits : list hit :=
  [ {| h_id := 0; h_key := 10; h_score := 100 |}; {| h_id := 1; h_key := 11; h_score := 100 |};
    {| h_id := 2; h_key := 12; h_score := 100 |}; {| h_id := 3; h_key := 13; h_score := 100 |} ].
Definition wit_outs : list outcome := [Drop; New 20 90].

Theorem unfixed_refuted :
  rescore_hits false 2 wit_hits wit_outs
    = [ {| h_id := 2; h_key := 12; h_score := 100 |}; {| h_id := 1; h_key := 20; h_score := 90 |};
        {| h_id := 3; h_key := 13; h_score := 100 |} ]
  /\ ~ (exists head, rescore_hits false 2 wit_hits wit_outs = head ++ skipn 2 wit_hits).
Proof.
  split; [vm_compute; reflexivity|]. intros [head H].
  assert (E : rescore_hits false 2 wit_hits wit_outs =
              [ {| h_id := 2; h_key := 12; h_score := 100 |}; {| h_id := 1; h_key := 20; h_score := 90 |};
                {| h_id := 3; h_key := 13; h_score := 100 |} ]) by (vm_compute; reflexivity).
  rewrite E in H. cbn [skipn wit_hits] in H.
  assert (L : length head = 1%nat).
  { apply (f_equal (@length hit)) in H. rewrite app_length in H. cbn [length] in H. lia. }
  destruct head as [|x [|y t]]; cbn in L; try discriminate L.
  cbn in H. inversion H.
Qed.

(* ------------------------------------------------------------------ model meets spec *)

Lemma hit_eqb_refl : forall h, hit_eqb h h = true.
Proof. intros. unfold hit_eqb. now rewrite !N.eqb_refl. Qed.

Lemma list_eqb_refl : forall l : list hit, list_eqb hit_eqb l l = true.
Proof. induction l as [|a l IH]; cbn [list_eqb]; [reflexivity|]. now rewrite hit_eqb_refl. Qed.

Lemma mem_hit_in : forall h l, In h l -> mem_hit h l = true.
Proof.
  intros h l H. unfold mem_hit. apply existsb_exists. exists h. split; [exact H|apply hit_eqb_refl].
Qed.

Lemma in_firstn {A} : forall k (s : list A) x, In x (firstn k s) -> In x s.
Proof. intros k s x H. rewrite <- (firstn_skipn k s). apply in_or_app. now left. Qed.

Lemma ksorted_firstn : forall k s, ksorted s -> ksorted (firstn k s).
Proof.
  intros k s H. rewrite <- (firstn_skipn k s) in H. now apply ksorted_app in H.
Qed.

Definition with_observed (c : case) (o : list hit) : case :=
  {| ranked := ranked c; outs := outs c; limit := limit c; window_size := window_size c; observed := o |}.

Theorem model_meets_spec : forall c,
  spec (with_observed c (respond true (N.to_nat (limit c)) (N.to_nat (window_size c)) (ranked c) (outs c))) = true.
Proof.
  intros c. unfold spec, respond.
  cbn [with_observed ranked outs limit window_size observed].
  rewrite rescore_fixed.
  set (w := N.to_nat (window_size c)). set (lim := N.to_nat (limit c)).
  set (K := apply_all (firstn w (ranked c)) (outs c)). set (T := skipn w (ranked c)).
  set (A := hsort K).
  assert (HlA : length A = length K) by apply hsort_length.
  set (nh := Nat.min lim (length K)).
  assert (Hhead : firstn nh (firstn lim (A ++ T)) = firstn nh A).
  { rewrite firstn_firstn. replace (Init.Nat.min nh lim) with nh by (unfold nh; lia).
    rewrite firstn_app. replace (nh - length A)%nat with 0%nat by (unfold nh; lia).
    cbn [firstn]. apply app_nil_r. }
  assert (Htail : exists m, skipn nh (firstn lim (A ++ T)) = firstn m T).
  { destruct (Nat.le_gt_cases lim (length K)) as [Hle|Hgt].
    - exists 0%nat. cbn [firstn]. apply skipn_all2.
      rewrite firstn_length. unfold nh. lia.
    - exists (lim - length A)%nat. rewrite firstn_app.
      rewrite (firstn_all2 (n:=lim) A) by lia.
      replace nh with (length A) by (unfold nh; lia).
      rewrite skipn_app, skipn_all, Nat.sub_diag. reflexivity. }
  rewrite Hhead. destruct Htail as [m Htail]. rewrite Htail.
  repeat (apply andb_true_iff; split).
  - apply Nat.eqb_eq. rewrite firstn_length, app_length, HlA. reflexivity.
  - apply forallb_forall. intros h Hh. apply mem_hit_in.
    eapply Permutation_in; [apply Permutation_sym, hsort_perm|]. eapply in_firstn. exact Hh.
  - apply ksorted_nondecreasing, ksorted_firstn, hsort_ksorted.
  - apply forallb_forall. intros g Hg.
    assert (HgA : In g A) by (eapply Permutation_in; [apply hsort_perm|exact Hg]).
    rewrite <- (firstn_skipn nh A) in HgA. apply in_app_or in HgA as [Hin|Hin].
    + rewrite mem_hit_in by exact Hin. reflexivity.
    + apply orb_true_iff. right. apply forallb_forall. intros h Hh. apply N.leb_le.
      pose proof (hsort_ksorted K) as Hs. fold A in Hs. rewrite <- (firstn_skipn nh A) in Hs.
      apply ksorted_app in Hs as (_ & _ & Hab). now apply Hab.
  - rewrite firstn_length.
    assert (E : firstn (Init.Nat.min m (length T)) T = firstn m T).
    { apply firstn_min_len. }
    rewrite E. apply list_eqb_refl.
Qed.
