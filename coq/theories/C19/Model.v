(** C19 — rescoring: model of [IndexReader::rescore_hits] and of the truncation that follows it in
    [IndexReader::search] (searchlite-core/src/api/reader.rs).  Definitions only.

    A hit carries its interned document id, its sort key as an integer (the engine encodes
    [SortKey::cmp] order-preservingly: for the score plan (descending f32 total order, then the
    (segment, doc) rank), for plans without [_score] the rank in the initial ranking) and its f32
    score bits.  What the rescore query does to one window hit is an [outcome], recomputed
    independently by the engine:
      Keep      the rescore query does not match the hit: untouched (score and key);
      Drop      the rescore query rejects it ([evaluate_compiled_score] = None: min_score);
      New k s   combined score bits [s] (combine_rescore_scores) and the key rebuilt from it. *)
From Coq Require Import List NArith Bool Arith.
From SL Require Import Base.Tie.
Import ListNotations.
Open Scope N_scope.

Record hit := { h_id : N; h_key : N; h_score : N }.

Inductive outcome := Keep | Drop | New (k s : N).

Definition apply_out (h : hit) (o : outcome) : list hit :=
  match o with
  | Keep => [h]
  | Drop => []
  | New k s => [{| h_id := h_id h; h_key := k; h_score := s |}]
  end.

(** the loop over the window followed by [hits.remove(idx)] for every rejected index *)
Fixpoint apply_all (hs : list hit) (os : list outcome) : list hit :=
  match hs with
  | [] => []
  | h :: hs' =>
      match os with
      | [] => h :: apply_all hs' []
      | o :: os' => apply_out h o ++ apply_all hs' os'
      end
  end.

(** [sort_by(|a, b| a.key.cmp(&b.key))]: stable *)
Fixpoint hinsert (x : hit) (s : list hit) : list hit :=
  match s with
  | [] => [x]
  | y :: s' => if h_key x <=? h_key y then x :: s else y :: hinsert x s'
  end.
Definition hsort (l : list hit) : list hit := fold_right hinsert [] l.

(** rescore_hits.  [fixed = true] is the code after the repair (the re-sort covers exactly the
    hits of the original window that survived); [fixed = false] is the code as found:
    [sort_window = window_size.min(hits.len())] computed after the removals. *)
Definition rescore_hits (fixed : bool) (w : nat) (hits : list hit) (os : list outcome) : list hit :=
  let window := Nat.min w (length hits) in
  if Nat.eqb window 0 then hits
  else
    let win' := apply_all (firstn window hits) os in
    let all := win' ++ skipn window hits in
    let sw := if fixed then length win' else Nat.min w (length all) in
    hsort (firstn sw all) ++ skipn sw all.

(** search: rescore the ranked candidates, then keep [limit] hits *)
Definition respond (fixed : bool) (limit w : nat) (hits : list hit) (os : list outcome) : list hit :=
  firstn limit (rescore_hits fixed w hits os).

(* ------------------------------------------------------------------ the tie *)

Record case := {
  ranked : list hit;         (* the ranked candidates of the request without rescore (engine: from the
                                big request; first limit+1 globally on the sort path, first limit+1 of
                                every segment on the score fast path) *)
  outs : list outcome;       (* outcome of the rescore query for ranked[0..window) *)
  limit : N;
  window_size : N;
  observed : list hit        (* SearchResult.hits of the request with rescore: id, key of the
                                observed score (recomputed by the engine), score bits *)
}.

Definition hit_eqb (a b : hit) : bool :=
  (h_id a =? h_id b) && (h_key a =? h_key b) && (h_score a =? h_score b).

Fixpoint list_eqb {A B} (eqb : A -> B -> bool) (a : list A) (b : list B) : bool :=
  match a, b with
  | [], [] => true
  | x :: a', y :: b' => eqb x y && list_eqb eqb a' b'
  | _, _ => false
  end.

Fixpoint keys_nondecreasing (l : list hit) : bool :=
  match l with
  | a :: ((b :: _) as t) => (h_key a <=? h_key b) && keys_nondecreasing t
  | _ => true
  end.

Definition mem_hit (h : hit) (l : list hit) : bool := existsb (hit_eqb h) l.

(** Executable specification, from the property text.  Let W = the first window_size ranked hits,
    T = the rest, K = W after the rescore query (rejected hits dropped, matching hits with their
    combined score, others untouched).  The response shows [limit] hits:
      - its first min(limit, |K|) hits are hits of K (documented combination, no dropped hit),
        ordered by the new score's key, and no hit of K left out ranks before a shown one;
      - the hits after them are exactly the first hits of T: original scores, original order. *)
Definition spec (c : case) : bool :=
  let w := N.to_nat (window_size c) in
  let lim := N.to_nat (limit c) in
  let K := apply_all (firstn w (ranked c)) (outs c) in
  let T := skipn w (ranked c) in
  let nh := Nat.min lim (length K) in
  let head := firstn nh (observed c) in
  let tail := skipn nh (observed c) in
  Nat.eqb (length (observed c)) (Nat.min lim (length K + length T))
  && forallb (fun h => mem_hit h K) head
  && keys_nondecreasing head
  && forallb (fun g => mem_hit g head || forallb (fun h => h_key h <=? h_key g) head) K
  && list_eqb hit_eqb tail (firstn (length tail) T).

Definition corr (c : case) : bool :=
  list_eqb hit_eqb
    (respond true (N.to_nat (limit c)) (N.to_nat (window_size c)) (ranked c) (outs c))
    (observed c).

(** harness input sanity: distinct ids; the initial ranking is ordered by its keys *)
Fixpoint ids_distinct (l : list hit) : bool :=
  match l with
  | [] => true
  | h :: t => negb (existsb (fun g => h_id g =? h_id h) t) && ids_distinct t
  end.

Definition wf (c : case) : bool :=
  ids_distinct (ranked c) && keys_nondecreasing (ranked c) && (0 <? limit c).

(** known class 1 (the code as found): a rejected window hit and a window smaller than the list *)
Definition check_case (c : case) : N :=
  if wf c then verdict (corr c) (spec c) 0 else 2.
