(** C27 — Browser persistence (searchlite-wasm/src/wasm.rs) as a single-threaded event-loop machine.

    Transcribed from wasm.rs:
      - [PendingWrites::schedule]      : [schedule]   (per-path entry: newest snapshot + waiters;
                                          one persistence task per path while an entry exists)
      - [persist_queue] / [persist_file]: [run_task]   (take the pending snapshot and its waiters,
                                          open ONE read-write transaction with ONE put, await it,
                                          then resolve the waiters and loop)
      - [PendingWrites::flush]          : the awaited receiver list of init / commit ([awaiting])
      - [Searchlite::create] on an empty store, [add_document], [commit] : [EInit], [EAdd], [ECommit]
        issue the storage calls of the core (api/writer.rs commit: segment files, then
        [Manifest::store] = [atomic_write] = [write_all] here, then two WAL writes), all inside one
        synchronous burst (the core never awaits).
      - [JsStorage::new] + [load_snapshot] + [Index::open_with_storage] + search : [reload].

    The browser is the scheduler: it chooses which runnable task is polled ([ERun]), which
    transaction's request succeeds ([EReq]) and which finished transaction becomes durable
    ([EDone]).  [conf_ev] singles out the schedules a conformant platform can produce: the
    wasm-bindgen-futures run queue is FIFO, and IndexedDB runs read-write transactions on one
    object store strictly in creation order.

    [fixed] = the persistence task is woken when its TRANSACTION completes (repaired code);
    [fixed = false] = it is woken when the put REQUEST succeeds (the code as found), which lets a
    commit promise resolve while its last transaction is not yet durable.

    Not modelled (not reachable through the exported Searchlite API): [remove]/[schedule_delete]
    (only compaction and the failed-commit path of the core call it), storage mode "memory",
    a second session continuing from a reloaded store, commits started before the previous
    init/commit promise resolved (the JS caller awaits). *)
From Coq Require Import List NArith Bool.
From SL Require Import Base.Tie.
Import ListNotations.
Open Scope N_scope.

Inductive path := PWal | PMan | PSeg (s k : N).
Inductive content := CWal | CMan (m : list N) | CSeg.

Definition path_eqb (a b : path) : bool :=
  match a, b with
  | PWal, PWal => true
  | PMan, PMan => true
  | PSeg s k, PSeg s' k' => (s =? s') && (k =? k')
  | _, _ => false
  end.

(** the files of one segment (docstore, postings, terms, fast fields, meta) *)
Definition kinds : list N := [0; 1; 2; 3; 4].
Definition seg_files (sg : N) : list path := map (PSeg sg) kinds.

Inductive tstate := TFresh | TAwait (ws : list N) | TWoken (ws : list N).
Record qent := { q_pend : option content; q_wait : list N; q_task : tstate }.
Record txn := { x_path : path; x_data : content; x_done : bool }.
Inductive akind := AInit | ACommit (m : list N).

Record st := {
  queue : list (path * qent);       (* PendingWrites.queue; an entry exists iff inflight      *)
  runq : list path;                 (* runnable persistence tasks, FIFO                         *)
  txs : list txn;                   (* open read-write transactions, creation order             *)
  idb : list (path * content);      (* the durable object store                                 *)
  nrid : N;                         (* next oneshot channel id                                  *)
  resolved : list N;                (* receivers that got Ok(())                                *)
  pend : list N;                    (* PendingWrites.pending                                    *)
  loaded : bool;                    (* init's synchronous part ran                              *)
  ready : bool;                     (* init's promise resolved                                  *)
  man : list N;                     (* in-memory manifest: segment ids                          *)
  nseg : N;
  segdocs : list (N * list N);      (* documents of each segment                                *)
  cur : list N;                     (* documents in the WAL not yet committed                   *)
  started : list (list N);          (* manifests of the commits that have started               *)
  resolvedc : list (list N);        (* manifests of the commits whose promise resolved          *)
  awaiting : option (list N * akind)
}.

Definition st0 : st :=
  {| queue := []; runq := []; txs := []; idb := []; nrid := 0; resolved := []; pend := [];
     loaded := false; ready := false; man := []; nseg := 0; segdocs := []; cur := [];
     started := []; resolvedc := []; awaiting := None |}.

Fixpoint qlookup (p : path) (q : list (path * qent)) : option qent :=
  match q with
  | [] => None
  | (p', e) :: q' => if path_eqb p p' then Some e else qlookup p q'
  end.

Fixpoint qset (p : path) (e : qent) (q : list (path * qent)) : list (path * qent) :=
  match q with
  | [] => [(p, e)]
  | (p', e') :: q' => if path_eqb p p' then (p, e) :: q' else (p', e') :: qset p e q'
  end.

Fixpoint qdel (p : path) (q : list (path * qent)) : list (path * qent) :=
  match q with
  | [] => []
  | (p', e') :: q' => if path_eqb p p' then q' else (p', e') :: qdel p q'
  end.

Fixpoint ilookup (p : path) (d : list (path * content)) : option content :=
  match d with
  | [] => None
  | (p', c) :: d' => if path_eqb p p' then Some c else ilookup p d'
  end.

Fixpoint iput (p : path) (c : content) (d : list (path * content)) : list (path * content) :=
  match d with
  | [] => [(p, c)]
  | (p', c') :: d' => if path_eqb p p' then (p, c) :: d' else (p', c') :: iput p c d'
  end.

Definition upd_q (s : st) (q : list (path * qent)) : st :=
  {| queue := q; runq := runq s; txs := txs s; idb := idb s; nrid := nrid s; resolved := resolved s;
     pend := pend s; loaded := loaded s; ready := ready s; man := man s; nseg := nseg s;
     segdocs := segdocs s; cur := cur s; started := started s; resolvedc := resolvedc s;
     awaiting := awaiting s |}.

(** [PendingWrites::schedule(path, data)] *)
Definition schedule (p : path) (c : content) (s : st) : st :=
  let r := nrid s in
  match qlookup p (queue s) with
  | Some e =>
      {| queue := qset p {| q_pend := Some c; q_wait := q_wait e ++ [r]; q_task := q_task e |} (queue s);
         runq := runq s; txs := txs s; idb := idb s; nrid := r + 1; resolved := resolved s;
         pend := pend s ++ [r]; loaded := loaded s; ready := ready s; man := man s; nseg := nseg s;
         segdocs := segdocs s; cur := cur s; started := started s; resolvedc := resolvedc s;
         awaiting := awaiting s |}
  | None =>
      {| queue := queue s ++ [(p, {| q_pend := Some c; q_wait := [r]; q_task := TFresh |})];
         runq := runq s ++ [p]; txs := txs s; idb := idb s; nrid := r + 1; resolved := resolved s;
         pend := pend s ++ [r]; loaded := loaded s; ready := ready s; man := man s; nseg := nseg s;
         segdocs := segdocs s; cur := cur s; started := started s; resolvedc := resolvedc s;
         awaiting := awaiting s |}
  end.

Fixpoint schedule_all (l : list (path * content)) (s : st) : st :=
  match l with
  | [] => s
  | (p, c) :: l' => schedule_all l' (schedule p c s)
  end.

Inductive ev :=
| EInit            (* Searchlite::init on the empty store, up to its first pending await        *)
| EAdd (d : N)     (* add_document                                                              *)
| ECommit          (* commit, up to its first pending await                                     *)
| EApiPoll         (* the init / commit future is polled                                        *)
| ERun (p : path)  (* the persistence task of path p is polled                                  *)
| EReq (i : nat)   (* the put request of the i-th open transaction succeeds                     *)
| EDone (i : nat). (* the i-th open transaction completes: its put is durable                   *)

Fixpoint remove_path (p : path) (l : list path) : option (list path) :=
  match l with
  | [] => None
  | q :: l' => if path_eqb p q then Some l'
               else match remove_path p l' with Some r => Some (q :: r) | None => None end
  end.

Fixpoint remove_nth {A : Type} (i : nat) (l : list A) : list A :=
  match i, l with
  | _, [] => []
  | O, _ :: l' => l'
  | S i', x :: l' => x :: remove_nth i' l'
  end.

Fixpoint set_nth {A : Type} (i : nat) (y : A) (l : list A) : list A :=
  match i, l with
  | _, [] => []
  | O, _ :: l' => y :: l'
  | S i', x :: l' => x :: set_nth i' y l'
  end.

(** the task of [p] leaves its await: request / transaction finished *)
Definition wake (p : path) (s : st) : st :=
  match qlookup p (queue s) with
  | Some e =>
      match q_task e with
      | TAwait ws =>
          {| queue := qset p {| q_pend := q_pend e; q_wait := q_wait e; q_task := TWoken ws |} (queue s);
             runq := runq s ++ [p]; txs := txs s; idb := idb s; nrid := nrid s; resolved := resolved s;
             pend := pend s; loaded := loaded s; ready := ready s; man := man s; nseg := nseg s;
             segdocs := segdocs s; cur := cur s; started := started s; resolvedc := resolvedc s;
             awaiting := awaiting s |}
      | _ => s
      end
  | None => s
  end.

(** the body of the persist_queue loop from its top: take the snapshot or finish *)
Definition loop_top (p : path) (e : qent) (rq : list path) (res : list N) (s : st) : st :=
  match q_pend e with
  | Some c =>
      {| queue := qset p {| q_pend := None; q_wait := []; q_task := TAwait (q_wait e) |} (queue s);
         runq := rq; txs := txs s ++ [{| x_path := p; x_data := c; x_done := false |}];
         idb := idb s; nrid := nrid s; resolved := res;
         pend := pend s; loaded := loaded s; ready := ready s; man := man s; nseg := nseg s;
         segdocs := segdocs s; cur := cur s; started := started s; resolvedc := resolvedc s;
         awaiting := awaiting s |}
  | None =>
      {| queue := qdel p (queue s);
         runq := rq; txs := txs s; idb := idb s; nrid := nrid s; resolved := res;
         pend := pend s; loaded := loaded s; ready := ready s; man := man s; nseg := nseg s;
         segdocs := segdocs s; cur := cur s; started := started s; resolvedc := resolvedc s;
         awaiting := awaiting s |}
  end.

Definition all_in (l res : list N) : bool := forallb (fun r => existsb (N.eqb r) res) l.

Definition step (fixed : bool) (s : st) (e : ev) : option st :=
  match e with
  | EInit =>
      if loaded s then None else
      let s1 := schedule PMan (CMan []) s in
      Some {| queue := queue s1; runq := runq s1; txs := txs s1; idb := idb s1; nrid := nrid s1;
              resolved := resolved s1; pend := []; loaded := true; ready := false; man := [];
              nseg := nseg s1; segdocs := segdocs s1; cur := cur s1; started := started s1;
              resolvedc := resolvedc s1; awaiting := Some (pend s1, AInit) |}
  | EAdd d =>
      if negb (ready s) then None else
      let s1 := schedule PWal CWal s in
      Some {| queue := queue s1; runq := runq s1; txs := txs s1; idb := idb s1; nrid := nrid s1;
              resolved := resolved s1; pend := pend s1; loaded := loaded s1; ready := ready s1;
              man := man s1; nseg := nseg s1; segdocs := segdocs s1; cur := cur s1 ++ [d];
              started := started s1; resolvedc := resolvedc s1; awaiting := awaiting s1 |}
  | ECommit =>
      if negb (ready s) then None else
      match awaiting s with
      | Some _ => None
      | None =>
          match cur s with
          | [] =>
              Some {| queue := queue s; runq := runq s; txs := txs s; idb := idb s; nrid := nrid s;
                      resolved := resolved s; pend := []; loaded := loaded s; ready := ready s;
                      man := man s; nseg := nseg s; segdocs := segdocs s; cur := [];
                      started := started s ++ [man s]; resolvedc := resolvedc s;
                      awaiting := Some (pend s, ACommit (man s)) |}
          | _ :: _ =>
              let sg := nseg s in
              let m' := man s ++ [sg] in
              let s1 := schedule_all
                          (map (fun p => (p, CSeg)) (seg_files sg) ++
                           [(PMan, CMan m'); (PWal, CWal); (PWal, CWal)]) s in
              Some {| queue := queue s1; runq := runq s1; txs := txs s1; idb := idb s1; nrid := nrid s1;
                      resolved := resolved s1; pend := []; loaded := loaded s1; ready := ready s1;
                      man := m'; nseg := sg + 1; segdocs := segdocs s1 ++ [(sg, cur s)]; cur := [];
                      started := started s1 ++ [m']; resolvedc := resolvedc s1;
                      awaiting := Some (pend s1, ACommit m') |}
          end
      end
  | EApiPoll =>
      match awaiting s with
      | None => Some s
      | Some (rids, k) =>
          if all_in rids (resolved s) then
            Some {| queue := queue s; runq := runq s; txs := txs s; idb := idb s; nrid := nrid s;
                    resolved := resolved s; pend := pend s; loaded := loaded s;
                    ready := true; man := man s; nseg := nseg s; segdocs := segdocs s; cur := cur s;
                    started := started s;
                    resolvedc := match k with AInit => resolvedc s | ACommit m => resolvedc s ++ [m] end;
                    awaiting := None |}
          else Some s
      end
  | ERun p =>
      match remove_path p (runq s) with
      | None => None
      | Some rq =>
          match qlookup p (queue s) with
          | None => None
          | Some e =>
              match q_task e with
              | TFresh => match q_pend e with Some _ => Some (loop_top p e rq (resolved s) s) | None => None end
              | TWoken ws => Some (loop_top p e rq (resolved s ++ ws) s)
              | TAwait _ => None
              end
          end
      end
  | EReq i =>
      match nth_error (txs s) i with
      | None => None
      | Some x =>
          if x_done x then None else
          let s1 := {| queue := queue s; runq := runq s;
                       txs := set_nth i {| x_path := x_path x; x_data := x_data x; x_done := true |} (txs s);
                       idb := idb s; nrid := nrid s; resolved := resolved s; pend := pend s;
                       loaded := loaded s; ready := ready s; man := man s; nseg := nseg s;
                       segdocs := segdocs s; cur := cur s; started := started s;
                       resolvedc := resolvedc s; awaiting := awaiting s |} in
          Some (if fixed then s1 else wake (x_path x) s1)
      end
  | EDone i =>
      match nth_error (txs s) i with
      | None => None
      | Some x =>
          if negb (x_done x) then None else
          let s1 := {| queue := queue s; runq := runq s; txs := remove_nth i (txs s);
                       idb := iput (x_path x) (x_data x) (idb s); nrid := nrid s;
                       resolved := resolved s; pend := pend s;
                       loaded := loaded s; ready := ready s; man := man s; nseg := nseg s;
                       segdocs := segdocs s; cur := cur s; started := started s;
                       resolvedc := resolvedc s; awaiting := awaiting s |} in
          Some (if fixed then wake (x_path x) s1 else s1)
      end
  end.

Fixpoint run (fixed : bool) (s : st) (evs : list ev) : option st :=
  match evs with
  | [] => Some s
  | e :: evs' => match step fixed s e with Some s' => run fixed s' evs' | None => None end
  end.

(** * What a conformant platform may do.
    ERun: wasm-bindgen-futures polls its queue in FIFO order.
    EReq / EDone: read-write transactions over one object store run one at a time in creation
    order, so only the oldest open transaction can make progress. *)
Definition conf_ev (s : st) (e : ev) : bool :=
  match e with
  | ERun p => match runq s with q :: _ => path_eqb p q | [] => false end
  | EReq i => Nat.eqb i 0
  | EDone i => Nat.eqb i 0
  | _ => true
  end.

Fixpoint conf_run (fixed : bool) (s : st) (evs : list ev) : bool :=
  match evs with
  | [] => true
  | e :: evs' =>
      conf_ev s e && match step fixed s e with Some s' => conf_run fixed s' evs' | None => false end
  end.

(** a transaction whose request succeeded but which is not durable yet *)
Definition gap (s : st) : bool := existsb x_done (txs s).

(** * Closing the page and reopening: only [idb] survives.
    [reload] = the manifest the reopened index serves, [None] when the index does not open or
    cannot be searched (a referenced segment file is missing). No manifest: init creates a
    new empty index. *)
Definition has_path (d : list (path * content)) (p : path) : bool :=
  match ilookup p d with Some _ => true | None => false end.

Definition seg_present (d : list (path * content)) (sg : N) : bool :=
  forallb (has_path d) (seg_files sg).

Definition reload (d : list (path * content)) : option (list N) :=
  match ilookup PMan d with
  | None => Some []
  | Some (CMan m) => if forallb (seg_present d) m then Some m else None
  | Some _ => None
  end.

Fixpoint alookup (k : N) (l : list (N * list N)) : option (list N) :=
  match l with
  | [] => None
  | (k', v) :: l' => if k =? k' then Some v else alookup k l'
  end.

Definition contents (sd : list (N * list N)) (m : list N) : list N :=
  flat_map (fun sg => match alookup sg sd with Some l => l | None => [] end) m.

(** * The property, written from its text over what the page did and what the reopened page
    shows (no model state): [started] / [resolved] are the document sets of the commits that had
    started / whose promise had resolved when the page was closed, [obs] the documents the
    reopened index serves ([None]: it does not open or cannot be searched). *)
Fixpoint nlist_eqb (a b : list N) : bool :=
  match a, b with
  | [], [] => true
  | x :: a', y :: b' => (x =? y) && nlist_eqb a' b'
  | _, _ => false
  end.

Definition memN (x : N) (l : list N) : bool := existsb (N.eqb x) l.
Definition subsetN (a b : list N) : bool := forallb (fun x => memN x b) a.

Definition spec (started resolved : list (list N)) (obs : option (list N)) : bool :=
  match obs with
  | None => false
  | Some c =>
      existsb (nlist_eqb c) ([] :: started)         (* empty index before the first commit *)
      && forallb (fun r => subsetN r c) resolved
  end.

(** * Tie layer *)
(** the tree under verification carries the repair (persist_file awaits the transaction's
    [complete] event): the engine's schedules are replayed in the [fixed] machine *)
Definition impl_fixed : bool := true.

Record cut := {
  u_at : nat;                     (* events executed when the page was closed          *)
  u_started : list (list N);
  u_resolved : list (list N);
  u_keys : list path;             (* keys of the durable store                         *)
  u_man : option (list N);        (* segment ids of the durable manifest               *)
  u_obs : option (list N)         (* documents served after init on the snapshot       *)
}.

Record case27 := { c_evs : list ev; c_cuts : list cut }.

Definition opt_eqb (a b : option (list N)) : bool :=
  match a, b with
  | None, None => true
  | Some x, Some y => nlist_eqb x y
  | _, _ => false
  end.

Fixpoint lists_eqb (a b : list (list N)) : bool :=
  match a, b with
  | [], [] => true
  | x :: a', y :: b' => nlist_eqb x y && lists_eqb a' b'
  | _, _ => false
  end.

Definition keys_eqb (d : list (path * content)) (ks : list path) : bool :=
  forallb (has_path d) ks && forallb (fun pc => existsb (path_eqb (fst pc)) ks) d.

Definition model_obs (s : st) : option (list N) :=
  match reload (idb s) with Some m => Some (contents (segdocs s) m) | None => None end.

Definition cut_code (evs : list ev) (u : cut) : N :=
  let pre := firstn (u_at u) evs in
  let sp := spec (u_started u) (u_resolved u) (u_obs u) in
  match run impl_fixed st0 pre with
  | None => verdict false sp 0
  | Some s =>
      let corr :=
        lists_eqb (map (contents (segdocs s)) (started s)) (u_started u)
        && lists_eqb (map (contents (segdocs s)) (resolvedc s)) (u_resolved u)
        && keys_eqb (idb s) (u_keys u)
        && opt_eqb (match ilookup PMan (idb s) with Some (CMan m) => Some m | _ => None end) (u_man u)
        && opt_eqb (model_obs s) (u_obs u) in
      let known := if negb (conf_run impl_fixed st0 pre) then 1
                   else if negb impl_fixed && gap s then 2 else 0 in
      verdict corr sp known
  end.

(** worst code over the cuts of one schedule: 2 > 100+k > 1 > 0 *)
Definition rank (c : N) : N := if c =? 0 then 0 else if c =? 1 then 1 else if c =? 2 then 1000 else c.
Definition worse (a b : N) : N := if rank a <? rank b then b else a.

Definition check_case (c : case27) : N :=
  fold_left (fun acc u => worse acc (cut_code (c_evs c) u)) (c_cuts c) 0.
