(** C27 — proofs about the browser-persistence event-loop machine of C27/Model.v. *)
From Coq Require Import List NArith Bool Lia Arith.
From SL Require Import C27.Model.
Import ListNotations.
Open Scope N_scope.

(** * Concrete schedules *)

(** init, fully persisted (the same list is conformant for both values of [fixed]) *)
Definition sched_init : list ev := [EInit; ERun PMan; EReq 0%nat; EDone 0%nat; ERun PMan; EApiPoll].

Definition sched_finish (p : path) : list ev := [EReq 0%nat; EDone 0%nat; ERun p].

Definition commit_paths (sg : N) : list path := PWal :: seg_files sg ++ [PMan].

(** one add + commit of segment [sg], every task polled in FIFO order, every transaction
    completed in creation order, then the commit promise polled *)
Definition sched_commit (sg d : N) : list ev :=
  [EAdd d; ECommit] ++ map ERun (commit_paths sg) ++ flat_map sched_finish (commit_paths sg) ++ [EApiPoll].

Definition sched_one : list ev := sched_init ++ sched_commit 0 0.
Definition sched_two : list ev := sched_init ++ sched_commit 0 0 ++ sched_commit 1 1.

(** the manifest task polled before the segment-file tasks (not FIFO) *)
Definition sched_any_order : list ev :=
  sched_init ++ [EAdd 0; ECommit; ERun PMan; EReq 0%nat; EDone 0%nat].

(** conformant, unrepaired code: the commit promise resolves while the manifest transaction is
    finished but not durable *)
Definition sched_early : list ev :=
  sched_init ++ [EAdd 0; ECommit] ++ map ERun (commit_paths 0) ++
  flat_map sched_finish (PWal :: seg_files 0) ++ [EReq 0%nat; ERun PMan; EApiPoll].

Lemma any_order_refuted : forall fixed, exists evs s,
  run fixed st0 evs = Some s /\ reload (idb s) = None.
Proof.
  intros fixed. exists sched_any_order.
  destruct fixed.
  - destruct (run true st0 sched_any_order) as [s|] eqn:Hrun.
    + exists s. split; [reflexivity|].
      revert Hrun. vm_compute. intros Hrun. injection Hrun as <-. reflexivity.
    + revert Hrun. vm_compute. discriminate.
  - destruct (run false st0 sched_any_order) as [s|] eqn:Hrun.
    + exists s. split; [reflexivity|].
      revert Hrun. vm_compute. intros Hrun. injection Hrun as <-. reflexivity.
    + revert Hrun. vm_compute. discriminate.
Qed.

Lemma resolved_before_durable_refuted : exists evs s m r,
  run false st0 evs = Some s /\ conf_run false st0 evs = true /\
  In r (resolvedc s) /\ reload (idb s) = Some m /\ ~ incl r m.
Proof.
  exists sched_early.
  destruct (run false st0 sched_early) as [s|] eqn:Hrun.
  - exists s, [], [0]. split; [reflexivity|].
    revert Hrun. vm_compute. intros Hrun. injection Hrun as <-.
    split; [reflexivity|]. split; [left; reflexivity|]. split; [reflexivity|].
    intros Hincl. apply (Hincl 0). left; reflexivity.
  - revert Hrun. vm_compute. discriminate.
Qed.
